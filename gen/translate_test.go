package main

import (
	"strings"
	"testing"
)

// The translator is part of the trusted base: these tests pin what it emits for every construct of the subset
// (testdata/repo/pos) and that it refuses, loudly, what it cannot translate faithfully (testdata/repo/neg).
func withWhitelist(t *testing.T, gs []string, wl []fnSpec, f func(out map[string]string, errs []error)) {
	oldG, oldW := groups, whitelist
	groups, whitelist = gs, wl
	defer func() { groups, whitelist = oldG, oldW }()
	out, errs := genFuncs(newLoader("testdata/repo"))
	f(out, errs)
}

func init() { accessors["pos.Big.Count"] = true }

func TestSubset(t *testing.T) {
	wl := []fnSpec{
		{dir: "pos", file: "pos.go", name: "Tagged", lean: "tagged"},
		{dir: "pos", file: "pos.go", name: "Wrap", lean: "wrap"},
		{dir: "pos", file: "pos.go", name: "Two", lean: "two"},
		{dir: "pos", file: "pos.go", name: "Swap", lean: "swap"},
		{dir: "pos", file: "pos.go", name: "While", lean: "while", fuel: []string{"32"}},
		{dir: "pos", file: "pos.go", name: "Forever", lean: "forever", fuel: []string{"33"}},
		{dir: "pos", file: "pos.go", name: "Must", lean: "must"},
		{dir: "pos", file: "pos.go", name: "View", lean: "view", views: map[string]string{"b": "Count n pt.X pt.Y"}},
		{dir: "pos", file: "pos.go", name: "Table", lean: "table", table: true},
		{dir: "pos", file: "pos.go", name: "Local", lean: "local"},
	}
	withWhitelist(t, []string{""}, wl, func(out map[string]string, errs []error) {
		for _, e := range errs {
			t.Errorf("unexpected failure: %v", e)
		}
		src := out["Funcs.lean"]
		for _, want := range []string{
			"structure Pt where\n  X : Int\n  Y : Int\n  K : BitVec 8",
			"def tagged (k : BitVec 8) : Int :=\n  if (k == 1#8) || (k == 2#8) then",
			"def wrap (a : Int) (b : Int) : Int :=\n  (wrap8 ((wrap8 (a + b)) - (1 : Int)))",
			"def two (p : Pt) : Int × Int :=\n  (p.Y, p.X)",
			"let (x, y) := (two p)\n  (x, y)",
			"def while_loop0 : Nat → (Int × BitVec 32) → (Int × BitVec 32)",
			"def while_loop0_more (st : (Int × BitVec 32)) : Bool :=",
			"let (n, s) := while_loop0 (32) (n, s)",
			"def forever_loop0 : Nat → BitVec 32 → Option (BitVec 32)\n  | 0, _ => none",
			"def forever (s : BitVec 32) : Option (BitVec 32) :=\n  forever_loop0 (33) s",
			"def must (k : BitVec 8) : Option (BitVec 8) :=\n  if (k == 1#8) then\n    some (2#8)\n  else\n    none",
			"def view (b_Count : Int) (b_n : Int) (b_pt_X : Int) (b_pt_Y : Int) (d : Int) : Bool :=\n  let v : Int := b_Count", // pt.Y is declared but not read: still a parameter
			"def table_neg (n : Int) (i : Int) : Int :=\n  (wrap8 (-i))",
			"def table_shift (n : Int) (i : Int) : Int :=\n  (wrap8 ((table_neg n i) + (wrap8 n)))",
			"def local_abs (b : Int) (v : Int) : Int :=\n  if (decide (v < (0 : Int))) then\n    (wrap8 (-v))\n  else\n    (wrap8 ((wrap8 (v + b)) - b))",
			"def local (a : Int) (b : Int) : Int :=\n  (wrap8 ((local_abs b a) + (local_abs b b)))",
			"def table (n : Int) (k : Fin 2) (i : Int) : Int :=\n  match k with\n  | 0 => table_neg n i\n  | 1 => table_shift n i",
		} {
			if !strings.Contains(src, want) {
				t.Errorf("generated source lacks:\n%s", want)
			}
		}
		if t.Failed() {
			t.Logf("generated:\n%s", src)
		}
	})
}

func TestRejected(t *testing.T) {
	cases := []struct{ name, msg string }{
		{"Shadow", "two variables named a"},
		{"DivVar", "division by something that is not a non-zero constant"},
		{"ShiftSigned", "conversion Int -> Nat"},
		{"Closure", "captured by a closure and reassigned"},
		{"Break", "branch statement in switch"},
		{"CallsPanicky", "may panic"},
		{"Slice", "parameter type []int"},
		{"NoFuel", "no fuel given"},
		{"Undeclared", "not among the views declared"},
	}
	for _, c := range cases {
		wl := []fnSpec{{dir: "neg", file: "neg.go", name: "mayPanic", lean: "mayPanic"}, {dir: "neg", file: "neg.go", name: c.name, lean: "f", views: map[string]string{"b": "n"}}}
		withWhitelist(t, []string{""}, wl, func(out map[string]string, errs []error) {
			if len(errs) != 1 || !strings.Contains(errs[0].Error(), c.msg) {
				t.Errorf("%s: expected one failure mentioning %q, got %v", c.name, c.msg, errs)
			}
			if _, written := out["Funcs.lean"]; written {
				t.Errorf("%s: a group with a failed function must not be written", c.name)
			}
		})
	}
}
