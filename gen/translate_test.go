package main

import (
	"os"
	"strings"
	"testing"
)

// The translator is part of the trusted base: these tests pin what it emits for every construct of the subset
// (testdata/repo/pos) and that it refuses, loudly, what it cannot translate faithfully (testdata/repo/neg).
func withWhitelist(t *testing.T, gs []string, wl []fnSpec, f func(out map[string]string, errs []error)) {
	oldG, oldW := groups, whitelist
	groups, whitelist = gs, wl
	defer func() { groups, whitelist = oldG, oldW }()
	out, errs := genFuncs(newLoader("testdata/repo"))
	f(out, errs)
}

func init() {
	accessors["pos.Big.Count"] = true
	pathAccessors["pos4.Big.Inner"] = struct{ path, body string }{"inner", "&b.inner"}
	pathAccessors["neg.Deep.Moved"] = struct{ path, body string }{"inner", "&d.inner"}
}

func TestSubset(t *testing.T) {
	wl := []fnSpec{
		{dir: "pos", file: "pos.go", name: "Tagged", lean: "tagged"},
		{dir: "pos", file: "pos.go", name: "Wrap", lean: "wrap"},
		{dir: "pos", file: "pos.go", name: "Two", lean: "two"},
		{dir: "pos", file: "pos.go", name: "Swap", lean: "swap"},
		{dir: "pos", file: "pos.go", name: "While", lean: "while", fuel: []string{"32"}},
		{dir: "pos", file: "pos.go", name: "Forever", lean: "forever", fuel: []string{"33"}},
		{dir: "pos", file: "pos.go", name: "Must", lean: "must"},
		{dir: "pos", file: "pos.go", name: "View", lean: "view", views: map[string]string{"b": "Count n pt.X pt.Y"}},
		{dir: "pos", file: "pos.go", name: "Table", lean: "table", table: true},
		{dir: "pos", file: "pos.go", name: "Local", lean: "local"},
	}
	withWhitelist(t, []string{""}, wl, func(out map[string]string, errs []error) {
		for _, e := range errs {
			t.Errorf("unexpected failure: %v", e)
		}
		src := out["Funcs.lean"]
		for _, want := range []string{
			"structure Pt where\n  X : Int\n  Y : Int\n  K : BitVec 8",
			"def tagged (k : BitVec 8) : Int :=\n  if (k == 1#8) || (k == 2#8) then",
			"def wrap (a : Int) (b : Int) : Int :=\n  (wrap8 ((wrap8 (a + b)) - (1 : Int)))",
			"def two (p : Pt) : Int × Int :=\n  (p.Y, p.X)",
			"let (x, y) := (two p)\n  (x, y)",
			"def while_loop0 : Nat → (Int × BitVec 32) → (Int × BitVec 32)",
			"def while_loop0_more (st : (Int × BitVec 32)) : Bool :=",
			"let (n, s) := while_loop0 (32) (n, s)",
			"def forever_loop0 : Nat → BitVec 32 → Option (BitVec 32)\n  | 0, _ => none",
			"def forever (s : BitVec 32) : Option (BitVec 32) :=\n  forever_loop0 (33) s",
			"def must (k : BitVec 8) : Option (BitVec 8) :=\n  if (k == 1#8) then\n    some (2#8)\n  else\n    none",
			"def view (b_Count : Int) (b_n : Int) (b_pt_X : Int) (b_pt_Y : Int) (d : Int) : Bool :=\n  let v : Int := b_Count", // pt.Y is declared but not read: still a parameter
			"def table_neg (n : Int) (i : Int) : Int :=\n  (wrap8 (-i))",
			"def table_shift (n : Int) (i : Int) : Int :=\n  (wrap8 ((table_neg n i) + (wrap8 n)))",
			"def local_abs (b : Int) (v : Int) : Int :=\n  if (decide (v < (0 : Int))) then\n    (wrap8 (-v))\n  else\n    (wrap8 ((wrap8 (v + b)) - b))",
			"def local (a : Int) (b : Int) : Int :=\n  (wrap8 ((local_abs b a) + (local_abs b b)))",
			"def table (n : Int) (k : Fin 2) (i : Int) : Int :=\n  match k with\n  | 0 => table_neg n i\n  | 1 => table_shift n i",
		} {
			if !strings.Contains(src, want) {
				t.Errorf("generated source lacks:\n%s", want)
			}
		}
		if t.Failed() {
			t.Logf("generated:\n%s", src)
		}
	})
}

func TestRejected(t *testing.T) {
	cases := []struct{ name, msg string }{
		{"DivVar", "division by something that is not a non-zero constant"},
		{"Closure", "captured by a closure and reassigned"},
		{"Break", "branch statement in switch"},
		{"AssignAbs", "assignment target"},
		{"RangeAssign", "the slice ranged over is assigned"},
		{"UndeclaredGlobal", "not among the globals declared"},
		{"BreakInSwitch", "break inside a switch"},
		{"CondPanic", "under the right operand of && / ||"},
		{"LeLoopBreak", "`<=` loop over a fixed-width variable with break / return"},
		{"Labelled", "statement *ast.LabeledStmt"},
		{"SliceHigh", "slice expression (only s[a:])"},
		{"WhileNoFuel", "no fuel given"},
		{"ElemGlobal", "not among the globals declared"},
		{"AliasAppend", "append outside `x = append(x, ...)`"},
		{"AliasCopy", "is assigned from a value that may share its backing array"},
		{"AliasParams", "could share its backing array with another slice parameter"},
		{"NoFuel", "no fuel given"},
		{"Undeclared", "not among the views declared"},
	}
	for _, c := range cases {
		wl := []fnSpec{{dir: "neg", file: "neg.go", name: "mayPanic", lean: "mayPanic"}, {dir: "neg", file: "neg.go", name: c.name, lean: "f", views: map[string]string{"b": "n"}}}
		withWhitelist(t, []string{""}, wl, func(out map[string]string, errs []error) {
			if len(errs) != 1 || !strings.Contains(errs[0].Error(), c.msg) {
				t.Errorf("%s: expected one failure mentioning %q, got %v", c.name, c.msg, errs)
			}
			if _, written := out["Funcs.lean"]; written {
				t.Errorf("%s: a group with a failed function must not be written", c.name)
			}
		})
	}
}

// TestSlices pins the second-round translation (slices.go): guards for index panics (with short-circuit operators),
// hoisted panicking calls, the loop forms, append / make / len / nil, literals, globals, `init` writing a global.
func TestSlices(t *testing.T) {
	wl := []fnSpec{
		{dir: "pos2", file: "pos2.go", name: "Get", lean: "get"},
		{dir: "pos2", file: "pos2.go", name: "Short", lean: "short"},
		{dir: "pos2", file: "pos2.go", name: "mayPanic", lean: "mayPanic"},
		{dir: "pos2", file: "pos2.go", name: "Hoist", lean: "hoist"},
		{dir: "pos2", file: "pos2.go", name: "Any", lean: "any"},
		{dir: "pos2", file: "pos2.go", name: "Same", lean: "same"},
		{dir: "pos2", file: "pos2.go", name: "Evens", lean: "evens"},
		{dir: "pos2", file: "pos2.go", name: "Down", lean: "down"},
		{dir: "pos2", file: "pos2.go", name: "UpTo", lean: "upTo"},
		{dir: "pos2", file: "pos2.go", name: "Fill", lean: "fill"},
		{dir: "pos2", file: "pos2.go", name: "Move", lean: "move"},
		{dir: "pos2", file: "pos2.go", name: "Cell", lean: "cell", globals: "table", views: map[string]string{"b": "cells"}},
		{dir: "pos2", file: "pos2.go", name: "Sum", lean: "sum"},
		{dir: "pos2", file: "pos2.go", name: "Three", lean: "three"},
		{dir: "pos2", file: "pos2.go", name: "Apply", lean: "apply"},
		{dir: "pos2", file: "pos2.go", name: "Twice", lean: "twice"},
		{dir: "pos2", file: "pos2.go", name: "Bit", lean: "bit", round2: true},
		{dir: "pos2", file: "pos2.go", name: "Iter", lean: "iter", fuel: []string{"9"}},
		{dir: "pos2", file: "pos2.go", name: "mk", lean: "mk"},
		{dir: "pos2", file: "pos2.go", name: "init", lean: "rowsInit", globals: "rows", writes: "rows"},
		{dir: "neg", file: "neg.go", name: "Shadow", lean: "shadow"},
	}
	withWhitelist(t, []string{""}, wl, func(out map[string]string, errs []error) {
		for _, e := range errs {
			t.Errorf("unexpected failure: %v", e)
		}
		src := out["Funcs.lean"]
		for _, want := range []string{
			// an index read: explicit guard, then getD
			"def get (a : Array (Int)) (i : Int) : Option (Int) :=\n  if !(decide ((0 : Int) ≤ i) && decide (i < Int.ofNat a.size)) then none else\n  some ((a.getD i.toNat (0 : Int)))",
			// `ok || a[i] > 0`: the index is only checked when ok is false
			"if (!ok && (!(decide ((0 : Int) ≤ i) && decide (i < Int.ofNat a.size)))) then none else",
			// a panicking callee is bound in front of the statement
			"def hoist (k : Int) : Option (Int) :=\n  match (mayPanic k) with\n  | none => none\n  | some tmp0 =>\n  some ((tmp0 + (1 : Int)))",
			// range with break: structural recursion over the list, break = return the state
			"def any_loop0 (m : BitVec 64) : List (BitVec 64) → Bool → Bool\n  | [], sv_ => sv_\n  | x :: tl_, sv_ =>",
			"let found := any_loop0 m (xs).toList found",
			// range with index and return: Except.error = early return
			"def same_loop0 (a : Array (BitVec 8)) (b : Array (BitVec 8)) : List (BitVec 8) → Int → Unit → Option (Except (Bool) Unit)",
			"| some (.error rv_) => some (rv_)\n  | some (.ok ()) =>\n  some (true)",
			// counted int loop with continue, append of a struct literal (missing field = zero)
			"def evens_loop0 (bnd_ : Int) : Nat → Array (Pt) → Array (Pt)",
			"let i : Int := bnd_ - Int.ofNat (fuel+1)",
			"(out.push ({ X := (wrap8 i), Y := (0 : Int) } : Pt))",
			"let out := evens_loop0 n (n - (0 : Int)).toNat out",
			// down-counting loop
			"let i : Int := bnd_ + Int.ofNat fuel",
			"match down_loop0 a (0 : Int) (((Int.ofNat a.size) - (1 : Int)) - (0 : Int) + 1).toNat s with",
			// `i <= b` over a byte never ends for b = 255
			"if b == 255#8 then none else\n  match upTo_loop0 ((b).toNat + 1) (((b).toNat + 1) - (1#8).toNat) n with",
			// make, len, nil, element assignment
			"let sq : Array (BitVec 8) := (Array.replicate n.toNat 0#8)",
			"if ((Int.ofNat sq.size) == (0 : Int)) then\n    some (#[])",
			"if !(decide (0 < sq.size)) then none else\n    let sq := sq.setIfInBounds 0 7#8",
			// field update of a struct value
			"let q : Pt := { q with X := (wrap8 (q.X + d)) }",
			// a declared global and a slice-typed view
			"def cell (g_table : Array (BitVec 64)) (b_cells : Array (BitVec 8)) (i : Nat) : Option (BitVec 64) :=\n  if !(decide (i < g_table.size)) || !(decide (i < b_cells.size)) then none else",
			// variadic call
			"def three  : Int :=\n  (sum #[(1 : Int), (2 : Int), (3 : Int)])",
			// function-typed parameter
			"def apply (f : Int → Int → (Int × Int)) (p : Pt) : Pt :=",
			"let (out_X, out_Y) := (f p.X p.Y)",
			// two variables of one name: the second gets a name of its own
			"| v_1 :: tl_, sv_ =>",
			"def shadow (a : Int) : Int :=\n  if (decide (a > (0 : Int))) then\n    let a_1 : Int := (2 : Int)\n    a_1\n  else\n    a",
			// second-round shift
			"(shl 1#64 ((Int.toNat (x % 18446744073709551616))))",
			// general loop: fuel from the whitelist, return inside
			"def iter_loop0 : Nat → (BitVec 32 × Int) → Option (Except (Int) (BitVec 32 × Int))\n  | 0, _ => none",
			"match iter_loop0 (9) (it, n) with",
			// init assigning a global: the variable is parameter and result
			"def rowsInit (g_rows : Array (Array (BitVec 32))) : Option (Array (Array (BitVec 32))) :=\n  let g_rows : Array (Array (BitVec 32)) := (Array.replicate 3 #[])",
			"let g_rows := g_rows.setIfInBounds k.toNat (mk k)",
		} {
			if !strings.Contains(src, want) {
				t.Errorf("generated source lacks:\n%s", want)
			}
		}
		if t.Failed() {
			t.Logf("generated:\n%s", src)
		}
	})
}

// TestMut pins the third-round translation (mut.go): a pointer parameter as state, declared copies, `x == nil`, early
// error returns (`Except Unit`), join points, a pointer alias resolved per path, `fallthrough`, a nil dereference as a
// panic, calls of functions that assign through a parameter, storage-reuse slices.
func TestMut(t *testing.T) {
	boardMut := "a b bits cells sum"
	wl := []fnSpec{
		{dir: "pos3", file: "pos3.go", recv: "Board", name: "Bump", lean: "bump", round2: true, round3: true,
			views: map[string]string{"b": "bits cells sum"}, mut: map[string]string{"b": "bits cells sum"}},
		{dir: "pos3", file: "pos3.go", recv: "Board", name: "Step", lean: "step", round2: true, round3: true, copies: "fresh copyInto",
			views: map[string]string{"b": "a b bits cells n sum", "next": "isNil"}, mut: map[string]string{"next": boardMut}},
		{dir: "pos3", file: "pos3.go", name: "grow", lean: "grow", round2: true},
		{dir: "pos3", file: "pos3.go", recv: "Board", name: "Regroup", lean: "regroup", round2: true, round3: true, reuse: true,
			views: map[string]string{"b": "bits"}, mut: map[string]string{"b": "grp"}},
	}
	withWhitelist(t, []string{""}, wl, func(out map[string]string, errs []error) {
		for _, e := range errs {
			t.Errorf("unexpected failure: %v", e)
		}
		src := out["Funcs.lean"]
		if p := os.Getenv("GEN_DUMP"); p != "" {
			// GEN_DUMP=<file> go test -run TestMut: the emitted text, to be compiled by hand (`lake env lean <file>` after
			// prefixing `import TakVerif.Generated.FuncsTak` and `open Gen`)
			os.WriteFile(p, []byte(src), 0o644)
		}
		for _, want := range []string{
			// a method without results: the assigned fields are parameters and the result (sorted by name); Option because of the index
			"def bump (b_bits : BitVec 64) (b_cells : Array (BitVec 8)) (b_sum : Int) (i : Nat) : Option (BitVec 64 × Array (BitVec 8) × Int) :=",
			"if !(decide (i < b_cells.size)) then none else\n  let b_cells := b_cells.setIfInBounds i ((b_cells.getD i 0#8) + 1#8)",
			"let b_bits : BitVec 64 := (b_bits ||| (shl 1#64 (i)))",
			"some ((b_bits, b_cells, b_sum))",
			// `(*Board, error)` -> Except Unit; the assignable fields of `next` are not inputs, `next == nil` is
			"(k : BitVec 8) (i : Nat) (next_isNil : Bool) : Option (Except Unit (BitVec 8 × BitVec 8 × BitVec 64 × Array (BitVec 8) × Int)) :=",
			// the two declared copies, joined: the continuation is emitted once
			"let (next_a, next_b, next_bits, next_cells, next_isNil, next_sum) : (BitVec 8 × BitVec 8 × BitVec 64 × Array (BitVec 8) × Bool × Int) :=\n    if next_isNil then\n      let next_a : BitVec 8 := b_a",
			"let next_sum : Int := next_sum + 1",
			// a tagged switch with early returns as a join point
			"match ((\n    if (k == 1#8) then\n      let d : Int := (1 : Int)\n      Except.ok d",
			"Except.error ((Except.error ()))) : Except (Except Unit (BitVec 8 × BitVec 8 × BitVec 64 × Array (BitVec 8) × Int)) (Int)) with\n  | .error rv_ => some (rv_)\n  | .ok d =>",
			// fallthrough: the next clause's body is appended; the alias is resolved on every path
			"let next_bits : BitVec 64 := (next_bits ||| 2#64)\n    if (d == (3 : Int)) then\n      if (next_a == 0#8) then\n        some ((Except.error ()))\n      else\n        let next_a : BitVec 8 := next_a - 1#8",
			"if (next_b == 0#8) then",
			// the call of a method that assigns through its receiver: given the current fields, returns the new ones
			"match (bump next_bits next_cells next_sum i) with\n        | none => none\n        | some (next_bits, next_cells, next_sum) =>\n        some ((Except.ok (next_a, next_b, next_bits, next_cells, next_sum)))",
			// no case of the second switch taken: `*q` dereferences nil
			"else\n      none",
			// storage reuse
			"def regroup (b_bits : BitVec 64) : Array (BitVec 64) :=\n  let t : Array (BitVec 64) := #[]",
			"let u : Array (BitVec 64) := #[]",
		} {
			if !strings.Contains(src, want) {
				t.Errorf("generated source lacks:\n%s", want)
			}
		}
		if t.Failed() {
			t.Logf("generated:\n%s", src)
		}
	})
}

// TestMutRejected: what the third round cannot translate faithfully is refused loudly.
func TestMutRejected(t *testing.T) {
	cases := []struct {
		name, msg string
		spec      fnSpec
	}{
		{"ReadEarly", "before it is initialised", fnSpec{views: map[string]string{"b": "n"}, mut: map[string]string{"out": "n"}}},
		{"AliasLoop", "given a target inside a loop", fnSpec{views: map[string]string{"b": "n"}, mut: map[string]string{"b": "n"}}},
		{"AliasOther", "a pointer may only be given the address of an assignable field", fnSpec{views: map[string]string{"b": "n"}, mut: map[string]string{"b": "n"}}},
		{"MaybeNil", "not statically non-nil", fnSpec{}},
		{"PokedErr", "not statically non-nil", fnSpec{}},
		{"WriteUndeclared", "assignment target", fnSpec{views: map[string]string{"b": "n"}, mut: map[string]string{"b": "n"}}},
		{"CopyMissing", "the source declares no view", fnSpec{copies: "dup", views: map[string]string{"b": "n"}, mut: map[string]string{"out": "n"}, late: map[string]string{"out": "m"}}},
		{"DerefCond", "under the right operand of && / ||", fnSpec{views: map[string]string{"b": "n"}}},
		{"ReturnUninit", "is not initialised on this path", fnSpec{views: map[string]string{"b": "n"}, mut: map[string]string{"out": "m n"}}},
		{"CalleeWrites", "not among the assignable paths", fnSpec{views: map[string]string{"b": "n"}, mut: map[string]string{"b": "n"}}},
	}
	for _, c := range cases {
		sp := c.spec
		sp.dir, sp.file, sp.name, sp.lean, sp.round2, sp.round3 = "neg", "neg.go", c.name, "f", true, true
		wl := []fnSpec{
			{dir: "neg", file: "neg.go", name: "setM", lean: "setM", round2: true, round3: true, views: map[string]string{"t": "n"}, mut: map[string]string{"t": "m"}},
			sp,
		}
		withWhitelist(t, []string{""}, wl, func(out map[string]string, errs []error) {
			if len(errs) != 1 || !strings.Contains(errs[0].Error(), c.msg) {
				t.Errorf("%s: expected one failure mentioning %q, got %v", c.name, c.msg, errs)
			}
			if _, written := out["Funcs.lean"]; written {
				t.Errorf("%s: a group with a failed function must not be written", c.name)
			}
		})
	}
}

// TestEval pins the fourth-round translation (eval.go): whole-array views with the static-length guard, constant-index views
// fed from a whole array, a path accessor, a closure over a view (Option-valued, with a `for { break }` loop, called twice in
// one statement), an out-parameter and its call statements, `var a [N]T`, arrays as values, range over an array.
func TestEval(t *testing.T) {
	wl := []fnSpec{
		{dir: "pos4", file: "pos4.go", name: "Pick", lean: "pick", views: map[string]string{"w": "[all]"}},
		{dir: "pos4", file: "pos4.go", name: "Narrow", lean: "narrow", views: map[string]string{"w": "[2]"}},
		{dir: "pos4", file: "pos4.go", name: "Pass", lean: "pass", views: map[string]string{"w": "[all]"}},
		{dir: "pos4", file: "pos4.go", name: "Groups", lean: "groups", views: map[string]string{"b": "bits inner.Gs"}},
		{dir: "pos4", file: "pos4.go", name: "Count", lean: "count", views: map[string]string{"b": "bits"}, fuel: []string{"k.toNat + 1"}},
		{dir: "pos4", file: "pos4.go", name: "Fill", lean: "fill", outParam: "out", fuel: []string{"out.size + 1"}},
		{dir: "pos4", file: "pos4.go", name: "UseFill", lean: "useFill"},
		{dir: "pos4", file: "pos4.go", name: "init", lean: "tableInit", globals: "base over table", writes: "table"},
	}
	for i := range wl {
		wl[i].round2, wl[i].round3 = true, true
	}
	withWhitelist(t, []string{""}, wl, func(out map[string]string, errs []error) {
		for _, e := range errs {
			t.Errorf("unexpected failure: %v", e)
		}
		src := out["Funcs.lean"]
		if p := os.Getenv("GEN_DUMP"); p != "" {
			os.WriteFile(p, []byte(src), 0o644)
		}
		for _, want := range []string{
			// whole-array view: constant index unguarded, computed index checked against the static length of the Go array
			"def pick (w_all : Array (Int)) (k : Int) : Option (Int) :=\n  if !(decide ((0 : Int) ≤ k) && decide (k < (4 : Int))) then none else\n  some (((w_all.getD 1 (0 : Int)) + (w_all.getD k.toNat (0 : Int))))",
			// a callee with a constant-index view is given the element of the caller's whole array
			"def narrow (w_2 : Int) : Int :=\n  w_2",
			"def pass (w_all : Array (Int)) : Int :=\n  ((narrow (w_all.getD 2 (0 : Int))) + (w_all.getD 0 (0 : Int)))",
			// path accessor: `in.Gs` is the view b_inner_Gs
			"def groups (b_bits : BitVec 64) (b_inner_Gs : Array (BitVec 64)) : Int :=",
			"groups_loop0 b_bits (b_inner_Gs).toList n",
			// the closure: captured local and captured view are leading parameters; Option because of gs[j] and the loop
			"def count_one (b_bits : BitVec 64) (lim : BitVec 64) (gs : Array (BitVec 64)) (k : Int) : Option (Int) :=",
			// `for { .. break .. }`: fuel from the whitelist, none when it runs out, break = the state
			"def count_one_loop0 (b_bits : BitVec 64) (gs : Array (BitVec 64)) (k : Int) (lim : BitVec 64) : Nat → (Int × Int) → Option ((Int × Int))\n  | 0, _ => none",
			"else\n      some ((j, n))",
			"match count_one_loop0 b_bits gs k lim (k.toNat + 1) (j, n) with",
			// both calls hoisted in front of the statement
			"match (count_one b_bits lim xs (2 : Int)) with\n  | none => none\n  | some tmp0 =>\n  match (count_one b_bits lim xs (3 : Int)) with\n  | none => none\n  | some tmp1 =>\n  some ((tmp0 + tmp1))",
			// out-parameter: the function returns the slice; the call statement rebinds the caller's variable
			"def fill (out : Array (BitVec 64)) (v : BitVec 64) : Option (Array (BitVec 64)) :=",
			"let a : Array (BitVec 64) := (Array.replicate 3 0#64)\n  match (fill a v) with\n  | none => none\n  | some a =>\n  match (fill a 1#64) with\n  | none => none\n  | some a =>",
			// arrays are values; range over an array; the table
			"let six : Array (Int) := g_base",
			"match tableInit_loop0 (g_over).toList (0 : Int) six with",
			"let g_table : Array (Array (Int)) := (#[g_base, six] : Array (Array (Int)))",
		} {
			if !strings.Contains(src, want) {
				t.Errorf("generated source lacks:\n%s", want)
			}
		}
		if t.Failed() {
			t.Logf("generated:\n%s", src)
		}
	})
}

// TestEvalRejected: what the fourth round cannot translate faithfully is refused loudly.
func TestEvalRejected(t *testing.T) {
	cases := []struct {
		name, msg string
		spec      fnSpec
	}{
		{"IndexNoAll", "only constant indices into an abstract array parameter", fnSpec{views: map[string]string{"w": "[1]"}}},
		{"AccessorChanged", "body is no longer a single return", fnSpec{views: map[string]string{"d": "inner.Gs"}}},
		{"ClosureTracked", "a field of a parameter the function assigns through", fnSpec{views: map[string]string{"b": "n"}, mut: map[string]string{"b": "n"}}},
		{"OutWhole", "is assigned as a whole", fnSpec{outParam: "out"}},
		{"OutArg", "must be a local slice / array variable", fnSpec{}},
		{"OutAliased", "is copied (a second name for its backing array)", fnSpec{}},
		{"ForeverNoFuel", "no fuel given", fnSpec{}},
	}
	for _, c := range cases {
		sp := c.spec
		sp.dir, sp.file, sp.name, sp.lean, sp.round2, sp.round3 = "neg", "neg.go", c.name, "f", true, true
		wl := []fnSpec{
			{dir: "neg", file: "neg.go", name: "fillOne", lean: "fillOne", round2: true, round3: true, outParam: "out"},
			{dir: "neg", file: "neg.go", name: "mkSlice", lean: "mkSlice", round2: true, round3: true},
			sp,
		}
		withWhitelist(t, []string{""}, wl, func(out map[string]string, errs []error) {
			if len(errs) != 1 || !strings.Contains(errs[0].Error(), c.msg) {
				t.Errorf("%s: expected one failure mentioning %q, got %v", c.name, c.msg, errs)
			}
			if _, written := out["Funcs.lean"]; written {
				t.Errorf("%s: a group with a failed function must not be written", c.name)
			}
		})
	}
}

// TestSearch pins the fifth-round translation (search.go): slot pointers (with and without assignment through the receiver),
// the nil test of a field, an atomic load, division by a variable with its zero guard, a projection view with the static-length
// guard, map reads and guarded map writes, `<<` on int, `stopAt`.
func TestSearch(t *testing.T) {
	wl := []fnSpec{
		{dir: "pos5", file: "pos5.go", recv: "Eng", name: "Get", lean: "get", slot: "tab", views: map[string]string{"e": "tab tab.isNil"}},
		{dir: "pos5", file: "pos5.go", recv: "Eng", name: "Put", lean: "put", slot: "tab", views: map[string]string{"e": "flag.load tab"}, mut: map[string]string{"e": "tab"}},
		{dir: "pos5", file: "pos5.go", recv: "Eng", name: "Note", lean: "note", stopAt: "e.log == nil",
			views: map[string]string{"e": "n reply reply.isNil seen seen.isNil stack[].k"}, mut: map[string]string{"e": "n reply seen"}},
		{dir: "pos5", file: "pos5.go", recv: "Eng", name: "Seen", lean: "seen", views: map[string]string{"e": "seen stack[].k"}},
	}
	for i := range wl {
		wl[i].round2, wl[i].round3, wl[i].round5 = true, true, true
	}
	withWhitelist(t, []string{""}, wl, func(out map[string]string, errs []error) {
		for _, e := range errs {
			t.Errorf("unexpected failure: %v", e)
		}
		src := out["Funcs.lean"]
		if p := os.Getenv("GEN_DUMP"); p != "" {
			os.WriteFile(p, []byte("def shl {w : Nat} (x : BitVec w) (n : Nat) : BitVec w := if n < w then x <<< n else 0#w\n"+prelude5+src), 0o644)
		}
		for _, want := range []string{
			// a pointer result into the view `tab` is an index; `== nil` of the field is its own view
			"def get (e_tab : Array (Entry)) (e_tab_isNil : Bool) (h : BitVec 64) : Option (Option Nat) :=\n  if e_tab_isNil then\n    some (none)",
			// division by a variable: Go's divide-by-zero panic
			"if ((BitVec.ofInt 64 (Int.ofNat e_tab.size)) == 0#64) then none else\n    let i : BitVec 64 := (h % (BitVec.ofInt 64 (Int.ofNat e_tab.size)))",
			// `te := &e.tab[i]`: index guard, then the index; `te.hash` reads through the current table; `return te`
			"if !(decide (i.toNat < e_tab.size)) then none else\n    let te : Nat := i.toNat\n    if ((e_tab.getD te (default : Entry)).hash == h) then\n      some ((some te))",
			// re-targeting the pointer
			"if !(decide (0 < e_tab.size)) then none else\n      let te : Nat := 0",
			// atomic load = a view; slot function with assignment: (slot, table)
			"def put (e_flag_load : Int) (e_tab : Array (Entry)) (h : BitVec 64) : Option (Option Nat × Array (Entry)) :=\n  if (e_flag_load != (0 : Int)) then\n    some ((none, e_tab))",
			"let e_tab := e_tab.setIfInBounds 0 (e_tab.getD i.toNat (default : Entry))",
			"some (((some i.toNat), e_tab))",
			// maps: guarded write, read-modify-write, `<<` on int through the 64-bit representation
			"if e_seen_isNil then none else\n  let e_seen := mapPut e_seen k (((mapGet e_seen k).getD (0 : Int)) + (BitVec.toInt (shl (BitVec.ofInt 64 (1 : Int)) ((Int.toNat (d % 18446744073709551616))))))",
			// projection view: static-length guard, then the element of the projected array as the map key
			"if !(decide ((0 : Int) ≤ (ply - (1 : Int))) && decide ((ply - (1 : Int)) < (4 : Int))) then none else\n      if e_reply_isNil then none else\n      let e_reply := mapPut e_reply (e_stack_k.getD (ply - (1 : Int)).toNat (default : Key)) k",
			// stopAt: the function ends at `if e.log == nil { return }`
			"| some e_reply =>\n  some ((e_n, e_reply, e_seen))",
			// map read; constant index into a projection
			"def seen (e_seen : List (Key × Int)) (e_stack_k : Array (Key)) (k : Key) : Option (Int) :=",
			"some ((((mapGet e_seen k).getD (0 : Int)) + (e_stack_k.getD 1 (default : Key)).A))",
		} {
			if !strings.Contains(src, want) {
				t.Errorf("generated source lacks:\n%s", want)
			}
		}
		if t.Failed() {
			t.Logf("generated:\n%s", src)
		}
	})
}

// TestSearchRejected: what the fifth round cannot translate faithfully is refused loudly.
func TestSearchRejected(t *testing.T) {
	cases := []struct {
		name, msg string
		spec      fnSpec
	}{
		{"SlotEscapes", "used as a value", fnSpec{recv: "Store", slot: "tab", views: map[string]string{"s": "tab"}}},
		{"SlotOther", "may only be given `&tab[e]`", fnSpec{recv: "Store", slot: "tab", views: map[string]string{"s": "tab other"}}},
		{"TwoLoads", "2 atomic loads", fnSpec{recv: "Store", views: map[string]string{"s": "flag.load"}}},
		{"MapNoNil", "not among the views declared", fnSpec{recv: "Store", views: map[string]string{"s": "seen"}, mut: map[string]string{"s": "seen"}}},
		{"ProjUndeclared", "not among the declared projection views", fnSpec{recv: "Store", views: map[string]string{"s": "fr[].w"}}},
		{"SignedDiv", "division by something that is not a non-zero constant", fnSpec{}},
	}
	for _, c := range cases {
		sp := c.spec
		sp.dir, sp.file, sp.name, sp.lean, sp.round2, sp.round3, sp.round5 = "neg", "neg.go", c.name, "f", true, true, true
		withWhitelist(t, []string{""}, []fnSpec{sp}, func(out map[string]string, errs []error) {
			if len(errs) != 1 || !strings.Contains(errs[0].Error(), c.msg) {
				t.Errorf("%s: expected one failure mentioning %q, got %v", c.name, c.msg, errs)
			}
			if _, written := out["Funcs.lean"]; written {
				t.Errorf("%s: a group with a failed function must not be written", c.name)
			}
		})
	}
}

// TestIter: the constructs of the sixth round (iter.go).
func TestIter(t *testing.T) {
	wl := []fnSpec{
		{dir: "pos6", file: "pos6.go", recv: "Key", name: "Same", lean: "same"},
		{dir: "pos6", file: "pos6.go", recv: "It", name: "Rewind", lean: "rewind", mut: map[string]string{"it": "i"}},
		{dir: "pos6", file: "pos6.go", recv: "It", name: "Step", lean: "step", reuse: true, fuel: []string{"it_ks.size + it_src_All.size + 5"},
			views:   map[string]string{"it": "e.reply e.stack[].k h.isNil h.k i ks ks.isNil ply r"},
			mut:     map[string]string{"it": "i ks ks.isNil r"},
			oracles: map[string]string{"it": "src.All(s) src.Try(v,s) order()=ks"},
			storage: map[string]string{"it": "store.slice store.alloc e.stack[].buf"}},
	}
	for i := range wl {
		wl[i].round2, wl[i].round3, wl[i].round5, wl[i].round6 = true, true, true, true
	}
	withWhitelist(t, []string{""}, wl, func(out map[string]string, errs []error) {
		for _, e := range errs {
			t.Errorf("unexpected failure: %v", e)
		}
		src := out["Funcs.lean"]
		if p := os.Getenv("GEN_DUMP"); p != "" {
			os.WriteFile(p, []byte(prelude5+src), 0o644)
		}
		for _, want := range []string{
			"def rewind  : Int :=\n  let it_i : Int := (0 : Int)\n  it_i",
			// the pointer result is `Option C_Box` with C_Box a type parameter; value-argument oracle = function parameter; statement oracle
			"def step {C_Box : Type} (it_e_reply : List (Key × Key)) (it_e_stack_k : Array (Key)) (it_h_isNil : Bool) (it_h_k : Key) (it_i : Int) (it_ks : Array (Key)) (it_ks_isNil : Bool) (it_order : Array (Key) → Array (Key)) (it_ply : Int) (it_r : Key) (it_src_All : Array (Key)) (it_src_All_isNil : Bool) (it_src_Try : Key → (Option C_Box × Bool)) : Option (Key × Option C_Box × Int × Array (Key) × Bool × Key) :=",
			// `for { .. return .. }`: a fuelled helper; the state are the assigned fields
			"def step_loop0 {C_Box : Type} ",
			"  | 0, _ => none\n  | fuel+1, sv_ =>\n    let (it_i, it_ks, it_ks_isNil, it_r) := sv_\n    let k_1 : Key := (default : Key)",
			// a read through the nil-able pointer field is guarded; `break` in the switch = the switch's continuation (the oracle call)
			"if (!it_h_isNil) then\n        if it_h_isNil then none else\n        let k_1 : Key := it_h_k\n        if !(decide ((0 : Int) ≤ it_ply) && decide (it_ply < (4 : Int))) then none else\n        let (child, e) := (it_src_Try k_1)\n        if e then\n          some (.error ((k_1, child, (it_i, it_ks, it_ks_isNil, it_r))))\n        else\n          step_loop0 ",
			// `continue` in the switch = the next round of the loop; comma-ok: the zero value when absent
			"if (it_ply == (0 : Int)) then\n          step_loop0 ",
			"let tmp0 := mapGet it_e_reply (it_e_stack_k.getD (it_ply - (1 : Int)).toNat (default : Key))\n          let it_r : Key := tmp0.getD (default : Key)\n          let ok : Bool := tmp0.isSome\n          if ok then\n            let k_1 : Key := it_r",
			// buffers are skipped; the oracle's value and nil-ness are assigned together
			"if it_ks_isNil then\n                let it_ks := it_src_All\n                let it_ks_isNil : Bool := it_src_All_isNil\n                some ((it_ks, it_ks_isNil))",
			"let it_ks := it_order it_ks",
			// `return Key{}, nil`
			"some (.error ((({ A := (0 : Int), B := 0#32 } : Key), none, (it_i, it_ks, it_ks_isNil, it_r))))",
			// conditional nil-dereference guard under &&
			"if ((!it_h_isNil) && (it_h_isNil)) then none else",
			// the code after the loop is unreachable
			"| some (.error rv_) => some (rv_)\n  | some (.ok (it_i, it_ks, it_ks_isNil, it_r)) =>\n  none",
		} {
			if !strings.Contains(src, want) {
				t.Errorf("generated source lacks:\n%s", want)
			}
		}
		if t.Failed() {
			t.Logf("generated:\n%s", src)
		}
	})
}

// TestIterRejected: the unsound neighbours of the sixth-round constructs are refused loudly.
func TestIterRejected(t *testing.T) {
	buf := map[string]string{"it": "store.slice"}
	cases := []struct {
		name, msg string
		spec      fnSpec
	}{
		{"BufValue", "the buffer ks used as a value", fnSpec{views: map[string]string{"it": "i"}, storage: buf}},
		{"KeepsContent", "must be `buf[:0]` of a declared buffer", fnSpec{reuse: true, views: map[string]string{"it": "ks ks.isNil"}, mut: map[string]string{"it": "ks ks.isNil"},
			oracles: map[string]string{"it": "src.All(s)"}, storage: buf}},
		{"StaleNil", "the nil-ness of the value assigned to it_ks is not known", fnSpec{views: map[string]string{"it": "ks ks.isNil other"}, mut: map[string]string{"it": "ks ks.isNil"}}},
		{"NilInputOnly", "its nil-ness it_ks_isNil is not declared assignable", fnSpec{reuse: true, views: map[string]string{"it": "ks ks.isNil"}, mut: map[string]string{"it": "ks"},
			oracles: map[string]string{"it": "src.All(s)"}, storage: buf}},
		{"OpaqueUse", "unsupported type *neg.Box6", fnSpec{views: map[string]string{"it": "i"}, oracles: map[string]string{"it": "src.Try(v,s)"},
			storage: map[string]string{"it": "box"}}},
		{"TwoSites", "two call sites of the oracle it_src_All", fnSpec{reuse: true, views: map[string]string{"it": "i"}, oracles: map[string]string{"it": "src.All(s)"}, storage: buf}},
		{"LabelledBreak", "LabeledStmt", fnSpec{views: map[string]string{"it": "i"}, mut: map[string]string{"it": "i"}, fuel: []string{"9"}}},
		{"CommaOkElem", "comma-ok map read: target", fnSpec{views: map[string]string{"it": "ks seen"}, mut: map[string]string{"it": "ks"}}},
		{"Undeclared", "", fnSpec{reuse: true, views: map[string]string{"it": "i"}, storage: buf}},
	}
	for _, c := range cases {
		sp := c.spec
		sp.dir, sp.file, sp.recv, sp.name, sp.lean = "neg", "neg.go", "It6", c.name, "f"
		sp.round2, sp.round3, sp.round5, sp.round6 = true, true, true, true
		withWhitelist(t, []string{""}, []fnSpec{sp}, func(out map[string]string, errs []error) {
			if len(errs) != 1 || !strings.Contains(errs[0].Error(), c.msg) {
				t.Errorf("%s: expected one failure mentioning %q, got %v", c.name, c.msg, errs)
			}
			if _, written := out["Funcs.lean"]; written {
				t.Errorf("%s: a group with a failed function must not be written", c.name)
			}
		})
	}
}

func zwTestSpecs(name string) []fnSpec {
	wl := []fnSpec{
		{dir: "pos7", file: "pos7.go", recv: "Eng", name: "Get", lean: "get", slot: "tab", views: map[string]string{"e": "tab tab.isNil"}},
		{dir: "pos7", file: "pos7.go", recv: "Eng", name: "Put", lean: "put", slot: "tab", views: map[string]string{"e": "flag.load tab"}, mut: map[string]string{"e": "tab"}},
		{dir: "pos7", file: "pos7.go", recv: "Eng", name: name, lean: "walk", reuse: true, round6: true, round7: true, fuel: []string{"4"},
			views:       map[string]string{"e": "flag.load st stack[].e stack[].k stack[].line tab tab.isNil", "b": ""},
			mut:         map[string]string{"e": "st stack[].e stack[].k stack[].line tab"},
			oracles:     map[string]string{"b": "Done() Sum() Try(v,s)"},
			storage:     map[string]string{"e": "stack[].buf"},
			funcFields:  map[string]string{"e": "score"},
			assumeFalse: "e.cfg.Debug > ply"},
	}
	for i := range wl {
		wl[i].round2, wl[i].round3, wl[i].round5 = true, true, true
	}
	return wl
}

// TestZw: the constructs of the seventh round (zw.go): an executed-only translation in `do` notation.
func TestZw(t *testing.T) {
	withWhitelist(t, []string{""}, zwTestSpecs("Walk"), func(out map[string]string, errs []error) {
		for _, e := range errs {
			t.Errorf("unexpected failure: %v", e)
		}
		src := out["Funcs.lean"]
		if p := os.Getenv("GEN_DUMP"); p != "" {
			os.WriteFile(p, []byte(prelude7+src), 0o644)
		}
		for _, want := range []string{
			// fixed parameters: read-only views, the function field, the position's oracles as functions of the type parameter; then fuel, arguments, state
			"def walk {C_Box : Type} (e_flag_load : Int) (e_tab_isNil : Bool) (e_score : C_Box → Int) (Position_Done : C_Box → Bool × Int) (Position_Sum : C_Box → BitVec 64) (Position_Try : C_Box → Key → (Option C_Box × Bool)) : Nat → C_Box → Int → Int → Array (Key) → Int → (Cnt × Array (Entry) × Array (Key) × Array (Array (Key)) × Array (Entry)) → Option ((Array (Key) × Int) × (Cnt × Array (Entry) × Array (Key) × Array (Array (Key)) × Array (Entry)))",
			"  | 0, _, _, _, _, _, _ => none\n  | fuel+1, b, ply, depth, hint, lo, (e_st, e_stack_e, e_stack_k, e_stack_line, e_tab) => do",
			"    let b_Done := Position_Done b",
			"    let mut e_tab := e_tab",
			// a field of a struct-typed assignable view; the function field; `return` carries the state
			"      e_st := { e_st with Seen := (e_st.Seen + 1#64) }\n      return ((#[], (e_score b)), (e_st, e_stack_e, e_stack_k, e_stack_line, e_tab))",
			// a regenerated function returning a pointer into a view: Option-valued call bound in the monad, the pointer is the index
			"    let tmp0 ← (get e_tab e_tab_isNil b_Sum)\n    let mut te := tmp0\n    if te.isSome then",
			// a read through the pointer: nil dereference guard, the current value of the view
			"      if te.isNone then none\n      if (decide ((e_tab.getD (te.getD 0) (default : Entry)).val > lo)) then",
			// an element of a frame array; a slice of it
			"        e_stack_line := e_stack_line.setIfInBounds ply.toNat ((e_stack_line.getD ply.toNat (Array.replicate 4 (default : Key))).setIfInBounds 0 (e_tab.getD (te.getD 0) (default : Entry)).k)",
			"        return ((((e_stack_line.getD ply.toNat (Array.replicate 4 (default : Key))).extract 0 1), (e_tab.getD (te.getD 0) (default : Entry)).val), (e_st,",
			// `*te` copied into the frame, the pointer retargeted (from here on it indexes e_stack_e)
			"      e_stack_e := e_stack_e.setIfInBounds ply.toNat (e_tab.getD (te.getD 0) (default : Entry))",
			"      te := some ply.toNat",
			"        k := (e_stack_e.getD (te.getD 0) (default : Entry)).k",
			// the window: its length; `w = w[:1]`
			"    let mut best_len : Nat := 0",
			"      if !(decide (1 ≤ 4)) then none\n      best_len := 1",
			// the general loop: whitelist fuel, the flag
			"    let mut i : Int := (0 : Int)\n    let mut more0 : Bool := true\n    for _ in [0:4] do\n      if !(((decide (i < (3 : Int))) && (!hit))) then\n        more0 := false\n        break",
			// the oracle with a buffer; the recursive call: a nil child is the callee's panic, the state goes in and comes back
			"      let (child, err) := (b_Try k)\n      if err then\n        let c1 ← child",
			"        let ((r2_0, r2_1), (s2_0, s2_1, s2_2, s2_3, s2_4)) ← walk e_flag_load e_tab_isNil e_score Position_Done Position_Sum Position_Try fuel c1 (ply + (1 : Int)) (depth - (1 : Int))",
			"(-lo) (e_st, e_stack_e, e_stack_k, e_stack_line, e_tab)\n        e_st := s2_0",
			// writes through the window; `break` clears the flag
			"          e_stack_line := e_stack_line.setIfInBounds ply.toNat ((e_stack_line.getD ply.toNat (Array.replicate 4 (default : Key))).setIfInBounds 0 k)\n          best_len := 1\n          if decide (best_len + ks.size > 4) then none\n          e_stack_line := e_stack_line.setIfInBounds ply.toNat (zwWrite (e_stack_line.getD ply.toNat (Array.replicate 4 (default : Key))) best_len ks)\n          best_len := best_len + ks.size\n          hit := true\n          more0 := false\n          break",
			// the atomic load in the loop is the one input view; post statement; fuel exhausted
			"        if (e_flag_load != (0 : Int)) then",
			"      i := (i + 1)\n    if more0 then none",
			// a regenerated function that assigns through the receiver and returns a pointer; a write through the pointer
			"    let (r3_0, f3_0) ← put e_flag_load e_tab b_Sum\n    e_tab := f3_0\n    te := r3_0",
			"      e_tab := e_tab.setIfInBounds (te.getD 0) { (e_tab.getD (te.getD 0) (default : Entry)) with val := lo }",
		} {
			if !strings.Contains(src, want) {
				t.Errorf("generated source lacks:\n%s", want)
			}
		}
		if strings.Contains(src, "println") || strings.Contains(src, "Debug") {
			t.Errorf("the statement under the assumed-false condition was translated")
		}
		if t.Failed() {
			t.Logf("generated:\n%s", src)
		}
	})
}

// TestZwRejected: the unsound neighbours of the seventh-round constructs are refused loudly.
func TestZwRejected(t *testing.T) {
	for _, c := range []struct{ name, msg string }{
		{"BadRetarget", "a pointer is retargeted outside `if te != nil {..}` or inside a loop"},
		{"BadContinue", "continue (round 7)"},
		{"BadWindow", "assignment to a window onto a frame array"},
	} {
		withWhitelist(t, []string{""}, zwTestSpecs(c.name), func(out map[string]string, errs []error) {
			if len(errs) != 1 || !strings.Contains(errs[0].Error(), c.msg) {
				t.Errorf("%s: expected one failure mentioning %q, got %v", c.name, c.msg, errs)
			}
			if _, written := out["Funcs.lean"]; written {
				t.Errorf("%s: a group with a failed function must not be written", c.name)
			}
		})
	}
}

func sortTestSpecs(name string) []fnSpec {
	return []fnSpec{{dir: "pos7", file: "pos7.go", recv: "Sorter", name: name, lean: "rank", plainDo: true,
		round2: true, round3: true, round5: true, round6: true, round7: true,
		views:       map[string]string{"x": "e.seen f.vals.alloc f.vals.slice f.vals.slice.isNil ks"},
		mut:         map[string]string{"x": "ks"},
		callOracles: map[string]string{"sort.Sort": "ks vs[:len(ks)] =ks"}}}
}

// TestSortOracle: the constructs of zwsort.go (task 3 of work package gen7).
func TestSortOracle(t *testing.T) {
	withWhitelist(t, []string{""}, sortTestSpecs("Rank"), func(out map[string]string, errs []error) {
		for _, e := range errs {
			t.Errorf("unexpected failure: %v", e)
		}
		src := out["Funcs.lean"]
		for _, want := range []string{
			// the views (unexported fields of an anonymous struct included), then the call oracle
			"def rank (x_e_seen : List (Key × Int)) (x_f_vals_alloc : Array (Int)) (x_f_vals_slice : Array (Int)) (x_f_vals_slice_isNil : Bool) (x_ks : Array (Key)) (sort_Sort : Array (Key) → Array (Int) → Array (Key)) : Option (Array (Key)) := do",
			// the nil-ness travels with the local
			"  let mut vs : Array (Int) := x_f_vals_slice\n  let mut vs_isNil : Bool := x_f_vals_slice_isNil\n  if vs_isNil then\n    vs := x_f_vals_alloc\n    vs_isNil := false",
			"    vs := (Array.replicate (Int.ofNat x_ks.size).toNat (0 : Int))\n    vs_isNil := false",
			// the range loop over the aliased field, the element write into the aliased local (index guard), the map read
			"  let mut i : Int := 0\n  for k in x_ks do\n    if !(decide ((0 : Int) ≤ i) && decide (i < Int.ofNat vs.size)) then none\n    vs := vs.setIfInBounds i.toNat ((mapGet x_e_seen k).getD (0 : Int))\n    i := i + 1",
			// the oracle: values in, the new value of the aliased field out
			"  x_ks := (sort_Sort x_ks (vs.extract 0 x_ks.size))\n  return x_ks",
		} {
			if !strings.Contains(src, want) {
				t.Errorf("generated source lacks:\n%s", want)
			}
		}
		if t.Failed() {
			t.Logf("generated:\n%s", src)
		}
	})
}

// TestSortOracleRejected: the unsound neighbours are refused loudly.
func TestSortOracleRejected(t *testing.T) {
	for _, c := range []struct{ name, msg string }{
		{"BadAlias", "assignment to a slice that a struct of slices aliases"},
		{"BadRange", "the body of a range loop assigns the slice ranged over"},
		{"BadNil", "the nil-ness of the value assigned to vs is not known"},
	} {
		withWhitelist(t, []string{""}, sortTestSpecs(c.name), func(out map[string]string, errs []error) {
			if len(errs) != 1 || !strings.Contains(errs[0].Error(), c.msg) {
				t.Errorf("%s: expected one failure mentioning %q, got %v", c.name, c.msg, errs)
			}
			if _, written := out["Funcs.lean"]; written {
				t.Errorf("%s: a group with a failed function must not be written", c.name)
			}
		})
	}
}
