package main

import (
	"strings"
	"testing"
)

// The translator is part of the trusted base: these tests pin what it emits for every construct of the subset
// (testdata/repo/pos) and that it refuses, loudly, what it cannot translate faithfully (testdata/repo/neg).
func withWhitelist(t *testing.T, gs []string, wl []fnSpec, f func(out map[string]string, errs []error)) {
	oldG, oldW := groups, whitelist
	groups, whitelist = gs, wl
	defer func() { groups, whitelist = oldG, oldW }()
	out, errs := genFuncs(newLoader("testdata/repo"))
	f(out, errs)
}

func init() { accessors["pos.Big.Count"] = true }

func TestSubset(t *testing.T) {
	wl := []fnSpec{
		{dir: "pos", file: "pos.go", name: "Tagged", lean: "tagged"},
		{dir: "pos", file: "pos.go", name: "Wrap", lean: "wrap"},
		{dir: "pos", file: "pos.go", name: "Two", lean: "two"},
		{dir: "pos", file: "pos.go", name: "Swap", lean: "swap"},
		{dir: "pos", file: "pos.go", name: "While", lean: "while", fuel: []string{"32"}},
		{dir: "pos", file: "pos.go", name: "Forever", lean: "forever", fuel: []string{"33"}},
		{dir: "pos", file: "pos.go", name: "Must", lean: "must"},
		{dir: "pos", file: "pos.go", name: "View", lean: "view", views: map[string]string{"b": "Count n pt.X pt.Y"}},
		{dir: "pos", file: "pos.go", name: "Table", lean: "table", table: true},
		{dir: "pos", file: "pos.go", name: "Local", lean: "local"},
	}
	withWhitelist(t, []string{""}, wl, func(out map[string]string, errs []error) {
		for _, e := range errs {
			t.Errorf("unexpected failure: %v", e)
		}
		src := out["Funcs.lean"]
		for _, want := range []string{
			"structure Pt where\n  X : Int\n  Y : Int\n  K : BitVec 8",
			"def tagged (k : BitVec 8) : Int :=\n  if (k == 1#8) || (k == 2#8) then",
			"def wrap (a : Int) (b : Int) : Int :=\n  (wrap8 ((wrap8 (a + b)) - (1 : Int)))",
			"def two (p : Pt) : Int × Int :=\n  (p.Y, p.X)",
			"let (x, y) := (two p)\n  (x, y)",
			"def while_loop0 : Nat → (Int × BitVec 32) → (Int × BitVec 32)",
			"def while_loop0_more (st : (Int × BitVec 32)) : Bool :=",
			"let (n, s) := while_loop0 (32) (n, s)",
			"def forever_loop0 : Nat → BitVec 32 → Option (BitVec 32)\n  | 0, _ => none",
			"def forever (s : BitVec 32) : Option (BitVec 32) :=\n  forever_loop0 (33) s",
			"def must (k : BitVec 8) : Option (BitVec 8) :=\n  if (k == 1#8) then\n    some (2#8)\n  else\n    none",
			"def view (b_Count : Int) (b_n : Int) (b_pt_X : Int) (b_pt_Y : Int) (d : Int) : Bool :=\n  let v : Int := b_Count", // pt.Y is declared but not read: still a parameter
			"def table_neg (n : Int) (i : Int) : Int :=\n  (wrap8 (-i))",
			"def table_shift (n : Int) (i : Int) : Int :=\n  (wrap8 ((table_neg n i) + (wrap8 n)))",
			"def local_abs (b : Int) (v : Int) : Int :=\n  if (decide (v < (0 : Int))) then\n    (wrap8 (-v))\n  else\n    (wrap8 ((wrap8 (v + b)) - b))",
			"def local (a : Int) (b : Int) : Int :=\n  (wrap8 ((local_abs b a) + (local_abs b b)))",
			"def table (n : Int) (k : Fin 2) (i : Int) : Int :=\n  match k with\n  | 0 => table_neg n i\n  | 1 => table_shift n i",
		} {
			if !strings.Contains(src, want) {
				t.Errorf("generated source lacks:\n%s", want)
			}
		}
		if t.Failed() {
			t.Logf("generated:\n%s", src)
		}
	})
}

func TestRejected(t *testing.T) {
	cases := []struct{ name, msg string }{
		{"DivVar", "division by something that is not a non-zero constant"},
		{"Closure", "captured by a closure and reassigned"},
		{"Break", "branch statement in switch"},
		{"AssignAbs", "assignment target"},
		{"RangeAssign", "the slice ranged over is assigned"},
		{"UndeclaredGlobal", "not among the globals declared"},
		{"BreakInSwitch", "break inside a switch"},
		{"CondPanic", "under the right operand of && / ||"},
		{"LeLoopBreak", "`<=` loop over a fixed-width variable with break / return"},
		{"Labelled", "statement *ast.LabeledStmt"},
		{"SliceHigh", "slice expression (only s[a:])"},
		{"WhileNoFuel", "no fuel given"},
		{"ElemGlobal", "not among the globals declared"},
		{"AliasAppend", "append outside `x = append(x, ...)`"},
		{"AliasCopy", "is assigned from a value that may share its backing array"},
		{"AliasParams", "could share its backing array with another slice parameter"},
		{"NoFuel", "no fuel given"},
		{"Undeclared", "not among the views declared"},
	}
	for _, c := range cases {
		wl := []fnSpec{{dir: "neg", file: "neg.go", name: "mayPanic", lean: "mayPanic"}, {dir: "neg", file: "neg.go", name: c.name, lean: "f", views: map[string]string{"b": "n"}}}
		withWhitelist(t, []string{""}, wl, func(out map[string]string, errs []error) {
			if len(errs) != 1 || !strings.Contains(errs[0].Error(), c.msg) {
				t.Errorf("%s: expected one failure mentioning %q, got %v", c.name, c.msg, errs)
			}
			if _, written := out["Funcs.lean"]; written {
				t.Errorf("%s: a group with a failed function must not be written", c.name)
			}
		})
	}
}

// TestSlices pins the second-round translation (slices.go): guards for index panics (with short-circuit operators),
// hoisted panicking calls, the loop forms, append / make / len / nil, literals, globals, `init` writing a global.
func TestSlices(t *testing.T) {
	wl := []fnSpec{
		{dir: "pos2", file: "pos2.go", name: "Get", lean: "get"},
		{dir: "pos2", file: "pos2.go", name: "Short", lean: "short"},
		{dir: "pos2", file: "pos2.go", name: "mayPanic", lean: "mayPanic"},
		{dir: "pos2", file: "pos2.go", name: "Hoist", lean: "hoist"},
		{dir: "pos2", file: "pos2.go", name: "Any", lean: "any"},
		{dir: "pos2", file: "pos2.go", name: "Same", lean: "same"},
		{dir: "pos2", file: "pos2.go", name: "Evens", lean: "evens"},
		{dir: "pos2", file: "pos2.go", name: "Down", lean: "down"},
		{dir: "pos2", file: "pos2.go", name: "UpTo", lean: "upTo"},
		{dir: "pos2", file: "pos2.go", name: "Fill", lean: "fill"},
		{dir: "pos2", file: "pos2.go", name: "Move", lean: "move"},
		{dir: "pos2", file: "pos2.go", name: "Cell", lean: "cell", globals: "table", views: map[string]string{"b": "cells"}},
		{dir: "pos2", file: "pos2.go", name: "Sum", lean: "sum"},
		{dir: "pos2", file: "pos2.go", name: "Three", lean: "three"},
		{dir: "pos2", file: "pos2.go", name: "Apply", lean: "apply"},
		{dir: "pos2", file: "pos2.go", name: "Twice", lean: "twice"},
		{dir: "pos2", file: "pos2.go", name: "Bit", lean: "bit", round2: true},
		{dir: "pos2", file: "pos2.go", name: "Iter", lean: "iter", fuel: []string{"9"}},
		{dir: "pos2", file: "pos2.go", name: "mk", lean: "mk"},
		{dir: "pos2", file: "pos2.go", name: "init", lean: "rowsInit", globals: "rows", writes: "rows"},
		{dir: "neg", file: "neg.go", name: "Shadow", lean: "shadow"},
	}
	withWhitelist(t, []string{""}, wl, func(out map[string]string, errs []error) {
		for _, e := range errs {
			t.Errorf("unexpected failure: %v", e)
		}
		src := out["Funcs.lean"]
		for _, want := range []string{
			// an index read: explicit guard, then getD
			"def get (a : Array (Int)) (i : Int) : Option (Int) :=\n  if !(decide ((0 : Int) ≤ i) && decide (i < Int.ofNat a.size)) then none else\n  some ((a.getD i.toNat (0 : Int)))",
			// `ok || a[i] > 0`: the index is only checked when ok is false
			"if (!ok && (!(decide ((0 : Int) ≤ i) && decide (i < Int.ofNat a.size)))) then none else",
			// a panicking callee is bound in front of the statement
			"def hoist (k : Int) : Option (Int) :=\n  match (mayPanic k) with\n  | none => none\n  | some tmp0 =>\n  some ((tmp0 + (1 : Int)))",
			// range with break: structural recursion over the list, break = return the state
			"def any_loop0 (m : BitVec 64) : List (BitVec 64) → Bool → Bool\n  | [], sv_ => sv_\n  | x :: tl_, sv_ =>",
			"let found := any_loop0 m (xs).toList found",
			// range with index and return: Except.error = early return
			"def same_loop0 (a : Array (BitVec 8)) (b : Array (BitVec 8)) : List (BitVec 8) → Int → Unit → Option (Except (Bool) Unit)",
			"| some (.error rv_) => some (rv_)\n  | some (.ok ()) =>\n  some (true)",
			// counted int loop with continue, append of a struct literal (missing field = zero)
			"def evens_loop0 (bnd_ : Int) : Nat → Array (Pt) → Array (Pt)",
			"let i : Int := bnd_ - Int.ofNat (fuel+1)",
			"(out.push ({ X := (wrap8 i), Y := (0 : Int) } : Pt))",
			"let out := evens_loop0 n (n - (0 : Int)).toNat out",
			// down-counting loop
			"let i : Int := bnd_ + Int.ofNat fuel",
			"match down_loop0 a (0 : Int) (((Int.ofNat a.size) - (1 : Int)) - (0 : Int) + 1).toNat s with",
			// `i <= b` over a byte never ends for b = 255
			"if b == 255#8 then none else\n  match upTo_loop0 ((b).toNat + 1) (((b).toNat + 1) - (1#8).toNat) n with",
			// make, len, nil, element assignment
			"let sq : Array (BitVec 8) := (Array.replicate n.toNat 0#8)",
			"if ((Int.ofNat sq.size) == (0 : Int)) then\n    some (#[])",
			"if !(decide (0 < sq.size)) then none else\n    let sq := sq.setIfInBounds 0 7#8",
			// field update of a struct value
			"let q : Pt := { q with X := (wrap8 (q.X + d)) }",
			// a declared global and a slice-typed view
			"def cell (g_table : Array (BitVec 64)) (b_cells : Array (BitVec 8)) (i : Nat) : Option (BitVec 64) :=\n  if !(decide (i < g_table.size)) || !(decide (i < b_cells.size)) then none else",
			// variadic call
			"def three  : Int :=\n  (sum #[(1 : Int), (2 : Int), (3 : Int)])",
			// function-typed parameter
			"def apply (f : Int → Int → (Int × Int)) (p : Pt) : Pt :=",
			"let (out_X, out_Y) := (f p.X p.Y)",
			// two variables of one name: the second gets a name of its own
			"| v_1 :: tl_, sv_ =>",
			"def shadow (a : Int) : Int :=\n  if (decide (a > (0 : Int))) then\n    let a_1 : Int := (2 : Int)\n    a_1\n  else\n    a",
			// second-round shift
			"(shl 1#64 ((Int.toNat (x % 18446744073709551616))))",
			// general loop: fuel from the whitelist, return inside
			"def iter_loop0 : Nat → (BitVec 32 × Int) → Option (Except (Int) (BitVec 32 × Int))\n  | 0, _ => none",
			"match iter_loop0 (9) (it, n) with",
			// init assigning a global: the variable is parameter and result
			"def rowsInit (g_rows : Array (Array (BitVec 32))) : Option (Array (Array (BitVec 32))) :=\n  let g_rows : Array (Array (BitVec 32)) := (Array.replicate 3 #[])",
			"let g_rows := g_rows.setIfInBounds k.toNat (mk k)",
		} {
			if !strings.Contains(src, want) {
				t.Errorf("generated source lacks:\n%s", want)
			}
		}
		if t.Failed() {
			t.Logf("generated:\n%s", src)
		}
	})
}
