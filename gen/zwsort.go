package main

import (
	"fmt"
	"go/ast"
	"go/token"
	"go/types"
	"sort"
	"strings"
)

// Work package "gen7", task 3: `(*moveGenerator).sortMoves` (ai/moves.go) - the loop that fills the scratch buffer with the history
// values is regenerated, `sort.Sort` is a declared PERMUTATION ORACLE.  Same `do` style as zw.go (round 7), without recursion:
//
//   - *a slice-typed local with tracked nil-ness*: `vs := mg.f.vals.slice` with the view `f.vals.slice.isNil` declared also defines
//     `vs_isNil`; `vs == nil` reads it; `vs = arr[:]` / `vs = make(..)` clear it, `vs = nil` sets it, any other assignment is refused.
//     The scratch buffers are INPUT views only: what the function leaves in them is not part of the result (it overwrites every
//     element it later reads).
//   - *alias structs*: `s := sortMoves{mg.ms, vs}` - a struct literal whose elements are a slice-typed assignable field of the
//     receiver or a slice-typed local.  `s` is not a value: `s.ms` IS `mg.ms` and `s.vs` IS `vs` (in Go the struct's slices share
//     their backing arrays and lengths with them; THIS ALIASING is what makes the in-place sort of `s` visible in `mg.ms`, and the
//     translation relies on it by declaration).  Refused: any later assignment to `s`, to one of its fields as a whole, or to the
//     aliased variables as a whole (the lengths would part).
//   - *`for i, m := range xs`*: `for m in xs do` with a counter; the ranged-over slice must not be assigned (as a whole or by
//     element) in the body (Go reads the elements live).
//   - *`xs[i] = v`* on a slice-typed local: `setIfInBounds` after the index guard.
//   - *call oracles* (whitelist entry `callOracles`): `sort.Sort(s)` = `mg_ms := sort_Sort mg_ms (vs.extract 0 mg_ms.size)`: the
//     oracle is given the VALUES of the declared fields and returns the new value of the field after `=`.  That the result is a
//     permutation sorted by the values is NOT part of the translation: the `fn.sortmoves` op re-checks it on every case.

var whitelist7b = []fnSpec{
	{dir: "ai", file: "moves.go", recv: "moveGenerator", name: "sortMoves", lean: "moveGeneratorSortMoves", group: "Sort", plainDo: true,
		views:       map[string]string{"mg": "ai.history f.vals.alloc f.vals.slice f.vals.slice.isNil ms"},
		mut:         map[string]string{"mg": "ms"},
		callOracles: map[string]string{"sort.Sort": "ms vs[:len(ms)] =ms"}},
}

func init() {
	for i := range whitelist7b {
		whitelist7b[i].round2 = true
		whitelist7b[i].round3 = true
		whitelist7b[i].round5 = true
		whitelist7b[i].round6 = true
		whitelist7b[i].round7 = true
	}
	whitelist = append(whitelist, whitelist7b...)
	groups = append(groups, "Sort")
	groupImportsUpTo["Sort"] = "AI"
	groupImportsExtra["Sort"] = []string{"Search"}
}

// doFunction: a function without results that assigns through its receiver, in the `do` style
func (g *generator) doFunction(p *pkgInfo, spec fnSpec, group int, fd *ast.FuncDecl) (string, *tr) {
	t := newTr(g, p, spec, group)
	t.fnBody = fd.Body
	t.opt = true
	z := &round7{ptrs: map[types.Object]*ptrVar{}, windows: map[types.Object]*windowVar{}, slocals: map[types.Object]*structLocal{},
		ifNonNil: map[types.Object]int{}, funcs: map[string]ltype{}, mdeps: map[string][]string{}, plain: true,
		nilLocal: map[types.Object]bool{}, aliases: map[types.Object]map[string]ast.Expr{}, aliasPos: map[types.Object]token.Pos{}, calls: map[string]string{}}
	t.seven = z
	t.declareGlobals()
	ps, _, _ := t.signature(fd.Recv, fd.Type)
	if t.err == nil {
		t.checkNames(fd, map[string]types.Object{})
	}
	if t.err != nil {
		return "", t
	}
	t.r6()
	if fd.Type.Results != nil && len(fd.Type.Results.List) != 0 {
		t.err2("plainDo: only functions without results")
		return "", t
	}
	var decl, lines []string
	for i, sp := range ps {
		if sp.skip {
			continue
		}
		if !sp.abstract {
			decl = append(decl, fmt.Sprintf("(%s : %s)", sp.name, sp.ty.lean()))
			lines = append(lines, fmt.Sprintf("let mut %s : %s := %s", sp.name, sp.ty.lean(), sp.name))
			continue
		}
		a := t.abs[sp.obj]
		if i != 0 || z.ai != nil {
			t.err2("plainDo: the receiver is the only abstract parameter")
			return "", t
		}
		z.ai = a
		var names []string
		for n := range a.views {
			names = append(names, n)
		}
		sort.Strings(names)
		for _, n := range names {
			if !a.input[n] {
				t.err2("assignable view %s must also be an input view", n)
				return "", t
			}
			decl = append(decl, fmt.Sprintf("(%s : %s)", n, a.views[n].ty.lean()))
			if a.mut[n] {
				z.state = append(z.state, n)
			}
		}
	}
	if z.ai == nil || len(z.state) == 0 {
		t.err2("plainDo: needs a receiver with assignable views")
		return "", t
	}
	var stateTy []string
	for _, n := range z.state {
		lines = append(lines, fmt.Sprintf("let mut %s := %s", n, n))
		stateTy = append(stateTy, z.ai.views[n].ty.lean())
	}
	body := z.block(t, fd.Body.List)
	if t.err != nil {
		return "", t
	}
	lines = append(lines, body...)
	if n := len(body); n == 0 || !strings.HasPrefix(body[n-1], "return ") {
		lines = append(lines, "return "+tuple(z.state))
	}
	var cnames []string
	for n := range z.calls {
		cnames = append(cnames, n)
	}
	sort.Strings(cnames)
	for _, n := range cnames {
		decl = append(decl, fmt.Sprintf("(%s : %s)", n, z.calls[n]))
	}
	pos := p.fset.Position(fd.Pos())
	def := fmt.Sprintf("/-- %s/%s:%d `%s` (`do` style, gen/zwsort.go) -/\n", spec.dir, spec.file, pos.Line, spec.name)
	def += fmt.Sprintf("def %s %s : Option (%s) := do\n", spec.lean, strings.Join(decl, " "), strings.Join(stateTy, " × "))
	for _, l := range lines {
		def += "  " + l + "\n"
	}
	g.done[specKey(spec)+"#do"] = &fnInfo{spec: spec, group: group, opt: true, mutParam: -1, outParam: -1}
	return def, t
}

// aliasTarget: e = `s.f` with s an alias struct: the expression the field stands for
func (z *round7) aliasTarget(t *tr, e *ast.SelectorExpr) ast.Expr {
	id, ok := e.X.(*ast.Ident)
	if !ok || len(z.aliases) == 0 {
		return nil
	}
	if m := z.aliases[t.objOf(id)]; m != nil {
		return m[e.Sel.Name]
	}
	return nil
}

// lvalKey: what an assignment target (after resolving aliases, dropping element indices) names
func (z *round7) lvalKey(t *tr, e ast.Expr) string {
	switch e := e.(type) {
	case *ast.ParenExpr:
		return z.lvalKey(t, e.X)
	case *ast.IndexExpr:
		return z.lvalKey(t, e.X)
	case *ast.Ident:
		if obj := t.objOf(e); obj != nil {
			return fmt.Sprintf("local %s@%d", e.Name, obj.Pos())
		}
	case *ast.SelectorExpr:
		if tgt := z.aliasTarget(t, e); tgt != nil {
			return z.lvalKey(t, tgt)
		}
		if root, path := selPath(e); root != nil {
			if a := t.absOf(root); a != nil {
				return "view " + viewName(a.name, path)
			}
			if z.aliases[t.objOf(root)] != nil {
				return "alias " + root.Name
			}
		}
	}
	return ""
}

// wholeAssigned: the statements of the function after `after` assign one of the keys as a whole
func (z *round7) wholeAssigned(t *tr, after token.Pos, keys map[string]bool) ast.Node {
	var bad ast.Node
	ast.Inspect(t.fnBody, func(n ast.Node) bool {
		as, ok := n.(*ast.AssignStmt)
		if !ok || as.Pos() <= after {
			return true
		}
		for _, l := range as.Lhs {
			if _, isIx := l.(*ast.IndexExpr); isIx {
				continue
			}
			if k := z.lvalKey(t, l); k != "" && keys[k] {
				bad = as
			}
		}
		return true
	})
	return bad
}

func isSliceType(ty types.Type) bool {
	_, ok := ty.Underlying().(*types.Slice)
	return ok
}

// assignSort: the assignment forms of zwsort.go
func (z *round7) assignSort(t *tr, s *ast.AssignStmt, lhs ast.Expr, lobj types.Object, rhs ast.Expr, define bool) ([]string, bool) {
	id, isId := lhs.(*ast.Ident)
	if !isId || lobj == nil {
		return nil, false
	}
	// `s := T{a, b}`: an alias struct
	if cl, ok := rhs.(*ast.CompositeLit); ok && define {
		if _, st := namedStruct(t.p.info.Types[cl].Type); st != nil && len(cl.Elts) == st.NumFields() && st.NumFields() > 0 {
			m := map[string]ast.Expr{}
			keys := map[string]bool{"alias " + id.Name: true}
			for i, el := range cl.Elts {
				name, val := st.Field(i).Name(), el
				if kv, isKV := el.(*ast.KeyValueExpr); isKV {
					name, val = kv.Key.(*ast.Ident).Name, kv.Value
				}
				tv := t.p.info.Types[val]
				if tv.Type == nil || !isSliceType(tv.Type) {
					return nil, false // an ordinary struct value
				}
				k := z.lvalKey(t, val)
				okTarget := false
				switch v := val.(type) {
				case *ast.Ident:
					okTarget = t.absOf(v) == nil && z.windows[t.objOf(v)] == nil
				case *ast.SelectorExpr:
					okTarget = strings.HasPrefix(k, "view ") && z.ai.mut[strings.TrimPrefix(k, "view ")]
				}
				if !okTarget || k == "" || z.loop > 0 {
					t.fail(val, "element of a struct literal of slices (only a slice-typed local or an assignable slice field of the receiver, outside loops)")
					return nil, true
				}
				m[name] = val
				keys[k] = true
			}
			if bad := z.wholeAssigned(t, s.End(), keys); bad != nil {
				t.fail(bad, "assignment to a slice that a struct of slices aliases (the lengths would part)")
				return nil, true
			}
			z.aliases[lobj] = m
			z.aliasPos[lobj] = s.Pos()
			return nil, true
		}
	}
	if !isSliceType(lobj.Type()) {
		return nil, false
	}
	// `vs := recv.path` with `path.isNil` declared: the nil-ness travels with the local
	if define {
		if se, ok := rhs.(*ast.SelectorExpr); ok {
			if root, path := selPath(se); root != nil {
				if a, full := t.absSel(root, path); a != nil {
					nn := viewName(a.name, append(append([]string{}, full...), "isNil"))
					if _, has := a.views[nn]; has {
						z.nilLocal[lobj] = true
						out := z.guard(t, rhs)
						out = append(out, z.store(t, lhs, t.expr(rhs), true)...)
						return append(out, fmt.Sprintf("let mut %s_isNil : Bool := %s", t.nm(id), t.view(a, append(append([]string{}, full...), "isNil"), ltype{c: tBool}))), true
					}
				}
			}
		}
		return nil, false
	}
	if !z.nilLocal[lobj] {
		return nil, false
	}
	nilv := ""
	switch r := rhs.(type) {
	case *ast.SliceExpr:
		if _, isArr := t.p.info.Types[r.X].Type.Underlying().(*types.Array); isArr && t.fullSlice(r) {
			nilv = "false"
		}
	case *ast.CallExpr:
		if fid, ok := r.Fun.(*ast.Ident); ok && fid.Name == "make" {
			if _, isB := t.p.info.Uses[fid].(*types.Builtin); isB {
				nilv = "false"
			}
		}
	case *ast.Ident:
		if t.isNilExpr(r) {
			nilv = "true"
		}
	}
	if nilv == "" {
		t.fail(s, "the nil-ness of the value assigned to %s is not known (only nil, `arr[:]`, `make`)", id.Name)
		return nil, true
	}
	out := z.guard(t, rhs)
	out = append(out, z.store(t, lhs, t.expr(rhs), false)...)
	return append(out, t.nm(id)+"_isNil := "+nilv), true
}

func (z *round7) rangeStmt(t *tr, s *ast.RangeStmt) []string {
	if s.Tok != token.DEFINE || !t.isArr(s.X) {
		t.fail(s, "range (only `for i, v := range <slice>`)")
		return nil
	}
	key := z.lvalKey(t, s.X)
	if key == "" {
		t.fail(s.X, "range over something that is not a variable / view")
		return nil
	}
	var bad ast.Node
	ast.Inspect(s.Body, func(n ast.Node) bool {
		switch n := n.(type) {
		case *ast.AssignStmt:
			for _, l := range n.Lhs {
				if z.lvalKey(t, l) == key {
					bad = n
				}
			}
		case *ast.IncDecStmt:
			if z.lvalKey(t, n.X) == key {
				bad = n
			}
		case *ast.CallExpr:
			if len(t.spec.callOracles) > 0 {
				if _, isOracle := z.callOracleKey(t, n); isOracle {
					bad = n
				}
			}
		case *ast.BranchStmt:
			if n.Tok == token.CONTINUE {
				bad = n
			}
		}
		return true
	})
	if bad != nil {
		t.fail(bad, "the body of a range loop assigns the slice ranged over, calls an oracle, or continues")
		return nil
	}
	out := z.guard(t, s.X)
	xs := t.expr(s.X)
	ctr := ""
	if kid, ok := s.Key.(*ast.Ident); ok && kid.Name != "_" {
		ctr = t.nm(kid)
		out = append(out, "let mut "+ctr+" : Int := 0")
	}
	v := "_"
	if vid, ok := s.Value.(*ast.Ident); ok && vid.Name != "_" {
		v = t.nm(vid)
	}
	out = append(out, "for "+v+" in "+xs+" do")
	z.loop++
	z.flags = append(z.flags, "")
	body := z.block(t, s.Body.List)
	z.flags = z.flags[:len(z.flags)-1]
	z.loop--
	if ctr != "" {
		body = append(body, ctr+" := "+ctr+" + 1")
	}
	return append(out, ind(body)...)
}

func (z *round7) callOracleKey(t *tr, ce *ast.CallExpr) (string, bool) {
	sel, ok := ce.Fun.(*ast.SelectorExpr)
	if !ok {
		return "", false
	}
	id, ok := sel.X.(*ast.Ident)
	if !ok {
		return "", false
	}
	pn, ok := t.p.info.Uses[id].(*types.PkgName)
	if !ok {
		return "", false
	}
	key := pn.Imported().Name() + "." + sel.Sel.Name
	_, declared := t.spec.callOracles[key]
	return key, declared
}

// callOracle: `pkg.Func(s)` with s an alias struct and a declaration `f g[:len(f)] =f`
func (z *round7) callOracle(t *tr, ce *ast.CallExpr) ([]string, bool) {
	key, ok := z.callOracleKey(t, ce)
	if !ok {
		return nil, false
	}
	if len(ce.Args) != 1 || z.loop > 0 {
		t.fail(ce, "oracle %s: one argument, outside loops", key)
		return nil, true
	}
	m := z.aliases[t.objOf(ce.Args[0])]
	if m == nil {
		t.fail(ce, "oracle %s: the argument must be a struct of slices built in this function", key)
		return nil, true
	}
	var args, tys []string
	var result ast.Expr
	var resTy string
	for _, f := range strings.Fields(t.spec.callOracles[key]) {
		if strings.HasPrefix(f, "=") {
			result = m[f[1:]]
			if result == nil {
				t.fail(ce, "oracle %s: no field %s", key, f[1:])
				return nil, true
			}
			resTy = t.typeOf(result).lean()
			continue
		}
		name, upto := f, ""
		if i := strings.Index(f, "[:len("); i > 0 && strings.HasSuffix(f, ")]") {
			name, upto = f[:i], f[i+6:len(f)-2]
		}
		tgt := m[name]
		if tgt == nil || (upto != "" && m[upto] == nil) {
			t.fail(ce, "oracle %s: declaration %q", key, f)
			return nil, true
		}
		x := t.expr(tgt)
		if upto != "" {
			x = "(" + x + ".extract 0 " + t.expr(m[upto]) + ".size)"
		}
		args = append(args, x)
		tys = append(tys, t.typeOf(tgt).lean())
	}
	if result == nil || len(args) == 0 {
		t.fail(ce, "oracle %s: declaration without arguments / result", key)
		return nil, true
	}
	name := strings.ReplaceAll(key, ".", "_")
	z.calls[name] = strings.Join(append(tys, resTy), " → ")
	return z.store(t, result, "("+name+" "+strings.Join(args, " ")+")", false), true
}
