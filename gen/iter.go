package main

import (
	"fmt"
	"go/ast"
	"go/token"
	"go/types"
	"sort"
	"strings"
)

// Sixth round of the translator (work package "gen6"): the state machine of the move generator (`ai/moves.go`:
// `moveGenerator.Reset`, `moveGenerator.Next`).
//
//   - *`break` / `continue` inside a `switch` inside a loop.*  A `break` whose innermost breakable statement is a `switch`
//     leaves that switch: it is the switch's continuation (translated again at the `break`, like every fall-through in the
//     continuation-passing translation).  A `continue` there is the enclosing loop's `continue` (as before).  A clause that ends
//     in `fallthrough` is followed by the next clause's body (mut.go), also into `default`.  Labelled branches and `goto` stay refused.
//   - *`for { … return … }`* without a `break` of its own is a general loop with whitelist fuel (`none` when it runs out); the code
//     after it is unreachable.
//   - *comma-ok map read* `v, ok = m[k]` (also `:=`, also with a field of the receiver as `v`): `mapGet` once; `v` is the
//     value or - as in Go - the ZERO VALUE when the key is absent, `ok` is `isSome`.
//   - *Oracle views* (whitelist entry `oracles`): a call of a method outside the whitelist on (a path of) an abstract parameter.
//     `p.AllMoves(s)`: one argument kind per Go argument - `v` = a value, `s` = storage.  Without value arguments the call is
//     a plain input view `mg_p_AllMoves` of the result type (a slice result has the companion view `…_isNil`); with value
//     arguments it is a parameter of FUNCTION TYPE (`mg_p_MovePreallocated : Move → Option C_Position × Bool`) applied to
//     them.  The corresponding `fn.*` op takes the function's graph from the real calls.  `sortMoves()=ms`: a call statement
//     of a method without results that (re)assigns the declared assignable path: `let mg_ms := mg_sortMoves mg_ms`.
//     Result types: translatable types as usual; `error` is the Bool "is nil" (only `== nil` / `!= nil` may be asked of it);
//     a pointer to an abstract type is `Option C_<Type>` with `C_<Type>` a TYPE PARAMETER of the generated definition, so
//     that the definition provably does nothing with such a value but hand it on (`return m, child`) and test it for nil.
//   - *Storage* (whitelist entry `storage`): field paths that hold buffers (`f.moves.slice`, `f.moves.alloc`,
//     `ai.stack[].p`).  Statements that only move buffers around (`ms := mg.f.moves.slice`, `if ms == nil { ms =
//     mg.f.moves.alloc[:] }`, `mg.f.moves.slice = ms[:]`) are skipped; a storage argument of an oracle must be `buf[:0]` (a
//     slice: nothing of the old content can reach the result) or a declared pointer path (`mg.ai.stack[mg.ply].p`, whose
//     index is guarded against the static array length like every projection).  Any other use of a buffer or of a local
//     that holds one - `len(ms)`, `ms[0]`, `AllMoves(ms)` - is refused.  As with `reuse` (mut.go), that a buffer is not
//     rewritten while a value built in it is still in use is the subject of Impl/Alloc.lean / C09, not of the translation;
//     an oracle with a storage argument may have only one call site.
//   - *nil-ness of an assignable slice field.*  A field with the declared view `<f>.isNil` that is assigned must list `<f>.isNil` as
//     assignable too: `mg.ms = <oracle>` also sets `mg_ms_isNil` from the oracle's `…_isNil`; any other assignment to it is refused
//     (a Lean Array cannot tell nil from empty, and the stale input view would be wrong).
//   - *Reads through a pointer field that may be nil.*  When `<f>.isNil` is declared for a pointer field, every read `x.f.g`
//     is guarded by it (Go's nil dereference = `none`), under `&&` / `||` conditionally like index guards.
//   - *Results beside assigned fields.*  A function with results that also assigns through its receiver returns
//     `(results…, assigned fields)`.

var whitelist6 = []fnSpec{
	// group MoveIter: ai/moves.go Reset, Next
	{dir: "ai", file: "moves.go", recv: "moveGenerator", name: "Reset", lean: "moveGeneratorReset", group: "MoveIter",
		mut: map[string]string{"mg": "i"}},
	{dir: "ai", file: "moves.go", recv: "moveGenerator", name: "Next", lean: "moveGeneratorNext", group: "MoveIter", reuse: true,
		fuel:    []string{"mg_ms.size + mg_p_AllMoves.size + 6"},
		views:   map[string]string{"mg": "ai.Cfg.NoSort ai.response ai.stack[].m depth i ms ms.isNil ply pv r te.isNil te.m"},
		mut:     map[string]string{"mg": "i ms ms.isNil r"},
		oracles: map[string]string{"mg": "p.AllMoves(s) p.MovePreallocated(v,s) sortMoves()=ms"},
		storage: map[string]string{"mg": "f.moves.slice f.moves.alloc ai.stack[].p"}},
}

// groupImportsExtra: files a group with `groupImportsUpTo` imports in addition
var groupImportsExtra = map[string][]string{"MoveIter": {"Search"}}

func init() {
	groupImportsUpTo["MoveIter"] = "AI"
}

type oracleInfo struct {
	name    string
	a       *absParam
	path    []string
	kinds   []byte  // per Go argument: 'v' / 's'
	assigns string  // view name the call statement assigns ("" = an expression)
	ty      ltype   // type of the Lean parameter
	results []ltype // result types (expression oracles)
}

type round6 struct {
	oracles   map[string]*oracleInfo
	sites     map[string]map[*ast.CallExpr]bool
	storage   map[*absParam]map[string]bool
	storLocal map[types.Object]bool
	opaqueLoc map[types.Object]bool
	errLoc    map[types.Object]bool
	opaque    map[string]bool // type parameters C_<Type>
	resMut    *absParam       // function with results that also assigns through this parameter
	resTypes  []ltype         // the Go results (without the assigned fields)
}

func (t *tr) r6() *round6 {
	if t.six == nil {
		t.six = &round6{oracles: map[string]*oracleInfo{}, sites: map[string]map[*ast.CallExpr]bool{}, storage: map[*absParam]map[string]bool{},
			storLocal: map[types.Object]bool{}, opaqueLoc: map[types.Object]bool{}, errLoc: map[types.Object]bool{}, opaque: map[string]bool{}}
	}
	return t.six
}

// opaqueOf: `*T` with T an abstract (non-translatable) named type: `Option C_T`, C_T a type parameter
func (t *tr) opaqueOf(ty types.Type) ltype {
	p, ok := ty.(*types.Pointer)
	if !ok {
		return ltype{c: tBad}
	}
	n, ok := p.Elem().(*types.Named)
	if !ok || !abstractable(ty) {
		return ltype{c: tBad}
	}
	name := "C_" + n.Obj().Name()
	t.r6().opaque[name] = true
	return ltype{c: tOpaque, sname: name}
}

func (t *tr) typeParams() string {
	if t.six == nil || len(t.six.opaque) == 0 {
		return ""
	}
	var ns []string
	for n := range t.six.opaque {
		ns = append(ns, n)
	}
	sort.Strings(ns)
	return "{" + strings.Join(ns, " ") + " : Type} "
}

// declareOracles resolves the `oracles` and `storage` declarations of an abstract parameter.
func (t *tr) declareOracles(a *absParam, ty types.Type) {
	r := t.r6()
	r.storage[a] = map[string]bool{}
	for _, ps := range strings.Fields(t.spec.storage[a.name]) {
		r.storage[a][ps] = true
	}
	for _, decl := range strings.Fields(t.spec.oracles[a.name]) {
		open, cl := strings.Index(decl, "("), strings.Index(decl, ")")
		if open < 0 || cl < open {
			t.err2("oracle %s.%s: expected path.Method(kinds)[=path]", a.name, decl)
			return
		}
		path := strings.Split(decl[:open], ".")
		var kinds []byte
		for _, k := range strings.Split(decl[open+1:cl], ",") {
			if k == "" {
				continue
			}
			if k != "v" && k != "s" {
				t.err2("oracle %s.%s: argument kind %q (v = value, s = storage)", a.name, decl, k)
				return
			}
			kinds = append(kinds, k[0])
		}
		assigns := strings.TrimPrefix(decl[cl+1:], "=")
		cur := ty
		var fn *types.Func
		for i, comp := range path {
			if p, ok := cur.(*types.Pointer); ok {
				cur = p.Elem()
			}
			var pkg *types.Package
			if n, ok := cur.(*types.Named); ok {
				pkg = n.Obj().Pkg()
			}
			obj, _, _ := types.LookupFieldOrMethod(cur, true, pkg, comp)
			switch o := obj.(type) {
			case *types.Var:
				cur = o.Type()
			case *types.Func:
				if i != len(path)-1 {
					t.err2("oracle %s.%s: method %s in the middle of the path", a.name, decl, comp)
					return
				}
				fn = o
			default:
				t.err2("oracle %s.%s: no field or method %s", a.name, decl, comp)
				return
			}
		}
		if fn == nil {
			t.err2("oracle %s.%s: not a method", a.name, decl)
			return
		}
		sig := fn.Type().(*types.Signature)
		if sig.Variadic() || sig.Params().Len() != len(kinds) {
			t.err2("oracle %s.%s: %d argument kinds for %d parameters", a.name, decl, len(kinds), sig.Params().Len())
			return
		}
		name := viewName(a.name, path)
		oi := &oracleInfo{name: name, a: a, path: path, kinds: kinds}
		var argT []ltype
		for i, k := range kinds {
			if k == 'v' {
				lt := t.ltypeOf(sig.Params().At(i).Type())
				if lt.c == tBad || lt.c == tTuple || lt.c == tFunc {
					t.err2("oracle %s.%s: value argument %d of type %s", a.name, decl, i, sig.Params().At(i).Type())
					return
				}
				argT = append(argT, lt)
			}
		}
		if assigns != "" {
			an := viewName(a.name, strings.Split(assigns, "."))
			v, ok := a.views[an]
			if !ok || !a.mut[an] || sig.Results().Len() != 0 || len(argT) != 0 {
				t.err2("oracle %s.%s: `=path` needs a method without results and value arguments and an assignable path", a.name, decl)
				return
			}
			oi.assigns = an
			oi.ty = ltype{c: tFunc, elems: []ltype{v.ty, v.ty}}
		} else {
			if sig.Results().Len() == 0 {
				t.err2("oracle %s.%s: no result", a.name, decl)
				return
			}
			for i := 0; i < sig.Results().Len(); i++ {
				rty := sig.Results().At(i).Type()
				lt := t.ltypeOf(rty)
				if isErrorType(rty) {
					lt = ltype{c: tBool}
				} else if lt.c == tBad {
					lt = t.opaqueOf(rty)
				}
				if lt.c == tBad || lt.c == tTuple || lt.c == tFunc {
					t.err2("oracle %s.%s: result type %s", a.name, decl, rty)
					return
				}
				oi.results = append(oi.results, lt)
			}
			res := oi.results[0]
			if len(oi.results) > 1 {
				res = ltype{c: tTuple, elems: oi.results}
			}
			if len(argT) == 0 {
				oi.ty = res
				if res.c == tArr && res.alen < 0 {
					nn := name + "_isNil"
					a.views[nn] = viewInfo{path: append(append([]string{}, path...), "isNil"), ty: ltype{c: tBool}}
					a.input[nn] = true
					t.mutInit[nn] = true
				}
			} else {
				oi.ty = ltype{c: tFunc, elems: append(argT, res)}
			}
		}
		if _, dup := a.views[name]; dup {
			t.err2("oracle %s.%s: the name %s is already a view", a.name, decl, name)
			return
		}
		a.views[name] = viewInfo{path: path, ty: oi.ty}
		a.input[name] = true
		t.mutInit[name] = true
		r.oracles[name] = oi
	}
}

// oracleOf: the call is one of a declared oracle
func (t *tr) oracleOf(ce *ast.CallExpr) *oracleInfo {
	if t.six == nil {
		return nil
	}
	sel, ok := ce.Fun.(*ast.SelectorExpr)
	if !ok {
		return nil
	}
	root, path := selPath(sel)
	a, full := t.absSel(root, path)
	if a == nil || len(full) == 0 {
		return nil
	}
	return t.six.oracles[viewName(a.name, full)]
}

// storagePath: e is a declared storage path of an abstract parameter (`x.f.g`, `x.arr[i].p`)
func (t *tr) storagePath(e ast.Expr) bool {
	if t.six == nil {
		return false
	}
	if p, ok := e.(*ast.ParenExpr); ok {
		return t.storagePath(p.X)
	}
	if _, ok := e.(*ast.SelectorExpr); !ok {
		return false
	}
	if root, path := selPath(e); root != nil {
		a, full := t.absSel(root, path)
		return a != nil && len(full) > 0 && t.six.storage[a][strings.Join(full, ".")]
	}
	var fields []string
	cur := e
	var ix *ast.IndexExpr
	for ix == nil {
		switch x := cur.(type) {
		case *ast.SelectorExpr:
			fields = append([]string{x.Sel.Name}, fields...)
			cur = x.X
		case *ast.ParenExpr:
			cur = x.X
		case *ast.IndexExpr:
			ix = x
		default:
			return false
		}
	}
	root, path := selPath(ix.X)
	a, full := t.absSel(root, path)
	if a == nil || len(full) == 0 || len(fields) == 0 {
		return false
	}
	p := strings.Join(full, ".") + "[]." + strings.Join(fields, ".")
	return t.six.storage[a][p]
}

func (t *tr) isStorLocal(e ast.Expr) bool {
	id, ok := e.(*ast.Ident)
	if !ok || t.six == nil {
		return false
	}
	obj := t.p.info.Uses[id]
	if obj == nil {
		obj = t.p.info.Defs[id]
	}
	return obj != nil && t.six.storLocal[obj]
}

// storageExpr: a buffer: a storage local, a storage path, or `b[:]` / `b[:0]` of one
func (t *tr) storageExpr(e ast.Expr) bool {
	switch x := e.(type) {
	case *ast.ParenExpr:
		return t.storageExpr(x.X)
	case *ast.Ident:
		return t.isStorLocal(x)
	case *ast.SelectorExpr:
		return t.storagePath(x)
	case *ast.SliceExpr:
		if x.Slice3 || x.Low != nil || x.Max != nil {
			return false
		}
		if x.High != nil {
			if tv := t.p.info.Types[x.High]; tv.Value == nil || tv.Value.ExactString() != "0" {
				return false
			}
		}
		return t.storageExpr(x.X)
	}
	return false
}

// storageArg: a storage argument of an oracle: `buf[:0]` (nothing of the old content can reach the result) or a pointer path
func (t *tr) storageArg(e ast.Expr) bool {
	if p, ok := e.(*ast.ParenExpr); ok {
		return t.storageArg(p.X)
	}
	if se, ok := e.(*ast.SliceExpr); ok {
		return se.High != nil && t.storageExpr(se)
	}
	if _, isPtr := t.p.info.Types[e].Type.(*types.Pointer); isPtr {
		return t.storagePath(e)
	}
	return false
}

// storageOnly: the statement only moves buffers around (see the head of this file); it is skipped
func (t *tr) storageOnly(s ast.Stmt) bool {
	switch s := s.(type) {
	case *ast.AssignStmt:
		if len(s.Lhs) != 1 || len(s.Rhs) != 1 || (s.Tok != token.ASSIGN && s.Tok != token.DEFINE) || !t.storageExpr(s.Rhs[0]) {
			return false
		}
		switch l := s.Lhs[0].(type) {
		case *ast.Ident:
			if s.Tok == token.DEFINE {
				if obj := t.p.info.Defs[l]; obj != nil {
					if _, isSlice := obj.Type().Underlying().(*types.Slice); isSlice {
						t.six.storLocal[obj] = true
						return true
					}
				}
				return false
			}
			return t.isStorLocal(l)
		case *ast.SelectorExpr:
			return t.storagePath(l)
		}
	case *ast.IfStmt:
		if s.Init != nil || s.Else != nil {
			return false
		}
		be, ok := s.Cond.(*ast.BinaryExpr)
		if !ok || (be.Op != token.EQL && be.Op != token.NEQ) || !t.isNilExpr(be.Y) || !t.storageExpr(be.X) {
			return false
		}
		for _, b := range s.Body.List {
			if !t.storageOnly(b) {
				return false
			}
		}
		return true
	}
	return false
}

func (t *tr) oracleExpr(ce *ast.CallExpr, oi *oracleInfo) string {
	r := t.six
	if len(ce.Args) != len(oi.kinds) {
		t.fail(ce, "oracle %s: argument count", oi.name)
		return "?"
	}
	var args []string
	hasStorage := false
	for i, k := range oi.kinds {
		if k == 's' {
			hasStorage = true
			if !t.storageArg(ce.Args[i]) {
				t.fail(ce.Args[i], "storage argument of the oracle %s must be `buf[:0]` of a declared buffer or a declared pointer path", oi.name)
				return "?"
			}
			continue
		}
		args = append(args, t.expr(ce.Args[i]))
	}
	if r.sites[oi.name] == nil {
		r.sites[oi.name] = map[*ast.CallExpr]bool{}
	}
	r.sites[oi.name][ce] = true
	if hasStorage && len(r.sites[oi.name]) > 1 && t.seven == nil {
		// (round 7 lifts this: zwSearch builds the TT-shortcut child, the null-move child and the generator's children in the one
		// frame buffer, each dead before the next is built - like every buffer question the subject of Impl/Alloc.lean / C09)
		t.fail(ce, "two call sites of the oracle %s, which is given a buffer", oi.name)
		return "?"
	}
	v := t.view(oi.a, oi.path, oi.ty)
	if len(args) == 0 {
		return v
	}
	return "(" + v + " " + strings.Join(args, " ") + ")"
}

// isNilCompanion: the view `<path>.isNil` when it is declared assignable for the assignable path of e
func (t *tr) isNilCompanion(e ast.Expr) (string, bool) {
	a, path, ok := t.mutField(e)
	if !ok {
		return "", false
	}
	n := viewName(a.name, append(append([]string{}, path...), "isNil"))
	if _, declared := a.views[n]; !declared {
		return "", false
	}
	return n, true
}

func (t *tr) localObj(e ast.Expr) types.Object {
	id, ok := e.(*ast.Ident)
	if !ok {
		return nil
	}
	if obj := t.p.info.Defs[id]; obj != nil {
		return obj
	}
	return t.p.info.Uses[id]
}

// stmt6: statements of the sixth round (called before the join-point test)
func (t *tr) stmt6(s ast.Stmt, cont func() string) (string, bool) {
	r := t.r6()
	if t.storageOnly(s) {
		return cont(), true
	}
	switch s := s.(type) {
	case *ast.ReturnStmt:
		if r.resMut == nil && !t.hasOpaqueResult() {
			return "", false
		}
		if len(s.Results) != len(r.resTypes) {
			t.fail(s, "return shape (bare return in a function of the sixth round)")
			return "?", true
		}
		var vs []string
		for i, e := range s.Results {
			if r.resTypes[i].c == tOpaque {
				switch {
				case t.isNilExpr(e):
					vs = append(vs, "none")
				case r.opaqueLoc[t.localObj(e)]:
					vs = append(vs, t.nm(e.(*ast.Ident)))
				default:
					t.fail(e, "a returned pointer to an abstract type must be nil or the result of an oracle")
					return "?", true
				}
				continue
			}
			vs = append(vs, t.expr(e))
		}
		if r.resMut != nil {
			vs = append(vs, t.mutValue(s, r.resMut))
		}
		return t.emitReturn(tuple(vs)), true
	case *ast.ExprStmt:
		ce, ok := s.X.(*ast.CallExpr)
		if !ok {
			return "", false
		}
		oi := t.oracleOf(ce)
		if oi == nil {
			return "", false
		}
		if oi.assigns == "" {
			t.fail(s, "the result of the oracle %s is dropped", oi.name)
			return "?", true
		}
		if _, hasNil := oi.a.views[oi.assigns+"_isNil"]; hasNil && !oi.a.mut[oi.assigns+"_isNil"] {
			t.fail(s, "%s is assigned, but %s_isNil is not declared assignable", oi.assigns, oi.assigns)
			return "?", true
		}
		f := t.oracleExpr(ce, oi)
		cur := t.view(oi.a, t.viewPath(oi.a, oi.assigns), oi.a.views[oi.assigns].ty)
		t.mutInit[oi.assigns] = true
		return fmt.Sprintf("let %s := %s %s\n", oi.assigns, f, cur) + cont(), true
	case *ast.AssignStmt:
		if s.Tok != token.ASSIGN && s.Tok != token.DEFINE {
			return "", false
		}
		// an assignable field with a declared nil-ness
		if len(s.Lhs) == 1 && len(s.Rhs) == 1 {
			if nn, ok := t.isNilCompanion(s.Lhs[0]); ok {
				a, path, _ := t.mutField(s.Lhs[0])
				if !a.mut[nn] {
					t.fail(s, "%s is assigned, but its nil-ness %s is not declared assignable", viewName(a.name, path), nn)
					return "?", true
				}
				name := t.lhsName(s.Lhs[0])
				var val, nilv string
				if t.isNilExpr(s.Rhs[0]) {
					val, nilv = "#[]", "true"
				} else if ce, isCall := s.Rhs[0].(*ast.CallExpr); isCall && t.oracleOf(ce) != nil && len(t.oracleOf(ce).results) == 1 {
					oi := t.oracleOf(ce)
					if _, has := oi.a.views[oi.name+"_isNil"]; !has {
						t.fail(s, "the nil-ness of the value assigned to %s is not known", name)
						return "?", true
					}
					val = t.oracleExpr(ce, oi)
					nilv = t.view(oi.a, append(append([]string{}, oi.path...), "isNil"), ltype{c: tBool})
				} else {
					t.fail(s, "the nil-ness of the value assigned to %s is not known (only nil or an oracle without value arguments)", name)
					return "?", true
				}
				t.markAssigned(s.Lhs[0])
				t.mutInit[nn] = true
				t.use(nn, ltype{c: tBool}, token.NoPos)
				return fmt.Sprintf("let %s := %s\nlet %s : Bool := %s\n", name, val, nn, nilv) + cont(), true
			}
		}
		if len(s.Rhs) != 1 {
			return "", false
		}
		// `v, ok = m[k]`
		if ix, isIx := s.Rhs[0].(*ast.IndexExpr); isIx && len(s.Lhs) == 2 && t.isMapExpr(ix.X) {
			mt := t.typeOf(ix.X)
			if mt.c != tMap {
				t.fail(s, "map type")
				return "?", true
			}
			for _, l := range s.Lhs {
				switch l.(type) {
				case *ast.Ident, *ast.SelectorExpr:
				default:
					t.fail(s, "comma-ok map read: target (only variables and assignable fields)")
					return "?", true
				}
			}
			tmp := fmt.Sprintf("tmp%d", t.ntmp)
			t.ntmp++
			out := fmt.Sprintf("let %s := mapGet %s %s\n", tmp, t.expr(ix.X), t.expr(ix.Index))
			if n := t.lhsName(s.Lhs[0]); n != "_" {
				out += fmt.Sprintf("let %s : %s := %s.getD %s\n", n, mt.elems[1].lean(), tmp, zeroOf(mt.elems[1]))
			}
			if n := t.lhsName(s.Lhs[1]); n != "_" {
				out += fmt.Sprintf("let %s : Bool := %s.isSome\n", n, tmp)
			}
			t.markAssigned(s.Lhs...)
			return out + cont(), true
		}
		// `child, e := <oracle>(..)`
		if ce, isCall := s.Rhs[0].(*ast.CallExpr); isCall && len(s.Lhs) > 1 {
			oi := t.oracleOf(ce)
			if oi == nil {
				return "", false
			}
			if len(oi.results) != len(s.Lhs) || s.Tok != token.DEFINE {
				t.fail(s, "oracle %s: its %d results must be bound by `:=`", oi.name, len(oi.results))
				return "?", true
			}
			var names []string
			for i, l := range s.Lhs {
				id, ok := l.(*ast.Ident)
				if !ok {
					t.fail(s, "oracle results must be bound to variables")
					return "?", true
				}
				names = append(names, t.lhsName(id))
				if obj := t.p.info.Defs[id]; obj != nil {
					if oi.results[i].c == tOpaque {
						r.opaqueLoc[obj] = true
					}
					if isErrorType(obj.Type()) {
						r.errLoc[obj] = true
					}
				}
			}
			return fmt.Sprintf("let %s := %s\n", tuple(names), t.oracleExpr(ce, oi)) + cont(), true
		}
	}
	return "", false
}

func (t *tr) hasOpaqueResult() bool {
	for _, lt := range t.six.resTypes {
		if lt.c == tOpaque {
			return true
		}
	}
	return false
}

func (t *tr) viewPath(a *absParam, name string) []string { return a.views[name].path }

// expr6: expressions of the sixth round
func (t *tr) expr6(e ast.Expr) (string, bool) {
	if t.six == nil {
		return "", false
	}
	switch e := e.(type) {
	case *ast.Ident:
		if t.isStorLocal(e) {
			t.fail(e, "the buffer %s used as a value", e.Name)
			return "?", true
		}
		if obj := t.localObj(e); obj != nil && (t.six.opaqueLoc[obj] || t.six.errLoc[obj]) {
			t.fail(e, "%s (a pointer / error result of an oracle) used as a value (only `return`, `== nil`)", e.Name)
			return "?", true
		}
	case *ast.SelectorExpr, *ast.SliceExpr:
		if t.storageExpr(e) {
			t.fail(e, "a buffer used as a value")
			return "?", true
		}
	case *ast.CallExpr:
		if oi := t.oracleOf(e); oi != nil {
			if oi.assigns != "" {
				t.fail(e, "the oracle %s is a statement", oi.name)
				return "?", true
			}
			return t.oracleExpr(e, oi), true
		}
	}
	return "", false
}

// binary6: nil tests of oracle results
func (t *tr) binary6(e *ast.BinaryExpr) (string, bool) {
	if t.six == nil || (e.Op != token.EQL && e.Op != token.NEQ) {
		return "", false
	}
	x, y := e.X, e.Y
	if t.isNilExpr(x) {
		x, y = y, x
	}
	if !t.isNilExpr(y) {
		return "", false
	}
	obj := t.localObj(x)
	if obj == nil {
		return "", false
	}
	id := x.(*ast.Ident)
	switch {
	case t.six.errLoc[obj]:
		if e.Op == token.EQL {
			return t.nm(id), true
		}
		return "(!" + t.nm(id) + ")", true
	case t.six.opaqueLoc[obj]:
		if e.Op == token.EQL {
			return t.nm(id) + ".isNone", true
		}
		return t.nm(id) + ".isSome", true
	}
	return "", false
}

// pcs6: Go's nil dereference when a read goes through a pointer field whose nil-ness is a declared view; oracle calls
func (t *tr) pcs6(e ast.Expr, cond bool, hoist *[]*ast.CallExpr) ([]string, bool) {
	switch e := e.(type) {
	case *ast.SelectorExpr:
		root, path := selPath(e)
		if root == nil {
			return nil, false
		}
		a, full := t.absSel(root, path)
		if a == nil {
			return nil, false
		}
		var out []string
		for k := 1; k < len(full); k++ {
			p := append(append([]string{}, full[:k]...), "isNil")
			if _, ok := a.views[viewName(a.name, p)]; ok {
				out = append(out, t.view(a, p, ltype{c: tBool}))
			}
		}
		return out, true
	case *ast.CallExpr:
		if oi := t.oracleOf(e); oi != nil {
			var out []string
			for _, arg := range e.Args {
				out = append(out, t.pcs(arg, cond, hoist)...)
			}
			return out, true
		}
	}
	return nil, false
}

// oracleWrites: the view names a statement assigns through an oracle statement / with a nil-ness companion (loop state)
func (t *tr) oracleWrites(n ast.Node, found map[string]ltype, poss map[string]token.Pos) {
	if t.six == nil {
		return
	}
	switch n := n.(type) {
	case *ast.ExprStmt:
		if ce, ok := n.X.(*ast.CallExpr); ok {
			if oi := t.oracleOf(ce); oi != nil && oi.assigns != "" {
				found[oi.assigns] = oi.a.views[oi.assigns].ty
				poss[oi.assigns] = token.NoPos
			}
		}
	case *ast.AssignStmt:
		for _, l := range n.Lhs {
			if nn, ok := t.isNilCompanion(l); ok {
				found[nn] = ltype{c: tBool}
				poss[nn] = token.NoPos
			}
		}
	}
}
