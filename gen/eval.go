package main

import (
	"fmt"
	"go/ast"
	"go/constant"
	"go/token"
	"go/types"
	"strings"
)

// Fourth round of the translator (work package "gen4"): what the evaluator and the threat detector of ai/evaluate.go need.
//
//   - *Whole-array views.*  An abstract array parameter (`ws *Weights`, `Weights = [MaxFeature]int64`) whose whitelist views
//     contain `[all]` enters as ONE parameter `ws_all : Array Int`.  `ws[K]` with a constant K is `ws_all.getD K 0` (the Go
//     compiler has checked K against the array length), `ws[e]` with a computed index is `ws_all.getD e.toNat 0` AFTER the
//     guard `0 <= e < N` with N the STATIC length of the Go array type (Go's index panic = `none`); a callee that declares
//     constant-index views (`evaluateTerminal`: `[Terminal_Flats]` ...) is given `ws_all.getD K 0` for each.
//   - *Path accessors.*  `analysis := p.Analysis()` where the accessor's body still is `return &p.analysis`: `analysis` stands
//     for the field path `p.analysis`; `analysis.WhiteGroups` is the view `p_analysis_WhiteGroups`.
//   - *Closures.*  A local closure may read views of the abstract parameters of the enclosing function (each view read becomes
//     a leading parameter of the helper), may contain loops, and may be Option-valued (index reads, general loops); calls of an
//     Option-valued closure are hoisted in front of the statement like calls of Option-valued functions.
//   - *`for { .. break .. }`* is a general loop whose condition is `true`: fuel from the whitelist, `none` when it runs out.
//   - *Out-parameters* (`outParam`): a function without results that assigns the ELEMENTS of a slice parameter
//     (`computeInfluence(c, mine, out)`) returns the parameter's final value; the call statement `f(.., x[:])` / `f(.., x)`
//     with `x` a local array / slice variable is `let x := f .. x`.  Sound because the callee neither appends to nor reassigns
//     nor passes on the parameter (so caller and callee see the same elements, and the length is unchanged) and the caller's
//     variable has no second name (checkAliasing treats it as a mutated slice).
//   - `var a [N]T` is `Array.replicate N zero`; `x[:]` is `x`; an array-typed variable assigned from another array is a copy
//     (arrays are values in Go); range over an array.

var whitelist4 = []fnSpec{
	// group Threat: ai.CountThreats (the closure countOne captures c, empty and the views Caps / Standing of p)
	{dir: "ai", file: "evaluate.go", name: "CountThreats", lean: "countThreats", group: "Threat",
		fuel:  []string{"", "", "gs.size + 65"},
		views: map[string]string{"p": "Black Caps Standing White analysis.BlackGroups analysis.WhiteGroups"}},

	// group Heur: the heuristic evaluator
	{dir: "ai", file: "evaluate.go", name: "mobility", lean: "mobility", group: "Heur",
		fuel:  []string{"height.toNat + 1", "height.toNat + 1", "height.toNat + 1", "height.toNat + 1"},
		views: map[string]string{"p": "Caps Standing"}},
	{dir: "ai", file: "evaluate.go", name: "scoreGroups", lean: "scoreGroups", group: "Heur", views: map[string]string{"ws": "[all]"}},
	{dir: "ai", file: "evaluate.go", name: "scoreThreats", lean: "scoreThreats", group: "Heur",
		views: map[string]string{"p": "Black Caps Standing White analysis.BlackGroups analysis.WhiteGroups move", "ws": "[Potential] [Threat]"}},
	{dir: "ai", file: "evaluate.go", name: "computeInfluence", lean: "computeInfluence", group: "Heur", outParam: "out",
		fuel: []string{"65", "out.size + 1"}},
	{dir: "ai", file: "evaluate.go", name: "computeControl", lean: "computeControl", group: "Heur",
		views: map[string]string{"p": "Black Caps Standing White"}},
	{dir: "ai", file: "evaluate.go", name: "scoreControl", lean: "scoreControl", group: "Heur",
		views: map[string]string{"p": "Black Caps Standing White", "ws": "[CenterControl] [EmptyControl] [FlatControl]"}},
	{dir: "ai", file: "evaluate.go", name: "evaluate", lean: "evaluate", group: "Heur",
		views: map[string]string{
			"p": "Black BlackStones Caps Height MoveNumber Size Stacks Standing White WhiteStones WinDetails analysis.BlackGroups analysis.WhiteGroups " +
				"blackCaps blackStones cfg.BlackWinsTies cfg.c.Mask hasRoad move whiteCaps whiteStones",
			"w": "[all]"}},
	{dir: "ai", file: "evaluate.go", name: "init", lean: "evalInit", group: "Heur", globals: "DefaultWeights defaultWeights overrides6", writes: "DefaultWeights"},
}

// pathAccessors: accessor methods whose whole body is `return &recv.<path>`; `x := p.M()` then makes x a name for that path.
var pathAccessors = map[string]struct{ path, body string }{
	"github.com/nelhage/taktician/tak.Position.Analysis": {"analysis", "&p.analysis"},
	"tak.Position.Analysis":                              {"analysis", "&p.analysis"},
}

type absAliasT struct {
	a    *absParam
	path []string
}

func (t *tr) isAbsAlias(id *ast.Ident) bool {
	if id == nil {
		return false
	}
	obj := t.p.info.Uses[id]
	return obj != nil && t.absAlias[obj] != nil
}

// absSel: the abstract parameter and full field path a selector chain with this root denotes (nil: not abstract)
func (t *tr) absSel(root *ast.Ident, path []string) (*absParam, []string) {
	if a := t.absOf(root); a != nil {
		return a, path
	}
	if root != nil {
		if al := t.absAlias[t.p.info.Uses[root]]; al != nil {
			return al.a, append(append([]string{}, al.path...), path...)
		}
	}
	return nil, nil
}

// pathAccessorDef recognises `x := p.M()` with M a path accessor of the abstract parameter p.
func (t *tr) pathAccessorDef(s *ast.AssignStmt) (isAlias, ok bool) {
	if s.Tok != token.DEFINE || len(s.Lhs) != 1 || len(s.Rhs) != 1 {
		return false, false
	}
	id, isId := s.Lhs[0].(*ast.Ident)
	ce, isCall := s.Rhs[0].(*ast.CallExpr)
	if !isId || !isCall || len(ce.Args) != 0 {
		return false, false
	}
	sel, isSel := ce.Fun.(*ast.SelectorExpr)
	if !isSel {
		return false, false
	}
	recv, isRecv := sel.X.(*ast.Ident)
	if !isRecv {
		return false, false
	}
	a := t.absOf(recv)
	fn, isFn := t.p.info.Uses[sel.Sel].(*types.Func)
	if a == nil || !isFn {
		return false, false
	}
	pa, listed := pathAccessors[funcKey(fn)]
	if !listed {
		return false, false
	}
	if err := t.g.checkAccessorBody(fn, pa.body); err != nil {
		t.fail(s, "%v", err)
		return true, false
	}
	// the alias must never be reassigned
	obj := t.p.info.Defs[id]
	bad := false
	if t.fnBody != nil {
		ast.Inspect(t.fnBody, func(n ast.Node) bool {
			if as, isAs := n.(*ast.AssignStmt); isAs && as.Tok != token.DEFINE {
				for _, l := range as.Lhs {
					if lid, isL := l.(*ast.Ident); isL && t.p.info.Uses[lid] == obj {
						bad = true
					}
				}
			}
			return true
		})
	}
	if bad {
		t.fail(s, "%s names a field of %s and is reassigned", id.Name, a.name)
		return true, false
	}
	t.absAlias[obj] = &absAliasT{a: a, path: strings.Split(pa.path, ".")}
	return true, true
}

// checkAccessorBody: the method's body still is the single `return <want>`
func (g *generator) checkAccessorBody(fn *types.Func, want string) error {
	dir := strings.TrimPrefix(fn.Pkg().Path(), "github.com/nelhage/taktician/")
	p, err := g.ld.load(dir)
	if err != nil {
		return err
	}
	for _, f := range p.files {
		for _, d := range f.Decls {
			fd, ok := d.(*ast.FuncDecl)
			if !ok || fd.Recv == nil || fd.Name.Name != fn.Name() || fd.Body == nil {
				continue
			}
			if p.info.Defs[fd.Name] != nil && funcKey(p.info.Defs[fd.Name].(*types.Func)) != funcKey(fn) {
				continue
			}
			if len(fd.Body.List) == 1 {
				if rs, ok := fd.Body.List[0].(*ast.ReturnStmt); ok && len(rs.Results) == 1 {
					if got := types.ExprString(rs.Results[0]); got == want {
						return nil
					} else {
						return fmt.Errorf("path accessor %s: body is `return %s`, expected `return %s`", fn.Name(), got, want)
					}
				}
			}
			return fmt.Errorf("path accessor %s: body is no longer a single return", fn.Name())
		}
	}
	return fmt.Errorf("path accessor %s: declaration not found", fn.Name())
}

// ---------------------------------------------------------------------------------------------- whole-array views

func allView(a *absParam) (viewInfo, bool) {
	v, ok := a.views[viewName(a.name, []string{"[all]"})]
	return v, ok
}

// constIndexName: the spelling a constant index has in a view path (`[Terminal_Flats]`)
func constIndexName(ix ast.Expr, v constant.Value) string {
	switch ix := ix.(type) {
	case *ast.Ident:
		return ix.Name
	case *ast.SelectorExpr:
		return ix.Sel.Name
	}
	return constant.ToInt(v).ExactString()
}

// absArrayIndex: `ws[e]` on an abstract array parameter that has the whole-array view
func (t *tr) absArrayIndex(a *absParam, e *ast.IndexExpr) (string, bool) {
	av, ok := allView(a)
	if !ok {
		return "", false
	}
	itv := t.p.info.Types[e.Index]
	et := t.typeOf(e)
	if itv.Value != nil {
		// a declared constant-index view is still read through its own parameter
		if _, own := a.views[viewName(a.name, []string{"[" + constIndexName(e.Index, itv.Value) + "]"})]; own {
			return "", false
		}
		k := constant.ToInt(itv.Value)
		if constant.Sign(k) < 0 {
			t.fail(e, "negative constant index")
			return "?", true
		}
		return "(" + t.view(a, []string{"[all]"}, av.ty) + ".getD " + k.ExactString() + " " + zeroOf(et) + ")", true
	}
	if !t.wantOpt(e) {
		return "?", true
	}
	nat, _ := t.natOf(e.Index)
	return "(" + t.view(a, []string{"[all]"}, av.ty) + ".getD " + nat + " " + zeroOf(et) + ")", true
}

// absIndexGuard: the panic condition of `ws[e]` (computed index into an abstract array with the whole-array view): the index
// is checked against the STATIC length of the Go array type
func (t *tr) absIndexGuard(e *ast.IndexExpr) ([]string, bool) {
	id, _ := e.X.(*ast.Ident)
	a := t.absOf(id)
	if a == nil {
		return nil, false
	}
	av, ok := allView(a)
	if !ok {
		return nil, false
	}
	if t.p.info.Types[e.Index].Value != nil {
		return nil, true // checked by the Go compiler
	}
	ity := t.typeOf(e.Index)
	x := t.expr(e.Index)
	n := av.ty.alen
	switch ity.c {
	case tNat:
		return []string{fmt.Sprintf("!(decide (%s < %d))", x, n)}, true
	case tBV:
		return []string{fmt.Sprintf("!(decide (%s.toNat < %d))", x, n)}, true
	case tInt:
		return []string{fmt.Sprintf("!(decide ((0 : Int) ≤ %s) && decide (%s < (%d : Int)))", x, x, n)}, true
	}
	t.fail(e, "index type")
	return nil, true
}

// viewThroughAll: the caller holds the whole array, the callee wants the constant-index view v: `ws_all.getD K 0`
func (t *tr) viewThroughAll(ab *absParam, v viewInfo, calleeDir string) (string, bool) {
	if len(v.path) != 1 || !strings.HasPrefix(v.path[0], "[") || v.path[0] == "[all]" {
		return "", false
	}
	if _, own := ab.views[viewName(ab.name, v.path)]; own {
		return "", false
	}
	av, ok := allView(ab)
	if !ok {
		return "", false
	}
	name := strings.Trim(v.path[0], "[]")
	if calleeDir != t.spec.dir {
		// the index constant is named in the callee's whitelist entry and resolved in the caller's package
		t.err2("view %s.%s of a callee in another package (%s)", ab.name, v.path[0], calleeDir)
		return "?", true
	}
	k := ""
	if c, isConst := t.p.pkg.Scope().Lookup(name).(*types.Const); isConst {
		k = constant.ToInt(c.Val()).ExactString()
	} else if _, err := fmt.Sscanf(name, "%d", new(int)); err == nil {
		k = name
	} else {
		t.err2("view %s.%s: %s is not a constant of the package", ab.name, v.path[0], name)
		return "?", true
	}
	if av.ty.elems[0].lean() != v.ty.lean() {
		t.err2("view %s.%s: element type differs from the whole-array view", ab.name, v.path[0])
		return "?", true
	}
	return "(" + t.view(ab, []string{"[all]"}, av.ty) + ".getD " + k + " " + zeroOf(v.ty) + ")", true
}

// ---------------------------------------------------------------------------------------------- small constructs

// fullSlice: `x[:]` of an array / slice
func (t *tr) fullSlice(e *ast.SliceExpr) bool {
	return e.Low == nil && e.High == nil && e.Max == nil && !e.Slice3 && t.isArr(e.X)
}

// ownBreak: the loop body contains a `break` that leaves THIS loop (not one of a nested loop; breaks inside a switch are
// rejected elsewhere)
func ownBreak(body *ast.BlockStmt) bool {
	found := false
	var walk func(n ast.Node)
	walk = func(n ast.Node) {
		ast.Inspect(n, func(n ast.Node) bool {
			switch n := n.(type) {
			case *ast.FuncLit, *ast.ForStmt, *ast.RangeStmt, *ast.SwitchStmt, *ast.SelectStmt, *ast.TypeSwitchStmt:
				return false
			case *ast.BranchStmt:
				if n.Tok == token.BREAK && n.Label == nil {
					found = true
				}
			}
			return true
		})
	}
	walk(body)
	return found
}

// isOptCall: the call's result is Option-valued on the Lean side (a whitelisted function or a local closure)
func (t *tr) isOptCall(e *ast.CallExpr) bool {
	if t.optCallee(e) != nil {
		return true
	}
	if id, ok := e.Fun.(*ast.Ident); ok {
		if ci, ok := t.closures[t.p.info.Uses[id]]; ok {
			return ci.opt
		}
	}
	return false
}

// ---------------------------------------------------------------------------------------------- out-parameters

// outCallTarget: s is a call statement of a translated function with an out-parameter; arg = the argument expression in that
// position, v = the local variable it denotes (`x` or `x[:]`)
func (t *tr) outCallTarget(s *ast.ExprStmt) (arg ast.Expr, v *ast.Ident, ok bool) {
	ce, isCall := s.X.(*ast.CallExpr)
	if !isCall {
		return nil, nil, false
	}
	var obj types.Object
	var goArgs []ast.Expr
	switch f := ce.Fun.(type) {
	case *ast.Ident:
		obj = t.p.info.Uses[f]
	case *ast.SelectorExpr:
		obj = t.p.info.Uses[f.Sel]
		if id, isId := f.X.(*ast.Ident); isId {
			if _, isPkg := t.p.info.Uses[id].(*types.PkgName); !isPkg {
				goArgs = append(goArgs, f.X)
			}
		} else {
			goArgs = append(goArgs, f.X)
		}
	}
	fn, isFn := obj.(*types.Func)
	if !isFn {
		return nil, nil, false
	}
	callee, known := t.g.done[funcKey(fn)]
	if !known || callee.outParam < 0 {
		return nil, nil, false
	}
	goArgs = append(goArgs, ce.Args...)
	if callee.outParam >= len(goArgs) {
		return nil, nil, false
	}
	arg = goArgs[callee.outParam]
	x := arg
	if se, isSlice := x.(*ast.SliceExpr); isSlice && t.fullSlice(se) {
		x = se.X
	}
	id, isId := x.(*ast.Ident)
	if !isId {
		return arg, nil, false
	}
	vobj, isVar := t.p.info.Uses[id].(*types.Var)
	if !isVar || vobj.IsField() || vobj.Parent() == t.p.pkg.Scope() || t.absOf(id) != nil {
		return arg, nil, false
	}
	return arg, id, true
}

// outCall: the call statement `f(.., x[:])` of a function with an out-parameter: `let x := f .. x`
func (t *tr) outCall(s *ast.ExprStmt, cont func() string) (string, bool) {
	ce, isCall := s.X.(*ast.CallExpr)
	if !isCall {
		return "", false
	}
	arg, v, ok := t.outCallTarget(s)
	if !ok {
		if arg != nil {
			t.fail(s, "the argument for an out-parameter must be a local slice / array variable `x` or `x[:]`")
			return "?", true
		}
		return "", false
	}
	name := t.nm(v)
	lt := t.typeOf(v)
	t.use(name, lt, t.p.info.Uses[v].Pos())
	t.hoisting = ce
	call := t.call(ce)
	t.hoisting = nil
	if callee := t.optCallee(ce); callee != nil {
		if !t.wantOpt(s) {
			return "?", true
		}
		return "match " + call + " with\n| none => none\n| some " + name + " =>\n" + cont(), true
	}
	return "let " + name + " : " + lt.lean() + " := " + call + "\n" + cont(), true
}

// checkOutParam: the out-parameter is only ever element-assigned and read (never assigned as a whole, appended to, re-sliced
// into another variable or passed on - the last three are refused by checkAliasing for every mutated slice)
func (t *tr) checkOutParam(fd *ast.FuncDecl) {
	if t.spec.outParam == "" {
		return
	}
	if fd.Type.Results != nil && len(fd.Type.Results.List) > 0 {
		t.fail(fd, "out-parameter in a function with results")
		return
	}
	elem := false
	ast.Inspect(fd.Body, func(n ast.Node) bool {
		var targets []ast.Expr
		switch n := n.(type) {
		case *ast.AssignStmt:
			targets = n.Lhs
		case *ast.IncDecStmt:
			targets = []ast.Expr{n.X}
		case *ast.FuncLit:
			return false
		}
		for _, l := range targets {
			if id, ok := l.(*ast.Ident); ok && id.Name == t.spec.outParam {
				t.fail(l, "the out-parameter %s is assigned as a whole", id.Name)
			}
			if ix, ok := l.(*ast.IndexExpr); ok {
				if id, ok := ix.X.(*ast.Ident); ok && id.Name == t.spec.outParam {
					elem = true
				}
			}
		}
		return true
	})
	if !elem && t.err == nil {
		t.fail(fd, "the out-parameter %s is never element-assigned", t.spec.outParam)
	}
}
