package main

import (
	"fmt"
	"go/ast"
	"go/token"
	"go/types"
	"sort"
	"strings"
)

// Seventh round of the translator (work package "gen7", task 2): `(*MinimaxAI).zwSearch` (ai/minimax.go), EXECUTED ONLY.
//
// The function is recursive, threads the engine state through every call and mutates frame storage through pointers, so
// this round does not go through the continuation-passing statement translation of the earlier rounds.  It emits the body
// STATEMENT BY STATEMENT in Lean's `do` notation over `Option` (`none` = Go panics / fuel exhausted):
//
//   - every Go local, every assignable view of the receiver and every assigned parameter is a `let mut` variable; Go's
//     `x = e` / `x op= e` / `x++` is `x := ..`; `if` / `else`, `return`, `break` map one to one;
//   - *recursion*: the definition takes a fuel argument first (`| 0 => none | fuel+1 => do ..`), the recursive call is
//     `zwSearch <fixed parameters> fuel ..` with the current state tuple and binds the returned (results, state);
//   - *the position*: `p *tak.Position` is a value of the TYPE PARAMETER `C_Position`; its declared views and oracles are
//     FUNCTION parameters `Position_<path> : C_Position → ..` (bound once per call: `let p_Height := Position_Height p`), so
//     the children handed on by `MovePreallocated` can be searched;
//   - *calls of regenerated functions that assign through the receiver* (`ttPut`, `recordCut`, `moveGenerator.Next` / `Reset`):
//     every input view of the callee is resolved in the caller (a view of `ai`, a field of the flattened generator, a
//     function view applied to the position), the returned tuple is assigned back;
//   - *general `for init; cond; post`* loops: `for _ in [0:fuel]` (whitelist fuel) with a flag that is cleared when the loop
//     ends by its condition or a `break`; the flag still set = fuel exhausted = `none`;
//   - *pointers into declared array views* (`te`): `Option Nat` (the index), with the view they point into tracked statically
//     in textual order; retargeting (`te = &ai.stack[ply].te`) only as a statement of an `if te != nil {..}` outside loops;
//     reads, `*te`, and field writes go through the CURRENT value of the view;
//   - *a struct reached through a storage pointer* (`mg := &ai.stack[ply].mg; *mg = moveGenerator{..}`): flattened into locals
//     `mg_<field>` at the whole-struct assignment (a read before it is refused); pointer fields to the receiver / the frame
//     are bindings, not values;
//   - *windows onto a frame array* (`best := ai.stack[ply].pv[:0]`): the local is its LENGTH, every read goes through the
//     frame array (so the stale element `best[:1]` exposes is the real one), `append(best[:0], m)` / `append(best, ms...)`
//     write through (an append beyond the array's capacity would detach the slice: `none`);
//   - *a function-typed field* (`ai.evaluate(&ai.c, p)`): a function parameter `ai_evaluate : C_Position → Int`;
//   - `atomic.LoadInt32(ai.cancel)` is the ONE input view `ai_cancel_load` at every load (assumption: the flag does not
//     change during the call); statements under the declared condition `assumeFalse` (`ai.Cfg.Debug > 4+ply`: logging) are skipped.
//
// Slices handed to / returned from the recursive call (`pv`, `ms`) have value semantics (Go: they alias the frame arrays of
// the neighbouring ply, which are not written between the hand-over and the last read).

var whitelist7 = []fnSpec{
	{dir: "ai", file: "minimax.go", recv: "MinimaxAI", name: "zwSearch", lean: "zwSearch", group: "Zw", reuse: true,
		fuel: []string{"8", "p_AllMoves.size + 8"},
		views: map[string]string{
			"ai": "Cfg.MultiCut Cfg.NoNullMove Cfg.NoReduceSlides Cfg.NoSort c.Size cancel.load history history.isNil response response.isNil st stack[].m stack[].pv stack[].te table table.isNil",
			"p":  "Black BlackStones Height Stacks White WhiteStones"},
		mut:         map[string]string{"ai": "history response st stack[].m stack[].pv stack[].te table"},
		oracles:     map[string]string{"p": "GameOver() Hash() AllMoves(s) MovePreallocated(v,s)"},
		storage:     map[string]string{"ai": "stack[].p stack[].mg"},
		funcFields:  map[string]string{"ai": "evaluate"},
		methodDeps:  map[string]string{"mg.sortMoves": "ai.history"},
		assumeFalse: "ai.Cfg.Debug > 4 + ply"},
}

const prelude7 = `/-- ` + "`append(w, xs...)`" + ` into the array a window ` + "`w`" + ` of length ` + "`at`" + ` lies on (gen/zw.go) -/
def zwWrite {α : Type} (row : Array α) (at_ : Nat) (xs : Array α) : Array α :=
  (xs.foldl (fun (acc : Array α × Nat) x => (acc.1.setIfInBounds acc.2 x, acc.2 + 1)) (row, at_)).1

`

func init() {
	for i := range whitelist7 {
		whitelist7[i].round2 = true
		whitelist7[i].round3 = true
		whitelist7[i].round5 = true
		whitelist7[i].round6 = true
		whitelist7[i].round7 = true
	}
	whitelist = append(whitelist, whitelist7...)
	groups = append(groups, "Zw")
	groupImportsUpTo["Zw"] = "AI"
	groupImportsExtra["Zw"] = []string{"Search", "MoveIter"}
}

type ptrVar struct {
	view string // Lean name of the array view it points into ("" = not yet given a target)
	elem ltype
}

type windowVar struct {
	view, idx, row string
	cap           int
	elem          ltype
	lenVar        string
}

type structLocal struct {
	name  string
	kind  map[string]string // field -> abs / opaque / ptr / val / storage
	abs   map[string]*absParam
	ptr   map[string]*ptrVar
	names map[string]bool // declared Lean names
	init  bool
}

type round7 struct {
	ptrs     map[types.Object]*ptrVar
	windows  map[types.Object]*windowVar
	slocals  map[types.Object]*structLocal
	ifNonNil map[types.Object]int
	loop     int
	flags    []string
	posts    []ast.Stmt
	nloop    int
	self     types.Object
	pos      *absParam
	posObj   types.Object
	ai       *absParam
	fixed    []string // names of the fixed parameters
	state    []string // names of the state variables (sorted)
	funcs    map[string]ltype
	mdeps    map[string][]string
	// zwsort.go: functions without recursion / position
	plain    bool
	nilLocal map[types.Object]bool                 // slice-typed locals whose nil-ness is tracked in `<name>_isNil`
	aliases  map[types.Object]map[string]ast.Expr // `s := T{a, b}`: the slice-typed fields of s ARE a and b (shared backing arrays)
	aliasPos map[types.Object]token.Pos
	calls    map[string]string // call oracles used: Lean parameter name -> its type
}

// ------------------------------------------------------------------------------------------------ hooks

func (t *tr) objOf(e ast.Expr) types.Object {
	if p, ok := e.(*ast.ParenExpr); ok {
		return t.objOf(p.X)
	}
	id, ok := e.(*ast.Ident)
	if !ok {
		return nil
	}
	if o := t.p.info.Defs[id]; o != nil {
		return o
	}
	return t.p.info.Uses[id]
}

func (t *tr) ptrRead(pv *ptrVar, name string, at ast.Node) string {
	if pv.view == "" {
		t.fail(at, "read through the pointer %s before it is given a target", name)
		return "?"
	}
	return "(" + pv.view + ".getD (" + name + ".getD 0) " + zeroOf(pv.elem) + ")"
}

// projRow: e = `x.arr[i].f` naming a whole element of a declared projection view: (view, index as Nat, element type)
func (t *tr) projRow(e ast.Expr) (string, string, ltype, bool) {
	if _, isSel := e.(*ast.SelectorExpr); !isSel {
		return "", "", ltype{}, false
	}
	name, vi, ix, rest, ok := t.projParts(e)
	if !ok || ix == nil || len(rest) != 0 {
		return "", "", ltype{}, false
	}
	nat, _ := t.natOf(ix.Index)
	return name, nat, vi.ty.elems[0], true
}

func (t *tr) expr7(e ast.Expr) (string, bool) {
	z := t.seven
	switch e := e.(type) {
	case *ast.Ident:
		obj := t.objOf(e)
		if obj == nil {
			return "", false
		}
		if w := z.windows[obj]; w != nil {
			return "(" + w.row + ".extract 0 " + w.lenVar + ")", true
		}
		if z.ptrs[obj] != nil {
			t.fail(e, "the pointer %s used as a value (only `p.f`, `*p`, `p == nil`, `p = nil`, `p = &view[i].f`)", e.Name)
			return "?", true
		}
		if z.slocals[obj] != nil {
			t.fail(e, "the struct %s (reached through a storage pointer) used as a value", e.Name)
			return "?", true
		}
	case *ast.SelectorExpr:
		if tgt := z.aliasTarget(t, e); tgt != nil {
			return t.expr(tgt), true
		}
		root, path := selPath(e)
		if root != nil {
			if pv := z.ptrs[t.objOf(root)]; pv != nil {
				out := t.ptrRead(pv, t.nm(root), e)
				for _, f := range path {
					out += "." + safe(f)
				}
				return out, true
			}
			// a field of a struct-typed view of the receiver
			if a := t.absOf(root); a != nil && a == z.ai && len(path) > 1 {
				if _, direct := a.views[viewName(a.name, path)]; !direct {
					for k := len(path) - 1; k >= 1; k-- {
						pn := viewName(a.name, path[:k])
						if pv, ok := a.views[pn]; ok && pv.ty.c == tStruct {
							return pn + "." + strings.Join(path[k:], "."), true
						}
					}
				}
			}
		}
	case *ast.StarExpr:
		if pv := z.ptrs[t.objOf(e.X)]; pv != nil {
			return t.ptrRead(pv, t.nm(e.X.(*ast.Ident)), e), true
		}
	case *ast.SliceExpr:
		if view, idx, ety, ok := t.projRow(e.X); ok && ety.c == tArr && ety.alen > 0 && e.Low == nil && e.High != nil && !e.Slice3 {
			hi, _ := t.natOf(e.High)
			return "((" + view + ".getD " + idx + " " + zeroOf(ety) + ").extract 0 " + hi + ")", true
		}
	case *ast.CallExpr:
		if callee, ok := t.ptrArgCall(e); ok {
			// `f(te, ..)` with a read-only `*T` parameter translated as the value: the current value behind the pointer
			var args []string
			for _, arg := range e.Args {
				if pv := z.ptrs[t.objOf(arg)]; pv != nil {
					args = append(args, t.ptrRead(pv, t.nm(arg.(*ast.Ident)), arg))
					continue
				}
				args = append(args, t.expr(arg))
			}
			return "(" + callee.spec.lean + " " + strings.Join(args, " ") + ")", true
		}
		if a, path, ok := t.atomicLoad(e); ok {
			return t.view(a, append(append([]string{}, path...), "load"), ltype{c: tInt, width: 32}), true
		}
		if name, ok := t.funcField(e); ok {
			var args []string
			for _, arg := range e.Args {
				if id, isId := arg.(*ast.Ident); isId && t.objOf(id) == z.posObj {
					args = append(args, t.nm(id))
					continue
				}
				if ue, isU := arg.(*ast.UnaryExpr); isU && ue.Op == token.AND {
					if root, _ := selPath(ue.X); root != nil && t.absOf(root) == z.ai {
						continue // a pointer to a field of the receiver: fixed per engine, part of the function parameter
					}
				}
				t.fail(arg, "argument of the function field %s (only the position and `&recv.field`)", name)
				return "?", true
			}
			return "(" + name + " " + strings.Join(args, " ") + ")", true
		}
	}
	return "", false
}

// funcField: the call is `recv.f(..)` with f a declared function-typed field of the receiver
func (t *tr) funcField(e *ast.CallExpr) (string, bool) {
	sel, ok := e.Fun.(*ast.SelectorExpr)
	if !ok {
		return "", false
	}
	root, path := selPath(sel)
	if root == nil || len(path) != 1 {
		return "", false
	}
	a := t.absOf(root)
	if a == nil {
		return "", false
	}
	name := viewName(a.name, path)
	if _, ok := t.seven.funcs[name]; !ok {
		return "", false
	}
	return name, true
}

func (t *tr) binary7(e *ast.BinaryExpr) (string, bool) {
	if e.Op != token.EQL && e.Op != token.NEQ {
		return "", false
	}
	x, y := e.X, e.Y
	if t.isNilExpr(x) {
		x, y = y, x
	}
	if !t.isNilExpr(y) {
		return "", false
	}
	if pv := t.seven.ptrs[t.objOf(x)]; pv != nil {
		if e.Op == token.EQL {
			return t.nm(x.(*ast.Ident)) + ".isNone", true
		}
		return t.nm(x.(*ast.Ident)) + ".isSome", true
	}
	if obj := t.objOf(x); obj != nil && t.seven.nilLocal[obj] {
		if e.Op == token.EQL {
			return t.nm(x.(*ast.Ident)) + "_isNil", true
		}
		return "(!" + t.nm(x.(*ast.Ident)) + "_isNil)", true
	}
	return "", false
}

func (t *tr) rangeGuard(ix *ast.IndexExpr, alen int) []string {
	x := t.expr(ix.Index)
	switch ity := t.typeOf(ix.Index); ity.c {
	case tNat:
		return []string{fmt.Sprintf("!(decide (%s < %d))", x, alen)}
	case tBV:
		return []string{fmt.Sprintf("!(decide (%s.toNat < %d))", x, alen)}
	case tInt:
		return []string{fmt.Sprintf("!(decide ((0 : Int) ≤ %s) && decide (%s < (%d : Int)))", x, x, alen)}
	}
	t.fail(ix, "index type")
	return nil
}

func (t *tr) pcs7(e ast.Expr, cond bool, hoist *[]*ast.CallExpr) ([]string, bool) {
	z := t.seven
	switch e := e.(type) {
	case *ast.Ident:
		if obj := t.objOf(e); obj != nil && z.windows[obj] != nil {
			return nil, true
		}
	case *ast.SelectorExpr:
		if tgt := z.aliasTarget(t, e); tgt != nil {
			return t.pcs(tgt, cond, hoist), true
		}
		root, _ := selPath(e)
		if root != nil {
			if pv := z.ptrs[t.objOf(root)]; pv != nil {
				return []string{t.nm(root) + ".isNone"}, true // Go's nil dereference
			}
		}
	case *ast.StarExpr:
		if pv := z.ptrs[t.objOf(e.X)]; pv != nil {
			return []string{t.nm(e.X.(*ast.Ident)) + ".isNone"}, true
		}
	case *ast.SliceExpr:
		if _, _, ety, ok := t.projRow(e.X); ok && ety.c == tArr && ety.alen > 0 && e.Low == nil && e.High != nil && !e.Slice3 {
			out := t.pcs(e.X, cond, hoist)
			hi, _ := t.natOf(e.High)
			return append(out, fmt.Sprintf("!(decide (%s ≤ %d))", hi, ety.alen)), true
		}
	case *ast.CallExpr:
		if _, ok := t.funcField(e); ok {
			return nil, true
		}
		if _, ok := t.ptrArgCall(e); ok {
			var out []string
			for _, arg := range e.Args {
				if pv := z.ptrs[t.objOf(arg)]; pv != nil {
					out = append(out, t.nm(arg.(*ast.Ident))+".isNone")
					continue
				}
				out = append(out, t.pcs(arg, cond, hoist)...)
			}
			return out, true
		}
	}
	return nil, false
}

// ptrArgCall: a call of a plain regenerated function (no receiver, total, no globals) with a pointer into a view among its arguments
func (t *tr) ptrArgCall(e *ast.CallExpr) (*fnInfo, bool) {
	id, ok := e.Fun.(*ast.Ident)
	if !ok {
		return nil, false
	}
	fn, ok := t.p.info.Uses[id].(*types.Func)
	if !ok {
		return nil, false
	}
	callee, ok := t.g.done[funcKey(fn)]
	if !ok || callee.opt || len(callee.globals) != 0 || callee.variadic || len(callee.params) != len(e.Args) {
		return nil, false
	}
	has := false
	for i, arg := range e.Args {
		if callee.params[i].abstract || callee.params[i].skip {
			return nil, false
		}
		if t.seven.ptrs[t.objOf(arg)] != nil {
			has = true
		}
	}
	return callee, has
}

// ------------------------------------------------------------------------------------------------ the function

func ind(lines []string) []string {
	out := make([]string, len(lines))
	for i, l := range lines {
		out[i] = "  " + l
	}
	return out
}

func (g *generator) zwFunction(p *pkgInfo, spec fnSpec, group int, fd *ast.FuncDecl) (string, *tr) {
	t := newTr(g, p, spec, group)
	t.fnBody = fd.Body
	t.opt = true
	z := &round7{ptrs: map[types.Object]*ptrVar{}, windows: map[types.Object]*windowVar{}, slocals: map[types.Object]*structLocal{},
		ifNonNil: map[types.Object]int{}, funcs: map[string]ltype{}, mdeps: map[string][]string{},
		nilLocal: map[types.Object]bool{}, aliases: map[types.Object]map[string]ast.Expr{}, aliasPos: map[types.Object]token.Pos{}, calls: map[string]string{}}
	t.seven = z
	z.self = p.info.Defs[fd.Name]
	t.declareGlobals()
	ps, _, _ := t.signature(fd.Recv, fd.Type)
	if t.err == nil {
		t.checkNames(fd, map[string]types.Object{})
	}
	if t.err != nil {
		return "", t
	}
	// the receiver and the position
	var plain []sigParam
	for i, sp := range ps {
		switch {
		case sp.abstract && i == 0:
			z.ai = t.abs[sp.obj]
		case sp.abstract && z.pos == nil:
			if t.opaqueOf(sp.obj.Type()).c != tOpaque {
				t.err2("parameter %s: not a pointer to an abstract type", sp.name)
				return "", t
			}
			z.pos, z.posObj = t.abs[sp.obj], sp.obj
		case sp.abstract:
			t.err2("a second abstract parameter %s", sp.name)
			return "", t
		default:
			plain = append(plain, sp)
		}
	}
	if z.ai == nil || z.pos == nil {
		t.err2("round 7 needs a receiver and one position parameter")
		return "", t
	}
	cpos := t.opaqueOf(z.posObj.Type()).sname
	// function-typed fields of the receiver
	for _, f := range strings.Fields(spec.funcFields[z.ai.name]) {
		recvT := p.info.Defs[fd.Recv.List[0].Names[0]].Type()
		obj, _, _ := types.LookupFieldOrMethod(recvT, true, p.pkg, f)
		v, ok := obj.(*types.Var)
		if !ok {
			t.err2("function field %s: no such field", f)
			return "", t
		}
		sig, ok := v.Type().Underlying().(*types.Signature)
		if !ok || sig.Results().Len() != 1 {
			t.err2("function field %s: not a function with one result", f)
			return "", t
		}
		rt := t.ltypeOf(sig.Results().At(0).Type())
		if rt.c == tBad {
			t.err2("function field %s: result type", f)
			return "", t
		}
		z.funcs[viewName(z.ai.name, []string{f})] = rt
	}
	for k, v := range spec.methodDeps {
		z.mdeps[k] = strings.Fields(v)
	}
	// fixed parameters, state
	var fixedDecl []string
	var names []string
	for n := range z.ai.views {
		names = append(names, n)
	}
	sort.Strings(names)
	var stateTy []string
	for _, n := range names {
		v := z.ai.views[n]
		if z.ai.mut[n] {
			if !z.ai.input[n] {
				t.err2("assignable view %s must also be an input view", n)
				return "", t
			}
			z.state = append(z.state, n)
			stateTy = append(stateTy, v.ty.lean())
			continue
		}
		z.fixed = append(z.fixed, n)
		fixedDecl = append(fixedDecl, fmt.Sprintf("(%s : %s)", n, v.ty.lean()))
	}
	var fnames []string
	for n := range z.funcs {
		fnames = append(fnames, n)
	}
	sort.Strings(fnames)
	for _, n := range fnames {
		z.fixed = append(z.fixed, n)
		fixedDecl = append(fixedDecl, fmt.Sprintf("(%s : %s → %s)", n, cpos, z.funcs[n].lean()))
	}
	var pnames []string
	for n := range z.pos.views {
		pnames = append(pnames, n)
	}
	sort.Strings(pnames)
	var lines []string
	for _, n := range pnames {
		fn := posFn(z.pos, n)
		z.fixed = append(z.fixed, fn)
		ty := z.pos.views[n].ty.lean()
		fixedDecl = append(fixedDecl, fmt.Sprintf("(%s : %s → %s)", fn, cpos, ty))
		lines = append(lines, fmt.Sprintf("let %s := %s %s", n, fn, z.pos.name))
	}
	// the method oracles of flattened structs: their type is taken from the callee when the call is translated
	var mnames []string
	for k := range z.mdeps {
		mnames = append(mnames, k)
	}
	sort.Strings(mnames)
	mdeclAt := len(fixedDecl)
	for _, k := range mnames {
		z.fixed = append(z.fixed, strings.ReplaceAll(k, ".", "_"))
		fixedDecl = append(fixedDecl, "")
	}
	var argTy, argPat []string
	argTy = append(argTy, cpos)
	argPat = append(argPat, z.pos.name)
	for _, sp := range plain {
		argTy = append(argTy, sp.ty.lean())
		argPat = append(argPat, sp.name)
		lines = append(lines, fmt.Sprintf("let mut %s : %s := %s", sp.name, sp.ty.lean(), sp.name))
	}
	for _, n := range z.state {
		lines = append(lines, fmt.Sprintf("let mut %s := %s", n, n))
	}
	// results
	var resTy []string
	for _, fl := range fd.Type.Results.List {
		lt := t.ltypeOf(p.info.Types[fl.Type].Type)
		if lt.c == tBad || len(fl.Names) != 0 {
			t.fail(fl, "result (unnamed, translatable types only)")
			return "", t
		}
		resTy = append(resTy, lt.lean())
	}
	body := z.block(t, fd.Body.List)
	if t.err != nil {
		return "", t
	}
	lines = append(lines, body...)
	if n := len(body); n == 0 || !strings.HasPrefix(body[n-1], "return ") {
		lines = append(lines, "none") // control cannot reach the end of a function with results
	}
	for i, k := range mnames {
		ty, ok := z.funcs["#"+k]
		if !ok {
			t.err2("method oracle %s is never called", k)
			return "", t
		}
		var deps []string
		for _, d := range z.mdeps[k] {
			root, path := splitDep(d)
			if root != z.ai.name {
				t.err2("method oracle %s: dependency %s (only views of the receiver)", k, d)
				return "", t
			}
			v, ok := z.ai.views[viewName(root, path)]
			if !ok {
				t.err2("method oracle %s: dependency %s is not a declared view", k, d)
				return "", t
			}
			deps = append(deps, v.ty.lean())
		}
		fixedDecl[mdeclAt+i] = fmt.Sprintf("(%s : %s → %s)", strings.ReplaceAll(k, ".", "_"), strings.Join(deps, " → "), ty.lean())
	}
	stateT := "(" + strings.Join(stateTy, " × ") + ")"
	resT := "((" + strings.Join(resTy, " × ") + ") × " + stateT + ")"
	pos := p.fset.Position(fd.Pos())
	def := fmt.Sprintf("/-- %s/%s:%d `%s` (executed only: recursion on fuel, the engine state threaded through; gen/zw.go) -/\n", spec.dir, spec.file, pos.Line, spec.name)
	def += fmt.Sprintf("def %s {%s : Type} %s : Nat → %s → %s → Option %s\n", spec.lean, cpos, strings.Join(fixedDecl, " "), strings.Join(argTy, " → "), stateT, resT)
	under := make([]string, len(argPat)+1)
	for i := range under {
		under[i] = "_"
	}
	def += "  | 0, " + strings.Join(under, ", ") + " => none\n"
	def += "  | fuel+1, " + strings.Join(argPat, ", ") + ", (" + strings.Join(z.state, ", ") + ") => do\n"
	for _, l := range lines {
		def += "    " + l + "\n"
	}
	g.done[specKey(spec)] = &fnInfo{spec: spec, group: group, opt: true, mutParam: -1, outParam: -1}
	return def, t
}

func posFn(a *absParam, view string) string { return "Position_" + strings.TrimPrefix(view, a.name+"_") }

func splitDep(d string) (string, []string) {
	parts := strings.Split(d, ".")
	return parts[0], parts[1:]
}

func (z *round7) stateTuple() string { return "(" + strings.Join(z.state, ", ") + ")" }

func (z *round7) block(t *tr, ss []ast.Stmt) []string {
	var out []string
	for _, s := range ss {
		if t.err != nil {
			return nil
		}
		out = append(out, z.stmt(t, s)...)
	}
	if len(out) == 0 {
		out = []string{"pure ()"}
	}
	return out
}

// guard: the do-lines that make the evaluation of es safe (panic conditions, then the Option-valued calls bound to temporaries)
func (z *round7) guard(t *tr, es ...ast.Expr) []string {
	var hoist []*ast.CallExpr
	var conds []string
	for _, e := range es {
		if e != nil {
			conds = append(conds, t.pcs(e, false, &hoist)...)
		}
	}
	var out []string
	seen := map[string]bool{}
	var cs []string
	for _, c := range conds {
		if !seen[c] {
			seen[c] = true
			cs = append(cs, c)
		}
	}
	if len(cs) > 0 {
		out = append(out, "if "+strings.Join(cs, " || ")+" then none")
	}
	for _, ce := range hoist {
		if _, done := t.hoisted[ce]; done {
			continue
		}
		t.hoisting = ce
		call := t.call(ce)
		t.hoisting = nil
		name := fmt.Sprintf("tmp%d", t.ntmp)
		t.ntmp++
		t.hoisted[ce] = name
		out = append(out, "let "+name+" ← "+call)
	}
	return out
}

func one(lt ltype) string {
	if lt.c == tBV {
		return fmt.Sprintf("1#%d", lt.width)
	}
	return "1"
}

// target: the do-lines that store the Lean term v (of the type of l) into the Go assignment target l
func (z *round7) store(t *tr, l ast.Expr, v string, define bool) []string {
	if se, ok := l.(*ast.SelectorExpr); ok {
		if tgt := z.aliasTarget(t, se); tgt != nil {
			return z.store(t, tgt, v, false)
		}
	}
	if ix, ok := l.(*ast.IndexExpr); ok {
		x := ix.X
		if se, isSel := x.(*ast.SelectorExpr); isSel {
			if tgt := z.aliasTarget(t, se); tgt != nil {
				x = tgt
			}
		}
		// `xs[i] = v` on a slice-typed local
		if id, isId := x.(*ast.Ident); isId && t.absOf(id) == nil && z.windows[t.objOf(id)] == nil && !t.isMapExpr(id) {
			if lt := t.ltypeOf(t.objOf(id).Type()); lt.c == tArr {
				k, _ := t.natOf(ix.Index)
				return []string{fmt.Sprintf("%s := %s.setIfInBounds %s %s", t.nm(id), t.nm(id), k, v)}
			}
		}
	}
	switch l := l.(type) {
	case *ast.ParenExpr:
		return z.store(t, l.X, v, define)
	case *ast.Ident:
		if l.Name == "_" {
			return nil
		}
		obj := t.objOf(l)
		if t.absOf(l) != nil || z.windows[obj] != nil || z.slocals[obj] != nil {
			break
		}
		if define && t.p.info.Defs[l] != nil {
			if _, isPtr := obj.Type().(*types.Pointer); isPtr && z.ptrs[obj] == nil && !t.six.opaqueLoc[obj] {
				break
			}
			if lt := t.ltypeOf(obj.Type()); lt.c != tBad && z.ptrs[obj] == nil {
				return []string{fmt.Sprintf("let mut %s : %s := %s", t.nm(l), lt.lean(), v)}
			}
			return []string{fmt.Sprintf("let mut %s := %s", t.nm(l), v)}
		}
		return []string{fmt.Sprintf("%s := %s", t.nm(l), v)}
	case *ast.SelectorExpr:
		root, path := selPath(l)
		if root != nil {
			// a field of the receiver (through a struct-typed view), or a field behind a pointer into a view
			if a := t.absOf(root); a != nil && a == z.ai {
				if line, ok := z.absStore(t, a, path, v); ok {
					return []string{line}
				}
				break
			}
			if pv := z.ptrs[t.objOf(root)]; pv != nil && len(path) == 1 {
				if pv.view == "" {
					break
				}
				ix := "(" + t.nm(root) + ".getD 0)"
				return []string{"if " + t.nm(root) + ".isNone then none",
					fmt.Sprintf("%s := %s.setIfInBounds %s { (%s.getD %s %s) with %s := %s }", pv.view, pv.view, ix, pv.view, ix, zeroOf(pv.elem), safe(path[0]), v)}
			}
			break
		}
		// `recv.arr[i].f = v`
		if view, idx, _, ok := t.projRow(l); ok && z.ai.mut[view] {
			return []string{fmt.Sprintf("%s := %s.setIfInBounds %s %s", view, view, idx, v)}
		}
	case *ast.IndexExpr:
		// `recv.arr[i].f[k] = v`
		if view, idx, ety, ok := t.projRow(l.X); ok && z.ai.mut[view] && ety.c == tArr && ety.alen > 0 {
			k, _ := t.natOf(l.Index)
			return []string{fmt.Sprintf("%s := %s.setIfInBounds %s ((%s.getD %s %s).setIfInBounds %s %s)", view, view, idx, view, idx, zeroOf(ety), k, v)}
		}
	}
	t.fail(l, "assignment target")
	return nil
}

// absStore: `recv.path = v` with the path an assignable view or a field of an assignable struct-typed view
func (z *round7) absStore(t *tr, a *absParam, path []string, v string) (string, bool) {
	name := viewName(a.name, path)
	if a.mut[name] {
		return name + " := " + v, true
	}
	for k := len(path) - 1; k >= 1; k-- {
		pn := viewName(a.name, path[:k])
		if pv, ok := a.views[pn]; ok && a.mut[pn] && pv.ty.c == tStruct && k == len(path)-1 {
			return fmt.Sprintf("%s := { %s with %s := %s }", pn, pn, safe(path[k]), v), true
		}
	}
	return "", false
}

// absRead: the callee's view `path` of the caller's abstract parameter a
func (z *round7) absRead(t *tr, a *absParam, path []string) string {
	name := viewName(a.name, path)
	if _, ok := a.views[name]; ok {
		return name
	}
	if fn, ok := z.funcs[name]; ok {
		_ = fn
		return name
	}
	for k := len(path) - 1; k >= 1; k-- {
		pn := viewName(a.name, path[:k])
		if pv, ok := a.views[pn]; ok && pv.ty.c == tStruct {
			return pn + "." + strings.Join(path[k:], ".")
		}
	}
	t.err2("a callee reads %s.%s, which is not among the views declared for %s", a.name, strings.Join(path, "."), t.spec.name)
	return "?"
}

type binding struct {
	a      *absParam    // an abstract parameter of the caller (receiver or position)
	opaque string       // a Lean term of the position type
	sl     *structLocal // a flattened struct
}

func (z *round7) resolve(t *tr, b binding, path []string) string {
	switch {
	case b.opaque != "":
		n := viewName(z.pos.name, path)
		if _, ok := z.pos.views[n]; !ok {
			t.err2("a callee reads the position's %s, which is not among the views / oracles declared for %s", strings.Join(path, "."), t.spec.name)
			return "?"
		}
		return "(" + posFn(z.pos, n) + " " + b.opaque + ")"
	case b.a != nil && b.a == z.pos:
		return z.resolve(t, binding{opaque: z.pos.name}, path)
	case b.a != nil:
		return z.absRead(t, b.a, path)
	case b.sl != nil:
		sl := b.sl
		if !sl.init {
			t.err2("the struct %s is read before its whole-struct assignment", sl.name)
			return "?"
		}
		f := path[0]
		if deps, ok := z.mdeps[sl.name+"."+f]; ok && len(path) == 1 {
			var args []string
			for _, d := range deps {
				root, dp := splitDep(d)
				args = append(args, viewName(root, dp))
			}
			return "(" + sl.name + "_" + f + " " + strings.Join(args, " ") + ")"
		}
		switch sl.kind[f] {
		case "abs":
			return z.resolve(t, binding{a: sl.abs[f]}, path[1:])
		case "opaque":
			return z.resolve(t, binding{opaque: sl.name + "_" + f}, path[1:])
		case "ptr":
			pv := sl.ptr[f]
			if len(path) == 2 && path[1] == "isNil" {
				return sl.name + "_" + f + ".isNone"
			}
			if pv.view == "" {
				// a pointer that is nil on every path: the callee's reads are behind its nil test
				return zeroField(t, pv.elem, path[1:])
			}
			return "(" + pv.view + ".getD (" + sl.name + "_" + f + ".getD 0) " + zeroOf(pv.elem) + ")." + strings.Join(path[1:], ".")
		case "val":
			n := sl.name + "_" + strings.Join(path, "_")
			if !sl.names[n] {
				t.err2("a callee reads %s, which the whole-struct assignment does not define", n)
				return "?"
			}
			return n
		}
	}
	t.err2("cannot resolve the callee view %s", strings.Join(path, "."))
	return "?"
}

func zeroField(t *tr, elem ltype, path []string) string {
	return "(" + zeroOf(elem) + ")." + strings.Join(path, ".")
}

func (z *round7) bindingOf(t *tr, arg ast.Expr) (binding, bool) {
	id, ok := arg.(*ast.Ident)
	if !ok {
		return binding{}, false
	}
	if a := t.absOf(id); a != nil {
		return binding{a: a}, true
	}
	obj := t.objOf(id)
	if sl := z.slocals[obj]; sl != nil {
		return binding{sl: sl}, true
	}
	if t.six.opaqueLoc[obj] {
		return binding{opaque: t.nm(id)}, true
	}
	return binding{}, false
}

// callMut: a call of a regenerated function that assigns through a parameter, or of the function itself.
// lhs: the targets of the Go results (nil: the results are dropped).
func (z *round7) callMut(t *tr, lhs []ast.Expr, define bool, ce *ast.CallExpr) ([]string, bool) {
	sel, ok := ce.Fun.(*ast.SelectorExpr)
	if !ok {
		return nil, false
	}
	fn, ok := t.p.info.Uses[sel.Sel].(*types.Func)
	if !ok {
		return nil, false
	}
	sig := fn.Type().(*types.Signature)
	nres := sig.Results().Len()
	if fn == z.self {
		return z.callSelf(t, lhs, define, ce), true
	}
	callee, ok := t.g.done[funcKey(fn)]
	if !ok {
		return nil, false
	}
	hasMut := false
	for _, pi := range callee.params {
		hasMut = hasMut || len(pi.mutViews) > 0
	}
	if !hasMut {
		return nil, false
	}
	goArgs := append([]ast.Expr{sel.X}, ce.Args...)
	if len(goArgs) != len(callee.params) || len(callee.globals) != 0 || callee.variadic {
		t.fail(ce, "call shape of %s", funcKey(fn))
		return nil, true
	}
	var out []string
	var args []string
	var mutB binding
	var mutViews []viewInfo
	for i, arg := range goArgs {
		pi := callee.params[i]
		if pi.skip {
			continue
		}
		if !pi.abstract {
			out = append(out, z.guard(t, arg)...)
			args = append(args, t.expr(arg))
			continue
		}
		b, ok := z.bindingOf(t, arg)
		if !ok {
			t.fail(arg, "argument for the abstract parameter of %s", funcKey(fn))
			return nil, true
		}
		for _, v := range pi.views {
			if oi := z.calleeOracle(callee, v); oi != "" && b.sl != nil {
				z.funcs["#"+b.sl.name+"."+oi] = v.ty
			}
			args = append(args, z.resolve(t, b, v.path))
		}
		if len(pi.mutViews) > 0 {
			mutB, mutViews = b, pi.mutViews
		}
	}
	// results: the Go results, then the assigned fields
	var pats []string
	for i := 0; i < nres; i++ {
		pats = append(pats, fmt.Sprintf("r%d_%d", t.ntmp, i))
	}
	for i := range mutViews {
		pats = append(pats, fmt.Sprintf("f%d_%d", t.ntmp, i))
	}
	k := t.ntmp
	t.ntmp++
	arrow := ":="
	if callee.opt {
		arrow = "←"
	}
	out = append(out, fmt.Sprintf("let %s %s %s %s", tuple(pats), arrow, callee.spec.lean, strings.Join(args, " ")))
	for i, v := range mutViews {
		out = append(out, z.storeView(t, mutB, v.path, fmt.Sprintf("f%d_%d", k, i))...)
	}
	if lhs != nil {
		if len(lhs) != nres {
			t.fail(ce, "result count of %s", funcKey(fn))
			return nil, true
		}
		for i, l := range lhs {
			rty := sig.Results().At(i).Type()
			if id, isId := l.(*ast.Ident); isId && id.Name != "_" {
				obj := t.objOf(id)
				if _, isPtr := rty.(*types.Pointer); isPtr {
					if callee.spec.slot != "" {
						vn := viewName(z.ai.name, []string{callee.spec.slot})
						if z.ptrs[obj] == nil {
							z.ptrs[obj] = &ptrVar{elem: z.ai.views[vn].ty.elems[0]}
						}
						if z.loop > 0 {
							t.fail(ce, "a pointer into %s assigned inside a loop", vn)
							return nil, true
						}
						z.ptrs[obj].view = vn
					} else if t.opaqueOf(rty).c == tOpaque {
						t.six.opaqueLoc[obj] = true
					}
				}
			}
			out = append(out, z.store(t, l, fmt.Sprintf("r%d_%d", k, i), define)...)
		}
	}
	return out, true
}

// calleeOracle: the view of the callee is a statement oracle (`m()=path`): its name
func (z *round7) calleeOracle(callee *fnInfo, v viewInfo) string {
	if v.ty.c == tFunc && len(v.path) == 1 {
		for _, decls := range callee.spec.oracles {
			for _, d := range strings.Fields(decls) {
				if strings.HasPrefix(d, v.path[0]+"(") && strings.Contains(d, ")=") {
					return v.path[0]
				}
			}
		}
	}
	return ""
}

func (z *round7) storeView(t *tr, b binding, path []string, v string) []string {
	switch {
	case b.a != nil:
		if line, ok := z.absStore(t, b.a, path, v); ok {
			return []string{line}
		}
	case b.sl != nil:
		if b.sl.kind[path[0]] == "val" {
			n := b.sl.name + "_" + strings.Join(path, "_")
			if b.sl.names[n] {
				return []string{n + " := " + v}
			}
		}
	}
	t.err2("a callee assigns %s, which is not assignable in %s", strings.Join(path, "."), t.spec.name)
	return nil
}

func (z *round7) callSelf(t *tr, lhs []ast.Expr, define bool, ce *ast.CallExpr) []string {
	var out []string
	args := append([]string{}, z.fixed...)
	args = append(args, "fuel")
	for _, arg := range ce.Args {
		if id, isId := arg.(*ast.Ident); isId {
			obj := t.objOf(id)
			if t.six.opaqueLoc[obj] {
				// a nil position: the callee's first read panics
				tmp := fmt.Sprintf("c%d", t.ntmp)
				t.ntmp++
				out = append(out, "let "+tmp+" ← "+t.nm(id))
				args = append(args, tmp)
				continue
			}
			if obj == z.posObj {
				args = append(args, t.nm(id))
				continue
			}
		}
		out = append(out, z.guard(t, arg)...)
		args = append(args, t.expr(arg))
	}
	args = append(args, z.stateTuple())
	k := t.ntmp
	t.ntmp++
	var rp, sp []string
	for i := range lhs {
		rp = append(rp, fmt.Sprintf("r%d_%d", k, i))
	}
	for i := range z.state {
		sp = append(sp, fmt.Sprintf("s%d_%d", k, i))
	}
	out = append(out, fmt.Sprintf("let (%s, %s) ← %s %s", tuple(rp), tuple(sp), t.spec.lean, strings.Join(args, " ")))
	for i, n := range z.state {
		out = append(out, fmt.Sprintf("%s := s%d_%d", n, k, i))
	}
	for i, l := range lhs {
		out = append(out, z.store(t, l, fmt.Sprintf("r%d_%d", k, i), define)...)
	}
	return out
}

func (z *round7) isCall(e ast.Expr) *ast.CallExpr {
	ce, _ := e.(*ast.CallExpr)
	return ce
}

func (z *round7) stmt(t *tr, s ast.Stmt) []string {
	switch s := s.(type) {
	case *ast.BlockStmt:
		return z.block(t, s.List)
	case *ast.DeclStmt:
		gd, ok := s.Decl.(*ast.GenDecl)
		if !ok || gd.Tok != token.VAR {
			break
		}
		var out []string
		for _, sp := range gd.Specs {
			vs := sp.(*ast.ValueSpec)
			if len(vs.Values) != 0 {
				t.fail(s, "var with a value")
				return nil
			}
			for _, n := range vs.Names {
				lt := t.ltypeOf(t.p.info.Defs[n].Type())
				if lt.c == tBad {
					t.fail(s, "var of type %s", t.p.info.Defs[n].Type())
					return nil
				}
				out = append(out, fmt.Sprintf("let mut %s : %s := %s", t.nm(n), lt.lean(), zeroOf(lt)))
			}
		}
		return out
	case *ast.IncDecStmt:
		lt := t.typeOf(s.X)
		op := " + "
		if s.Tok == token.DEC {
			op = " - "
		}
		out := z.guard(t, s.X)
		return append(out, z.store(t, s.X, wrap(lt, "("+t.expr(s.X)+op+one(lt)+")"), false)...)
	case *ast.ReturnStmt:
		out := z.guard(t, s.Results...)
		var vs []string
		for _, r := range s.Results {
			vs = append(vs, t.expr(r))
		}
		if z.plain && len(vs) == 0 {
			return append(out, "return "+tuple(z.state))
		}
		return append(out, "return ("+tuple(vs)+", "+z.stateTuple()+")")
	case *ast.BranchStmt:
		if s.Label != nil || s.Tok != token.BREAK || len(z.flags) == 0 {
			t.fail(s, "%s (only an unlabelled break of a loop)", s.Tok)
			return nil
		}
		if z.flags[len(z.flags)-1] == "" {
			return []string{"break"} // a range loop has no fuel
		}
		return []string{z.flags[len(z.flags)-1] + " := false", "break"}
	case *ast.ExprStmt:
		ce, ok := s.X.(*ast.CallExpr)
		if !ok {
			break
		}
		if out, ok := z.callMut(t, nil, false, ce); ok {
			return out
		}
		if out, ok := z.callOracle(t, ce); ok {
			return out
		}
	case *ast.IfStmt:
		if types.ExprString(s.Cond) == t.spec.assumeFalse && s.Else == nil && s.Init == nil {
			return nil // translated under the declared assumption that the condition is false
		}
		var out []string
		if s.Init != nil {
			out = append(out, z.stmt(t, s.Init)...)
		}
		out = append(out, z.guard(t, s.Cond)...)
		cond := t.expr(s.Cond)
		// `if p != nil { .. }`: the only place a pointer may be retargeted
		var nn types.Object
		if be, ok := s.Cond.(*ast.BinaryExpr); ok && be.Op == token.NEQ && t.isNilExpr(be.Y) && s.Else == nil {
			if obj := t.objOf(be.X); obj != nil && z.ptrs[obj] != nil {
				nn = obj
			}
		}
		if nn != nil {
			z.ifNonNil[nn]++
		}
		body := z.block(t, s.Body.List)
		if nn != nil {
			z.ifNonNil[nn]--
		}
		out = append(out, "if "+cond+" then")
		out = append(out, ind(body)...)
		if s.Else != nil {
			out = append(out, "else")
			out = append(out, ind(z.stmt(t, s.Else))...)
		}
		return out
	case *ast.ForStmt:
		return z.forStmt(t, s)
	case *ast.RangeStmt:
		return z.rangeStmt(t, s)
	case *ast.AssignStmt:
		return z.assign(t, s)
	}
	t.fail(s, "statement %T (round 7)", s)
	return nil
}

func (z *round7) forStmt(t *tr, s *ast.ForStmt) []string {
	if z.nloop >= len(t.spec.fuel) {
		t.fail(s, "loop without whitelist fuel")
		return nil
	}
	fuel := t.spec.fuel[z.nloop]
	flag := fmt.Sprintf("more%d", z.nloop)
	z.nloop++
	var out []string
	if s.Init != nil {
		out = append(out, z.stmt(t, s.Init)...)
	}
	out = append(out, "let mut "+flag+" : Bool := true")
	out = append(out, "for _ in [0:"+fuel+"] do")
	z.loop++
	z.flags = append(z.flags, flag)
	var body []string
	if s.Cond != nil {
		body = append(body, z.guard(t, s.Cond)...)
		body = append(body, "if !("+t.expr(s.Cond)+") then")
		body = append(body, ind([]string{flag + " := false", "break"})...)
	}
	ast.Inspect(s.Body, func(n ast.Node) bool {
		if b, ok := n.(*ast.BranchStmt); ok && b.Tok == token.CONTINUE {
			t.fail(b, "continue (round 7)")
		}
		return true
	})
	body = append(body, z.block(t, s.Body.List)...)
	if s.Post != nil {
		body = append(body, z.stmt(t, s.Post)...)
	}
	z.flags = z.flags[:len(z.flags)-1]
	z.loop--
	out = append(out, ind(body)...)
	out = append(out, "if "+flag+" then none") // the whitelist fuel ran out
	return out
}

func (z *round7) assign(t *tr, s *ast.AssignStmt) []string {
	define := s.Tok == token.DEFINE
	// op-assignment
	if s.Tok != token.ASSIGN && s.Tok != token.DEFINE {
		op, known := assignOps[s.Tok]
		if !known || len(s.Lhs) != 1 || len(s.Rhs) != 1 {
			t.fail(s, "assignment operator")
			return nil
		}
		out := z.guard(t, s.Lhs[0], s.Rhs[0])
		val := t.binary(&ast.BinaryExpr{X: s.Lhs[0], Op: op, Y: s.Rhs[0], OpPos: s.TokPos}, t.typeOf(s.Lhs[0]))
		return append(out, z.store(t, s.Lhs[0], val, false)...)
	}
	if len(s.Rhs) != 1 {
		t.fail(s, "parallel assignment (round 7)")
		return nil
	}
	rhs := s.Rhs[0]
	if ce := z.isCall(rhs); ce != nil {
		// oracle with several results
		if oi := t.oracleOf(ce); oi != nil && len(s.Lhs) > 1 {
			out := z.guard(t, rhs)
			txt, ok := t.stmt6(s, func() string { return "" })
			if !ok {
				t.fail(s, "oracle call")
				return nil
			}
			return append(out, strings.TrimSuffix(txt, "\n"))
		}
		if out, ok := z.callMut(t, s.Lhs, define, ce); ok {
			return out
		}
		// a regenerated function returning a pointer into a view (`te := ai.ttGet(..)`)
		if sel, isSel := ce.Fun.(*ast.SelectorExpr); isSel && len(s.Lhs) == 1 {
			if fn, isFn := t.p.info.Uses[sel.Sel].(*types.Func); isFn {
				if callee, done := t.g.done[funcKey(fn)]; done && callee.spec.slot != "" {
					obj := t.objOf(s.Lhs[0])
					vn := viewName(z.ai.name, []string{callee.spec.slot})
					v, ok := z.ai.views[vn]
					if obj == nil || !ok || z.loop > 0 {
						t.fail(s, "pointer into %s", vn)
						return nil
					}
					if z.ptrs[obj] == nil {
						z.ptrs[obj] = &ptrVar{elem: v.ty.elems[0]}
					}
					out := z.guard(t, rhs)
					val := t.expr(rhs)
					z.ptrs[obj].view = vn
					return append(out, z.store(t, s.Lhs[0], val, define)...)
				}
			}
		}
		// several results of a plain regenerated function
		if len(s.Lhs) > 1 {
			out := z.guard(t, rhs)
			val := t.expr(rhs)
			var pats []string
			k := t.ntmp
			t.ntmp++
			for i := range s.Lhs {
				pats = append(pats, fmt.Sprintf("r%d_%d", k, i))
			}
			out = append(out, "let "+tuple(pats)+" := "+val)
			for i, l := range s.Lhs {
				out = append(out, z.store(t, l, pats[i], define)...)
			}
			return out
		}
	}
	if len(s.Lhs) != 1 {
		t.fail(s, "assignment shape (round 7)")
		return nil
	}
	lhs := s.Lhs[0]
	lobj := t.objOf(lhs)
	// `mg := &recv.arr[i].f` with the path declared storage: a struct reached through a storage pointer
	if ue, ok := rhs.(*ast.UnaryExpr); ok && ue.Op == token.AND && define && t.storagePath(ue.X) {
		if ptr, isPtr := lobj.Type().(*types.Pointer); isPtr {
			if _, st := namedStruct(ptr.Elem()); st != nil {
				z.slocals[lobj] = &structLocal{name: t.nm(lhs.(*ast.Ident)), kind: map[string]string{}, abs: map[string]*absParam{},
					ptr: map[string]*ptrVar{}, names: map[string]bool{}}
				return z.guard(t, ue.X)
			}
		}
	}
	// `*mg = T{..}`
	if se, ok := lhs.(*ast.StarExpr); ok {
		if sl := z.slocals[t.objOf(se.X)]; sl != nil {
			return z.structAssign(t, s, sl, rhs)
		}
	}
	// pointers into views
	if pv := z.ptrs[lobj]; pv != nil {
		if t.isNilExpr(rhs) {
			return []string{t.nm(lhs.(*ast.Ident)) + " := none"}
		}
		if ue, ok := rhs.(*ast.UnaryExpr); ok && ue.Op == token.AND {
			if view, idx, ety, ok := t.projRow(ue.X); ok && ety.lean() == pv.elem.lean() {
				if z.loop > 0 || z.ifNonNil[lobj] == 0 {
					t.fail(s, "a pointer is retargeted outside `if %s != nil {..}` or inside a loop", t.nm(lhs.(*ast.Ident)))
					return nil
				}
				out := z.guard(t, ue.X)
				pv.view = view
				return append(out, t.nm(lhs.(*ast.Ident))+" := some "+idx)
			}
		}
		t.fail(s, "a pointer into a view may only be given nil, `&view[i].f` or a regenerated function's result")
		return nil
	}
	// windows
	if se, ok := rhs.(*ast.SliceExpr); ok && define {
		if view, idx, ety, ok := t.projRow(se.X); ok && ety.c == tArr && ety.alen > 0 && se.Low == nil && se.High != nil && !se.Slice3 {
			if tv := t.p.info.Types[se.High]; tv.Value != nil && tv.Value.ExactString() == "0" && z.ai.mut[view] {
				ix := se.X.(*ast.SelectorExpr)
				_ = ix
				bad := false
				ast.Inspect(se.X, func(n ast.Node) bool {
					if id, isId := n.(*ast.Ident); isId {
						if o := t.p.info.Uses[id]; o != nil && z.assignedSomewhere(t, o) {
							bad = true
						}
					}
					return true
				})
				if bad {
					t.fail(s, "the index of a window is assigned in the function")
					return nil
				}
				name := t.nm(lhs.(*ast.Ident))
				z.windows[lobj] = &windowVar{view: view, idx: idx, cap: ety.alen, elem: ety.elems[0], lenVar: name + "_len",
					row: "(" + view + ".getD " + idx + " " + zeroOf(ety) + ")"}
				return append(z.guard(t, se.X), "let mut "+name+"_len : Nat := 0")
			}
		}
	}
	if w := z.windows[lobj]; w != nil && !define {
		return z.windowAssign(t, s, w, lobj, rhs)
	}
	if out, ok := z.assignSort(t, s, lhs, lobj, rhs, define); ok {
		return out
	}
	out := z.guard(t, lhs, rhs)
	if _, isIdent := lhs.(*ast.Ident); isIdent {
		out = z.guard(t, rhs)
	}
	return append(out, z.store(t, lhs, t.expr(rhs), define)...)
}

func (z *round7) assignedSomewhere(t *tr, obj types.Object) bool {
	found := false
	ast.Inspect(t.fnBody, func(n ast.Node) bool {
		switch n := n.(type) {
		case *ast.AssignStmt:
			if n.Tok != token.DEFINE {
				for _, l := range n.Lhs {
					if t.objOf(l) == obj {
						found = true
					}
				}
			}
		case *ast.IncDecStmt:
			if t.objOf(n.X) == obj {
				found = true
			}
		}
		return true
	})
	return found
}

func (z *round7) windowAssign(t *tr, s *ast.AssignStmt, w *windowVar, obj types.Object, rhs ast.Expr) []string {
	isW := func(e ast.Expr) bool { return t.objOf(e) == obj }
	switch r := rhs.(type) {
	case *ast.SliceExpr:
		// `w = w[:k]`
		if isW(r.X) && r.Low == nil && r.High != nil && !r.Slice3 {
			out := z.guard(t, r.High)
			hi, _ := t.natOf(r.High)
			out = append(out, fmt.Sprintf("if !(decide (%s ≤ %d)) then none", hi, w.cap))
			return append(out, w.lenVar+" := "+hi)
		}
	case *ast.CallExpr:
		id, ok := r.Fun.(*ast.Ident)
		if !ok || id.Name != "append" || len(r.Args) != 2 {
			break
		}
		if _, isB := t.p.info.Uses[id].(*types.Builtin); !isB {
			break
		}
		// `w = append(w[:0], v)`
		if se, ok := r.Args[0].(*ast.SliceExpr); ok && isW(se.X) && se.Low == nil && se.High != nil && !r.Ellipsis.IsValid() {
			if tv := t.p.info.Types[se.High]; tv.Value != nil && tv.Value.ExactString() == "0" {
				out := z.guard(t, r.Args[1])
				out = append(out, fmt.Sprintf("%s := %s.setIfInBounds %s (%s.setIfInBounds 0 %s)", w.view, w.view, w.idx, w.row, t.expr(r.Args[1])))
				return append(out, w.lenVar+" := 1")
			}
		}
		// `w = append(w, xs...)`
		if isW(r.Args[0]) && r.Ellipsis.IsValid() {
			out := z.guard(t, r.Args[1])
			xs := t.expr(r.Args[1])
			out = append(out, fmt.Sprintf("if decide (%s + %s.size > %d) then none", w.lenVar, xs, w.cap)) // the slice would leave the array
			out = append(out, fmt.Sprintf("%s := %s.setIfInBounds %s (zwWrite %s %s %s)", w.view, w.view, w.idx, w.row, w.lenVar, xs))
			return append(out, fmt.Sprintf("%s := %s + %s.size", w.lenVar, w.lenVar, xs))
		}
	}
	t.fail(s, "assignment to a window onto a frame array (only `w = w[:k]`, `w = append(w[:0], v)`, `w = append(w, xs...)`)")
	return nil
}

func (z *round7) structAssign(t *tr, s *ast.AssignStmt, sl *structLocal, rhs ast.Expr) []string {
	cl, ok := rhs.(*ast.CompositeLit)
	if !ok || z.loop > 0 {
		t.fail(s, "whole-struct assignment through a storage pointer (only a composite literal, outside loops)")
		return nil
	}
	_, st := namedStruct(t.p.info.Types[cl].Type)
	if st == nil {
		t.fail(s, "struct literal")
		return nil
	}
	given := map[string]ast.Expr{}
	for _, el := range cl.Elts {
		kv, ok := el.(*ast.KeyValueExpr)
		if !ok {
			t.fail(el, "struct literal without field names")
			return nil
		}
		given[kv.Key.(*ast.Ident).Name] = kv.Value
	}
	var out []string
	for i := 0; i < st.NumFields(); i++ {
		f := st.Field(i)
		name := sl.name + "_" + f.Name()
		v := given[f.Name()]
		_, isPtr := f.Type().(*types.Pointer)
		switch {
		case v != nil && isPtr && t.absOf(identOf(v)) != nil && t.absOf(identOf(v)) != z.pos:
			sl.kind[f.Name()] = "abs"
			sl.abs[f.Name()] = t.absOf(identOf(v))
		case v != nil && isPtr && t.objOf(v) == z.posObj:
			sl.kind[f.Name()] = "opaque"
			out = append(out, "let "+name+" := "+t.nm(identOf(v)))
		case v != nil && isPtr && z.ptrs[t.objOf(v)] != nil:
			pv := z.ptrs[t.objOf(v)]
			sl.kind[f.Name()] = "ptr"
			sl.ptr[f.Name()] = &ptrVar{view: pv.view, elem: pv.elem}
			out = append(out, "let "+name+" := "+t.nm(identOf(v)))
		case v != nil && isPtr:
			if ue, isU := v.(*ast.UnaryExpr); isU && ue.Op == token.AND {
				if ix, isIx := ue.X.(*ast.IndexExpr); isIx {
					if _, isProj := t.isProjIndex(ix); isProj {
						sl.kind[f.Name()] = "storage" // a pointer to the frame: storage
						out = append(out, z.guard(t, ix)...)
						continue
					}
				}
			}
			t.fail(v, "pointer-typed field %s of the struct literal", f.Name())
			return nil
		case isPtr:
			t.fail(s, "pointer-typed field %s is left nil", f.Name())
			return nil
		default:
			lt := t.ltypeOf(f.Type())
			if lt.c == tBad {
				t.fail(s, "field %s of type %s", f.Name(), f.Type())
				return nil
			}
			sl.kind[f.Name()] = "val"
			val := zeroOf(lt)
			if v != nil {
				out = append(out, z.guard(t, v)...)
				val = t.expr(v)
			}
			out = append(out, fmt.Sprintf("let mut %s : %s := %s", name, lt.lean(), val))
			sl.names[name] = true
			if _, isSlice := f.Type().Underlying().(*types.Slice); isSlice && v == nil {
				out = append(out, fmt.Sprintf("let mut %s_isNil : Bool := true", name))
				sl.names[name+"_isNil"] = true
			}
		}
	}
	sl.init = true
	return out
}

func identOf(e ast.Expr) *ast.Ident {
	id, _ := e.(*ast.Ident)
	return id
}
