module verifgen

go 1.18
