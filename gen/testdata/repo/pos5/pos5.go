// Package pos5: fifth-round constructs (search.go) whose translation translate_test.go pins.
package pos5

import "sync/atomic"

type Key struct {
	A int8
	B uint32
}

type Entry struct {
	hash uint64
	val  int64
}

type frame struct {
	next *frame // not translatable: the frame array is only reachable through projection views
	k    Key
}

type Eng struct {
	tab   []Entry
	flag  *int32
	seen  map[Key]int
	reply map[Key]Key
	n     uint64
	stack [4]frame
	log   *Eng
}

// slot pointers, nil test of a field, division by a variable
func (e *Eng) Get(h uint64) *Entry {
	if e.tab == nil {
		return nil
	}
	i := h % uint64(len(e.tab))
	te := &e.tab[i]
	if te.hash == h {
		return te
	}
	te = &e.tab[0]
	if te.val > 0 {
		return te
	}
	return nil
}

// a slot function that assigns through its receiver; an atomic load
func (e *Eng) Put(h uint64) *Entry {
	if atomic.LoadInt32(e.flag) != 0 {
		return nil
	}
	i := h / uint64(len(e.tab))
	e.tab[0] = e.tab[i]
	return &e.tab[i]
}

// projection view, maps, `<<` on int, stopAt
func (e *Eng) Note(k Key, d, ply int) {
	e.n++
	e.seen[k] += 1 << uint(d)
	if ply > 0 {
		e.reply[e.stack[ply-1].k] = k
	}
	if e.log == nil {
		return
	}
	e.log.n = uint64(e.seen[k])
}

// map read
func (e *Eng) Seen(k Key) int { return e.seen[k] + int(e.stack[1].k.A) }
