// Package pos3: third-round constructs (mut.go) whose translation translate_test.go pins.
package pos3

import "errors"

type Board struct {
	n     int
	cells []uint8
	bits  uint64
	a, b  byte
	sum   int
	grp   []uint64
}

var ErrBad = errors.New("bad")

func fresh(t *Board) *Board         { return &Board{} }
func copyInto(t *Board, out *Board) {}

// a method without results that assigns through its receiver: element update, op-assignment, a field read back
func (b *Board) Bump(i uint) {
	b.cells[i]++
	b.bits |= 1 << i
	b.sum += int(b.cells[i])
}

// pointer parameter as state: declared copies, `next == nil`, early error returns, a tagged switch and an `if` joined
// instead of duplicated, a pointer alias resolved per path, fallthrough, a call that assigns through the parameter
func (b *Board) Step(k byte, i uint, next *Board) (*Board, error) {
	if next == nil {
		next = fresh(b)
	} else {
		copyInto(b, next)
	}
	next.sum++
	var d int
	switch k {
	case 1:
		d = 1
	case 2:
		d = 2
	case 9:
		return nil, ErrBad
	default:
		return nil, errors.New("unknown")
	}
	if b.n < 2 {
		if d != 1 {
			return nil, ErrBad
		}
		d = 3
	}
	var q *byte
	switch k {
	case 2:
		next.bits |= 2
		fallthrough
	case 1:
		if d == 3 {
			q = &next.a
		} else {
			q = &next.b
		}
	}
	if *q == 0 {
		return nil, ErrBad
	}
	*q--
	next.Bump(i)
	return next, nil
}

func grow(s []uint64, v uint64) []uint64 { return append(s, v) }

// storage reuse: `s[:0]`, `s[len(s):len(s):cap(s)]`
func (b *Board) Regroup() {
	t := b.grp[:0]
	b.grp = grow(t, b.bits)
	u := b.grp
	u = u[len(u):len(u):cap(u)]
	b.grp = grow(u, b.bits)
}
