// Package pos2 exercises the second-round constructs of the translator: slices, index panics, result-building loops
// (see translate_test.go TestSlices).
package pos2

type Pt struct {
	X, Y int8
}

type Big struct {
	cells []uint8
	n     int
}

var table [4]uint64

var rows [][]uint32

func Get(a []int, i int) int { return a[i] }

func Short(a []int, i int, ok bool) bool { return ok || a[i] > 0 }

func mayPanic(k int) int {
	if k == 0 {
		panic("zero")
	}
	return k
}

func Hoist(k int) int { return mayPanic(k) + 1 }

func Any(xs []uint64, m uint64) bool {
	found := false
	for _, x := range xs {
		if x&m != 0 {
			found = true
			break
		}
	}
	return found
}

func Same(a, b []uint8) bool {
	for i := range a {
		if a[i] != b[i] {
			return false
		}
	}
	return true
}

func Evens(n int, out []Pt) []Pt {
	for i := 0; i < n; i++ {
		if i%2 == 1 {
			continue
		}
		out = append(out, Pt{X: int8(i)})
	}
	return out
}

func Down(a []int) int {
	s := 0
	for i := len(a) - 1; i >= 0; i-- {
		s = s*2 + a[i]
	}
	return s
}

func UpTo(b byte) int {
	n := 0
	for i := byte(1); i <= b; i++ {
		n += int(i)
	}
	return n
}

func Fill(n uint8) []uint8 {
	sq := make([]uint8, n)
	if len(sq) == 0 {
		return nil
	}
	sq[0] = 7
	return sq
}

func Move(p Pt, d int8) Pt {
	q := p
	q.X += d
	return q
}

func Cell(b *Big, i uint) uint64 { return table[i] + uint64(b.cells[i]) }

func Sum(xs ...int) int {
	s := 0
	for _, x := range xs {
		s += x
	}
	return s
}

func Three() int { return Sum(1, 2, 3) }

func Apply(f func(int8, int8) (int8, int8), p Pt) Pt {
	var out Pt
	out.X, out.Y = f(p.X, p.Y)
	return out
}

func Twice(a []int) int {
	s := 0
	for _, v := range a {
		s += v
	}
	for _, v := range a {
		s += v
	}
	return s
}

func Bit(w uint64, x int) bool { return w&(1<<uint(x)) != 0 }

func Iter(s uint32) int {
	n := 0
	for it := s; it != 0; it = it >> 4 {
		if it&0xf == 0 {
			return -1
		}
		n += int(it & 0xf)
	}
	return n
}

func mk(k int) []uint32 {
	var r []uint32
	r = append(r, uint32(k))
	return r
}

func init() {
	rows = make([][]uint32, 3)
	for k := 1; k <= 2; k++ {
		rows[k] = mk(k)
	}
}
