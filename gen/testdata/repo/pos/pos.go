// Package pos exercises every construct of the translatable subset (see translate_test.go).
package pos

type Kind byte

const (
	A Kind = 1
	B Kind = 2
)

type Pt struct {
	X, Y int8
	K    Kind
}

type Big struct {
	cells []int
	n     int
	pt    Pt
}

func (b *Big) Count() int { return b.n }

func Tagged(k Kind) int {
	switch k {
	case A, B:
		return 1
	}
	return 0
}

func Wrap(a, b int8) int8 { return a + b - int8(1) }

func Two(p Pt) (int8, int8) { return p.Y, p.X }

func Swap(p Pt) (x, y int8) {
	x, y = Two(p)
	return
}

func While(s uint32) int {
	n := 0
	for s != 0 {
		n++
		s >>= 1
	}
	return n
}

func Forever(s uint32) uint32 {
	for {
		if s&1 == 1 {
			return s
		}
		s = s>>1 | 1<<31
	}
}

func Must(k Kind) Kind {
	if k == A {
		return B
	}
	panic("no")
}

func View(b *Big, d int) bool {
	if v := b.Count(); v > d {
		return b.pt.X < 0
	}
	return b.n == d
}

func Table(n int) []func(int8) int8 {
	neg := func(i int8) int8 { return -i }
	shift := func(i int8) int8 { return neg(i) + int8(n) }
	return []func(int8) int8{neg, shift}
}

func Local(a, b int8) int8 {
	abs := func(v int8) int8 {
		if v < 0 {
			return -v
		}
		return v + b - b
	}
	return abs(a) + abs(b)
}
