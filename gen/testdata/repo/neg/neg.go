// Package neg: every function must be rejected by the translator (see translate_test.go).
package neg

import "sync/atomic"

import "errors"

func Shadow(a int) int {
	if a > 0 {
		a := 2
		return a
	}
	return a
}

func DivVar(a, b int) int { return a / b }

func ShiftSigned(a uint64, n int) uint64 { return a << uint(n) }

func Closure(a int) int {
	f := func(x int) int { return x + a }
	a = 5
	return f(1)
}

func Break(k int) int {
	switch k {
	case 1:
		break
	}
	return k
}

func CallsPanicky(k int) int { return mayPanic(k) + 1 }

func mayPanic(k int) int {
	if k == 0 {
		panic("zero")
	}
	return k
}

func Slice(a []int) int { return a[0] }

func NoFuel(s uint32) int {
	n := 0
	for s != 0 {
		n++
		s >>= 1
	}
	return n
}

type Big struct {
	cells []int
	n, m  int
}

func Undeclared(b *Big) int { return b.n + b.m }

// second round

var tbl [4]int

func AssignAbs(b *Big) int {
	b.n = 1
	return b.n
}

func RangeAssign(a []int) int {
	for i := range a {
		a[i] = 0
	}
	return len(a)
}

func UndeclaredGlobal(i int) int { return tbl[i] }

func BreakInSwitch(a []int) int {
	n := 0
	for _, v := range a {
		switch {
		case v > 0:
			if v > 10 {
				break
			}
			n++
		}
	}
	return n
}

func CondPanic(k int, ok bool) bool { return ok && mayPanic(k) > 0 }

func LeLoopBreak(b byte) int {
	n := 0
	for i := byte(0); i <= b; i++ {
		if i == 7 {
			break
		}
		n++
	}
	return n
}

func Labelled(a []int) int {
	n := 0
outer:
	for _, v := range a {
		if v == 0 {
			break outer
		}
		n++
	}
	return n
}

func SliceHigh(a []int, n int) []int { return a[:n] }

func WhileNoFuel(s uint32) int {
	n := 0
	for it := s; it != 0; it = it >> 4 {
		if it&1 == 1 {
			return n
		}
		n++
	}
	return n
}

func ElemGlobal(i int) int {
	tbl[0] = i
	return i
}

// slices have value semantics in the translation: anything that could make two names share a mutated backing array is refused

func AliasAppend(a []int) int {
	b := append(a, 1)
	c := append(a, 2)
	return b[len(a)] + c[len(a)]
}

func AliasCopy(a []int) int {
	b := a
	b[0] = 1
	return a[0]
}

func AliasParams(a, b []int) int {
	a[0] = 1
	return b[0]
}

// third round (mut.go)

var ErrPoked = errors.New("poked")

func Poke() { ErrPoked = nil }

func ReadEarly(b *Big, out *Big) int { return out.n }

func AliasLoop(b *Big) {
	var q *int
	for i := 0; i < 3; i++ {
		q = &b.n
	}
	*q = 1
}

func AliasOther(b *Big) {
	var z int
	var q *int
	q = &z
	*q = 1
}

var errMaybe error

func MaybeNil(k int) (int, error) { return k, errMaybe }

func PokedErr(k int) (int, error) {
	if k == 0 {
		return 0, ErrPoked
	}
	return k, nil
}

func WriteUndeclared(b *Big) { b.m = 1 }

func dup(t *Big) *Big { return t }

func CopyMissing(b *Big, out *Big) int {
	out = dup(b)
	return out.m
}

func DerefCond(b *Big, k int) int {
	var q *int
	if k > 0 && *q == 0 {
		return 1
	}
	return 0
}

func ReturnUninit(b *Big, out *Big) (*Big, error) {
	out.n = 1
	return out, nil
}

func setM(t *Big) { t.m = 2 }

func CalleeWrites(b *Big) {
	b.n = 1
	setM(b)
}

// fourth round

type Vec [4]int64

type Inner struct{ Gs []uint64 }

type Deep struct {
	bits  uint64
	inner Inner
	next  *Deep
}

func (d *Deep) Moved() *Inner { x := &d.inner; return x }

// a computed index into an abstract array parameter that has no whole-array view
func IndexNoAll(w *Vec, k int) int64 { return w[k] }

// the listed path accessor no longer is `return &d.inner`
func AccessorChanged(d *Deep) int {
	in := d.Moved()
	return len(in.Gs)
}

// a closure reading a field the function assigns through
func ClosureTracked(b *Big) {
	f := func(k int) int { return k + b.n }
	b.n = f(1)
}

// the out-parameter is assigned as a whole
func OutWhole(out []uint64) {
	out[0] = 1
	out = nil
}

func fillOne(out []uint64) { out[0] = 1 }

func mkSlice() []uint64 { return make([]uint64, 1) }

// the argument for an out-parameter is not a local variable
func OutArg() uint64 {
	fillOne(mkSlice())
	return 0
}

// the variable given to an out-parameter has a second name
func OutAliased() uint64 {
	a := make([]uint64, 2)
	b := a
	fillOne(a[:])
	return b[0]
}

// `for {}` that can only be left by return inside a closure without fuel
func ForeverNoFuel(s uint32) int {
	n := 0
	for {
		if s == 0 {
			break
		}
		n++
		s >>= 1
	}
	return n
}

// fifth round (search.go)
type Ent struct{ hash uint64 }

type Store struct {
	tab   []Ent
	other []Ent
	flag  *int32
	seen  map[uint64]int
	fr    [3]struct {
		p *Store
		v uint64
		w uint64
	}
}

// a slot pointer used as a value
func (s *Store) SlotEscapes(h uint64) *Ent {
	te := &s.tab[0]
	q := te
	return q
}

// a slot pointer given something that is not `&view[e]`
func (s *Store) SlotOther(h uint64) *Ent {
	te := &s.tab[0]
	te = &s.other[0]
	return te
}

// two atomic loads of one flag may see different values
func (s *Store) TwoLoads() int32 {
	return atomic.LoadInt32(s.flag) + atomic.LoadInt32(s.flag)
}

// a write to a map whose nil-ness is not a declared view
func (s *Store) MapNoNil(k uint64) {
	s.seen[k] = 1
}

// an indexed field that is not a declared projection
func (s *Store) ProjUndeclared(i int) uint64 {
	return s.fr[i].v
}

// signed division by a variable
func SignedDiv(a, b int) int { return a / b }

// ---- sixth round (iter.go)

type Box6 struct{ next *Box6 }

type Src6 struct{ next *Src6 }

func (s *Src6) All(buf []uint8) []uint8       { return buf }
func (s *Src6) Try(k uint8, b *Box6) (*Box6, error) { return b, nil }

type It6 struct {
	src   *Src6
	ks    []uint8
	other []uint8
	i     int
	box   *Box6
	seen  map[uint8]uint8
	store struct{ slice []uint8 }
}

// a buffer read as a value
func (it *It6) BufValue() int {
	ks := it.store.slice
	return len(ks)
}

// the old content of the buffer could reach the oracle's result
func (it *It6) KeepsContent() int {
	ks := it.store.slice
	it.ks = it.src.All(ks)
	return 0
}

// the nil-ness of the assigned value is unknown: the view ks.isNil would go stale
func (it *It6) StaleNil() int {
	if it.ks == nil {
		it.ks = it.other
	}
	return 0
}

// ks is assigned but its declared nil-ness is an input only
func (it *It6) NilInputOnly() int {
	if it.ks == nil {
		it.ks = it.src.All(it.store.slice[:0])
	}
	return 0
}

// the pointer an oracle returned is looked into
func (it *It6) OpaqueUse() bool {
	child, e := it.src.Try(1, it.box)
	if e != nil {
		return false
	}
	return child.next == nil
}

// two call sites that are given the same buffer
func (it *It6) TwoSites() int {
	a := it.src.All(it.store.slice[:0])
	b := it.src.All(it.store.slice[:0])
	return len(a) + len(b)
}

// a labelled break leaves the loop, not the switch
func (it *It6) LabelledBreak() int {
outer:
	for {
		switch it.i {
		case 0:
			break outer
		}
		it.i++
		if it.i > 3 {
			return it.i
		}
	}
	return 0
}

// comma-ok into an element
func (it *It6) CommaOkElem() bool {
	var ok bool
	it.ks[0], ok = it.seen[1]
	return ok
}

// a method that is neither translated nor a declared oracle
func (it *It6) Undeclared() int {
	return len(it.src.All(it.store.slice[:0]))
}
