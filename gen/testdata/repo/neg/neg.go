// Package neg: every function must be rejected by the translator (see translate_test.go).
package neg

func Shadow(a int) int {
	if a > 0 {
		a := 2
		return a
	}
	return a
}

func DivVar(a, b int) int { return a / b }

func ShiftSigned(a uint64, n int) uint64 { return a << uint(n) }

func Closure(a int) int {
	f := func(x int) int { return x + a }
	a = 5
	return f(1)
}

func Break(k int) int {
	switch k {
	case 1:
		break
	}
	return k
}

func CallsPanicky(k int) int { return mayPanic(k) + 1 }

func mayPanic(k int) int {
	if k == 0 {
		panic("zero")
	}
	return k
}

func Slice(a []int) int { return a[0] }

func NoFuel(s uint32) int {
	n := 0
	for s != 0 {
		n++
		s >>= 1
	}
	return n
}

type Big struct {
	cells []int
	n, m  int
}

func Undeclared(b *Big) int { return b.n + b.m }
