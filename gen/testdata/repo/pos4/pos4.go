// Package pos4: fourth-round constructs (eval.go) whose translation translate_test.go pins.
package pos4

type Vec [4]int64

type Inner struct {
	Gs []uint64
}

type Big struct {
	bits  uint64
	inner Inner
	next  *Big
}

// a path accessor: `x := b.Inner()` names the field path b.inner
func (b *Big) Inner() *Inner { return &b.inner }

// whole-array view: a constant index needs no guard, a computed index is checked against the STATIC length 4
func Pick(w *Vec, k int) int64 { return w[1] + w[k] }

// constant-index views ...
func Narrow(w *Vec) int64 { return w[2] }

// ... are fed from the whole array of a caller that holds it
func Pass(w *Vec) int64 { return Narrow(w) + w[0] }

func Groups(b *Big) int {
	in := b.Inner()
	n := 0
	for _, g := range in.Gs {
		if g&b.bits != 0 {
			n++
		}
	}
	return n
}

// a closure that reads a view of the abstract parameter, captures a local, indexes a slice (Option-valued) and runs a
// `for { .. break .. }` loop; two calls of it in one statement
func Count(b *Big, xs []uint64) int {
	lim := b.bits >> 1
	one := func(gs []uint64, k int) int {
		n := 0
		j := 0
		for {
			if j < k {
				if gs[j]&lim&b.bits != 0 {
					n++
				}
				j++
			} else {
				break
			}
		}
		return n
	}
	return one(xs, 2) + one(xs, 3)
}

// out-parameter: the elements of `out` are assigned, the caller sees them
func Fill(out []uint64, v uint64) {
	for i := 0; i < len(out); i++ {
		out[i] |= v
	}
}

func UseFill(v uint64) uint64 {
	var a [3]uint64
	Fill(a[:], v)
	Fill(a[:], 1)
	return a[0] + a[2]
}

var base = Vec{1, 2, 3, 4}
var over = Vec{0, 9, 0, 0}
var table []Vec

// arrays are values: `six := base` copies; range over an array
func init() {
	six := base
	for i, v := range over {
		if v != 0 {
			six[i] = v
		}
	}
	table = []Vec{base, six}
}
