// Package pos7: seventh-round constructs (zw.go: executed-only translation in `do` notation) whose translation translate_test.go pins.
package pos7

import (
	"sort"
	"sync/atomic"
)

type Key struct {
	A int8
	B uint32
}

type Entry struct {
	hash uint64
	val  int64
	k    Key
}

type Cnt struct {
	Seen uint64
	Hits uint64
}

// Box is abstract (not translatable): the position
type Box struct {
	next *Box
	w    uint64
}

func (b *Box) Done() (bool, int8)                { return b.w == 0, 0 }
func (b *Box) Sum() uint64                        { return b.w }
func (b *Box) Try(k Key, into *Box) (*Box, error) { return into, nil }

type frame struct {
	buf  *Box
	line [4]Key
	k    Key
	e    Entry
}

type Eng struct {
	cfg struct {
		Debug int
	}
	st    Cnt
	tab   []Entry
	flag  *int32
	score func(*Box) int64
	stack [4]frame
}

func (e *Eng) Get(h uint64) *Entry {
	if e.tab == nil {
		return nil
	}
	i := h % uint64(len(e.tab))
	te := &e.tab[i]
	if te.hash == h {
		return te
	}
	return nil
}

func (e *Eng) Put(h uint64) *Entry {
	if atomic.LoadInt32(e.flag) != 0 {
		return nil
	}
	i := h % uint64(len(e.tab))
	e.tab[0] = e.tab[i]
	return &e.tab[i]
}

// recursion, state threading, position functions, pointer retargeting, a window onto a frame array, a general loop
func (e *Eng) Walk(b *Box, ply, depth int, hint []Key, lo int64) ([]Key, int64) {
	done, _ := b.Done()
	if depth <= 0 || done {
		e.st.Seen++
		return nil, e.score(b)
	}
	te := e.Get(b.Sum())
	if te != nil {
		e.st.Hits++
		if te.val > lo {
			e.stack[ply].line[0] = te.k
			return e.stack[ply].line[:1], te.val
		}
	}
	if te != nil {
		e.stack[ply].e = *te
		te = &e.stack[ply].e
	}
	best := e.stack[ply].line[:0]
	if len(best) == 0 {
		best = best[:1]
	}
	var hit bool
	for i := 0; i < 3 && !hit; i++ {
		k := Key{A: int8(i)}
		if te != nil {
			k = te.k
		}
		e.stack[ply].k = k
		if e.cfg.Debug > ply {
			println("walk", ply)
		}
		child, err := b.Try(k, e.stack[ply].buf)
		if err == nil {
			ks, v := e.Walk(child, ply+1, depth-1, best[1:], -lo)
			v = -v
			if v > lo {
				best = append(best[:0], k)
				best = append(best, ks...)
				hit = true
				break
			}
			if atomic.LoadInt32(e.flag) != 0 {
				return nil, 0
			}
		}
	}
	if te = e.Put(b.Sum()); te != nil {
		te.val = lo
		te.k = best[0]
	}
	return best, lo
}

// refused: a pointer retargeted outside `if te != nil {..}`
func (e *Eng) BadRetarget(b *Box, ply int) ([]Key, int64) {
	te := e.Get(b.Sum())
	te = &e.stack[ply].e
	return nil, te.val
}

// refused: continue
func (e *Eng) BadContinue(b *Box, ply int) ([]Key, int64) {
	for i := 0; i < 3; i++ {
		if i == 1 {
			continue
		}
	}
	return nil, 0
}

// refused: a plain append to a window (it could leave the frame array unnoticed only with `xs...` / `w[:0]`)
func (e *Eng) BadWindow(b *Box, ply int) ([]Key, int64) {
	best := e.stack[ply].line[:0]
	best = append(best, Key{})
	return best, 0
}

// ---- zwsort.go: a scratch buffer with tracked nil-ness, an alias struct, a range loop, a call oracle

type Book struct {
	seen map[Key]int
}

type scratch struct {
	vals struct {
		slice []int
		alloc [8]int
	}
}

type byVal struct {
	ks []Key
	vs []int
}

func (s byVal) Len() int           { return len(s.ks) }
func (s byVal) Less(i, j int) bool { return s.vs[i] > s.vs[j] }
func (s byVal) Swap(i, j int) {
	s.ks[i], s.ks[j] = s.ks[j], s.ks[i]
	s.vs[i], s.vs[j] = s.vs[j], s.vs[i]
}

type Sorter struct {
	e  *Book
	f  *scratch
	ks []Key
}

func (x *Sorter) Rank() {
	vs := x.f.vals.slice
	if vs == nil {
		vs = x.f.vals.alloc[:]
	}
	if len(vs) < len(x.ks) {
		vs = make([]int, len(x.ks))
	}
	s := byVal{x.ks, vs}
	for i, k := range s.ks {
		s.vs[i] = x.e.seen[k]
	}
	sort.Sort(s)
}

// refused: the aliased local is assigned as a whole after the struct was built
func (x *Sorter) BadAlias() {
	vs := x.f.vals.slice
	s := byVal{x.ks, vs}
	vs = make([]int, 3)
	sort.Sort(s)
}

// refused: the body assigns the slice ranged over
func (x *Sorter) BadRange() {
	for i, k := range x.ks {
		x.ks[i] = k
	}
}

// refused: the nil-ness of the assigned value is not known
func (x *Sorter) BadNil() {
	vs := x.f.vals.slice
	vs = x.f.vals.slice
	_ = vs
}
