// Package pos6: sixth-round constructs (iter.go) whose translation translate_test.go pins.
package pos6

type Key struct {
	A int8
	B uint32
}

func (k Key) Same(o Key) bool { return k.A == o.A && k.B == o.B }

type Box struct{ next *Box } // abstract: reachable only through oracles

type hint struct{ k Key }

type frame struct {
	next *frame
	k    Key
	buf  *Box
}

type Src struct{ next *Src }

func (s *Src) All(buf []Key) []Key              { return buf }
func (s *Src) Try(k Key, b *Box) (*Box, error) { return b, nil }

type Eng struct {
	reply map[Key]Key
	stack [4]frame
}

type It struct {
	e     *Eng
	src   *Src
	h     *hint
	ply   int
	r     Key
	ks    []Key
	i     int
	store struct {
		slice []Key
		alloc [8]Key
	}
}

func (it *It) order() {}

func (it *It) Rewind() { it.i = 0 }

// a state machine: break / continue in a switch in `for {}`, fallthrough into default, comma-ok map read into a field,
// oracles (value / storage arguments, a statement oracle), buffers, a nil-able pointer field, a pointer result handed on
func (it *It) Step() (k Key, b *Box) {
	for {
		var k Key
		switch it.i {
		case 0:
			it.i++
			if it.h != nil {
				k = it.h.k
				break
			}
			fallthrough
		case 1:
			it.i++
			if it.ply == 0 {
				continue
			}
			var ok bool
			if it.r, ok = it.e.reply[it.e.stack[it.ply-1].k]; ok {
				k = it.r
				break
			}
			fallthrough
		case 2:
			it.i++
			if it.ks == nil {
				ks := it.store.slice
				if ks == nil {
					ks = it.store.alloc[:]
				}
				it.ks = it.src.All(ks[:0])
				it.store.slice = ks[:]
			}
			it.order()
			fallthrough
		default:
			j := it.i - 3
			it.i++
			if j >= len(it.ks) {
				return Key{}, nil
			}
			k = it.ks[j]
			if it.h != nil && it.h.k.Same(k) {
				continue
			}
		}
		child, e := it.src.Try(k, it.e.stack[it.ply].buf)
		if e == nil {
			return k, child
		}
	}
}
