// verifgen regenerates lean/TakVerif/Generated/*.lean from the Go sources of the repository.
//
//  1. Facts: every line of a Facts*.lean file carrying an annotation
//     `-- go: <file> const|var|regexp <Name>` is re-extracted from the source (constant
//     evaluation by go/types, composite literals of integers, regexp literals).
//  2. Funcs: a whitelist of small pure functions is translated to Lean definitions
//     (see translate.go). Anything outside the supported subset is an error, not a guess.
//
// usage: go run . -repo /repo -out <dir> [-facts <dir with Facts*.lean templates>]
package main

import (
	"flag"
	"fmt"
	"os"
	"path/filepath"
	"sort"
	"strings"
)

func main() {
	repo := flag.String("repo", "/repo", "repository root")
	out := flag.String("out", "", "output directory")
	factsDir := flag.String("facts", "", "directory holding the annotated Facts*.lean files (default: ../lean/TakVerif/Generated)")
	flag.Parse()
	if *out == "" {
		fmt.Fprintln(os.Stderr, "need -out")
		os.Exit(2)
	}
	if *factsDir == "" {
		exe, _ := os.Getwd()
		*factsDir = filepath.Join(exe, "..", "lean", "TakVerif", "Generated")
	}
	os.MkdirAll(*out, 0o755)
	failed := false
	files, _ := filepath.Glob(filepath.Join(*factsDir, "Facts*.lean"))
	sort.Strings(files)
	ld := newLoader(*repo)
	for _, f := range files {
		src, err := os.ReadFile(f)
		if err != nil {
			fmt.Fprintln(os.Stderr, err)
			os.Exit(1)
		}
		res, errs := regenFacts(ld, string(src))
		for _, e := range errs {
			fmt.Fprintf(os.Stderr, "gen:facts %s: %v\n", filepath.Base(f), e)
			failed = true
		}
		if err := os.WriteFile(filepath.Join(*out, filepath.Base(f)), []byte(res), 0o644); err != nil {
			fmt.Fprintln(os.Stderr, err)
			os.Exit(1)
		}
	}
	funcs, errs := genFuncs(ld)
	for _, e := range errs {
		fmt.Fprintf(os.Stderr, "gen:func %v\n", e)
		failed = true
	}
	var names []string
	total := 0
	for name := range funcs {
		names = append(names, name)
	}
	sort.Strings(names)
	for _, name := range names {
		total += len(strings.TrimSpace(funcs[name]))
		if err := os.WriteFile(filepath.Join(*out, name), []byte(funcs[name]), 0o644); err != nil {
			fmt.Fprintln(os.Stderr, err)
			os.Exit(1)
		}
	}
	if failed {
		os.Exit(1)
	}
	fmt.Printf("gen: %d fact files, %s (%d bytes)\n", len(files), strings.Join(names, " "), total)
}
