package main

import (
	"fmt"
	"go/ast"
	"go/token"
	"go/types"
	"sort"
	"strings"
)

// Fifth round of the translator (work package "gen5"): the small helpers of the alpha-beta search in ai/minimax.go
// (everything `pvSearch` / `zwSearch` call that is not itself a search or the move generator).
//
//   - *Projection views.*  `ai.stack[i].m` with `stack [maxDepth]frame` and `frame` not translatable: the view `stack[].m` is
//     ONE parameter `ai_stack_m : Array Move` holding the field `m` of every element; `ai.stack[e].m.Type` is
//     `(ai_stack_m.getD e.toNat default).Type` AFTER the guard `0 <= e < N` with N the STATIC length of the Go array (Go's
//     index panic = `none`).  Only arrays (a slice has no static length to guard against).
//   - *nil tests of a field.*  `m.table == nil` is the input view `m_table_isNil` (declared as `table.isNil`): a Lean Array
//     cannot tell a nil slice from an empty one, Go can (`make([]T, 0)` is not nil, and `h % uint64(len(..))` then panics).
//   - *Atomic loads.*  `atomic.LoadInt32(m.cancel)` is the input view `m_cancel_load` (declared as `cancel.load`): the value
//     that load returns.  At most one load of a path per function and none in a loop (two loads may see different values).
//   - *Division by a variable* (unsigned): `a % b`, `a / b` with the guard `b == 0` -> `none` (Go's run-time panic).
//   - *`<<` on `int`* with a variable count: the 64-bit two's-complement value (`1 << uint(depth)` is 0 from 64 on).
//   - *Slot pointers* (`slot: "table"`): a `*T` result - and every local of that pointer type - points INTO the declared
//     slice view.  It is translated as the INDEX: `te := &m.table[i]` is `let te : Nat := i` after the index guard (taking the
//     address of an element out of range panics), `te.hash` is `(m_table.getD te default).hash` - read through the CURRENT
//     value of the view, as a Go pointer read is -, `return te` is `some te`, `return nil` is `none`.  Refused: any other use
//     of such a pointer (comparison, copy, store, call argument), a slot pointer given anything but `&view[e]`.  When the
//     function also assigns through the receiver (`mut`), the result is the pair (slot, assigned fields).
//   - *Maps* with translatable key and value types are association lists `List (K × V)` read by `mapGet` and written by
//     `mapPut` (first match wins, a new key is appended; Go's `==` on the key struct is Lean's derived `DecidableEq`).
//     `m[k]` is `(mapGet m k).getD zero`; `m[k] = v` / `m[k] op= v` on an assignable map field need the declared view
//     `<map>.isNil` and are guarded by it (a write to a nil map panics).  Iteration order is not modelled (no `range`).
//   - *`stopAt`.*  `if <cond> { return }` in a function without results, with <cond> exactly the declared text, ends the
//     translation: the function is translated UNDER THE ASSUMPTION that the condition holds there (recordCut: `ai.cuts ==
//     nil`, no cut log configured; what follows only formats a log record).  The assumption is part of the whitelist entry.

var whitelist5 = []fnSpec{
	// group Search: ai/minimax.go Stats.Merge, nullMoveOK, ttGet, ttPut, recordCut
	{dir: "ai", file: "minimax.go", recv: "Stats", name: "Merge", lean: "statsMerge", group: "Search"},
	{dir: "ai", file: "minimax.go", recv: "MinimaxAI", name: "nullMoveOK", lean: "nullMoveOK", group: "Search",
		views: map[string]string{"ai": "Cfg.NoNullMove stack[].m", "p": "Black BlackStones Stacks White WhiteStones"}},
	{dir: "ai", file: "minimax.go", recv: "MinimaxAI", name: "ttGet", lean: "ttGet", group: "Search", slot: "table",
		views: map[string]string{"m": "table table.isNil"}},
	{dir: "ai", file: "minimax.go", recv: "MinimaxAI", name: "ttPut", lean: "ttPut", group: "Search", slot: "table",
		views: map[string]string{"m": "cancel.load table table.isNil"}, mut: map[string]string{"m": "table"}},
	{dir: "ai", file: "minimax.go", recv: "MinimaxAI", name: "recordCut", lean: "recordCut", group: "Search", stopAt: "ai.cuts == nil",
		views: map[string]string{"p": "", "ai": "history history.isNil response response.isNil st.Cut0 st.Cut1 st.CutNodes st.CutSearch stack[].m"},
		mut:   map[string]string{"ai": "history response st.Cut0 st.Cut1 st.CutNodes st.CutSearch"}},
}

// groupImportsUpTo: a group whose file imports only the files up to (and including) the named group instead of every earlier one
var groupImportsUpTo = map[string]string{"Search": "AI"}

const prelude5 = `/-- a Go map as an association list (gen/search.go): ` + "`m[k]`" + ` with the comma-ok result -/
def mapGet {K V : Type} [DecidableEq K] : List (K × V) → K → Option V
  | [], _ => none
  | (k, v) :: rest, key => if k = key then some v else mapGet rest key
/-- ` + "`m[k] = v`" + `: the first entry with this key is replaced, a new key is appended -/
def mapPut {K V : Type} [DecidableEq K] : List (K × V) → K → V → List (K × V)
  | [], key, v => [(key, v)]
  | (k, w) :: rest, key, v => if k = key then (k, v) :: rest else (k, w) :: mapPut rest key v

`

// declareView5: view declarations of the fifth round (`X[].f`, `path.isNil`, `path.load`); false = an ordinary path
func (t *tr) declareView5(a *absParam, ty types.Type, ps string, path []string, name string) bool {
	special := false
	for i, comp := range path {
		if strings.HasSuffix(comp, "[]") || (i == len(path)-1 && i > 0 && (comp == "isNil" || comp == "load")) {
			special = true
		}
	}
	if !special {
		return false
	}
	cur := ty
	proj := -2 // static length of the projected array (-2: no projection)
	var pkg *types.Package
	for i, comp := range path {
		if p, ok := cur.(*types.Pointer); ok && !(i == len(path)-1 && (comp == "isNil" || comp == "load")) {
			cur = p.Elem()
		}
		if i == len(path)-1 && i > 0 && comp == "isNil" {
			switch cur.Underlying().(type) {
			case *types.Slice, *types.Map, *types.Pointer, *types.Interface:
			default:
				t.err2("view %s.%s: %s cannot be nil", a.name, ps, cur)
				return true
			}
			if proj != -2 {
				t.err2("view %s.%s: isNil of a projection", a.name, ps)
				return true
			}
			a.views[name] = viewInfo{path: path, ty: ltype{c: tBool}}
			return true
		}
		if i == len(path)-1 && i > 0 && comp == "load" {
			p, ok := cur.(*types.Pointer)
			if !ok || proj != -2 {
				t.err2("view %s.%s: load of something that is not a pointer field", a.name, ps)
				return true
			}
			lt := basicType(p.Elem())
			if lt.c != tInt || lt.width != 32 {
				t.err2("view %s.%s: only atomic.LoadInt32 of a *int32 field", a.name, ps)
				return true
			}
			a.views[name] = viewInfo{path: path, ty: lt}
			return true
		}
		isProj := strings.HasSuffix(comp, "[]")
		field := strings.TrimSuffix(comp, "[]")
		if n, ok := cur.(*types.Named); ok {
			pkg = n.Obj().Pkg()
		}
		obj, _, _ := types.LookupFieldOrMethod(cur, true, pkg, field)
		v, ok := obj.(*types.Var)
		if !ok {
			t.err2("view %s.%s: no field %s", a.name, ps, field)
			return true
		}
		cur = v.Type()
		if isProj {
			arr, ok := cur.Underlying().(*types.Array)
			if !ok || proj != -2 {
				t.err2("view %s.%s: a projection `f[]` needs an array-typed field (once per path)", a.name, ps)
				return true
			}
			proj = int(arr.Len())
			cur = arr.Elem()
		}
	}
	lt := t.ltypeOf(cur)
	if lt.c == tBad || lt.c == tTuple || lt.c == tFunc || proj == -2 {
		t.err2("view %s.%s: type %s is not translatable", a.name, ps, cur)
		return true
	}
	a.views[name] = viewInfo{path: path, ty: ltype{c: tArr, elems: []ltype{lt}, alen: proj}}
	return true
}

// projParts: e = `x.path[i].f1..fk.rest` with `path[].f1..fk` a declared projection view of the abstract parameter x
func (t *tr) projParts(e ast.Expr) (vname string, vi viewInfo, ix *ast.IndexExpr, rest []string, ok bool) {
	var fields []string
	cur := e
	for ix == nil {
		switch x := cur.(type) {
		case *ast.SelectorExpr:
			fields = append([]string{x.Sel.Name}, fields...)
			cur = x.X
		case *ast.ParenExpr:
			cur = x.X
		case *ast.IndexExpr:
			ix = x
		default:
			return "", viewInfo{}, nil, nil, false
		}
	}
	root, path := selPath(ix.X)
	a, full := t.absSel(root, path)
	if a == nil || len(full) == 0 {
		return "", viewInfo{}, nil, nil, false
	}
	base := append(append([]string{}, full[:len(full)-1]...), full[len(full)-1]+"[]")
	for k := len(fields); k >= 1; k-- {
		p := append(append([]string{}, base...), fields[:k]...)
		name := viewName(a.name, p)
		if v, found := a.views[name]; found && strings.Join(v.path, ".") == strings.Join(p, ".") {
			if a.tracked && !t.mutInit[name] {
				t.err2("%s reads %s before it is initialised on this path", t.spec.name, name)
			}
			t.use(name, v.ty, token.NoPos)
			return name, v, ix, fields[k:], true
		}
	}
	return "", viewInfo{}, ix, nil, false
}

// isProjIndex: ix indexes an array field of an abstract parameter for which a projection view is declared
func (t *tr) isProjIndex(ix *ast.IndexExpr) (alen int, ok bool) {
	root, path := selPath(ix.X)
	a, full := t.absSel(root, path)
	if a == nil || len(full) == 0 {
		return 0, false
	}
	prefix := strings.Join(append(append([]string{}, full[:len(full)-1]...), full[len(full)-1]+"[]"), ".") + "."
	var names []string
	for n := range a.views {
		names = append(names, n)
	}
	sort.Strings(names)
	for _, n := range names {
		if v := a.views[n]; strings.HasPrefix(strings.Join(v.path, "."), prefix) {
			return v.ty.alen, true
		}
	}
	return 0, false
}

func (t *tr) isMapExpr(e ast.Expr) bool {
	tv, ok := t.p.info.Types[e]
	if !ok || tv.Type == nil {
		return false
	}
	_, isMap := tv.Type.Underlying().(*types.Map)
	return isMap
}

// atomicLoad: e is `atomic.LoadInt32(x.path)` with x abstract
func (t *tr) atomicLoad(e ast.Expr) (a *absParam, path []string, ok bool) {
	ce, isCall := e.(*ast.CallExpr)
	if !isCall || len(ce.Args) != 1 {
		return nil, nil, false
	}
	sel, isSel := ce.Fun.(*ast.SelectorExpr)
	if !isSel {
		return nil, nil, false
	}
	fn, isFn := t.p.info.Uses[sel.Sel].(*types.Func)
	if !isFn || fn.Pkg() == nil || fn.Pkg().Path() != "sync/atomic" || fn.Name() != "LoadInt32" {
		return nil, nil, false
	}
	root, path := selPath(ce.Args[0])
	a, full := t.absSel(root, path)
	if a == nil || len(full) == 0 {
		return nil, nil, false
	}
	return a, full, true
}

func (t *tr) slotView(at ast.Node) string {
	a := t.slotAbs
	n := viewName(a.name, []string{t.spec.slot})
	return t.view(a, []string{t.spec.slot}, a.views[n].ty)
}

// slotTarget: e is `&x.slot[i]`
func (t *tr) slotTarget(e ast.Expr) (*ast.IndexExpr, bool) {
	if t.slotAbs == nil {
		return nil, false
	}
	if p, ok := e.(*ast.ParenExpr); ok {
		return t.slotTarget(p.X)
	}
	ue, ok := e.(*ast.UnaryExpr)
	if !ok || ue.Op != token.AND {
		return nil, false
	}
	ix, ok := ue.X.(*ast.IndexExpr)
	if !ok {
		return nil, false
	}
	root, path := selPath(ix.X)
	a, full := t.absSel(root, path)
	if a != t.slotAbs || len(full) != 1 || full[0] != t.spec.slot {
		return nil, false
	}
	return ix, true
}

func (t *tr) slotResult(ps []sigParam, rty types.Type) ltype {
	ptr, ok := rty.(*types.Pointer)
	if !ok {
		return ltype{c: tBad}
	}
	want := t.ltypeOf(ptr.Elem())
	for _, sp := range ps {
		if !sp.abstract {
			continue
		}
		a := t.abs[sp.obj]
		v, found := a.views[viewName(a.name, []string{t.spec.slot})]
		if found && v.ty.c == tArr && v.ty.alen < 0 && want.c == tStruct && v.ty.elems[0].lean() == want.lean() {
			t.slotAbs = a
			if len(a.mut) > 0 {
				t.slotMut = a
			}
			t.slots = map[types.Object]bool{}
			return ltype{c: tSlot}
		}
	}
	return ltype{c: tBad}
}

func (t *tr) isSlotIdent(e ast.Expr) (types.Object, bool) {
	id, ok := e.(*ast.Ident)
	if !ok || t.slots == nil {
		return nil, false
	}
	obj := t.p.info.Uses[id]
	if obj == nil {
		obj = t.p.info.Defs[id]
	}
	return obj, obj != nil && t.slots[obj]
}

func (t *tr) expr5(e ast.Expr) (string, bool) {
	switch e := e.(type) {
	case *ast.Ident:
		if _, isSlot := t.isSlotIdent(e); isSlot {
			t.fail(e, "a pointer into %s used as a value (only `p.f`, `return p`)", t.spec.slot)
			return "?", true
		}
	case *ast.SelectorExpr:
		if root, path := selPath(e); root != nil {
			if _, isSlot := t.isSlotIdent(root); isSlot {
				elem := t.slotAbs.views[viewName(t.slotAbs.name, []string{t.spec.slot})].ty.elems[0]
				out := "(" + t.slotView(e) + ".getD " + t.nm(root) + " " + zeroOf(elem) + ")"
				for _, f := range path {
					out += "." + safe(f)
				}
				return out, true
			}
			return "", false
		}
		name, vi, ix, rest, ok := t.projParts(e)
		if ix == nil {
			return "", false
		}
		if !ok {
			if _, isProj := t.isProjIndex(ix); isProj {
				t.fail(e, "read through an indexed field that is not among the declared projection views")
				return "?", true
			}
			return "", false
		}
		if !t.wantOpt(e) {
			return "?", true
		}
		nat, _ := t.natOf(ix.Index)
		out := "(" + name + ".getD " + nat + " " + zeroOf(vi.ty.elems[0]) + ")"
		for _, f := range rest {
			out += "." + safe(f)
		}
		return out, true
	case *ast.IndexExpr:
		if t.isMapExpr(e.X) {
			mt := t.typeOf(e.X)
			if mt.c != tMap {
				t.fail(e, "map type")
				return "?", true
			}
			return "((mapGet " + t.expr(e.X) + " " + t.expr(e.Index) + ").getD " + zeroOf(mt.elems[1]) + ")", true
		}
	case *ast.CallExpr:
		if a, path, ok := t.atomicLoad(e); ok {
			key := viewName(a.name, path)
			if t.loads == nil {
				t.loads = map[string]bool{}
			}
			if len(t.loops) > 0 || len(t.uses) > 0 {
				t.fail(e, "atomic load inside a loop / switch (two loads may see different values)")
				return "?", true
			}
			n := 0
			ast.Inspect(t.fnBody, func(x ast.Node) bool {
				if xe, isE := x.(ast.Expr); isE {
					if a2, p2, ok2 := t.atomicLoad(xe); ok2 && viewName(a2.name, p2) == key {
						n++
					}
				}
				return true
			})
			if n != 1 {
				t.fail(e, "%d atomic loads of %s in one function (two loads may see different values)", n, key)
				return "?", true
			}
			return t.view(a, append(append([]string{}, path...), "load"), ltype{c: tInt, width: 32}), true
		}
	}
	return "", false
}

func (t *tr) binary5(e *ast.BinaryExpr, rt ltype) (string, bool) {
	switch e.Op {
	case token.EQL, token.NEQ:
		x, y := e.X, e.Y
		if t.isNilExpr(x) {
			x, y = y, x
		}
		if !t.isNilExpr(y) {
			return "", false
		}
		if _, isSlot := t.isSlotIdent(x); isSlot {
			t.fail(e, "nil test of a pointer into %s", t.spec.slot)
			return "?", true
		}
		if _, isSel := x.(*ast.SelectorExpr); !isSel {
			return "", false
		}
		root, path := selPath(x)
		a, full := t.absSel(root, path)
		if a == nil || len(full) == 0 {
			return "", false
		}
		v := t.view(a, append(append([]string{}, full...), "isNil"), ltype{c: tBool})
		if e.Op == token.NEQ {
			return "(!" + v + ")", true
		}
		return v, true
	case token.QUO, token.REM:
		if t.p.info.Types[e.Y].Value != nil {
			return "", false
		}
		lt := t.typeOf(e.X)
		if lt.c != tBV && lt.c != tNat {
			return "", false // signed: refused by the caller
		}
		op := " / "
		if e.Op == token.REM {
			op = " % "
		}
		return "(" + t.expr(e.X) + op + t.expr(e.Y) + ")", true // the divisor is guarded by pcs5
	case token.SHL:
		lt := t.typeOf(e.X)
		if lt.c == tInt && lt.width == 0 && t.p.info.Types[e.Y].Value == nil {
			return "(BitVec.toInt (shl (BitVec.ofInt 64 " + t.expr(e.X) + ") " + t.shiftAmount(e.Y) + "))", true
		}
	}
	return "", false
}

func (t *tr) pcs5(e ast.Expr, cond bool, hoist *[]*ast.CallExpr) ([]string, bool) {
	switch e := e.(type) {
	case *ast.BinaryExpr:
		if (e.Op == token.QUO || e.Op == token.REM) && t.p.info.Types[e.Y].Value == nil {
			lt := t.typeOf(e.X)
			if lt.c != tBV && lt.c != tNat {
				return nil, false
			}
			out := append(t.pcs(e.X, cond, hoist), t.pcs(e.Y, cond, hoist)...)
			return append(out, "("+t.expr(e.Y)+" == "+zero(lt)+")"), true
		}
	case *ast.IndexExpr:
		if t.isMapExpr(e.X) {
			return t.pcs(e.Index, cond, hoist), true
		}
		if alen, ok := t.isProjIndex(e); ok {
			out := t.pcs(e.Index, cond, hoist)
			x := t.expr(e.Index)
			switch ity := t.typeOf(e.Index); ity.c {
			case tNat:
				out = append(out, fmt.Sprintf("!(decide (%s < %d))", x, alen))
			case tBV:
				out = append(out, fmt.Sprintf("!(decide (%s.toNat < %d))", x, alen))
			case tInt:
				out = append(out, fmt.Sprintf("!(decide ((0 : Int) ≤ %s) && decide (%s < (%d : Int)))", x, x, alen))
			default:
				t.fail(e, "index type")
			}
			return out, true
		}
	case *ast.CallExpr:
		if _, _, ok := t.atomicLoad(e); ok {
			return nil, true
		}
	}
	return nil, false
}

func (t *tr) stmt5(s ast.Stmt, cont func() string) (string, bool) {
	switch s := s.(type) {
	case *ast.IfStmt:
		if t.spec.stopAt != "" && t.voidMut != nil && s.Init == nil && s.Else == nil && len(s.Body.List) == 1 &&
			types.ExprString(s.Cond) == t.spec.stopAt && len(t.loops) == 0 {
			if r, ok := s.Body.List[0].(*ast.ReturnStmt); ok && len(r.Results) == 0 {
				// translated under the declared assumption that the condition holds here
				return t.emitReturn(t.mutValue(s, t.voidMut)), true
			}
		}
	case *ast.ReturnStmt:
		if t.slotAbs == nil {
			return "", false
		}
		if len(s.Results) != 1 {
			t.fail(s, "return shape in a function returning a pointer into %s", t.spec.slot)
			return "?", true
		}
		var v string
		r := s.Results[0]
		if t.isNilExpr(r) {
			v = "none"
		} else if id, ok := r.(*ast.Ident); ok {
			if _, isSlot := t.isSlotIdent(id); !isSlot {
				t.fail(s, "returned pointer is not known to point into %s", t.spec.slot)
				return "?", true
			}
			v = "(some " + t.nm(id) + ")"
		} else if ix, ok := t.slotTarget(r); ok {
			nat, _ := t.natOf(ix.Index)
			v = "(some " + nat + ")"
		} else {
			t.fail(s, "returned pointer is not known to point into %s", t.spec.slot)
			return "?", true
		}
		if t.slotMut != nil {
			v = tuple([]string{v, t.mutValue(s, t.slotMut)})
		}
		return t.emitReturn(v), true
	case *ast.AssignStmt:
		if len(s.Lhs) != 1 || len(s.Rhs) != 1 {
			return "", false
		}
		// `te := &m.table[i]` / `te = &m.table[i]`
		if id, isId := s.Lhs[0].(*ast.Ident); isId && t.slotAbs != nil {
			obj := t.p.info.Defs[id]
			if obj == nil {
				obj = t.p.info.Uses[id]
			}
			if ix, ok := t.slotTarget(s.Rhs[0]); ok && obj != nil && (s.Tok == token.DEFINE || (s.Tok == token.ASSIGN && t.slots[obj])) {
				if len(t.loops) > 0 || len(t.uses) > 0 {
					t.fail(s, "a pointer into %s assigned inside a loop / switch", t.spec.slot)
					return "?", true
				}
				t.slots[obj] = true
				nat, _ := t.natOf(ix.Index)
				return fmt.Sprintf("let %s : Nat := %s\n", t.nm(id), nat) + cont(), true
			}
			if obj != nil && t.slots[obj] {
				t.fail(s, "a pointer into %s may only be given `&%s[e]`", t.spec.slot, t.spec.slot)
				return "?", true
			}
		}
		// `x.m[k] = v`, `x.m[k] op= v`
		if l, isIdx := s.Lhs[0].(*ast.IndexExpr); isIdx && t.isMapExpr(l.X) {
			a, path, ok := t.mutField(l.X)
			mt := t.typeOf(l.X)
			if !ok || mt.c != tMap || s.Tok == token.DEFINE {
				t.fail(s, "map assignment (only to an assignable map field of a parameter)")
				return "?", true
			}
			if !t.wantOpt(s) {
				return "?", true
			}
			isNil := t.view(a, append(append([]string{}, path...), "isNil"), ltype{c: tBool})
			var val string
			if s.Tok == token.ASSIGN {
				val = t.expr(s.Rhs[0])
			} else {
				op, known := assignOps[s.Tok]
				if !known {
					t.fail(s, "assignment operator")
					return "?", true
				}
				val = t.binary(&ast.BinaryExpr{X: l, Op: op, Y: s.Rhs[0], OpPos: s.TokPos}, mt.elems[1])
			}
			name := t.lhsName(l.X)
			t.markAssigned(l.X)
			return fmt.Sprintf("if %s then none else\nlet %s := mapPut %s %s %s\n", isNil, name, name, t.expr(l.Index), val) + cont(), true
		}
	}
	return "", false
}
