package main

import (
	"fmt"
	"go/ast"
	"go/constant"
	"go/token"
	"go/types"
	"sort"
	"strings"
)

// Second round of the translator: slices / arrays, Go's run-time panics, result-building loops.
//
//   - `[]T`, `[N]T` (and named types over them) -> `Array T`.  A read `a[i]` is translated to `a.getD i zero` AFTER an explicit
//     guard `if !(i in range) then none else ...` emitted in front of the statement that evaluates it, so the function's
//     result becomes `Option` (`none` = Go panics: index out of range, explicit panic, or a loop that does not end /
//     ran out of its whitelist fuel).  `&&` / `||` keep their short-circuit meaning in the guard
//     (`a || b[i]` only checks `i` when `a` is false).
//   - calls of Option-valued (panicking) functions are hoisted in front of the statement:
//     `match f x with | none => none | some tmp0 => ...` (rejected under the right operand of `&&` / `||`).
//   - `len`, `append(s, v...)`, `make([]T, n)`, `nil`, `s[a:]`, `s[i] = v`, struct and array literals, `v.f = e` on struct values.
//   - package-level variables only when declared in the whitelist entry (`globals`): parameter `g_<name>`.
//   - function-typed parameters (`s Symmetry`) -> Lean function parameters.
//   - loops with `break` / `continue` / `return`, local definitions, nested loops:
//     `for .. range xs` -> structural recursion over `xs.toList`;
//     `for i := a; i < b; i++` (also `<=`, and `i >= b; i--`; int / uint / uintN) -> recursion on the exact iteration count;
//     any other `for init; cond; post` -> fuelled helper (fuel from the whitelist, `none` when it runs out).
//     State = the variables declared outside the loop and assigned in it; a `return v` inside a loop makes the helper
//     return `Except.error v` (`.ok state` = the loop ended normally).

type useInfo struct {
	ty  ltype
	pos token.Pos // declaration position (NoPos: parameter-like, never loop-local)
}

type loopCtx struct {
	isSwitch bool
	brk, cnt func() string
	ret      func(v string) string
}

func (t *tr) use(name string, ty ltype, pos token.Pos) {
	for _, f := range t.uses {
		if _, ok := f[name]; !ok {
			f[name] = useInfo{ty, pos}
		}
	}
}

// wantOpt: the construct at n can panic; the function must have an Option result (function() retries with opt = true)
func (t *tr) wantOpt(n ast.Node) bool {
	if t.opt {
		return true
	}
	t.needOpt = true
	t.fail(n, "can panic (needs an Option result)")
	return false
}

func zeroOf(lt ltype) string {
	switch lt.c {
	case tStruct:
		return "(default : " + lt.sname + ")"
	case tArr:
		if lt.alen > 0 {
			return fmt.Sprintf("(Array.replicate %d %s)", lt.alen, zeroOf(lt.elems[0])) // `var a [N]T`
		}
		return "#[]"
	}
	return zero(lt)
}

func (t *tr) global(n ast.Node, v *types.Var) string {
	lt, ok := t.globals[v.Name()]
	if !ok {
		t.fail(n, "reads the package-level variable %s, which is not among the globals declared for it in the whitelist", v.Name())
		return "?"
	}
	name := "g_" + v.Name()
	t.use(name, lt, token.NoPos)
	return name
}

func (t *tr) isGlobal(id *ast.Ident) bool {
	v, ok := t.p.info.Uses[id].(*types.Var)
	return ok && !v.IsField() && v.Parent() == t.p.pkg.Scope()
}

func (t *tr) declareGlobals() {
	t.globals = map[string]ltype{}
	for _, name := range strings.Fields(t.spec.globals) {
		obj := t.p.pkg.Scope().Lookup(name)
		v, ok := obj.(*types.Var)
		if !ok {
			t.err2("global %s: no such package-level variable", name)
			return
		}
		lt := t.ltypeOf(v.Type())
		if lt.c == tBad {
			t.err2("global %s: type %s is not translatable", name, v.Type())
			return
		}
		t.globals[name] = lt
	}
}

func (t *tr) globalNames() []string {
	var ns []string
	for n := range t.globals {
		ns = append(ns, n)
	}
	sort.Strings(ns)
	return ns
}

// isArr: e has slice / array type (and is not a constant-index view of an abstract array parameter)
func (t *tr) isArr(e ast.Expr) bool {
	tv, ok := t.p.info.Types[e]
	if !ok || tv.Type == nil {
		return false
	}
	if id, ok := e.(*ast.Ident); ok && t.absOf(id) != nil {
		return false
	}
	switch tv.Type.Underlying().(type) {
	case *types.Slice, *types.Array:
		return true
	}
	return false
}

// indexParts: the array, the index as a Nat, and the Bool "index in range" of a[i]
func (t *tr) indexParts(e *ast.IndexExpr) (arr, nat, inRange string) {
	arr = t.expr(e.X)
	if tv := t.p.info.Types[e.Index]; tv.Value != nil {
		k := constant.ToInt(tv.Value)
		if constant.Sign(k) < 0 {
			t.fail(e, "negative constant index")
			return arr, "?", "?"
		}
		nat = k.ExactString()
		return arr, nat, fmt.Sprintf("(decide (%s < %s.size))", nat, arr)
	}
	ity := t.typeOf(e.Index)
	x := t.expr(e.Index)
	switch ity.c {
	case tNat:
		return arr, x, fmt.Sprintf("(decide (%s < %s.size))", x, arr)
	case tBV:
		return arr, x + ".toNat", fmt.Sprintf("(decide (%s.toNat < %s.size))", x, arr)
	case tInt:
		return arr, x + ".toNat", fmt.Sprintf("(decide ((0 : Int) ≤ %s) && decide (%s < Int.ofNat %s.size))", x, x, arr)
	}
	t.fail(e, "index type")
	return arr, "?", "?"
}

// optCallee: the whitelisted, Option-valued function a call expression resolves to (nil otherwise)
func (t *tr) optCallee(e *ast.CallExpr) *fnInfo {
	var obj types.Object
	switch f := e.Fun.(type) {
	case *ast.Ident:
		obj = t.p.info.Uses[f]
	case *ast.SelectorExpr:
		obj = t.p.info.Uses[f.Sel]
	}
	fn, ok := obj.(*types.Func)
	if !ok {
		return nil
	}
	if c, ok := t.g.done[funcKey(fn)]; ok && c.opt {
		return c
	}
	return nil
}

// pcs: the conditions (Lean Bool terms) under which evaluating e panics because of an index / slice bound.
// `cond` says whether e is evaluated only conditionally (right operand of && / ||): Option-valued calls are rejected there.
func (t *tr) pcs(e ast.Expr, cond bool, hoist *[]*ast.CallExpr) []string {
	if e == nil || t.err != nil {
		return nil
	}
	if tv, ok := t.p.info.Types[e]; ok && tv.Value != nil {
		return nil
	}
	if t.seven != nil {
		if c, ok := t.pcs7(e, cond, hoist); ok {
			return c
		}
	}
	if t.spec.round6 {
		if c, ok := t.pcs6(e, cond, hoist); ok {
			return c
		}
	}
	if t.spec.round5 {
		if c, ok := t.pcs5(e, cond, hoist); ok {
			return c
		}
	}
	switch e := e.(type) {
	case *ast.ParenExpr:
		return t.pcs(e.X, cond, hoist)
	case *ast.SelectorExpr:
		if root, _ := selPath(e); root != nil {
			return nil
		}
		return t.pcs(e.X, cond, hoist)
	case *ast.IndexExpr:
		if c, ok := t.absIndexGuard(e); ok {
			return append(t.pcs(e.Index, cond, hoist), c...)
		}
		if !t.isArr(e.X) {
			return nil
		}
		out := append(t.pcs(e.X, cond, hoist), t.pcs(e.Index, cond, hoist)...)
		_, _, in := t.indexParts(e)
		return append(out, "!"+in)
	case *ast.SliceExpr:
		if t.reuseSlice(e) {
			return nil // `s[:0]`, `s[len(s):len(s):cap(s)]` never panic
		}
		if t.fullSlice(e) {
			return t.pcs(e.X, cond, hoist)
		}
		out := append(t.pcs(e.X, cond, hoist), t.pcs(e.Low, cond, hoist)...)
		if e.High != nil || e.Max != nil || e.Low == nil {
			t.fail(e, "slice expression (only s[a:])")
			return nil
		}
		lo, ok := t.natOf(e.Low)
		if !ok {
			return nil
		}
		return append(out, fmt.Sprintf("!(decide (%s ≤ %s.size))", lo, t.expr(e.X)))
	case *ast.UnaryExpr:
		return t.pcs(e.X, cond, hoist)
	case *ast.BinaryExpr:
		l := t.pcs(e.X, cond, hoist)
		r := t.pcs(e.Y, cond || e.Op == token.LAND || e.Op == token.LOR, hoist)
		if len(r) == 0 {
			return l
		}
		switch e.Op {
		case token.LAND:
			return append(l, "("+t.expr(e.X)+" && ("+strings.Join(r, " || ")+"))")
		case token.LOR:
			return append(l, "(!"+t.expr(e.X)+" && ("+strings.Join(r, " || ")+"))")
		}
		return append(l, r...)
	case *ast.CallExpr:
		var out []string
		for _, a := range e.Args {
			out = append(out, t.pcs(a, cond, hoist)...)
		}
		if id, ok := e.Fun.(*ast.Ident); ok {
			if _, isB := t.p.info.Uses[id].(*types.Builtin); isB && id.Name == "make" && len(e.Args) == 2 {
				if lt := t.typeOf(e.Args[1]); lt.c == tInt {
					if tv := t.p.info.Types[e.Args[1]]; tv.Value == nil {
						out = append(out, "(decide ("+t.expr(e.Args[1])+" < (0 : Int)))")
					}
				}
			}
		}
		if sel, ok := e.Fun.(*ast.SelectorExpr); ok {
			if root, _ := selPath(sel.X); root == nil || t.absOf(root) == nil {
				out = append(out, t.pcs(sel.X, cond, hoist)...)
			} else if t.spec.round6 {
				// the receiver is read through a pointer field that may be nil (iter.go)
				if c, ok := t.pcs6(sel.X, cond, hoist); ok {
					out = append(out, c...)
				}
			}
		}
		if t.isOptCall(e) {
			if cond {
				t.fail(e, "call of a function that may panic under the right operand of && / ||")
				return nil
			}
			if hoist != nil {
				*hoist = append(*hoist, e)
			}
		}
		return out
	case *ast.CompositeLit:
		var out []string
		for _, el := range e.Elts {
			if kv, ok := el.(*ast.KeyValueExpr); ok {
				out = append(out, t.pcs(kv.Value, cond, hoist)...)
			} else {
				out = append(out, t.pcs(el, cond, hoist)...)
			}
		}
		return out
	}
	return nil
}

// natOf: an integer expression as a Lean Nat (index / length positions; negative values are guarded elsewhere)
func (t *tr) natOf(e ast.Expr) (string, bool) {
	if tv := t.p.info.Types[e]; tv.Value != nil {
		k := constant.ToInt(tv.Value)
		if constant.Sign(k) < 0 {
			t.fail(e, "negative constant")
			return "?", false
		}
		return k.ExactString(), true
	}
	lt := t.typeOf(e)
	x := t.expr(e)
	switch lt.c {
	case tNat:
		return x, true
	case tBV, tInt:
		return x + ".toNat", true
	}
	t.fail(e, "length / index of type %s", lt.lean())
	return "?", false
}

// guard: the prefix that makes the evaluation of es safe: hoisted Option-valued calls, then the panic conditions.
func (t *tr) guard(es ...ast.Expr) string {
	var hoist []*ast.CallExpr
	var conds []string
	for _, e := range es {
		conds = append(conds, t.pcs(e, false, &hoist)...)
	}
	if t.err != nil || (len(conds) == 0 && len(hoist) == 0) {
		return ""
	}
	if !t.wantOpt(es[0]) {
		return ""
	}
	out := ""
	if len(conds) > 0 {
		// duplicates are common (`a[i] != b[i]` ...): keep the first of each
		seen := map[string]bool{}
		var cs []string
		for _, c := range conds {
			if !seen[c] {
				seen[c] = true
				cs = append(cs, c)
			}
		}
		out += "if " + strings.Join(cs, " || ") + " then none else\n"
	}
	for _, ce := range hoist {
		t.hoisting = ce
		call := t.call(ce)
		t.hoisting = nil
		name := fmt.Sprintf("tmp%d", t.ntmp)
		t.ntmp++
		t.hoisted[ce] = name
		out += "match " + call + " with\n| none => none\n| some " + name + " =>\n"
	}
	return out
}

// stmtExprs: the expressions a statement evaluates unconditionally when it is reached
func (t *tr) stmtExprs(s ast.Stmt) []ast.Expr {
	switch s := s.(type) {
	case *ast.ReturnStmt:
		return s.Results
	case *ast.DeclStmt:
		var es []ast.Expr
		if gd, ok := s.Decl.(*ast.GenDecl); ok && gd.Tok == token.VAR {
			for _, sp := range gd.Specs {
				es = append(es, sp.(*ast.ValueSpec).Values...)
			}
		}
		return es
	case *ast.AssignStmt:
		var es []ast.Expr
		for _, l := range s.Lhs {
			if _, ok := l.(*ast.IndexExpr); ok {
				es = append(es, l)
			}
			if _, ok := l.(*ast.StarExpr); ok {
				es = append(es, l)
			}
		}
		for _, r := range s.Rhs {
			if _, isFn := r.(*ast.FuncLit); !isFn {
				es = append(es, r)
			}
		}
		return es
	case *ast.IncDecStmt:
		return []ast.Expr{s.X}
	case *ast.ExprStmt:
		// a call statement (mut.go): its arguments are evaluated, the call itself is bound by the statement
		if ce, ok := s.X.(*ast.CallExpr); ok {
			if id, isId := ce.Fun.(*ast.Ident); !isId || id.Name != "panic" {
				return ce.Args
			}
		}
	case *ast.IfStmt:
		if s.Init == nil {
			return []ast.Expr{s.Cond}
		}
	case *ast.SwitchStmt:
		if s.Init == nil && s.Tag != nil {
			return []ast.Expr{s.Tag}
		}
	}
	return nil
}

func tupleProj(x string, i, n int) string {
	if n == 1 {
		return x
	}
	s := x
	for k := 0; k < i; k++ {
		s += ".2"
	}
	if i < n-1 {
		s += ".1"
	}
	return s
}

// callArgs translates call arguments; `f(g())` with a tuple-valued g is expanded into projections
func (t *tr) callArgs(args []ast.Expr) []string {
	if len(args) == 1 {
		if tv, ok := t.p.info.Types[args[0]]; ok {
			if tup, ok := tv.Type.(*types.Tuple); ok && tup.Len() > 1 {
				x := t.expr(args[0])
				var out []string
				for i := 0; i < tup.Len(); i++ {
					out = append(out, tupleProj(x, i, tup.Len()))
				}
				return out
			}
		}
	}
	var out []string
	for _, a := range args {
		out = append(out, t.expr(a))
	}
	return out
}

// builtin translates len / append / make
func (t *tr) builtin(e *ast.CallExpr, name string) string {
	switch name {
	case "len":
		if len(e.Args) == 1 && t.isArr(e.Args[0]) {
			return "(Int.ofNat " + t.expr(e.Args[0]) + ".size)"
		}
	case "append":
		if len(e.Args) >= 1 && t.isArr(e.Args[0]) {
			s := t.expr(e.Args[0])
			if e.Ellipsis.IsValid() {
				if len(e.Args) != 2 {
					break
				}
				return "(" + s + " ++ " + t.expr(e.Args[1]) + ")"
			}
			for _, a := range e.Args[1:] {
				s = "(" + s + ".push " + t.expr(a) + ")"
			}
			return s
		}
	case "make":
		if len(e.Args) == 2 {
			lt := t.ltypeOf(t.p.info.Types[e.Args[0]].Type)
			if lt.c == tArr && lt.alen < 0 {
				n, ok := t.natOf(e.Args[1])
				if ok {
					return "(Array.replicate " + n + " " + zeroOf(lt.elems[0]) + ")"
				}
			}
		}
	}
	t.fail(e, "builtin %s in this form", name)
	return "?"
}

// compositeLit: struct literals (all fields spelled out, missing = zero) and slice / array literals
func (t *tr) compositeLit(e *ast.CompositeLit) string {
	tv := t.p.info.Types[e]
	lt := t.ltypeOf(tv.Type)
	switch lt.c {
	case tStruct:
		_, st := namedStruct(tv.Type)
		vals := make([]string, st.NumFields())
		for i := range vals {
			vals[i] = zeroOf(t.ltypeOf(st.Field(i).Type()))
		}
		for i, el := range e.Elts {
			if kv, ok := el.(*ast.KeyValueExpr); ok {
				k, _ := kv.Key.(*ast.Ident)
				idx := -1
				for j := 0; k != nil && j < st.NumFields(); j++ {
					if st.Field(j).Name() == k.Name {
						idx = j
					}
				}
				if idx < 0 {
					t.fail(el, "struct literal key")
					return "?"
				}
				vals[idx] = t.expr(kv.Value)
			} else {
				if i >= len(vals) {
					t.fail(el, "struct literal arity")
					return "?"
				}
				vals[i] = t.expr(el)
			}
		}
		var fs []string
		for i := range vals {
			fs = append(fs, safe(st.Field(i).Name())+" := "+vals[i])
		}
		return "({ " + strings.Join(fs, ", ") + " } : " + lt.sname + ")"
	case tArr:
		var vs []string
		for _, el := range e.Elts {
			if _, ok := el.(*ast.KeyValueExpr); ok {
				t.fail(el, "keyed array literal")
				return "?"
			}
			vs = append(vs, t.expr(el))
		}
		if lt.alen >= 0 && lt.alen != len(vs) {
			t.fail(e, "array literal shorter than the array")
			return "?"
		}
		return "(#[" + strings.Join(vs, ", ") + "] : " + lt.lean() + ")"
	}
	t.fail(e, "composite literal of type %s", tv.Type)
	return "?"
}

// ---------------------------------------------------------------------------------------------- loops

func containsReturn(n ast.Node) bool {
	found := false
	ast.Inspect(n, func(n ast.Node) bool {
		switch n.(type) {
		case *ast.FuncLit:
			return false
		case *ast.ReturnStmt:
			found = true
		}
		return true
	})
	return found
}

// needsNew: the loop body uses something the first-round loop translations cannot express
func (t *tr) needsNew(n ast.Node) bool {
	need := false
	ast.Inspect(n, func(n ast.Node) bool {
		switch n := n.(type) {
		case *ast.IndexExpr:
			if t.isArr(n.X) {
				need = true
			}
		case *ast.SliceExpr, *ast.RangeStmt, *ast.BranchStmt, *ast.ReturnStmt, *ast.DeclStmt, *ast.SwitchStmt:
			need = true
		case *ast.ForStmt:
			need = true
		case *ast.AssignStmt:
			if n.Tok == token.DEFINE || len(n.Lhs) != 1 {
				need = true
			}
		case *ast.IfStmt:
			if n.Init != nil {
				need = true
			}
			if _, elseIf := n.Else.(*ast.IfStmt); elseIf {
				need = true
			}
		case *ast.CallExpr:
			if t.isOptCall(n) {
				need = true
			}
			if id, ok := n.Fun.(*ast.Ident); ok {
				if _, isB := t.p.info.Uses[id].(*types.Builtin); isB {
					need = true
				}
			}
		case *ast.Ident:
			if t.absOf(n) != nil {
				need = true
			}
			if v, ok := t.p.info.Uses[n].(*types.Var); ok && !v.IsField() && v.Parent() == t.p.pkg.Scope() {
				need = true
			}
		}
		return !need
	})
	return need
}

type stateVar struct {
	name string
	ty   ltype
	pos  token.Pos
}

// loopState: the variables declared outside [from, to) that are assigned inside the given nodes
func (t *tr) loopState(from, to token.Pos, nodes ...ast.Node) []stateVar {
	found := map[string]ltype{}
	poss := map[string]token.Pos{}
	visit := func(n ast.Node) bool {
		var targets []ast.Expr
		switch n := n.(type) {
		case *ast.FuncLit:
			return false
		case *ast.AssignStmt:
			if n.Tok != token.DEFINE {
				targets = n.Lhs
			}
		case *ast.IncDecStmt:
			targets = []ast.Expr{n.X}
		}
		t.oracleWrites(n, found, poss)
		if es, isES := n.(*ast.ExprStmt); isES {
			// a call that assigns the elements of a slice argument (eval.go)
			if _, v, ok := t.outCallTarget(es); ok {
				found[t.nm(v)] = t.typeOf(v)
				poss[t.nm(v)] = t.p.info.Uses[v].Pos()
				return true
			}
		}
		if st, isStmt := n.(ast.Stmt); isStmt && (t.spec.copies != "" || len(t.spec.mut) > 0) {
			// declared copies and calls of functions that assign through a parameter (mut.go)
			w := t.stmtWrites(st)
			for k, ty := range w {
				found[k] = ty
				poss[k] = token.NoPos
			}
			if len(w) > 0 {
				return true
			}
		}
		for _, l := range targets {
			if t.spec.round6 && (t.storagePath(l) || t.isStorLocal(l)) {
				continue // a buffer is moved (iter.go): not a value
			}
			if tgt, ok := t.derefTarget(l); ok {
				// `*q = ..` through a pointer whose target is known on this path (mut.go)
				if tgt != nil {
					found[viewName(tgt.a.name, tgt.path)] = tgt.ty
					poss[viewName(tgt.a.name, tgt.path)] = token.NoPos
				}
				continue
			}
			if a, path, ok := t.mutField(stripIndex(l)); ok {
				found[viewName(a.name, path)] = a.views[viewName(a.name, path)].ty
				poss[viewName(a.name, path)] = token.NoPos
				continue
			}
			for {
				if ix, ok := l.(*ast.IndexExpr); ok {
					l = ix.X
					continue
				}
				if p, ok := l.(*ast.ParenExpr); ok {
					l = p.X
					continue
				}
				break
			}
			root, path := selPath(l)
			if root == nil || root.Name == "_" {
				continue
			}
			obj := t.p.info.Uses[root]
			if obj == nil || (obj.Pos() >= from && obj.Pos() < to) {
				continue
			}
			if t.absOf(root) != nil {
				t.fail(l, "assignment through the abstract parameter %s", root.Name)
				continue
			}
			if st, isLocal := t.locals[root.Name]; isLocal && len(path) == 1 {
				for k := 0; k < st.NumFields(); k++ {
					if st.Field(k).Name() == path[0] {
						found[t.nm(root)+"_"+path[0]] = t.ltypeOf(st.Field(k).Type())
						poss[t.nm(root)+"_"+path[0]] = obj.Pos()
					}
				}
				continue
			}
			lt := t.ltypeOf(obj.Type())
			if lt.c == tBad || lt.c == tTuple || lt.c == tFunc {
				t.fail(l, "loop state variable %s of type %s", root.Name, obj.Type())
				continue
			}
			if t.isGlobal(root) {
				if root.Name != t.spec.writes {
					t.fail(l, "assignment to the package-level variable %s", root.Name)
					continue
				}
				found["g_"+root.Name] = lt
				poss["g_"+root.Name] = token.NoPos
				continue
			}
			found[t.nm(root)] = lt
			poss[t.nm(root)] = obj.Pos()
		}
		return true
	}
	for _, n := range nodes {
		if n != nil {
			ast.Inspect(n, visit)
		}
	}
	var out []stateVar
	for _, k := range sortedKeys(found) {
		out = append(out, stateVar{k, found[k], poss[k]})
	}
	return out
}

func varsOf(t *tr, e ast.Expr) map[string]bool {
	out := map[string]bool{}
	if e == nil {
		return out
	}
	ast.Inspect(e, func(n ast.Node) bool {
		if id, ok := n.(*ast.Ident); ok {
			if v, ok := t.p.info.Uses[id].(*types.Var); ok && !v.IsField() {
				out[t.nm(id)] = true
			}
		}
		return true
	})
	return out
}

type loopShape struct {
	kind string // "range", "up", "down", "while"
	body *ast.BlockStmt
	// range
	rng *ast.RangeStmt
	// counted
	ivar     *ast.Ident
	lo, hi   ast.Expr
	incl     bool
	ity      ltype
	cond     ast.Expr
	init     ast.Stmt
	post     ast.Stmt
	initVars []stateVar
}

func (t *tr) shapeOf(s ast.Stmt) (sh loopShape, ok bool) {
	switch s := s.(type) {
	case *ast.RangeStmt:
		if !t.isArr(s.X) {
			t.fail(s, "range over something that is not a slice / array")
			return sh, false
		}
		if s.Tok == token.ASSIGN {
			t.fail(s, "range with `=`")
			return sh, false
		}
		return loopShape{kind: "range", body: s.Body, rng: s}, true
	case *ast.ForStmt:
		sh.body = s.Body
		init, ok1 := s.Init.(*ast.AssignStmt)
		cond, ok2 := s.Cond.(*ast.BinaryExpr)
		post, ok3 := s.Post.(*ast.IncDecStmt)
		if ok1 && ok2 && ok3 && init.Tok == token.DEFINE && len(init.Lhs) == 1 && len(init.Rhs) == 1 {
			iv, _ := init.Lhs[0].(*ast.Ident)
			ci, _ := cond.X.(*ast.Ident)
			pi, _ := post.X.(*ast.Ident)
			if iv != nil && ci != nil && pi != nil && ci.Name == iv.Name && pi.Name == iv.Name {
				ity := t.ltypeOf(t.p.info.Defs[iv].Type())
				up := post.Tok == token.INC && (cond.Op == token.LSS || cond.Op == token.LEQ)
				down := post.Tok == token.DEC && (cond.Op == token.GEQ || cond.Op == token.GTR) && ity.c == tInt && ity.width == 0
				okTy := ity.c == tNat || ity.c == tBV || (ity.c == tInt && ity.width == 0)
				// the loop variable must not be assigned in the body, the bound not depend on anything assigned there
				if okTy && (up || down) {
					st := t.loopState(s.Body.Pos(), s.Body.End(), s.Body)
					bad := false
					bv := varsOf(t, cond.Y)
					for _, v := range st {
						if v.name == t.nm(iv) || bv[v.name] {
							bad = true
						}
					}
					// flattened local struct fields / array elements in the bound
					ast.Inspect(cond.Y, func(n ast.Node) bool {
						if se, ok := n.(*ast.SelectorExpr); ok {
							if id, ok := se.X.(*ast.Ident); ok {
								for _, v := range st {
									if v.name == t.nm(id)+"_"+se.Sel.Name {
										bad = true
									}
								}
							}
						}
						return true
					})
					if !bad {
						sh.kind = "up"
						if down {
							sh.kind = "down"
						}
						sh.ivar, sh.lo, sh.hi, sh.ity = iv, init.Rhs[0], cond.Y, ity
						sh.incl = cond.Op == token.LEQ || cond.Op == token.GEQ
						return sh, true
					}
				}
			}
		}
		if s.Cond == nil && !(s.Init == nil && s.Post == nil && (ownBreak(s.Body) || (t.spec.round6 && containsReturn(s.Body)))) {
			t.fail(s, "loop without condition in this form")
			return sh, false
		}
		sh.kind = "while"
		sh.cond, sh.init, sh.post = s.Cond, s.Init, s.Post
		if s.Init != nil {
			as, ok := s.Init.(*ast.AssignStmt)
			if !ok || as.Tok != token.DEFINE {
				t.fail(s, "loop init statement")
				return sh, false
			}
			for _, l := range as.Lhs {
				id, ok := l.(*ast.Ident)
				if !ok || id.Name == "_" {
					t.fail(s, "loop init statement")
					return sh, false
				}
				lt := t.ltypeOf(t.p.info.Defs[id].Type())
				if lt.c == tBad || lt.c == tTuple || lt.c == tFunc {
					t.fail(s, "loop variable type")
					return sh, false
				}
				sh.initVars = append(sh.initVars, stateVar{t.nm(id), lt, id.Pos()})
			}
		}
		return sh, true
	}
	t.fail(s, "loop statement")
	return sh, false
}

func stTuple(vs []stateVar) string {
	if len(vs) == 0 {
		return "()"
	}
	var ns []string
	for _, v := range vs {
		ns = append(ns, v.name)
	}
	return tuple(ns)
}

func stType(vs []stateVar) string {
	if len(vs) == 0 {
		return "Unit"
	}
	var ts []string
	for _, v := range vs {
		if v.ty.c == tTuple {
			ts = append(ts, "("+v.ty.lean()+")")
		} else {
			ts = append(ts, v.ty.lean())
		}
	}
	if len(ts) == 1 {
		return ts[0]
	}
	return "(" + strings.Join(ts, " × ") + ")"
}

// newLoop translates a loop of the second-round subset (see the head of this file).
func (t *tr) newLoop(s ast.Stmt, cont func() string) string {
	// a pointer retargeted in a loop has no static target afterwards (mut.go)
	ast.Inspect(s, func(n ast.Node) bool {
		if as, ok := n.(*ast.AssignStmt); ok {
			for _, l := range as.Lhs {
				if id, isId := l.(*ast.Ident); isId {
					if _, isAlias := t.alias[t.p.info.Uses[id]]; isAlias {
						t.fail(as, "the pointer %s is given a target inside a loop (its target must be statically known)", id.Name)
					}
				}
			}
		}
		return true
	})
	if t.err != nil {
		return "?"
	}
	sh, ok := t.shapeOf(s)
	if !ok || t.err != nil {
		return "?"
	}
	hasRet := containsReturn(sh.body)
	if fs, isFor := s.(*ast.ForStmt); isFor && t.spec.round6 && sh.kind == "while" && sh.cond == nil && !ownBreak(fs.Body) {
		// `for { .. return .. }` without a break of its own (iter.go): what follows the loop is unreachable
		cont = func() string { return "none" }
	}
	opt := t.opt
	if sh.kind == "while" && !t.wantOpt(s) {
		return "?"
	}
	// state
	var state []stateVar
	switch sh.kind {
	case "while":
		state = t.loopState(s.Pos(), s.End(), sh.body, sh.post)
		// the init variables are loop state as well (sorted with the rest)
		m := map[string]ltype{}
		mp := map[string]token.Pos{}
		for _, v := range append(append([]stateVar{}, state...), sh.initVars...) {
			m[v.name] = v.ty
			mp[v.name] = v.pos
		}
		state = nil
		for _, k := range sortedKeys(m) {
			state = append(state, stateVar{k, m[k], mp[k]})
		}
	default:
		state = t.loopState(s.Pos(), s.End(), sh.body)
	}
	if t.err != nil {
		return "?"
	}
	name, cached := t.loopDone[s]
	if !cached {
		name = fmt.Sprintf("%s_loop%d", t.spec.lean, t.nloop)
		t.nloop++
	}
	fuel := ""
	if sh.kind == "while" {
		k := 0
		fmt.Sscanf(name[strings.LastIndex(name, "_loop")+5:], "%d", &k)
		if k >= len(t.spec.fuel) {
			t.fail(s, "no fuel given in the whitelist for loop %d", k)
			return "?"
		}
		fuel = t.spec.fuel[k]
	}
	stT := stType(state)
	resT := stT
	if hasRet {
		resT = "Except (RESULT) " + stT
	}
	if opt {
		resT = "Option (" + resT + ")"
	}
	some := func(v string) string {
		if opt {
			return "some (" + v + ")"
		}
		return v
	}
	done := func(st string) string {
		if hasRet {
			return some(".ok " + st)
		}
		return some(st)
	}
	retf := func(v string) string { return some(".error (" + v + ")") }

	// --- the part before the loop: guards of the range expression / the bounds, evaluated once
	pre := ""
	var callTail string // arguments after the free variables
	var pats0, pats1 string
	var recTail func() string
	var bodyHead, extraParam string
	loopLocal := map[string]bool{}
	switch sh.kind {
	case "range":
		r := sh.rng
		// the ranged-over variable must not be assigned in the body (element writes would be visible to Go's range)
		if root, _ := selPath(stripIndex(r.X)); root != nil {
			for _, v := range state {
				if v.name == t.nm(root) {
					t.fail(r, "the slice ranged over is assigned in the loop body")
					return "?"
				}
			}
		}
		pre += t.guard(r.X)
		xs := t.expr(r.X)
		et := t.typeOf(r.X).elems[0]
		key, _ := r.Key.(*ast.Ident)
		val, _ := r.Value.(*ast.Ident)
		if (r.Key != nil && key == nil) || (r.Value != nil && val == nil) {
			t.fail(r, "range variables")
			return "?"
		}
		vpat := "_"
		if val != nil && val.Name != "_" {
			vpat = t.nm(val)
			loopLocal[vpat] = true
		}
		withIdx := key != nil && key.Name != "_"
		if withIdx {
			k := t.nm(key)
			loopLocal[k] = true
			pats0 = "| [], _, sv_ => " + done("sv_")
			pats1 = "| " + vpat + " :: tl_, " + k + ", sv_ =>"
			recTail = func() string { return "tl_ (" + k + " + 1) " + stTuple(state) }
			callTail = "(" + xs + ").toList (0 : Int) " + stTuple(state)
			resT = "List (" + et.lean() + ") → Int → " + stT + " → " + resT
		} else {
			pats0 = "| [], sv_ => " + done("sv_")
			pats1 = "| " + vpat + " :: tl_, sv_ =>"
			recTail = func() string { return "tl_ " + stTuple(state) }
			callTail = "(" + xs + ").toList " + stTuple(state)
			resT = "List (" + et.lean() + ") → " + stT + " → " + resT
		}
	case "up", "down":
		pre += t.guard(sh.lo, sh.hi)
		lo, hi := t.expr(sh.lo), t.expr(sh.hi)
		iv := t.nm(sh.ivar)
		loopLocal[iv] = true
		var bndT, count, bnd, ival string
		switch {
		case sh.kind == "up" && sh.ity.c == tNat:
			bndT, bnd = "Nat", hi
			if sh.incl {
				bnd = "(" + hi + " + 1)"
			}
			count = "(" + bnd + " - " + lo + ")"
			ival = "bnd_ - (fuel+1)"
		case sh.kind == "up" && sh.ity.c == tInt:
			bndT, bnd = "Int", hi
			if sh.incl {
				bnd = "(" + hi + " + 1)"
			}
			count = "(" + bnd + " - " + lo + ").toNat"
			ival = "bnd_ - Int.ofNat (fuel+1)"
		case sh.kind == "up" && sh.ity.c == tBV:
			bndT, bnd = "Nat", "("+hi+").toNat"
			if sh.incl {
				// `i <= b` with b the largest value of the type never ends
				if hasRet || containsBreak(sh.body) {
					t.fail(s, "`<=` loop over a fixed-width variable with break / return")
					return "?"
				}
				if !t.wantOpt(s) {
					return "?"
				}
				max := new(strings.Builder)
				fmt.Fprintf(max, "%d#%d", (uint64(1)<<uint(sh.ity.width))-1, sh.ity.width)
				pre += "if " + hi + " == " + max.String() + " then none else\n"
				bnd = "((" + hi + ").toNat + 1)"
			}
			count = "(" + bnd + " - (" + lo + ").toNat)"
			ival = fmt.Sprintf("BitVec.ofNat %d (bnd_ - (fuel+1))", sh.ity.width)
		case sh.kind == "down":
			bndT, bnd = "Int", hi
			if !sh.incl {
				bnd = "(" + hi + " + 1)"
			}
			count = "(" + lo + " - " + bnd + " + 1).toNat"
			ival = "bnd_ + Int.ofNat fuel"
		default:
			t.fail(s, "loop variable type")
			return "?"
		}
		pats0 = "| 0, sv_ => " + done("sv_")
		pats1 = "| fuel+1, sv_ =>"
		bodyHead = "let " + iv + " : " + sh.ity.lean() + " := " + ival + "\n"
		recTail = func() string { return "bnd_ fuel " + stTuple(state) }
		callTail = bnd + " " + count + " " + stTuple(state)
		extraParam = "(bnd_ : " + bndT + ") "
		resT = "Nat → " + stT + " → " + resT
	case "while":
		if sh.init != nil {
			pre += t.guard(t.stmtExprs(sh.init)...)
			as := sh.init.(*ast.AssignStmt)
			if len(as.Lhs) == 1 && len(as.Rhs) == 1 {
				pre += "let " + sh.initVars[0].name + " : " + sh.initVars[0].ty.lean() + " := " + t.expr(as.Rhs[0]) + "\n"
			} else if len(as.Rhs) == len(as.Lhs) {
				for i := range as.Lhs {
					pre += "let " + sh.initVars[i].name + " : " + sh.initVars[i].ty.lean() + " := " + t.expr(as.Rhs[i]) + "\n"
				}
			} else {
				t.fail(s, "loop init statement")
				return "?"
			}
		}
		pats0 = "| 0, _ => none"
		pats1 = "| fuel+1, sv_ =>"
		recTail = func() string { return "fuel " + stTuple(state) }
		callTail = "(" + fuel + ") " + stTuple(state)
		resT = "Nat → " + stT + " → " + resT
	}
	if t.err != nil {
		return "?"
	}
	// --- body (continuation passing); free variables are discovered while translating: every variable / view / global
	// used inside is recorded in `frame` (and in the frames of the enclosing loops)
	frame := map[string]useInfo{}
	t.uses = append(t.uses, frame)
	pop := func() { t.uses = t.uses[:len(t.uses)-1] }
	recArgs := "\x00ARGS\x00" // placeholder: the free variables are known only after the body is translated
	rec := func() string { return name + " " + recArgs + recTail() }
	ctx := loopCtx{
		brk: func() string { return done(stTuple(state)) },
		ret: retf,
	}
	var body string
	entryPS := t.snapshot() // what the body initialises is not known after the loop (it may run zero times)
	if sh.kind == "while" {
		postK := func() string {
			if sh.post == nil {
				return rec()
			}
			return t.stmts([]ast.Stmt{sh.post}, rec)
		}
		ctx.cnt = postK
		t.loops = append(t.loops, ctx)
		if sh.cond == nil {
			// `for { .. break .. }`: left only through break / return
			body = t.stmts(sh.body.List, postK)
		} else {
			g := t.guard(sh.cond)
			c := t.expr(sh.cond)
			inner := t.stmts(sh.body.List, postK)
			body = g + "if " + c + " then\n" + indent(inner) + "\nelse\n" + indent(done(stTuple(state)))
		}
	} else {
		ctx.cnt = rec
		t.loops = append(t.loops, ctx)
		body = bodyHead + t.stmts(sh.body.List, rec)
	}
	t.loops = t.loops[:len(t.loops)-1]
	pop()
	if t.err != nil {
		return "?"
	}
	t.restore(entryPS)
	// free variables: everything used that is neither state nor declared inside the loop
	isState := map[string]bool{}
	for _, v := range state {
		isState[v.name] = true
	}
	var free []stateVar
	for _, k := range sortedUseKeys(frame) {
		u := frame[k]
		if isState[k] || loopLocal[k] {
			continue
		}
		if u.pos != token.NoPos && u.pos >= s.Pos() && u.pos < s.End() {
			continue
		}
		free = append(free, stateVar{k, u.ty, u.pos})
	}
	var params, args []string
	for _, v := range free {
		ty := v.ty.lean()
		params = append(params, fmt.Sprintf("(%s : %s)", v.name, ty))
		args = append(args, v.name)
		t.use(v.name, v.ty, frame[v.name].pos)
	}
	for _, v := range state {
		t.use(v.name, v.ty, v.pos) // passed to the helper: a use in the enclosing loops
	}
	as := strings.Join(args, " ")
	if as != "" {
		as += " "
	}
	body = strings.ReplaceAll(body, recArgs, as)
	if !cached {
		destruct := ""
		if len(state) > 0 {
			destruct = "let " + stTuple(state) + " := sv_\n"
		}
		h := fmt.Sprintf("def %s %s%s: %s\n  %s\n  %s\n%s\n", name, joinSp(params), extraParam, resT, pats0, pats1, indent(indent(destruct+body)))
		t.helpers = append(t.helpers, h)
		t.loopDone[s] = name
	}
	// --- call site
	call := name + " " + as + callTail
	stP := stTuple(state)
	switch {
	case !hasRet && !opt:
		if len(state) == 0 {
			return pre + cont()
		}
		return pre + "let " + stP + " := " + call + "\n" + cont()
	case !hasRet && opt:
		return pre + "match " + call + " with\n| none => none\n| some " + stP + " =>\n" + cont()
	case hasRet && !opt:
		return pre + "match " + call + " with\n| .error rv_ => " + t.emitReturn("rv_") + "\n| .ok " + stP + " =>\n" + cont()
	default:
		return pre + "match " + call + " with\n| none => none\n| some (.error rv_) => " + t.emitReturn("rv_") + "\n| some (.ok " + stP + ") =>\n" + cont()
	}
}

func joinSp(ps []string) string {
	if len(ps) == 0 {
		return ""
	}
	return strings.Join(ps, " ") + " "
}

func sortedUseKeys(m map[string]useInfo) []string {
	var ks []string
	for k := range m {
		ks = append(ks, k)
	}
	sort.Strings(ks)
	return ks
}

func stripIndex(e ast.Expr) ast.Expr {
	for {
		switch x := e.(type) {
		case *ast.IndexExpr:
			e = x.X
		case *ast.ParenExpr:
			e = x.X
		default:
			return e
		}
	}
}

func containsBreak(n ast.Node) bool {
	found := false
	ast.Inspect(n, func(n ast.Node) bool {
		switch n := n.(type) {
		case *ast.FuncLit:
			return false
		case *ast.BranchStmt:
			if n.Tok == token.BREAK {
				found = true
			}
		}
		return true
	})
	return found
}

// emitReturn: `return v` at the current nesting: inside a loop the helper's early-exit value, else the function's result
func (t *tr) emitReturn(v string) string {
	for i := len(t.loops) - 1; i >= 0; i-- {
		if !t.loops[i].isSwitch {
			return t.loops[i].ret(v)
		}
	}
	return t.retVal(v)
}

func (t *tr) branch(s *ast.BranchStmt) string {
	if s.Label != nil {
		t.fail(s, "labelled branch")
		return "?"
	}
	for i := len(t.loops) - 1; i >= 0; i-- {
		l := t.loops[i]
		switch s.Tok {
		case token.BREAK:
			if l.isSwitch {
				if l.brk != nil {
					return l.brk() // leaves the switch: its continuation (iter.go)
				}
				t.fail(s, "break inside a switch")
				return "?"
			}
			return l.brk()
		case token.CONTINUE:
			if l.isSwitch {
				continue
			}
			return l.cnt()
		}
	}
	t.fail(s, "branch statement %s outside a translated loop", s.Tok)
	return "?"
}

// oldForShape: `for i := a; i < b; i++` with a uint loop variable (the first-round counted loop)
func (t *tr) oldForShape(s *ast.ForStmt) bool {
	init, ok := s.Init.(*ast.AssignStmt)
	cond, ok2 := s.Cond.(*ast.BinaryExpr)
	post, ok3 := s.Post.(*ast.IncDecStmt)
	if !ok || !ok2 || !ok3 || init.Tok != token.DEFINE || len(init.Lhs) != 1 || cond.Op != token.LSS || post.Tok != token.INC {
		return false
	}
	iv, ok := init.Lhs[0].(*ast.Ident)
	if !ok {
		return false
	}
	return t.ltypeOf(t.p.info.Defs[iv].Type()).c == tNat
}

// assignElem: `a[i] = v`, `a[i] op= v` on a local slice variable; `x.f = v`, `x.f op= v` on a struct value variable
func (t *tr) assignElem(lhs ast.Expr, tok token.Token, rhs ast.Expr, pos token.Pos) (string, bool) {
	value := func(lt ltype) string {
		if tok == token.ASSIGN {
			return t.expr(rhs)
		}
		op, ok := assignOps[tok]
		if !ok {
			t.fail(lhs, "assignment operator")
			return "?"
		}
		return t.binary(&ast.BinaryExpr{X: lhs, Op: op, Y: rhs, OpPos: pos}, lt)
	}
	switch l := lhs.(type) {
	case *ast.IndexExpr:
		if !t.isArr(l.X) {
			return "", false
		}
		if _, _, isMut := t.mutField(l.X); isMut && tok != token.DEFINE {
			if !t.wantOpt(lhs) {
				return "?", true
			}
			val := value(t.typeOf(lhs))
			arr, nat, _ := t.indexParts(l)
			return fmt.Sprintf("let %s := %s.setIfInBounds %s %s\n", arr, arr, nat, val), true
		}
		id, ok := l.X.(*ast.Ident)
		v, _ := t.p.info.Uses[id].(*types.Var)
		if !ok || v == nil || (v.Parent() == t.p.pkg.Scope() && v.Name() != t.spec.writes) || tok == token.DEFINE {
			t.fail(lhs, "element assignment to something that is not a local slice variable")
			return "?", true
		}
		if !t.wantOpt(lhs) {
			return "?", true
		}
		val := value(t.typeOf(lhs))
		arr, nat, _ := t.indexParts(l)
		return fmt.Sprintf("let %s := %s.setIfInBounds %s %s\n", arr, arr, nat, val), true
	case *ast.SelectorExpr:
		id, ok := l.X.(*ast.Ident)
		if !ok || t.absOf(id) != nil || tok == token.DEFINE {
			return "", false
		}
		if _, isLocal := t.locals[id.Name]; isLocal {
			return "", false
		}
		v, _ := t.p.info.Uses[id].(*types.Var)
		if v == nil || v.Parent() == t.p.pkg.Scope() {
			return "", false
		}
		if _, isPtr := v.Type().(*types.Pointer); isPtr {
			return "", false
		}
		lt := t.ltypeOf(v.Type())
		if lt.c != tStruct {
			return "", false
		}
		val := value(t.typeOf(lhs))
		name := t.nm(id)
		return fmt.Sprintf("let %s : %s := { %s with %s := %s }\n", name, lt.lean(), name, safe(l.Sel.Name), val), true
	}
	return "", false
}

// checkAliasing: slices are translated with VALUE semantics (Lean Arrays).  Go slices share backing arrays, so that is
// only faithful when no slice that is mutated (element assignment, append) can be reached through a second name.
// Enforced syntactically, conservatively:
//  1. `append` only as `x = append(x, ...)` (x a variable) or directly in a `return`;
//  2. a mutated slice variable is a parameter / named result, or every assignment to it is from a fresh value
//     (`make`, `nil`, a literal, its own `append`, a call result stored in a variable that is never element-assigned);
//  3. a mutated slice variable is never copied (`y := x`, `y := x[a:]`, `z[i] = x`) nor passed to a function;
//  4. a mutated slice parameter has an element type no other slice parameter / view / global of the function has.
func (t *tr) checkAliasing(fd *ast.FuncDecl) {
	sig, _ := t.p.info.Defs[fd.Name].Type().(*types.Signature)
	t.checkAliasingBody(fd.Body, sig, fd.Type)
}

// checkAliasingBody: the check for one function body (a declared function or a local closure)
func (t *tr) checkAliasingBody(fdBody *ast.BlockStmt, sig *types.Signature, fdType *ast.FuncType) {
	info := t.p.info
	mutated := map[types.Object]ast.Node{}
	elemAssigned := map[types.Object]bool{}
	objOf := func(e ast.Expr) types.Object {
		if id, ok := e.(*ast.Ident); ok {
			return info.Uses[id]
		}
		return nil
	}
	isAppend := func(e ast.Expr) (*ast.CallExpr, bool) {
		ce, ok := e.(*ast.CallExpr)
		if !ok {
			return nil, false
		}
		id, ok := ce.Fun.(*ast.Ident)
		if !ok || id.Name != "append" {
			return nil, false
		}
		_, isB := info.Uses[id].(*types.Builtin)
		return ce, isB
	}
	okAppend := map[*ast.CallExpr]bool{}
	outArg := map[ast.Expr]bool{} // the argument through which an out-call assigns
	ast.Inspect(fdBody, func(n ast.Node) bool {
		switch n := n.(type) {
		case *ast.FuncLit:
			return false
		case *ast.ExprStmt:
			if arg, v, ok := t.outCallTarget(n); ok {
				if o := info.Uses[v]; o != nil {
					mutated[o] = n
					elemAssigned[o] = true
					outArg[arg] = true
				}
			}
		case *ast.AssignStmt:
			for _, l := range n.Lhs {
				if ix, ok := l.(*ast.IndexExpr); ok && t.isArr(ix.X) {
					if o := objOf(ix.X); o != nil {
						mutated[o] = n
						elemAssigned[o] = true
					}
				}
			}
			if len(n.Lhs) == 1 && len(n.Rhs) == 1 {
				if ce, ok := isAppend(n.Rhs[0]); ok && len(ce.Args) > 0 {
					if _, isId := ce.Args[0].(*ast.Ident); isId && types.ExprString(n.Lhs[0]) == types.ExprString(ce.Args[0]) {
						okAppend[ce] = true
						if o := objOf(ce.Args[0]); o != nil {
							mutated[o] = n
						}
					}
				}
			}
		case *ast.IncDecStmt:
			if ix, ok := n.X.(*ast.IndexExpr); ok && t.isArr(ix.X) {
				if o := objOf(ix.X); o != nil {
					mutated[o] = n
					elemAssigned[o] = true
				}
			}
		case *ast.ReturnStmt:
			for _, r := range n.Results {
				if ce, ok := isAppend(r); ok && len(ce.Args) > 0 {
					if _, isId := ce.Args[0].(*ast.Ident); isId {
						okAppend[ce] = true
					}
				}
			}
		}
		return true
	})
	// 1.
	ast.Inspect(fdBody, func(n ast.Node) bool {
		if ce, ok := n.(*ast.CallExpr); ok {
			if _, isApp := isAppend(ce); isApp && !okAppend[ce] {
				t.fail(ce, "append outside `x = append(x, ...)` / `return append(x, ...)` (the result could share x's backing array)")
			}
		}
		return true
	})
	if len(mutated) == 0 || t.err != nil {
		return
	}
	fresh := func(e ast.Expr, self types.Object) bool {
		if tv := info.Types[e]; tv.IsNil() {
			return true
		}
		if _, isArray := self.Type().Underlying().(*types.Array); isArray {
			if _, isSlice := e.(*ast.SliceExpr); !isSlice {
				return true // `[N]T` is a value: assignment copies the elements
			}
		}
		switch e := e.(type) {
		case *ast.CompositeLit:
			return true
		case *ast.CallExpr:
			if ce, ok := isAppend(e); ok {
				return len(ce.Args) > 0 && objOf(ce.Args[0]) == self
			}
			if id, ok := e.Fun.(*ast.Ident); ok {
				if _, isB := info.Uses[id].(*types.Builtin); isB && id.Name == "make" {
					return true
				}
			}
			// a call result: fresh enough when the variable is only appended to / read, never element-assigned
			return !elemAssigned[self]
		}
		return false
	}
	// 2. and 3.
	ast.Inspect(fdBody, func(n ast.Node) bool {
		switch n := n.(type) {
		case *ast.FuncLit:
			return false
		case *ast.AssignStmt:
			if len(n.Lhs) == len(n.Rhs) {
				for i, l := range n.Lhs {
					var o types.Object
					if id, ok := l.(*ast.Ident); ok {
						o = info.Defs[id]
						if o == nil {
							o = info.Uses[id]
						}
					}
					if o != nil && mutated[o] != nil && !fresh(n.Rhs[i], o) {
						t.fail(n, "the mutated slice %s is assigned from a value that may share its backing array", o.Name())
					}
				}
			}
			for _, r := range n.Rhs {
				root := r
				if se, ok := root.(*ast.SliceExpr); ok {
					root = se.X
				}
				if o := objOf(root); o != nil && mutated[o] != nil {
					t.fail(n, "the mutated slice %s is copied (a second name for its backing array)", o.Name())
				}
			}
		case *ast.ValueSpec:
			for i, id := range n.Names {
				if o := info.Defs[id]; o != nil && mutated[o] != nil && i < len(n.Values) && !fresh(n.Values[i], o) {
					t.fail(n, "the mutated slice %s is assigned from a value that may share its backing array", o.Name())
				}
			}
		case *ast.CallExpr:
			if id, ok := n.Fun.(*ast.Ident); ok {
				if _, isB := info.Uses[id].(*types.Builtin); isB {
					return true
				}
			}
			for _, a := range n.Args {
				if outArg[a] {
					continue
				}
				root := a
				if se, ok := root.(*ast.SliceExpr); ok {
					root = se.X
				}
				if o := objOf(root); o != nil && mutated[o] != nil {
					t.fail(n, "the mutated slice %s is passed to a function", o.Name())
				}
			}
		}
		return true
	})
	// 4.
	var sliceTypes []types.Type // element types of the other slice-typed inputs
	elemOf := func(ty types.Type) types.Type {
		switch u := ty.Underlying().(type) {
		case *types.Slice:
			return u.Elem()
		}
		return nil
	}
	if sig == nil {
		t.fail(fdType, "signature")
		return
	}
	for o := range mutated {
		v, ok := o.(*types.Var)
		if !ok {
			continue
		}
		isParam := false
		for i := 0; i < sig.Params().Len(); i++ {
			if sig.Params().At(i) == v {
				isParam = true
			}
		}
		if !isParam {
			continue
		}
		me := elemOf(v.Type())
		sliceTypes = sliceTypes[:0]
		for i := 0; i < sig.Params().Len(); i++ {
			if p := sig.Params().At(i); p != v {
				if e := elemOf(p.Type()); e != nil {
					sliceTypes = append(sliceTypes, e)
				}
			}
		}
		for _, a := range t.abs {
			for _, vi := range a.views {
				if vi.ty.c == tArr && vi.ty.alen < 0 && me != nil && t.ltypeOf(me).lean() == vi.ty.elems[0].lean() {
					t.fail(fdType, "the mutated slice parameter %s could share its backing array with the view %s", v.Name(), strings.Join(vi.path, "."))
				}
			}
		}
		for name, lt := range t.globals {
			if lt.c == tArr && lt.alen < 0 && me != nil && t.ltypeOf(me).lean() == lt.elems[0].lean() {
				t.fail(fdType, "the mutated slice parameter %s could share its backing array with the global %s", v.Name(), name)
			}
		}
		for _, e := range sliceTypes {
			if me != nil && types.Identical(e, me) {
				t.fail(fdType, "the mutated slice parameter %s could share its backing array with another slice parameter", v.Name())
			}
		}
	}
}
