package main

import (
	"go/ast"
	"go/token"
	"go/types"
	"sort"
	"strings"
)

// Third round of the translator: functions that assign through a pointer parameter / receiver (`next *Position`).
//
//   - *State.*  The pointee of such a parameter is state: every assignable field path (whitelist entry `mut`) is a Lean
//     variable `next_White` (the name its view has), `next.White |= b` is `let next_White := next_White ||| b`,
//     `next.Height[i]++` an element assignment to `next_Height` (after the index guard), `next.hash ^= next.hashAt(i)` a call
//     that is given the *current* variables.  The function returns the tuple of the assignable fields (sorted by name):
//     a function without results (`analyze`) returns just that; `return next, nil` of a `(*T, error)` function returns it
//     as `.ok`.  A field listed in `mut` / `late` but not in `views` is not an input: it is *tracked*, and reading it on a
//     path on which it has not been assigned or copied fails loudly.
//   - *Copies.*  `x = alloc(p)` / `copyPosition(p, x)` for the functions named in `copies` are storage management with the
//     declared meaning "x becomes a copy of p" (the storage itself is modelled by Impl/Alloc.lean for C09): every declared
//     path of x that p declares too is defined from p's view.  `x == nil` of a pointer parameter is the input view `x_isNil`.
//   - *Aliases.*  A pointer-typed local (`var stones *byte; stones = &next.blackCaps; *stones--`) is resolved statically:
//     along every path the translator knows which field it points to (statements that assign one are therefore always
//     translated by duplicating the continuation, never with a join point); a dereference where the pointer is known to
//     be nil is Go's nil-dereference panic (`none`); anything else is rejected.
//   - *`(T, error)` results.*  Lean result `Except Unit T`: `return v, nil` is `.ok v`, `return nil, e` with `e` a call of
//     `errors.New` or a never-reassigned package-level variable initialised by one is `.error ()` (error texts are not
//     modelled; the correspondence maps them all to `err`).
//   - *`fallthrough`* (last statement of a case): the next clause's body is appended.
//   - *Join points.*  `if` / `switch` statements with at least two branches that fall through and a non-empty
//     continuation are translated as an expression yielding the variables they assign
//     (`let (a, b) := if c then .. (a', b) else (a, b)`; with early returns inside:
//     `match (.. : Except R (A × B)) with | .error rv_ => rv_ | .ok (a, b) => ..`), so that the continuation is emitted
//     once.  Only for whitelist entries of this round (`round3`): the earlier bridges are written against the duplicating
//     translation.
//   - *Storage reuse* (`reuse`): `s[:0]` and `s[len(s):len(s):cap(s)]` are the empty array.

type aliasT struct {
	a    *absParam
	path []string
	ty   ltype
}

type pathState struct {
	init  map[string]bool
	alias map[types.Object]*aliasT
}

func (t *tr) snapshot() pathState {
	ps := pathState{init: map[string]bool{}, alias: map[types.Object]*aliasT{}}
	for k, v := range t.mutInit {
		ps.init[k] = v
	}
	for k, v := range t.alias {
		ps.alias[k] = v
	}
	return ps
}

func (t *tr) restore(ps pathState) {
	t.mutInit, t.alias = map[string]bool{}, map[types.Object]*aliasT{}
	for k, v := range ps.init {
		t.mutInit[k] = v
	}
	for k, v := range ps.alias {
		t.alias[k] = v
	}
}

func isErrorType(ty types.Type) bool {
	return ty != nil && types.Identical(ty, types.Universe.Lookup("error").Type())
}

// theMutParam: the one parameter with assignable paths (nil: none or several)
func (t *tr) theMutParam(ps []sigParam) *absParam {
	var found *absParam
	for _, sp := range ps {
		if sp.abstract {
			if a := t.abs[sp.obj]; a != nil && len(a.mut) > 0 {
				if found != nil {
					return nil
				}
				found = a
			}
		}
	}
	return found
}

func (t *tr) mutParamOfType(ps []sigParam, ty types.Type) *absParam {
	var found *absParam
	for _, sp := range ps {
		if sp.abstract && types.Identical(sp.obj.Type(), ty) {
			if a := t.abs[sp.obj]; a != nil && len(a.mut) > 0 {
				if found != nil {
					return nil
				}
				found = a
			}
		}
	}
	return found
}

func mutNames(a *absParam) []string {
	var ns []string
	for k := range a.mut {
		ns = append(ns, k)
	}
	sort.Strings(ns)
	return ns
}

// mutType: the tuple of the assignable fields of a
func (t *tr) mutType(a *absParam) ltype {
	ns := mutNames(a)
	if len(ns) == 1 {
		return a.views[ns[0]].ty
	}
	lt := ltype{c: tTuple}
	for _, n := range ns {
		lt.elems = append(lt.elems, a.views[n].ty)
	}
	return lt
}

// mutValue: the current values of the assignable fields (all must be initialised on this path)
func (t *tr) mutValue(at ast.Node, a *absParam) string {
	ns := mutNames(a)
	for _, n := range ns {
		if !t.mutInit[n] {
			t.fail(at, "%s is returned, but %s is not initialised on this path", a.name, n)
		}
		t.use(n, a.views[n].ty, token.NoPos)
	}
	return tuple(ns)
}

// nonNilError: e is statically a non-nil error: `errors.New(..)`, or a package-level variable initialised by such a call
// and assigned nowhere in the package
func (t *tr) nonNilError(e ast.Expr) bool {
	isNew := func(e ast.Expr) bool {
		ce, ok := e.(*ast.CallExpr)
		if !ok {
			return false
		}
		se, ok := ce.Fun.(*ast.SelectorExpr)
		if !ok || se.Sel.Name != "New" {
			return false
		}
		id, ok := se.X.(*ast.Ident)
		if !ok {
			return false
		}
		pn, ok := t.p.info.Uses[id].(*types.PkgName)
		return ok && pn.Imported().Path() == "errors"
	}
	if isNew(e) {
		return true
	}
	id, ok := e.(*ast.Ident)
	if !ok {
		return false
	}
	v, ok := t.p.info.Uses[id].(*types.Var)
	if !ok || v.Parent() != t.p.pkg.Scope() {
		return false
	}
	initOK, assigned := false, false
	for _, f := range t.p.files {
		ast.Inspect(f, func(n ast.Node) bool {
			switch n := n.(type) {
			case *ast.ValueSpec:
				for i, nm := range n.Names {
					if t.p.info.Defs[nm] == v && i < len(n.Values) && isNew(n.Values[i]) {
						initOK = true
					}
				}
			case *ast.AssignStmt:
				for _, l := range n.Lhs {
					if lid, ok := l.(*ast.Ident); ok && t.p.info.Uses[lid] == v {
						assigned = true
					}
				}
			case *ast.UnaryExpr:
				if lid, ok := n.X.(*ast.Ident); ok && n.Op == token.AND && t.p.info.Uses[lid] == v {
					assigned = true // address taken
				}
			}
			return true
		})
	}
	return initOK && !assigned
}

func (t *tr) isNilExpr(e ast.Expr) bool {
	tv, ok := t.p.info.Types[e]
	return ok && tv.IsNil()
}

// mutReturn: the value of a `return` in a function with an error result / a returned mut parameter / no result
func (t *tr) mutReturn(s *ast.ReturnStmt) string {
	retOf := func(e ast.Expr) string {
		if id, ok := e.(*ast.Ident); ok && t.retMut != nil && t.absOf(id) == t.retMut {
			return t.mutValue(e, t.retMut)
		}
		return t.expr(e)
	}
	if t.voidMut != nil {
		if len(s.Results) != 0 {
			t.fail(s, "return with values in a function without results")
			return "?"
		}
		return t.mutValue(s, t.voidMut)
	}
	rs := s.Results
	if !t.errRes {
		var vs []string
		for _, r := range rs {
			vs = append(vs, retOf(r))
		}
		return tuple(vs)
	}
	if len(rs) < 2 {
		t.fail(s, "return shape in a function with an error result")
		return "?"
	}
	last := rs[len(rs)-1]
	rs = rs[:len(rs)-1]
	if t.isNilExpr(last) {
		var vs []string
		for _, r := range rs {
			vs = append(vs, retOf(r))
		}
		return "(Except.ok " + tuple(vs) + ")"
	}
	if !t.nonNilError(last) {
		t.fail(last, "returned error that is not statically non-nil (errors.New(..) or a never-reassigned package-level variable initialised by it)")
		return "?"
	}
	for _, r := range rs {
		if tv := t.p.info.Types[r]; !tv.IsNil() && tv.Value == nil {
			t.fail(r, "a value beside a non-nil error (only nil / constants)")
			return "?"
		}
	}
	return "(Except.error ())"
}

// mutField: e is `x.a.b` with x a parameter with assignable paths and `a.b` one of them
func (t *tr) mutField(e ast.Expr) (*absParam, []string, bool) {
	if p, ok := e.(*ast.ParenExpr); ok {
		return t.mutField(p.X)
	}
	if _, ok := e.(*ast.SelectorExpr); !ok {
		return nil, nil, false
	}
	root, path := selPath(e)
	a := t.absOf(root)
	if a == nil || len(path) == 0 || !a.mut[viewName(a.name, path)] {
		return nil, nil, false
	}
	return a, path, true
}

// derefTarget resolves `*q` of a pointer-typed local through the alias known on the current path.
// ok = false: q is not such a variable; tgt == nil: q is nil here.
func (t *tr) derefTarget(e ast.Expr) (tgt *aliasT, ok bool) {
	st, isStar := e.(*ast.StarExpr)
	if !isStar {
		return nil, false
	}
	id, isId := st.X.(*ast.Ident)
	if !isId {
		return nil, false
	}
	obj := t.p.info.Uses[id]
	tgt, ok = t.alias[obj]
	return tgt, ok
}

// derefNil: does evaluating the expressions dereference a pointer that is nil on this path?  (Go panics.)
// Dereferences under the right operand of && / || are rejected (the panic would be conditional).
func (t *tr) derefNil(es []ast.Expr) bool {
	found := false
	var walk func(e ast.Node, cond bool)
	walk = func(n ast.Node, cond bool) {
		ast.Inspect(n, func(n ast.Node) bool {
			switch n := n.(type) {
			case *ast.FuncLit:
				return false
			case *ast.BinaryExpr:
				if n.Op == token.LAND || n.Op == token.LOR {
					walk(n.X, cond)
					walk(n.Y, true)
					return false
				}
			case *ast.StarExpr:
				if tgt, ok := t.derefTarget(n); ok && tgt == nil {
					if cond {
						t.fail(n, "dereference of a nil pointer under the right operand of && / ||")
					}
					found = true
				}
			}
			return true
		})
	}
	for _, e := range es {
		if e != nil {
			walk(e, false)
		}
	}
	return found
}

// markAssigned: the targets of an assignment are initialised from here on
func (t *tr) markAssigned(lhs ...ast.Expr) {
	for _, l := range lhs {
		l = stripIndex(l)
		if a, path, ok := t.mutField(l); ok {
			t.mutInit[viewName(a.name, path)] = true
		}
		if tgt, ok := t.derefTarget(l); ok && tgt != nil {
			t.mutInit[viewName(tgt.a.name, tgt.path)] = true
		}
	}
}

// copyStmt recognises `x = f(src)` / `f(src, x)` with f one of the declared storage functions (`copies`).
func (t *tr) copyStmt(s ast.Stmt) (dst, src *absParam, ok bool) {
	isCopyFn := func(f ast.Expr) bool {
		id, isId := f.(*ast.Ident)
		if !isId {
			return false
		}
		fn, isFn := t.p.info.Uses[id].(*types.Func)
		if !isFn || fn.Pkg() != t.p.pkg {
			return false
		}
		for _, n := range strings.Fields(t.spec.copies) {
			if n == fn.Name() {
				return true
			}
		}
		return false
	}
	absArg := func(e ast.Expr) *absParam {
		id, _ := e.(*ast.Ident)
		return t.absOf(id)
	}
	switch s := s.(type) {
	case *ast.AssignStmt:
		if s.Tok != token.ASSIGN || len(s.Lhs) != 1 || len(s.Rhs) != 1 {
			return nil, nil, false
		}
		ce, isCall := s.Rhs[0].(*ast.CallExpr)
		if !isCall || !isCopyFn(ce.Fun) || len(ce.Args) != 1 {
			return nil, nil, false
		}
		dst, src = absArg(s.Lhs[0]), absArg(ce.Args[0])
	case *ast.ExprStmt:
		ce, isCall := s.X.(*ast.CallExpr)
		if !isCall || !isCopyFn(ce.Fun) || len(ce.Args) != 2 {
			return nil, nil, false
		}
		dst, src = absArg(ce.Args[1]), absArg(ce.Args[0])
	default:
		return nil, nil, false
	}
	if dst == nil || src == nil || dst == src || !dst.tracked {
		t.fail(s, "copy through a declared storage function: destination must be a parameter with assignable paths, source another abstract parameter")
		return nil, nil, true
	}
	return dst, src, true
}

// copyNames: the views of dst a copy defines (those src declares too), sorted
func copyNames(dst, src *absParam) (names []string) {
	for k, v := range dst.views {
		if len(v.path) == 1 && v.path[0] == "isNil" {
			names = append(names, k)
			continue
		}
		if _, has := src.views[viewName(src.name, v.path)]; has {
			names = append(names, k)
		}
	}
	sort.Strings(names)
	return names
}

func (t *tr) emitCopy(s ast.Stmt, dst, src *absParam) string {
	out := ""
	defined := map[string]bool{}
	for _, k := range copyNames(dst, src) {
		v := dst.views[k]
		defined[k] = true
		if len(v.path) == 1 && v.path[0] == "isNil" {
			out += "let " + k + " : Bool := false\n"
			continue
		}
		sv := src.views[viewName(src.name, v.path)]
		if sv.ty.lean() != v.ty.lean() {
			t.fail(s, "copy: %s and its source view differ in type", k)
		}
		out += "let " + k + " : " + v.ty.lean() + " := " + t.view(src, v.path, v.ty) + "\n"
	}
	for k := range dst.views {
		if defined[k] {
			t.mutInit[k] = true
			continue
		}
		if !dst.mut[k] {
			t.fail(s, "copy: the source declares no view for %s", k)
		}
		t.mutInit[k] = false // not part of the declared copy: undefined until assigned
	}
	return out
}

// mutCall: a call statement `x.f(..)` / `f(.., x, ..)` of a translated function that assigns through a parameter
func (t *tr) mutCall(s *ast.ExprStmt, cont func() string) (string, bool) {
	ce, ok := s.X.(*ast.CallExpr)
	if !ok {
		return "", false
	}
	var obj types.Object
	var goArgs []ast.Expr
	switch f := ce.Fun.(type) {
	case *ast.Ident:
		obj = t.p.info.Uses[f]
	case *ast.SelectorExpr:
		obj = t.p.info.Uses[f.Sel]
		if id, isId := f.X.(*ast.Ident); !isId || t.absOf(id) != nil {
			goArgs = append(goArgs, f.X)
		} else if _, isPkg := t.p.info.Uses[id].(*types.PkgName); !isPkg {
			goArgs = append(goArgs, f.X)
		}
	}
	fn, ok := obj.(*types.Func)
	if !ok {
		return "", false
	}
	callee, ok := t.g.done[funcKey(fn)]
	if !ok || callee.mutParam < 0 {
		return "", false
	}
	goArgs = append(goArgs, ce.Args...)
	if callee.mutParam >= len(goArgs) {
		t.fail(s, "argument count")
		return "?", true
	}
	id, _ := goArgs[callee.mutParam].(*ast.Ident)
	a := t.absOf(id)
	if a == nil {
		t.fail(s, "the argument assigned through must be a parameter with assignable paths")
		return "?", true
	}
	var names []string
	for _, v := range callee.params[callee.mutParam].mutViews {
		n := viewName(a.name, v.path)
		if !a.mut[n] || a.views[n].ty.lean() != v.ty.lean() {
			t.fail(s, "the callee assigns %s, which is not among the assignable paths declared for %s", strings.Join(v.path, "."), a.name)
			return "?", true
		}
		names = append(names, n)
	}
	t.hoisting = ce
	call := t.call(ce)
	t.hoisting = nil
	for _, n := range names {
		t.mutInit[n] = true
	}
	if callee.opt {
		if !t.wantOpt(s) {
			return "?", true
		}
		return "match " + call + " with\n| none => none\n| some " + tuple(names) + " =>\n" + cont(), true
	}
	return "let " + tuple(names) + " := " + call + "\n" + cont(), true
}

// mutCallWrites: the view names a statement assigns by calling such a function / by a declared copy
func (t *tr) stmtWrites(s ast.Stmt) map[string]ltype {
	out := map[string]ltype{}
	if dst, src, ok := t.copyStmt(s); ok && dst != nil {
		for _, k := range copyNames(dst, src) {
			out[k] = dst.views[k].ty
		}
		return out
	}
	es, ok := s.(*ast.ExprStmt)
	if !ok {
		return out
	}
	ce, ok := es.X.(*ast.CallExpr)
	if !ok {
		return out
	}
	var obj types.Object
	var goArgs []ast.Expr
	switch f := ce.Fun.(type) {
	case *ast.Ident:
		obj = t.p.info.Uses[f]
	case *ast.SelectorExpr:
		obj = t.p.info.Uses[f.Sel]
		goArgs = append(goArgs, f.X)
	}
	fn, ok := obj.(*types.Func)
	if !ok {
		return out
	}
	callee, ok := t.g.done[funcKey(fn)]
	if !ok || callee.mutParam < 0 {
		return out
	}
	goArgs = append(goArgs, ce.Args...)
	if callee.mutParam >= len(goArgs) {
		return out
	}
	id, _ := goArgs[callee.mutParam].(*ast.Ident)
	if a := t.absOf(id); a != nil {
		for _, v := range callee.params[callee.mutParam].mutViews {
			out[viewName(a.name, v.path)] = v.ty
		}
	}
	return out
}

// ---------------------------------------------------------------------------------------------- join points

// terminates: control cannot fall out of the end of the statement list (conservative: false when unsure)
func (t *tr) terminates(ss []ast.Stmt) bool {
	if len(ss) == 0 {
		return false
	}
	switch s := ss[len(ss)-1].(type) {
	case *ast.ReturnStmt:
		return true
	case *ast.ExprStmt:
		return t.isPanic(s)
	case *ast.BlockStmt:
		return t.terminates(s.List)
	case *ast.IfStmt:
		switch el := s.Else.(type) {
		case *ast.BlockStmt:
			return t.terminates(s.Body.List) && t.terminates(el.List)
		case *ast.IfStmt:
			return t.terminates(s.Body.List) && t.terminates([]ast.Stmt{el})
		}
	}
	return false
}

// fallBranches: the number of branches of an if / switch statement out of which control can fall
func (t *tr) fallBranches(s ast.Stmt) int {
	switch s := s.(type) {
	case *ast.IfStmt:
		n := 0
		if !t.terminates(s.Body.List) {
			n++
		}
		switch el := s.Else.(type) {
		case nil:
			n++
		case *ast.BlockStmt:
			if !t.terminates(el.List) {
				n++
			}
		case *ast.IfStmt:
			n += t.fallBranches(el)
		}
		return n
	case *ast.SwitchStmt:
		n, hasDefault := 0, false
		for _, c := range s.Body.List {
			cc := c.(*ast.CaseClause)
			if cc.List == nil {
				hasDefault = true
			}
			if !t.terminates(cc.Body) {
				n++
			}
		}
		if !hasDefault {
			n++
		}
		return n
	}
	return 0
}

// joinable: the statement is translated with a join point
func (t *tr) joinable(s ast.Stmt, tail []ast.Stmt) bool {
	if !t.spec.round3 || len(tail) == 0 || t.fallBranches(s) < 2 {
		return false
	}
	ok := true
	ast.Inspect(s, func(n ast.Node) bool {
		switch n := n.(type) {
		case *ast.FuncLit:
			return false
		case *ast.BranchStmt:
			if n.Tok != token.FALLTHROUGH {
				ok = false // break / continue would have to leave the join expression
			}
		case *ast.AssignStmt:
			for _, l := range n.Lhs {
				if id, isId := l.(*ast.Ident); isId {
					if _, isAlias := t.alias[t.p.info.Uses[id]]; isAlias {
						ok = false // a pointer is (re)targeted: its target must stay static, so the paths stay apart
					}
				}
			}
		case *ast.DeclStmt:
			ok = false // a declaration inside (rare): its scope ends with the branch; keep the duplicating translation
		}
		return ok
	})
	return ok
}

// mayPanic: translating the node can emit `none` (conservative: true when unsure)
func (t *tr) mayPanic(n ast.Node) bool {
	if !t.opt {
		return false
	}
	found := false
	ast.Inspect(n, func(n ast.Node) bool {
		switch n := n.(type) {
		case *ast.IndexExpr:
			if t.isArr(n.X) {
				found = true
			}
		case *ast.SliceExpr, *ast.ForStmt, *ast.RangeStmt, *ast.StarExpr:
			found = true
		case *ast.CallExpr:
			if t.isOptCall(n) {
				found = true
			}
			if id, ok := n.Fun.(*ast.Ident); ok {
				if _, isB := t.p.info.Uses[id].(*types.Builtin); isB && (id.Name == "panic" || id.Name == "make") {
					found = true
				}
			}
		}
		return !found
	})
	return found
}

// join translates an if / switch statement as an expression that yields the variables assigned in it.
func (t *tr) join(s ast.Stmt, cont func() string) string {
	state := t.loopState(s.Pos(), s.End(), s)
	if t.err != nil {
		return "?"
	}
	hasRet := containsReturn(s)
	// the condition / tag is guarded in front of the statement; what can panic inside are the branches
	opt := false
	switch st := s.(type) {
	case *ast.IfStmt:
		opt = t.mayPanic(st.Body) || (st.Else != nil && t.mayPanic(st.Else))
	case *ast.SwitchStmt:
		opt = t.mayPanic(st.Body)
	}
	stT := stType(state)
	resT := stT
	if hasRet {
		resT = "Except (RESULT) (" + stT + ")"
	}
	if opt {
		resT = "Option (" + resT + ")"
	}
	some := func(v string) string {
		if opt {
			return "some (" + v + ")"
		}
		return v
	}
	entry := t.snapshot()
	var after map[string]bool // initialised on every path that falls out
	const hole = "\x00YIELD\x00"
	dropped := map[string]bool{} // assigned only on paths that do not fall out of the statement: stays uninitialised
	yield := func() string {
		for _, v := range state {
			if tracked, known := t.isTrackedName(v.name); known && tracked && !t.mutInit[v.name] {
				if entry.init[v.name] {
					t.fail(s, "%s is initialised before this statement but not on every path through it", v.name)
				}
				dropped[v.name] = true
			}
		}
		if after == nil {
			after = map[string]bool{}
			for k, v := range t.mutInit {
				after[k] = v
			}
		} else {
			for k := range after {
				after[k] = after[k] && t.mutInit[k]
			}
		}
		for _, v := range state {
			t.use(v.name, v.ty, v.pos)
		}
		if hasRet {
			return some("Except.ok " + hole)
		}
		return some(hole)
	}
	t.loops = append(t.loops, loopCtx{
		brk: func() string { t.fail(s, "break out of a join"); return "?" },
		cnt: func() string { t.fail(s, "continue out of a join"); return "?" },
		ret: func(v string) string { return some("Except.error (" + v + ")") },
	})
	inner := t.stmt1cps(s, nil, yield, yield)
	t.loops = t.loops[:len(t.loops)-1]
	if t.err != nil {
		return "?"
	}
	t.restore(entry)
	if after != nil {
		for k, v := range after {
			t.mutInit[k] = v
		}
	}
	var kept []stateVar
	for _, v := range state {
		if !dropped[v.name] {
			kept = append(kept, v)
		} else {
			t.mutInit[v.name] = false
		}
	}
	state = kept
	inner = strings.ReplaceAll(inner, hole, stTuple(state))
	stT = stType(state)
	resT = stT
	if hasRet {
		resT = "Except (RESULT) (" + stT + ")"
	}
	if opt {
		resT = "Option (" + resT + ")"
	}
	pat := stTuple(state)
	switch {
	case !hasRet && !opt:
		return "let " + pat + " : " + stT + " :=\n" + indent(inner) + "\n" + cont()
	case !hasRet && opt:
		return "match ((\n" + indent(inner) + ") : " + resT + ") with\n| none => none\n| some " + pat + " =>\n" + cont()
	case hasRet && !opt:
		return "match ((\n" + indent(inner) + ") : " + resT + ") with\n| .error rv_ => " + t.emitReturn("rv_") + "\n| .ok " + pat + " =>\n" + cont()
	default:
		return "match ((\n" + indent(inner) + ") : " + resT + ") with\n| none => none\n| some (.error rv_) => " + t.emitReturn("rv_") + "\n| some (.ok " + pat + ") =>\n" + cont()
	}
}

// isTrackedName: is the Lean name a view of a tracked parameter?
func (t *tr) isTrackedName(name string) (tracked, known bool) {
	for _, a := range t.abs {
		if _, ok := a.views[name]; ok {
			return a.tracked, true
		}
	}
	return false, false
}

// reuseSlice: `s[:0]` / `s[len(s):len(s):cap(s)]` (whitelist entry `reuse`)
func (t *tr) reuseSlice(e *ast.SliceExpr) bool {
	if !t.spec.reuse || !t.isArr(e.X) {
		return false
	}
	if e.Low == nil && e.Max == nil && e.High != nil {
		if tv := t.p.info.Types[e.High]; tv.Value != nil && tv.Value.ExactString() == "0" {
			return true
		}
	}
	if e.Low != nil && e.High != nil && e.Max != nil {
		x := types.ExprString(e.X)
		if _, isId := e.X.(*ast.Ident); isId && types.ExprString(e.Low) == "len("+x+")" && types.ExprString(e.High) == "len("+x+")" && types.ExprString(e.Max) == "cap("+x+")" {
			return true
		}
	}
	return false
}
