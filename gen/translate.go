package main

import (
	"fmt"
	"go/ast"
	"go/constant"
	"go/token"
	"go/types"
	"sort"
	"strings"
)

// The whitelist: small pure functions whose whole meaning is integer / bit arithmetic.
//
// Supported subset
//   - parameters and locals of integer / bool type, by-value or read-only pointer parameters of
//     struct types all of whose fields are translatable (nested structs allowed), one local struct
//     value built field by field;
//   - "abstract" parameters: a pointer to a struct that is NOT translatable (tak.Position ...) may
//     only be read through field paths of translatable type (`p.cfg.c.Mask`), through the accessor
//     methods listed in `accessors` (`p.Size()`), or be passed on to a whitelisted method; every such
//     read becomes an explicit parameter `p_cfg_c_Mask`, `p_Size` (sorted by name) of the Lean function;
//   - statements: let-chains, if/else (with an init statement), tagless and tagged switch (no
//     fallthrough/break), return (also several results -> tuple, named results), parallel and
//     destructuring assignment, `for i := a; i < b; i++` with loop-invariant bounds (fuel b-a),
//     `for cond { assignments }` (fuel given in the whitelist entry; the helper `<f>_loopK_more`
//     says whether the condition still holds, i.e. the fuel did not suffice - the bridge theorems
//     prove it false), `for { ...; return e; ... }` (fuel from the whitelist, result `Option`,
//     `none` = fuel exhausted), `panic(..)` (result `Option`, `none` = panic);
//   - expressions: the arithmetic, bit and comparison operators, conversions between integer
//     types, calls of functions translated earlier in the whitelist (not of Option-valued ones);
//   - "closure tables": a function whose body is a list of `name := func(..) .. {..}` followed by
//     `return []T{name, ...}` (symmetry.symmetries) becomes one Lean function per closure plus a
//     dispatcher indexed by `Fin n`; a local `name := func..` in a plain function becomes a helper whose leading
//     parameters are the captured variables (which must never be reassigned in the enclosing function).
//
// Type mapping: uint64/uint32/uint16/uint8 (and named types over them) -> BitVec n (wrap-around
// is modelled); int/int64/time.Duration -> Int (no wrap: the theorems carry range hypotheses);
// int8/int16/int32 -> Int kept in range by `wrapN` after every arithmetic step and conversion
// (parameters are assumed to be in range: Go cannot pass anything else, and the `fn.*` ops only
// send in-range values); uint -> Nat (no underflow: checked by the `fn` correspondence ops).
//
// Anything else makes the translation of that function fail loudly (never a guess).  Two distinct
// variables of the same name in one function are rejected (the continuation-passing translation
// would otherwise let a block-scoped variable leak into the code after the block).
type fnSpec struct {
	dir, file string
	recv      string // receiver type name, "" for plain functions
	name      string
	lean      string
	group     string   // "" -> Funcs.lean, otherwise Funcs<group>.lean (imports the earlier files)
	table     bool     // closure table (see above)
	fuel      []string // fuel (a Lean term) of the k-th `for cond {}` / `for {}` loop
	// views: for every abstract parameter the field paths / accessors / constant indices the function may read
	// (space separated: "White cfg.c.Mask Size [Terminal_Flats]").  They - not the reads found in the body - make
	// up the Lean parameter list, so that an edit that drops or reorders a read leaves the signature (and with it
	// the driver and the other properties' builds) alone; a read outside the list fails loudly.
	views map[string]string
	// globals: package-level variables the function may read (space separated); each becomes a leading parameter
	// `g_<name>` of the Lean function (its value at the time of the call; written only by `init`)
	globals string
	// writes: a package-level variable (also listed in `globals`) the function assigns; a function without results
	// (`init`) then returns the variable's final value
	writes string
	// round2: second-round conventions (set for every entry of whitelist2): non-constant shift counts go through
	// `shl` / `shr` (same value as `<<<` / `>>>`, but executable for the astronomically large counts a converted
	// negative number yields: Lean's `<<<` on BitVec would first build 2^n)
	round2 bool
	// third round (mut.go): parameters whose pointee the function assigns (`next *Position`)
	// mut: for every such parameter the field paths the function may assign (space separated); they make up the state the
	// function returns (a tuple sorted by name).  A path listed in `mut` and not in `views` is not an input: it starts
	// uninitialised and reading it before it is assigned (or copied, see `copies`) fails loudly.
	mut map[string]string
	// late: field paths of such a parameter that are only read, and only after a copy statement has initialised them
	late map[string]string
	// copies: names of functions of the package that are storage management with the declared meaning "the destination
	// becomes a copy of the source": `x = f(src)` and `f(src, x)` (tak.alloc, tak.copyPosition; the storage itself is the
	// subject of Impl/Alloc.lean / C09)
	copies string
	// reuse: `s[:0]` and `s[len(s):len(s):cap(s)]` (an empty slice that reuses storage) are translated as the empty array
	// (storage reuse is the subject of Impl/Alloc.lean / C09; values are unaffected)
	reuse bool
	// round3: sequential `if` / `switch` statements whose branches fall through are translated with a join point
	// (the continuation is emitted once) instead of being duplicated into every branch
	round3 bool
	// fourth round (eval.go)
	// outParam: name of a slice parameter whose ELEMENTS the function assigns (never the slice itself, never append): a
	// function without results then returns the parameter's final value, and a call statement `f(.., x[:])` / `f(.., x)`
	// is `let x := f .. x` (computeInfluence(c, mine, out))
	outParam string
	// fifth round (search.go)
	round5 bool
	// slot: the `*T` result (and every pointer-typed local of that type) points INTO this slice view of the receiver
	// (`&m.table[i]`); it is translated as the index: result `Option Nat`, `none` = nil
	slot string
	// stopAt: `if <this condition, as printed by go/printer> { return }` in a function without results ends the translation:
	// the function is translated under the assumption that the condition holds (recordCut: no cut log configured)
	stopAt string
	// sixth round (iter.go)
	round6 bool
	// oracles: for an abstract parameter the methods outside the whitelist it may call: `path.Method(kinds)[=path]` (iter.go)
	oracles map[string]string
	// storage: for an abstract parameter the field paths that hold buffers (iter.go)
	storage map[string]string
	// seventh round (zw.go): executed-only translation in `do` notation
	round7 bool
	// funcFields: function-typed fields of the receiver that may be called (`ai.evaluate`)
	funcFields map[string]string
	// methodDeps: `<struct local>.<statement oracle of a callee>` -> the views of the receiver the method reads
	methodDeps map[string]string
	// assumeFalse: `if <this condition> {..}` is skipped (declared assumption: no debug logging)
	assumeFalse string
	// plainDo: a function without recursion and without a position parameter in the `do` style (zwsort.go)
	plainDo bool
	// callOracles: `pkg.Func` -> `field field[:len(field)] .. =field`: a call statement `pkg.Func(s)` on a struct whose fields alias
	// slices is an ORACLE of those fields (values) whose result is assigned to the field after `=` (sort.Sort: zwsort.go)
	callOracles map[string]string
}

// groups in file order; a function may only call functions of its own or an earlier group
var groups = []string{"", "Tak", "Over", "Move", "Sym", "AI", "FPA", "Eval", "Pos", "Road", "MoveGen", "SymMove", "Prove", "Apply", "Threat", "Heur", "Search", "MoveIter"}

var whitelist = []fnSpec{
	{dir: "bitboard", file: "bits.go", name: "Precompute", lean: "precompute"},
	{dir: "bitboard", file: "bits.go", name: "Grow", lean: "grow"},
	{dir: "tak", file: "hash.go", name: "hash8", lean: "hash8"},
	{dir: "tak", file: "hash.go", name: "hash64", lean: "hash64"},
	{dir: "tak", file: "slide.go", recv: "Slides", name: "Empty", lean: "slidesEmpty"},
	{dir: "tak", file: "slide.go", recv: "Slides", name: "Singleton", lean: "slidesSingleton"},
	{dir: "tak", file: "slide.go", recv: "Slides", name: "First", lean: "slidesFirst"},
	{dir: "tak", file: "slide.go", recv: "Slides", name: "Prepend", lean: "slidesPrepend"},
	{dir: "tak", file: "slide.go", recv: "SlideIterator", name: "Next", lean: "slideIterNext"},
	{dir: "tak", file: "slide.go", recv: "SlideIterator", name: "Ok", lean: "slideIterOk"},
	{dir: "tak", file: "slide.go", recv: "SlideIterator", name: "Elem", lean: "slideIterElem"},
	{dir: "tei", file: "server.go", name: "calcBudget", lean: "calcBudget"},
	{dir: "prove", file: "pn.go", name: "saturatingAdd", lean: "saturatingAdd"},
	{dir: "prove", file: "dfpn.go", recv: "proofNumbers", name: "exceeded", lean: "pnExceeded"},
	{dir: "prove", file: "dfpn.go", recv: "proofNumbers", name: "solved", lean: "pnSolved"},

	// group Tak: tak/pieces.go, Position.ToMove, Position.Hash
	{dir: "tak", file: "pieces.go", name: "MakePiece", lean: "makePiece", group: "Tak"},
	{dir: "tak", file: "pieces.go", recv: "Piece", name: "Color", lean: "pieceColor", group: "Tak"},
	{dir: "tak", file: "pieces.go", recv: "Piece", name: "Kind", lean: "pieceKind", group: "Tak"},
	{dir: "tak", file: "pieces.go", recv: "Piece", name: "IsRoad", lean: "pieceIsRoad", group: "Tak"},
	{dir: "tak", file: "pieces.go", recv: "Color", name: "Flip", lean: "colorFlip", group: "Tak"},
	{dir: "tak", file: "game.go", recv: "Position", name: "ToMove", lean: "positionToMove", group: "Tak", views: map[string]string{"p": "move"}},
	{dir: "tak", file: "hash.go", recv: "Position", name: "Hash", lean: "positionHash", group: "Tak", views: map[string]string{"p": "Black Caps Standing White hash move"}},

	// group Over: bitboard.Flood and the game-end helpers of tak/game.go
	{dir: "bitboard", file: "bits.go", name: "Flood", lean: "flood", group: "Over", fuel: []string{"66"}},
	{dir: "tak", file: "game.go", recv: "Position", name: "countFlats", lean: "positionCountFlats", group: "Over", views: map[string]string{"p": "Black Caps Standing White"}},
	{dir: "tak", file: "game.go", recv: "Position", name: "flatsWinner", lean: "positionFlatsWinner", group: "Over", views: map[string]string{"p": "Black Caps Standing White cfg.BlackWinsTies"}},
	{dir: "tak", file: "game.go", recv: "Position", name: "GameOver", lean: "positionGameOver", group: "Over", views: map[string]string{"p": "Black Caps Standing White blackCaps blackStones cfg.BlackWinsTies cfg.c.Mask hasRoad whiteCaps whiteStones"}},

	// group Move: tak/slide.go Len, tak/move.go small methods
	{dir: "tak", file: "slide.go", recv: "Slides", name: "Len", lean: "slidesLen", group: "Move", fuel: []string{"8"}},
	{dir: "tak", file: "move.go", recv: "Move", name: "IsSlide", lean: "moveIsSlide", group: "Move"},
	{dir: "tak", file: "move.go", recv: "Move", name: "Equal", lean: "moveEqual", group: "Move"},
	{dir: "tak", file: "move.go", recv: "Move", name: "Dest", lean: "moveDest", group: "Move"},

	// group Sym: symmetry/canonical.go
	{dir: "symmetry", file: "canonical.go", name: "symmetries", lean: "symmetries", group: "Sym", table: true},
	{dir: "symmetry", file: "canonical.go", name: "preferMove", lean: "preferMove", group: "Sym"},

	// group AI: ai/minimax.go
	{dir: "ai", file: "minimax.go", name: "teSuffices", lean: "teSuffices", group: "AI"},

	// group FPA: cmd/internal/playtak/fpa.go
	{dir: "cmd/internal/playtak", file: "fpa.go", name: "isCentered", lean: "isCentered", group: "FPA", views: map[string]string{"p": "Size"}},
	{dir: "cmd/internal/playtak", file: "fpa.go", name: "isCenterAdjacent", lean: "isCenterAdjacent", group: "FPA", views: map[string]string{"p": "Size"}},
	{dir: "cmd/internal/playtak", file: "fpa.go", name: "distance", lean: "distance", group: "FPA"},
	{dir: "cmd/internal/playtak", file: "fpa.go", name: "dir", lean: "dir", group: "FPA"},

	// group Eval: ai/evaluate.go terminal scores, bitboard.Dimensions (used by scoreGroups)
	{dir: "bitboard", file: "bits.go", name: "Dimensions", lean: "dimensions", group: "Eval", fuel: []string{"70", "70", "70", "70"}},
	{dir: "ai", file: "evaluate.go", name: "evaluateTerminal", lean: "evaluateTerminal", group: "Eval", views: map[string]string{"p": "BlackStones MoveNumber Size WhiteStones WinDetails move", "w": "[Terminal_Flats] [Terminal_OpponentReserves] [Terminal_Plies] [Terminal_Reserves]"}},
	{dir: "ai", file: "evaluate.go", name: "EvaluateWinner", lean: "evaluateWinner", group: "Eval", views: map[string]string{"p": "Black Caps Standing White blackCaps blackStones cfg.BlackWinsTies cfg.c.Mask hasRoad whiteCaps whiteStones move"}},
}

// second round (slices.go): functions that read / build slices
var whitelist2 = []fnSpec{
	// group Pos: tak/game.go Top, At; tak/hash.go hashAt, Equal
	{dir: "tak", file: "game.go", recv: "Position", name: "Top", lean: "positionTop", group: "Pos", views: map[string]string{"p": "Black Caps Size Standing White"}},
	{dir: "tak", file: "game.go", recv: "Position", name: "At", lean: "positionAt", group: "Pos", views: map[string]string{"p": "Black Caps Height Size Stacks Standing White"}},
	{dir: "tak", file: "hash.go", recv: "Position", name: "hashAt", lean: "positionHashAt", group: "Pos", globals: "basis", views: map[string]string{"p": "Height Stacks"}},
	{dir: "tak", file: "hash.go", recv: "Position", name: "Equal", lean: "positionEqual", group: "Pos", views: map[string]string{"p": "Black Caps Height Stacks Standing White cfg.Size hash move", "rhs": "Black Caps Height Stacks Standing White cfg.Size hash move"}},

	// group Road: tak/game.go hasRoad, bitboard.FloodGroups
	{dir: "tak", file: "game.go", recv: "Position", name: "hasRoad", lean: "positionHasRoad", group: "Road", views: map[string]string{"p": "analysis.BlackGroups analysis.WhiteGroups cfg.c.B cfg.c.L cfg.c.R cfg.c.T move"}},
	{dir: "bitboard", file: "bits.go", name: "FloodGroups", lean: "floodGroups", group: "Road", fuel: []string{"66"}},
	{dir: "tak", file: "game.go", recv: "Position", name: "WinDetails", lean: "positionWinDetails", group: "Road", views: map[string]string{"p": "Black Caps Standing White blackCaps blackStones cfg.BlackWinsTies cfg.c.Mask hasRoad whiteCaps whiteStones"}},

	// group MoveGen: tak/slide.go MkSlides, tak/move.go calculateSlides, Position.AllMoves
	{dir: "tak", file: "slide.go", name: "MkSlides", lean: "mkSlides", group: "MoveGen"},
	{dir: "tak", file: "move.go", name: "calculateSlides", lean: "calculateSlides", group: "MoveGen", globals: "slides"},
	{dir: "tak", file: "move.go", name: "init", lean: "slidesInit", group: "MoveGen", globals: "slides", writes: "slides"},
	{dir: "tak", file: "move.go", recv: "Position", name: "AllMoves", lean: "positionAllMoves", group: "MoveGen", globals: "slides",
		views: map[string]string{"p": "Black Height White blackCaps cfg.Size move whiteCaps"}},

	// group SymMove: symmetry.TransformMove (a function-typed parameter, panicking callees Dest / MkSlides)
	{dir: "symmetry", file: "canonical.go", name: "TransformMove", lean: "transformMove", group: "SymMove"},

	// group Prove: prove/dfpn.go terminalBounds, prove/pn.go flag helpers of `node` (int8 bit tests)
	{dir: "prove", file: "dfpn.go", recv: "DFPNSolver", name: "terminalBounds", lean: "terminalBounds", group: "Prove", views: map[string]string{"d": "attacker", "g": "move"}},
	{dir: "prove", file: "pn.go", recv: "node", name: "expanded", lean: "nodeExpanded", group: "Prove", views: map[string]string{"n": "flags"}},
	{dir: "prove", file: "pn.go", recv: "node", name: "andNode", lean: "nodeAndNode", group: "Prove", views: map[string]string{"n": "flags"}},
	{dir: "prove", file: "pn.go", recv: "node", name: "proof", lean: "nodeProof", group: "Prove", views: map[string]string{"n": "delta flags phi"}},
	{dir: "prove", file: "pn.go", recv: "node", name: "disproof", lean: "nodeDisproof", group: "Prove", views: map[string]string{"n": "delta flags phi"}},
}

// third round (mut.go): functions that assign through a pointer parameter
const positionMut = "Black Caps Height Stacks Standing White analysis.BlackGroups analysis.WhiteGroups blackCaps blackStones hash move whiteCaps whiteStones"

var whitelist3 = []fnSpec{
	// group Apply: tak/slide.go Iterator, tak/game.go analyze, tak/move.go MovePreallocated
	{dir: "tak", file: "slide.go", recv: "Slides", name: "Iterator", lean: "slidesIterator", group: "Apply"},
	{dir: "tak", file: "game.go", recv: "Position", name: "analyze", lean: "positionAnalyze", group: "Apply", reuse: true,
		views: map[string]string{"p": "Black Standing White cfg.c"}, mut: map[string]string{"p": "analysis.BlackGroups analysis.WhiteGroups"}},
	{dir: "tak", file: "move.go", recv: "Position", name: "MovePreallocated", lean: "movePreallocated", group: "Apply", globals: "basis",
		fuel: []string{"9", "9"}, copies: "alloc copyPosition",
		views: map[string]string{"p": "Black Caps Height Size Stacks Standing White blackCaps blackStones cfg.Size cfg.c hash move whiteCaps whiteStones", "next": "isNil"},
		mut:   map[string]string{"next": positionMut},
		late:  map[string]string{"next": "cfg.Size cfg.c"}},
}

func init() {
	for i := range whitelist2 {
		whitelist2[i].round2 = true
	}
	for i := range whitelist3 {
		whitelist3[i].round2 = true
		whitelist3[i].round3 = true
	}
	for i := range whitelist4 {
		whitelist4[i].round2 = true
		whitelist4[i].round3 = true
	}
	whitelist = append(whitelist, whitelist2...)
	whitelist = append(whitelist, whitelist3...)
	for i := range whitelist5 {
		whitelist5[i].round2 = true
		whitelist5[i].round3 = true
		whitelist5[i].round5 = true
	}
	whitelist = append(whitelist, whitelist4...)
	whitelist = append(whitelist, whitelist5...)
	for i := range whitelist6 {
		whitelist6[i].round2 = true
		whitelist6[i].round3 = true
		whitelist6[i].round5 = true
		whitelist6[i].round6 = true
	}
	whitelist = append(whitelist, whitelist6...)
}

// accessors: methods of abstract (non-translatable) parameters that may be read like a field.
// The corresponding `fn.*` op passes the real method's value, so a changed accessor shows up there.
// A non-whitelisted method listed here whose result is a tuple becomes one parameter of product type.
var accessors = map[string]bool{
	"tak.Position.Size":        true,
	"tak.Position.hasRoad":     true,
	"tak.Position.WhiteStones": true,
	"tak.Position.BlackStones": true,
	"tak.Position.MoveNumber":  true,
	"tak.Position.WinDetails":  true,
}

// intrinsics: functions of the repository that only wrap a math/bits intrinsic are mapped to the
// definition of the same name in the generated prelude (FuncsTak.lean), after checking that the
// Go body still is the single call expected.
var intrinsics = map[string]struct{ lean, body string }{
	"bitboard..Popcount":      {"popcount64", "bits.OnesCount64(x)"},
	"bitboard..TrailingZeros": {"trailingZeros64", "uint(bits.TrailingZeros64(x))"},
}

const prelude = `/-- Go's conversion to / arithmetic in int8: two's-complement wrap-around into [-128, 127] -/
def wrap8 (v : Int) : Int := ((v + 128) % 256) - 128
/-- int16 wrap-around -/
def wrap16 (v : Int) : Int := ((v + 32768) % 65536) - 32768
/-- int32 wrap-around -/
def wrap32 (v : Int) : Int := ((v + 2147483648) % 4294967296) - 2147483648

/-- math/bits.OnesCount64 (an intrinsic, not regenerated; gen checks that bitboard.Popcount still is the single
call; the value is validated by the fn.popcount op): clear the lowest set bit until none is left -/
def popcount64_loop : Nat → BitVec 64 → Nat
  | 0, _ => 0
  | n+1, x => if x == 0#64 then 0 else 1 + popcount64_loop n (x &&& (x - 1#64))
def popcount64 (x : BitVec 64) : Int := Int.ofNat (popcount64_loop 64 x)

/-- math/bits.TrailingZeros64 (64 for 0) -/
def trailingZeros64_loop : Nat → Nat → BitVec 64 → Nat
  | 0, k, _ => k
  | n+1, k, x => if x.getLsbD 0 then k else trailingZeros64_loop n (k+1) (x >>> 1)
def trailingZeros64 (x : BitVec 64) : Nat := if x == 0#64 then 64 else trailingZeros64_loop 64 0 x

/-- Go's x << n for a count that may be astronomically large (uint(v) of a negative v): the value of x <<< n
(Proofs/GenSlices.lean shl_eq), computed without building 2^n -/
def shl {w : Nat} (x : BitVec w) (n : Nat) : BitVec w := if n < w then x <<< n else 0#w
/-- Go's x >> n, likewise (shr_eq) -/
def shr {w : Nat} (x : BitVec w) (n : Nat) : BitVec w := if n < w then x >>> n else 0#w

`

type tclass int

const (
	tBV tclass = iota
	tInt
	tNat
	tBool
	tStruct
	tTuple
	tArr  // slice or array: Lean `Array`; elems[0] = element type, alen = static length (-1: slice)
	tFunc // function value: elems = parameter types ..., result type
	tBad
	tMap  // Go map (search.go): Lean association list `List (K × V)`, elems = key, value
	tSlot // pointer into a declared slice view (search.go): Lean `Option Nat` (the index; none = nil)
	tOpaque // pointer to an abstract type handed on from an oracle (iter.go): `Option C_T`, C_T a type parameter (sname)
)

type ltype struct {
	c     tclass
	width int // BitVec width; for tInt: 0 = unbounded, 8/16/32 = wrapped
	sname string
	elems []ltype
	alen  int
}

func (t ltype) lean() string {
	switch t.c {
	case tBV:
		return fmt.Sprintf("BitVec %d", t.width)
	case tInt:
		return "Int"
	case tNat:
		return "Nat"
	case tBool:
		return "Bool"
	case tStruct:
		return t.sname
	case tTuple:
		var s []string
		for _, e := range t.elems {
			s = append(s, e.lean())
		}
		return strings.Join(s, " × ")
	case tArr:
		return "Array (" + t.elems[0].lean() + ")"
	case tMap:
		return "List (" + t.elems[0].lean() + " × " + t.elems[1].lean() + ")"
	case tSlot:
		return "Option Nat"
	case tOpaque:
		return "Option " + t.sname
	case tFunc:
		var s []string
		for _, e := range t.elems {
			if e.c == tTuple || e.c == tFunc {
				s = append(s, "("+e.lean()+")")
			} else {
				s = append(s, e.lean())
			}
		}
		return strings.Join(s, " → ")
	}
	return "?"
}

// fnInfo is what callers need to know about an already translated function.
type fnInfo struct {
	spec     fnSpec
	group    int
	opt      bool
	params   []paramInfo
	globals  []string // package-level variables it reads (leading parameters g_<name>)
	variadic bool
	mutParam int // index of the parameter whose pointee the function assigns (-1: none); the function then has no Go result
	outParam int // index of the slice parameter whose final value the function returns (-1: none; eval.go)
}

type viewInfo struct {
	path []string
	ty   ltype
}

type paramInfo struct {
	abstract bool
	skip     bool       // blank / unnamed Go parameter: no Lean parameter
	views    []viewInfo // sorted by joined name
	mutViews []viewInfo // the assignable paths (sorted by joined name): what a call returns
}

type absParam struct {
	name  string
	views map[string]viewInfo
	// third round: assignable views, views that are inputs (Lean parameters); tracked = reads check initialisation
	mut     map[string]bool
	input   map[string]bool
	tracked bool
}

type closureInfo struct {
	lean    string
	outer   []string
	outerTy []ltype
	opt     bool // Option-valued (index reads, general loops: eval.go)
}

type generator struct {
	ld      *loader
	done    map[string]*fnInfo
	structs map[string]bool // emitted structures
}

type tr struct {
	g        *generator
	p        *pkgInfo
	spec     fnSpec
	group    int
	structs  map[string]*types.Struct // struct types to emit
	sorder   []string
	helpers  []string
	nloop    int
	locals   map[string]*types.Struct // local struct variables (flattened)
	abs      map[types.Object]*absParam
	closures map[types.Object]closureInfo
	opt      bool
	named    []string
	fnBody   *ast.BlockStmt // body of the enclosing function (local closures: captured variables must never be reassigned)
	err      error
	// second round (slices.go)
	uses     []map[string]useInfo // one frame per loop being translated: the variables / views / globals used inside
	loops    []loopCtx
	hoisted  map[*ast.CallExpr]string // Option-valued calls bound to a temporary in front of the current statement
	hoisting *ast.CallExpr
	ntmp     int
	needOpt  bool
	loopDone map[ast.Stmt]string // loop statement -> helper (continuations may be translated more than once)
	globals  map[string]ltype
	names    map[types.Object]string // Lean names of variables that share their Go name with an earlier variable
	ndup     map[string]int
	// third round (mut.go)
	mutInit map[string]bool          // view name of a tracked parameter -> initialised on the current path
	alias   map[types.Object]*aliasT // pointer-typed local variables: the field they point to on the current path (nil: nil)
	errRes  bool                     // the last Go result is an `error`: Lean result `Except Unit ..`
	retMut  *absParam                // the parameter a `*T` result returns
	voidMut *absParam                // function without results assigning through this parameter
	resT    string                   // Lean text of the result type (without Option)
	// fourth round (eval.go)
	absAlias        map[types.Object]*absAliasT // `x := p.Analysis()`: x stands for the field path p.analysis
	outVar          string                      // Lean name of the out-parameter (fnSpec.outParam)
	closureNeedsOpt bool                        // the closure just translated needs an Option result
	// fifth round (search.go)
	slots   map[types.Object]bool // pointer-typed locals that point into the declared slice view: Lean variables holding the index
	slotAbs *absParam             // the parameter whose view `spec.slot` the slots point into
	slotMut *absParam             // that parameter when the function also assigns through it
	loads   map[string]bool       // atomic loads seen (one per path and function)
	// sixth round (iter.go)
	six *round6
	// seventh round (zw.go)
	seven *round7
}

// nm: the Lean name of the variable an identifier denotes
func (t *tr) nm(id *ast.Ident) string {
	obj := t.p.info.Defs[id]
	if obj == nil {
		obj = t.p.info.Uses[id]
	}
	if obj != nil {
		if n, ok := t.names[obj]; ok {
			return n
		}
	}
	return safe(id.Name)
}

func (t *tr) fail(n ast.Node, format string, a ...interface{}) {
	if t.err == nil {
		pos := t.p.fset.Position(n.Pos())
		t.err = fmt.Errorf("%s.%s (%s:%d): outside the translatable subset: %s", t.spec.dir, t.spec.name, t.spec.file, pos.Line, fmt.Sprintf(format, a...))
	}
}

func namedStruct(ty types.Type) (*types.Named, *types.Struct) {
	if p, ok := ty.(*types.Pointer); ok {
		ty = p.Elem()
	}
	if n, ok := ty.(*types.Named); ok {
		if st, ok := n.Underlying().(*types.Struct); ok {
			return n, st
		}
	}
	return nil, nil
}

func basicType(ty types.Type) ltype {
	b, ok := ty.Underlying().(*types.Basic)
	if !ok {
		return ltype{c: tBad}
	}
	switch b.Kind() {
	case types.Uint64:
		return ltype{c: tBV, width: 64}
	case types.Uint32:
		return ltype{c: tBV, width: 32}
	case types.Uint16:
		return ltype{c: tBV, width: 16}
	case types.Uint8:
		return ltype{c: tBV, width: 8}
	case types.Int, types.Int64, types.UntypedInt:
		return ltype{c: tInt}
	case types.Int8:
		return ltype{c: tInt, width: 8}
	case types.Int16:
		return ltype{c: tInt, width: 16}
	case types.Int32:
		return ltype{c: tInt, width: 32}
	case types.Uint:
		return ltype{c: tNat}
	case types.Bool, types.UntypedBool:
		return ltype{c: tBool}
	}
	return ltype{c: tBad}
}

// abstractable: a (pointer to a) named struct or array type; its reads become parameters
func abstractable(ty types.Type) bool {
	if p, ok := ty.(*types.Pointer); ok {
		ty = p.Elem()
	}
	n, ok := ty.(*types.Named)
	if !ok {
		return false
	}
	switch n.Underlying().(type) {
	case *types.Struct, *types.Array:
		return true
	}
	return false
}

// structOK: every field (recursively) has a translatable type
func structOK(st *types.Struct, depth int) bool {
	if depth > 4 {
		return false
	}
	for i := 0; i < st.NumFields(); i++ {
		ft := st.Field(i).Type()
		if _, ok := ft.(*types.Pointer); ok {
			return false
		}
		if _, s := namedStruct(ft); s != nil {
			if !structOK(s, depth+1) {
				return false
			}
			continue
		}
		if basicType(ft).c == tBad {
			return false
		}
	}
	return true
}

// structName: the Lean name of a struct type; a type declared inside a function gets the function's name as prefix
func (t *tr) structName(n *types.Named) string {
	o := n.Obj()
	if o.Pkg() != nil && o.Parent() != o.Pkg().Scope() {
		return t.spec.lean + "_" + o.Name()
	}
	return o.Name()
}

func (t *tr) registerStruct(name string, st *types.Struct) {
	if _, ok := t.structs[name]; ok {
		return
	}
	for i := 0; i < st.NumFields(); i++ {
		if n, s := namedStruct(st.Field(i).Type()); s != nil && structOK(s, 0) {
			t.registerStruct(t.structName(n), s)
		}
	}
	t.structs[name] = st
	t.sorder = append(t.sorder, name)
}

func (t *tr) ltypeOf(ty types.Type) ltype {
	if tup, ok := ty.(*types.Tuple); ok {
		if tup.Len() == 1 {
			return t.ltypeOf(tup.At(0).Type())
		}
		lt := ltype{c: tTuple}
		for i := 0; i < tup.Len(); i++ {
			e := t.ltypeOf(tup.At(i).Type())
			if e.c == tBad {
				return e
			}
			lt.elems = append(lt.elems, e)
		}
		if tup.Len() == 0 {
			return ltype{c: tBad}
		}
		return lt
	}
	if n, st := namedStruct(ty); st != nil {
		if !structOK(st, 0) {
			return ltype{c: tBad}
		}
		t.registerStruct(t.structName(n), st)
		return ltype{c: tStruct, sname: t.structName(n)}
	}
	if _, ok := ty.(*types.Pointer); ok {
		return ltype{c: tBad}
	}
	switch u := ty.Underlying().(type) {
	case *types.Map:
		if !t.spec.round5 {
			return ltype{c: tBad}
		}
		k, v := t.ltypeOf(u.Key()), t.ltypeOf(u.Elem())
		if (k.c != tStruct && k.c != tBV && k.c != tInt) || (v.c != tStruct && v.c != tBV && v.c != tInt) {
			return ltype{c: tBad}
		}
		return ltype{c: tMap, elems: []ltype{k, v}}
	case *types.Slice:
		e := t.ltypeOf(u.Elem())
		if e.c == tBad || e.c == tTuple || e.c == tFunc {
			return ltype{c: tBad}
		}
		return ltype{c: tArr, elems: []ltype{e}, alen: -1}
	case *types.Array:
		e := t.ltypeOf(u.Elem())
		if e.c == tBad || e.c == tTuple || e.c == tFunc {
			return ltype{c: tBad}
		}
		return ltype{c: tArr, elems: []ltype{e}, alen: int(u.Len())}
	case *types.Signature:
		if u.Recv() != nil || u.Variadic() || u.Results().Len() == 0 {
			return ltype{c: tBad}
		}
		lt := ltype{c: tFunc}
		for i := 0; i < u.Params().Len(); i++ {
			e := t.ltypeOf(u.Params().At(i).Type())
			if e.c == tBad || e.c == tFunc || e.c == tTuple {
				return ltype{c: tBad}
			}
			lt.elems = append(lt.elems, e)
		}
		r := t.ltypeOf(u.Results())
		if r.c == tBad || r.c == tFunc || len(lt.elems) == 0 {
			return ltype{c: tBad}
		}
		lt.elems = append(lt.elems, r)
		return lt
	}
	return basicType(ty)
}

func lit(v constant.Value, ty ltype) string {
	v = constant.ToInt(v)
	s := v.ExactString()
	switch ty.c {
	case tBV:
		if strings.HasPrefix(s, "-") {
			return fmt.Sprintf("(BitVec.ofInt %d (%s))", ty.width, s)
		}
		return fmt.Sprintf("%s#%d", s, ty.width)
	case tInt:
		if strings.HasPrefix(s, "-") {
			return "(" + s + ")"
		}
		return "(" + s + " : Int)"
	case tNat:
		return s
	}
	return s
}

func safe(name string) string {
	switch name {
	case "next", "end", "at", "from", "in", "then", "do", "fun", "let", "have", "show", "open", "by", "with",
		"Type", "Sort", "Prop", "if", "else", "match", "where", "def", "theorem", "instance", "structure", "namespace", "section",
		"st", "fuel", "hi":
		return name + "_"
	}
	return name
}

func wrapName(w int) string { return fmt.Sprintf("wrap%d", w) }

// wrap applies the two's-complement wrap of a bounded signed type
func wrap(ty ltype, s string) string {
	if ty.c == tInt && ty.width > 0 {
		return "(" + wrapName(ty.width) + " " + s + ")"
	}
	return s
}

func (t *tr) typeOf(e ast.Expr) ltype {
	tv, ok := t.p.info.Types[e]
	if !ok || tv.Type == nil {
		t.fail(e, "expression without type")
		return ltype{c: tBad}
	}
	lt := t.ltypeOf(tv.Type)
	if lt.c == tBad {
		t.fail(e, "unsupported type %s", tv.Type)
	}
	return lt
}

// selPath splits a.b.c into its root identifier and the field path
func selPath(e ast.Expr) (*ast.Ident, []string) {
	var path []string
	for {
		switch x := e.(type) {
		case *ast.SelectorExpr:
			path = append([]string{x.Sel.Name}, path...)
			e = x.X
		case *ast.ParenExpr:
			e = x.X
		case *ast.Ident:
			return x, path
		default:
			return nil, nil
		}
	}
}

func (t *tr) absOf(id *ast.Ident) *absParam {
	if id == nil {
		return nil
	}
	if obj, ok := t.p.info.Uses[id]; ok {
		return t.abs[obj]
	}
	return nil
}

func viewName(param string, path []string) string {
	return param + "_" + strings.NewReplacer("[", "", "]", "").Replace(strings.Join(path, "_"))
}

func (t *tr) view(a *absParam, path []string, ty ltype) string {
	name := viewName(a.name, path)
	old, ok := a.views[name]
	if !ok {
		t.err2("%s reads %s.%s, which is not among the views declared for it in the whitelist", t.spec.name, a.name, strings.Join(path, "."))
		return "?"
	}
	if old.ty.lean() != ty.lean() {
		t.err2("%s: view %s has type %s, declared path resolves to %s", t.spec.name, name, ty.lean(), old.ty.lean())
	}
	if a.tracked && !t.mutInit[name] {
		t.err2("%s reads %s.%s before it is initialised on this path", t.spec.name, a.name, strings.Join(path, "."))
	}
	t.use(name, old.ty, token.NoPos)
	return name
}

func (t *tr) err2(format string, a ...interface{}) {
	if t.err == nil {
		t.err = fmt.Errorf("%s.%s (%s): outside the translatable subset: %s", t.spec.dir, t.spec.name, t.spec.file, fmt.Sprintf(format, a...))
	}
}

// declareViews resolves the declared view paths of an abstract parameter through go/types.
func (t *tr) declareViews(a *absParam, ty types.Type) {
	decl, ok := t.spec.views[a.name]
	mdecl, isMut := t.spec.mut[a.name]
	ldecl := t.spec.late[a.name]
	if !ok && !isMut {
		t.err2("abstract parameter %s has no declared views in the whitelist", a.name)
		return
	}
	a.mut, a.input, a.tracked = map[string]bool{}, map[string]bool{}, isMut
	t.declareViewList(a, ty, decl, "view")
	t.declareViewList(a, ty, mdecl, "mut")
	t.declareViewList(a, ty, ldecl, "late")
	if t.spec.round6 && t.err == nil {
		t.declareOracles(a, ty)
	}
}

func (t *tr) declareViewList(a *absParam, ty types.Type, decl string, kind string) {
	for _, ps := range strings.Fields(decl) {
		path := strings.Split(ps, ".")
		name := viewName(a.name, path)
		if kind == "view" {
			a.input[name] = true
			t.mutInit[name] = true
		}
		if kind == "mut" {
			a.mut[name] = true
		}
		if _, dup := a.views[name]; dup {
			continue // listed as input and as assignable
		}
		if t.spec.round5 {
			if handled := t.declareView5(a, ty, ps, path, name); handled {
				continue
			}
		}
		if ps == "isNil" {
			// pseudo view: `x == nil` of a pointer parameter
			if _, isPtr := ty.(*types.Pointer); !isPtr || kind != "view" {
				t.err2("view %s.isNil: only as an input view of a pointer parameter", a.name)
				return
			}
			a.views[name] = viewInfo{path: path, ty: ltype{c: tBool}}
			continue
		}
		cur := ty
		var lastPkg *types.Package // the package of the last named type on the path (unexported fields of an anonymous struct: zwsort.go)
		for _, comp := range path {
			if p, ok := cur.(*types.Pointer); ok {
				cur = p.Elem()
			}
			if strings.HasPrefix(comp, "[") {
				arr, ok := cur.Underlying().(*types.Array)
				if !ok {
					t.err2("view %s.%s: not an array", a.name, ps)
					return
				}
				if comp == "[all]" {
					continue // the whole array (eval.go): reads with a non-constant index
				}
				cur = arr.Elem()
				continue
			}
			var pkg *types.Package
			if n, ok := cur.(*types.Named); ok {
				pkg = n.Obj().Pkg()
				lastPkg = pkg
			} else {
				pkg = lastPkg
			}
			obj, _, _ := types.LookupFieldOrMethod(cur, true, pkg, comp)
			switch o := obj.(type) {
			case *types.Var:
				cur = o.Type()
			case *types.Func:
				if !accessors[funcKey(o)] {
					t.err2("view %s.%s: method %s is not a listed accessor", a.name, ps, funcKey(o))
					return
				}
				cur = o.Type().(*types.Signature).Results()
			default:
				t.err2("view %s.%s: no field or method %s", a.name, ps, comp)
				return
			}
		}
		lt := t.ltypeOf(cur)
		if lt.c == tBad {
			t.err2("view %s.%s: type %s is not translatable", a.name, ps, cur)
			return
		}
		a.views[name] = viewInfo{path: path, ty: lt}
	}
}

func (t *tr) expr(e ast.Expr) string {
	if t.err != nil {
		return "?"
	}
	tv := t.p.info.Types[e]
	if tv.Value != nil && tv.Value.Kind() != constant.Bool {
		return lit(tv.Value, t.typeOf(e))
	}
	if t.seven != nil {
		if out, ok := t.expr7(e); ok {
			return out
		}
	}
	if t.spec.round6 {
		if out, ok := t.expr6(e); ok {
			return out
		}
	}
	if t.spec.round5 {
		if out, ok := t.expr5(e); ok {
			return out
		}
	}
	switch e := e.(type) {
	case *ast.ParenExpr:
		return "(" + t.expr(e.X) + ")"
	case *ast.Ident:
		if e.Name == "true" || e.Name == "false" {
			return e.Name
		}
		if t.absOf(e) != nil || t.isAbsAlias(e) {
			t.fail(e, "abstract parameter %s used as a value", e.Name)
			return "?"
		}
		if _, isLocal := t.locals[e.Name]; isLocal {
			t.fail(e, "local struct %s used as a value", e.Name)
			return "?"
		}
		if tv.IsNil() {
			return "#[]"
		}
		if v, ok := t.p.info.Uses[e].(*types.Var); ok && !v.IsField() {
			if v.Parent() == t.p.pkg.Scope() {
				return t.global(e, v)
			}
			if lt := t.ltypeOf(v.Type()); lt.c != tBad {
				t.use(t.nm(e), lt, v.Pos())
			}
		}
		return t.nm(e)
	case *ast.SelectorExpr:
		root, path := selPath(e)
		if a, full := t.absSel(root, path); a != nil {
			return t.view(a, full, t.typeOf(e))
		}
		if id, ok := e.X.(*ast.Ident); ok {
			if _, isLocal := t.locals[id.Name]; isLocal {
				if v, ok := t.p.info.Uses[id].(*types.Var); ok {
					t.use(t.nm(id)+"_"+e.Sel.Name, t.typeOf(e), v.Pos())
				}
				return t.nm(id) + "_" + e.Sel.Name
			}
			return t.expr(id) + "." + safe(e.Sel.Name)
		}
		if _, st := namedStruct(t.p.info.Types[e.X].Type); st != nil {
			return t.expr(e.X) + "." + safe(e.Sel.Name)
		}
		t.fail(e, "selector")
	case *ast.IndexExpr:
		// w[K] with a constant index on an abstract array parameter -> parameter w_K
		id, _ := e.X.(*ast.Ident)
		a := t.absOf(id)
		itv := t.p.info.Types[e.Index]
		if a == nil && t.isArr(e.X) {
			// guarded by the statement's prefix (slices.go: guard)
			if !t.wantOpt(e) {
				return "?"
			}
			arr, nat, _ := t.indexParts(e)
			return "(" + arr + ".getD " + nat + " " + zeroOf(t.typeOf(e)) + ")"
		}
		if a != nil {
			if out, ok := t.absArrayIndex(a, e); ok {
				return out
			}
		}
		if a == nil || itv.Value == nil {
			t.fail(e, "index expression (only constant indices into an abstract array parameter)")
			return "?"
		}
		name := constant.ToInt(itv.Value).ExactString()
		switch ix := e.Index.(type) {
		case *ast.Ident:
			name = ix.Name
		case *ast.SelectorExpr:
			name = ix.Sel.Name
		}
		return t.view(a, []string{"[" + name + "]"}, t.typeOf(e))
	case *ast.StarExpr:
		if tgt, ok := t.derefTarget(e); ok {
			if tgt == nil {
				t.fail(e, "dereference of a pointer that is nil on this path in a place where the panic cannot be expressed")
				return "?"
			}
			return t.view(tgt.a, tgt.path, tgt.ty)
		}
		t.fail(e, "dereference (only of a pointer-typed local whose target is statically known)")
		return "?"
	case *ast.UnaryExpr:
		if e.Op == token.AND && t.spec.round3 {
			// `&x.f` of a struct-typed field passed to a read-only pointer parameter: the value
			if _, st := namedStruct(t.p.info.Types[e.X].Type); st != nil && structOK(st, 0) {
				if root, _ := selPath(e.X); root != nil {
					return t.expr(e.X)
				}
			}
			t.fail(e, "address-of (only of a struct-typed field, as a read-only argument)")
			return "?"
		}
		x := t.expr(e.X)
		ty := t.typeOf(e.X)
		switch e.Op {
		case token.SUB:
			return wrap(ty, "(-"+x+")")
		case token.XOR:
			if ty.c == tBV {
				return "(~~~" + x + ")"
			}
		case token.NOT:
			return "(!" + x + ")"
		}
		t.fail(e, "unary %s", e.Op)
	case *ast.BinaryExpr:
		return t.binary(e, t.typeOf(e))
	case *ast.CallExpr:
		// conversion?
		if ftv, ok := t.p.info.Types[e.Fun]; ok && ftv.IsType() && len(e.Args) == 1 {
			return t.convert(e.Args[0], t.ltypeOf(ftv.Type), e)
		}
		if id, ok := e.Fun.(*ast.Ident); ok {
			if _, isB := t.p.info.Uses[id].(*types.Builtin); isB {
				return t.builtin(e, id.Name)
			}
		}
		return t.call(e)
	case *ast.CompositeLit:
		return t.compositeLit(e)
	case *ast.SliceExpr:
		if t.reuseSlice(e) {
			return "#[]"
		}
		if t.fullSlice(e) {
			return t.expr(e.X) // `x[:]`: the same elements (value semantics; aliasing is refused by checkAliasing)
		}
		if e.Low == nil || e.High != nil || e.Max != nil || !t.isArr(e.X) {
			t.fail(e, "slice expression (only s[a:])")
			return "?"
		}
		if !t.wantOpt(e) {
			return "?"
		}
		lo, _ := t.natOf(e.Low)
		x := t.expr(e.X)
		return "(" + x + ".extract " + lo + " " + x + ".size)"
	default:
		t.fail(e, "expression %T", e)
	}
	return "?"
}

func funcKey(fn *types.Func) string {
	recv := ""
	if sig, ok := fn.Type().(*types.Signature); ok && sig.Recv() != nil {
		rt := sig.Recv().Type()
		if p, ok := rt.(*types.Pointer); ok {
			rt = p.Elem()
		}
		if n, ok := rt.(*types.Named); ok {
			recv = n.Obj().Name()
		}
	}
	pkg := ""
	if fn.Pkg() != nil {
		pkg = fn.Pkg().Path()
	}
	return pkg + "." + recv + "." + fn.Name()
}

func specKey(s fnSpec) string { return s.dir + "." + s.recv + "." + s.name }

// call translates a call of a local closure, an accessor of an abstract parameter, an intrinsic, or a function
// translated earlier.
func (t *tr) call(e *ast.CallExpr) string {
	var fnObj types.Object
	var recv ast.Expr
	switch f := e.Fun.(type) {
	case *ast.Ident:
		fnObj = t.p.info.Uses[f]
		if ci, ok := t.closures[fnObj]; ok {
			if ci.opt && t.hoisting != e {
				if name, ok := t.hoisted[e]; ok {
					return name
				}
				t.fail(e, "call of the closure %s, which may panic / not terminate", f.Name)
				return "?"
			}
			args := append([]string{}, ci.outer...)
			for i, o := range ci.outer {
				if i < len(ci.outerTy) {
					t.use(o, ci.outerTy[i], token.NoPos)
				}
			}
			for _, a := range e.Args {
				args = append(args, t.expr(a))
			}
			return "(" + ci.lean + " " + strings.Join(args, " ") + ")"
		}
		if v, ok := fnObj.(*types.Var); ok {
			// a function value (parameter of function type)
			if lt := t.ltypeOf(v.Type()); lt.c == tFunc {
				t.use(t.nm(f), lt, v.Pos())
				return "(" + t.nm(f) + " " + strings.Join(t.callArgs(e.Args), " ") + ")"
			}
		}
	case *ast.SelectorExpr:
		fnObj = t.p.info.Uses[f.Sel]
		isPkg := false
		if id, ok := f.X.(*ast.Ident); ok {
			_, isPkg = t.p.info.Uses[id].(*types.PkgName)
		}
		if !isPkg {
			recv = f.X
		}
	}
	fn, ok := fnObj.(*types.Func)
	if !ok {
		t.fail(e, "call of something that is not a declared function")
		return "?"
	}
	key := funcKey(fn)
	if in, ok := intrinsics[key]; ok {
		if err := t.g.checkIntrinsic(fn, in.body); err != nil {
			t.fail(e, "%v", err)
			return "?"
		}
		if len(e.Args) != 1 {
			t.fail(e, "intrinsic arity")
			return "?"
		}
		return "(" + in.lean + " " + t.expr(e.Args[0]) + ")"
	}
	// accessor of an abstract parameter
	if recv != nil {
		if id, ok := recv.(*ast.Ident); ok {
			if a := t.absOf(id); a != nil && accessors[key] && len(e.Args) == 0 {
				sig := fn.Type().(*types.Signature)
				rt := t.ltypeOf(sig.Results())
				if rt.c == tBad {
					t.fail(e, "accessor result type")
					return "?"
				}
				return t.view(a, []string{fn.Name()}, rt)
			}
		}
	}
	callee, ok := t.g.done[key]
	if !ok {
		t.fail(e, "call of %s, which is not (or not yet) in the whitelist", key)
		return "?"
	}
	if callee.group > t.group {
		t.fail(e, "call of %s from an earlier generated file", key)
		return "?"
	}
	if callee.opt && t.hoisting != e {
		if name, ok := t.hoisted[e]; ok {
			return name
		}
		t.fail(e, "call of %s, which may panic / not terminate", key)
		return "?"
	}
	var goArgs []ast.Expr
	if recv != nil {
		goArgs = append(goArgs, recv)
	}
	goArgs = append(goArgs, e.Args...)
	var args []string
	for _, gname := range callee.globals {
		lt, ok := t.globals[gname]
		if !ok {
			t.fail(e, "call of %s, which reads the package-level variable %s: not among the globals declared for the caller", key, gname)
			return "?"
		}
		t.use("g_"+gname, lt, token.NoPos)
		args = append(args, "g_"+gname)
	}
	packed := ""
	if callee.variadic && !e.Ellipsis.IsValid() {
		// f(a, b, xs...) without `...`: the trailing arguments form the slice
		nfix := len(callee.params) - 1
		if len(goArgs) < nfix {
			t.fail(e, "argument count of %s", key)
			return "?"
		}
		var vs []string
		for _, a := range goArgs[nfix:] {
			vs = append(vs, t.expr(a))
		}
		packed = "#[" + strings.Join(vs, ", ") + "]"
		goArgs = append(append([]ast.Expr{}, goArgs[:nfix]...), nil)
	}
	if len(goArgs) != len(callee.params) {
		t.fail(e, "argument count of %s", key)
		return "?"
	}
	for i, a := range goArgs {
		pi := callee.params[i]
		if a == nil {
			args = append(args, packed)
			continue
		}
		if pi.skip {
			continue
		}
		if !pi.abstract {
			args = append(args, t.expr(a))
			continue
		}
		id, _ := a.(*ast.Ident)
		ab := t.absOf(id)
		if ab == nil {
			t.fail(a, "argument for the abstract parameter of %s must be an abstract parameter", key)
			return "?"
		}
		for _, v := range pi.views {
			if out, ok := t.viewThroughAll(ab, v, callee.spec.dir); ok {
				args = append(args, out)
				continue
			}
			args = append(args, t.view(ab, v.path, v.ty))
		}
	}
	return "(" + callee.spec.lean + " " + strings.Join(args, " ") + ")"
}

func (g *generator) checkIntrinsic(fn *types.Func, want string) error {
	p, err := g.ld.load(fn.Pkg().Path())
	if err != nil {
		return err
	}
	found := 0
	for _, f := range p.files {
		for _, d := range f.Decls {
			fd, ok := d.(*ast.FuncDecl)
			if !ok || fd.Recv != nil || fd.Name.Name != fn.Name() || fd.Body == nil {
				continue
			}
			found++
			if len(fd.Body.List) != 1 {
				return fmt.Errorf("intrinsic %s: body is no longer a single return", fn.Name())
			}
			rs, ok := fd.Body.List[0].(*ast.ReturnStmt)
			if !ok || len(rs.Results) != 1 {
				return fmt.Errorf("intrinsic %s: body is no longer a single return", fn.Name())
			}
			got := types.ExprString(rs.Results[0])
			if got != want {
				return fmt.Errorf("intrinsic %s: body is `%s`, expected `%s`", fn.Name(), got, want)
			}
		}
	}
	if found == 0 {
		// the build-tagged variants live in files of the same package name; at least one must be present
		return fmt.Errorf("intrinsic %s: declaration not found", fn.Name())
	}
	return nil
}

func (t *tr) convert(arg ast.Expr, to ltype, at ast.Node) string {
	from := t.typeOf(arg)
	x := t.expr(arg)
	switch {
	case from.c == tBV && to.c == tBV:
		if from.width == to.width {
			return x
		}
		return fmt.Sprintf("(%s.setWidth %d)", x, to.width)
	case from.c == tBV && to.c == tInt:
		if to.width > 0 && from.width >= to.width {
			return wrap(to, fmt.Sprintf("(Int.ofNat %s.toNat)", x))
		}
		return fmt.Sprintf("(Int.ofNat %s.toNat)", x)
	case from.c == tBV && to.c == tNat:
		return fmt.Sprintf("%s.toNat", x)
	case from.c == tInt && to.c == tBV:
		return fmt.Sprintf("(BitVec.ofInt %d %s)", to.width, x)
	case from.c == tNat && to.c == tBV:
		return fmt.Sprintf("(BitVec.ofNat %d %s)", to.width, x)
	case from.c == tInt && to.c == tInt:
		if to.width > 0 && (from.width == 0 || from.width > to.width) {
			return wrap(to, x)
		}
		return x
	case from.c == tNat && to.c == tNat:
		return x
	case from.c == tNat && to.c == tInt:
		return wrap(to, fmt.Sprintf("(Int.ofNat %s)", x))
	case from.c == tInt && to.c == tNat:
		// uint(v): two's complement reinterpretation of the (sign-extended) 64-bit value
		return fmt.Sprintf("(Int.toNat (%s %% 18446744073709551616))", x)
	}
	t.fail(at, "conversion %s -> %s", from.lean(), to.lean())
	return "?"
}

func (t *tr) shiftAmount(e ast.Expr) string {
	if tv := t.p.info.Types[e]; tv.Value != nil {
		return constant.ToInt(tv.Value).ExactString()
	}
	ty := t.typeOf(e)
	x := t.expr(e)
	switch ty.c {
	case tNat:
		return "(" + x + ")"
	case tBV:
		return "(" + x + ").toNat"
	case tInt:
		t.fail(e, "shift by a signed non-constant amount (Go panics on a negative count)")
		return "?"
	}
	t.fail(e, "shift amount type")
	return "?"
}

// binary translates e; rt is the Go type of the result (given explicitly: `x op= y` builds a synthetic node)
func (t *tr) binary(e *ast.BinaryExpr, rt ltype) string {
	if t.seven != nil {
		if out, ok := t.binary7(e); ok {
			return out
		}
	}
	if t.spec.round6 {
		if out, ok := t.binary6(e); ok {
			return out
		}
	}
	if t.spec.round5 {
		if out, ok := t.binary5(e, rt); ok {
			return out
		}
	}
	if e.Op == token.EQL || e.Op == token.NEQ {
		// `x == nil` of a pointer parameter: the input view x_isNil (mut.go)
		x, y := e.X, e.Y
		if t.isNilExpr(x) {
			x, y = y, x
		}
		if id, ok := x.(*ast.Ident); ok && t.isNilExpr(y) {
			if a := t.absOf(id); a != nil {
				v := t.view(a, []string{"isNil"}, ltype{c: tBool})
				if e.Op == token.NEQ {
					return "(!" + v + ")"
				}
				return v
			}
		}
	}
	lt := t.typeOf(e.X)
	l, r := t.expr(e.X), "?"
	if e.Op != token.SHL && e.Op != token.SHR {
		r = t.expr(e.Y)
	}
	switch e.Op {
	case token.LAND:
		return "(" + l + " && " + r + ")"
	case token.LOR:
		return "(" + l + " || " + r + ")"
	case token.EQL:
		return "(" + l + " == " + r + ")"
	case token.NEQ:
		return "(" + l + " != " + r + ")"
	case token.LSS:
		return "(decide (" + l + " < " + r + "))"
	case token.LEQ:
		return "(decide (" + l + " ≤ " + r + "))"
	case token.GTR:
		return "(decide (" + l + " > " + r + "))"
	case token.GEQ:
		return "(decide (" + l + " ≥ " + r + "))"
	case token.ADD:
		return wrap(rt, "("+l+" + "+r+")")
	case token.SUB:
		return wrap(rt, "("+l+" - "+r+")")
	case token.MUL:
		return wrap(rt, "("+l+" * "+r+")")
	case token.QUO, token.REM:
		// Go panics on a zero divisor, Lean's division returns 0: only divisors that are non-zero constants
		if dv := t.p.info.Types[e.Y].Value; dv == nil || constant.Sign(constant.ToInt(dv)) == 0 {
			t.fail(e, "division by something that is not a non-zero constant")
			return "?"
		}
		if e.Op == token.QUO {
			if lt.c == tInt {
				return wrap(rt, "(Int.tdiv "+l+" "+r+")")
			}
			return "(" + l + " / " + r + ")"
		}
		if lt.c == tInt {
			return "(Int.tmod " + l + " " + r + ")"
		}
		return "(" + l + " % " + r + ")"
	case token.AND:
		if lt.c == tBV {
			return "(" + l + " &&& " + r + ")"
		}
		if lt.c == tInt {
			return intBits(lt, l, "&&&", r)
		}
	case token.OR:
		if lt.c == tBV {
			return "(" + l + " ||| " + r + ")"
		}
		if lt.c == tInt {
			return intBits(lt, l, "|||", r)
		}
	case token.XOR:
		if lt.c == tBV {
			return "(" + l + " ^^^ " + r + ")"
		}
		if lt.c == tInt {
			return intBits(lt, l, "^^^", r)
		}
	case token.AND_NOT:
		if lt.c == tBV {
			return "(" + l + " &&& ~~~" + r + ")"
		}
		if lt.c == tInt {
			return intBits(lt, l, "&&& ~~~", r)
		}
	case token.SHL:
		if lt.c == tBV {
			if t.spec.round2 && t.p.info.Types[e.Y].Value == nil {
				return "(shl " + l + " " + t.shiftAmount(e.Y) + ")"
			}
			return "(" + l + " <<< " + t.shiftAmount(e.Y) + ")"
		}
	case token.SHR:
		if lt.c == tBV {
			if t.spec.round2 && t.p.info.Types[e.Y].Value == nil {
				return "(shr " + l + " " + t.shiftAmount(e.Y) + ")"
			}
			return "(" + l + " >>> " + t.shiftAmount(e.Y) + ")"
		}
	}
	t.fail(e, "operator %s on %s", e.Op, lt.lean())
	return "?"
}

// intBits: a bit operation on a signed integer = the operation on its two's-complement representation (width of the Go
// type; `int` / `int64`: 64 bits, the value being assumed in range like everywhere else)
func intBits(lt ltype, l, op, r string) string {
	w := lt.width
	if w == 0 {
		w = 64
	}
	return fmt.Sprintf("(BitVec.toInt ((BitVec.ofInt %d %s) %s (BitVec.ofInt %d %s)))", w, l, op, w, r)
}

var assignOps = map[token.Token]token.Token{
	token.ADD_ASSIGN: token.ADD, token.SUB_ASSIGN: token.SUB, token.MUL_ASSIGN: token.MUL,
	token.QUO_ASSIGN: token.QUO, token.REM_ASSIGN: token.REM, token.AND_ASSIGN: token.AND,
	token.OR_ASSIGN: token.OR, token.XOR_ASSIGN: token.XOR, token.SHL_ASSIGN: token.SHL,
	token.SHR_ASSIGN: token.SHR, token.AND_NOT_ASSIGN: token.AND_NOT,
}

// lhsName gives the Lean variable an assignment target denotes.
func (t *tr) lhsName(e ast.Expr) string {
	switch e := e.(type) {
	case *ast.Ident:
		if e.Name == "_" {
			return "_"
		}
		if t.absOf(e) != nil {
			break
		}
		if t.isGlobal(e) {
			if e.Name == t.spec.writes {
				return t.expr(e)
			}
			break
		}
		return t.nm(e)
	case *ast.SelectorExpr:
		if id, ok := e.X.(*ast.Ident); ok {
			if _, isLocal := t.locals[id.Name]; isLocal {
				return t.nm(id) + "_" + e.Sel.Name
			}
		}
		if a, path, ok := t.mutField(e); ok {
			n := viewName(a.name, path)
			t.use(n, a.views[n].ty, token.NoPos)
			return n
		}
	case *ast.StarExpr:
		if tgt, ok := t.derefTarget(e); ok && tgt != nil {
			n := viewName(tgt.a.name, tgt.path)
			t.use(n, tgt.ty, token.NoPos)
			return n
		}
	case *ast.ParenExpr:
		return t.lhsName(e.X)
	}
	t.fail(e, "assignment target")
	return "?"
}

func indent(s string) string { return "  " + strings.ReplaceAll(s, "\n", "\n  ") }

func tuple(xs []string) string {
	if len(xs) == 1 {
		return xs[0]
	}
	return "(" + strings.Join(xs, ", ") + ")"
}

func (t *tr) retVal(v string) string {
	if t.opt {
		return "some (" + v + ")"
	}
	return v
}

func (t *tr) isPanic(s ast.Stmt) bool {
	es, ok := s.(*ast.ExprStmt)
	if !ok {
		return false
	}
	ce, ok := es.X.(*ast.CallExpr)
	if !ok {
		return false
	}
	id, ok := ce.Fun.(*ast.Ident)
	if !ok || id.Name != "panic" {
		return false
	}
	_, isBuiltin := t.p.info.Uses[id].(*types.Builtin)
	return isBuiltin
}

// stmts translates a statement list followed by `ret` (the continuation, translated on demand).
func (t *tr) stmts(ss []ast.Stmt, ret func() string) string {
	if t.err != nil {
		return "?"
	}
	if len(ss) == 0 {
		return ret()
	}
	s, tail := ss[0], ss[1:]
	cont := func() string { return t.stmts(tail, ret) }
	// a dereference of a pointer that is nil on this path: Go panics (mut.go)
	if len(t.alias) > 0 && t.derefNil(t.stmtExprs(s)) {
		if t.err != nil || !t.wantOpt(s) {
			return "?"
		}
		return "none"
	}
	// what the statement evaluates may panic (index out of range, a panicking callee): guard first (slices.go)
	pre := t.guard(t.stmtExprs(s)...)
	if t.err != nil {
		return "?"
	}
	return pre + t.stmt1(s, tail, ret, cont)
}

func (t *tr) stmt1(s ast.Stmt, tail []ast.Stmt, ret func() string, cont func() string) string {
	if t.spec.round6 {
		if out, ok := t.stmt6(s, cont); ok {
			return out
		}
	}
	switch st := s.(type) {
	case *ast.IfStmt:
		if st.Init == nil && t.joinable(s, tail) {
			return t.join(s, cont)
		}
	case *ast.SwitchStmt:
		if st.Init == nil && t.joinable(s, tail) {
			return t.join(s, cont)
		}
	}
	return t.stmt1cps(s, tail, ret, cont)
}

// stmt1cps: the statement followed by its continuation (translated into every branch that falls through)
func (t *tr) stmt1cps(s ast.Stmt, tail []ast.Stmt, ret func() string, cont func() string) string {
	if t.spec.round5 {
		if out, ok := t.stmt5(s, cont); ok {
			return out
		}
	}
	switch s := s.(type) {
	case *ast.ReturnStmt:
		if t.errRes || t.retMut != nil || t.voidMut != nil {
			return t.emitReturn(t.mutReturn(s))
		}
		switch len(s.Results) {
		case 0:
			if len(t.named) == 0 {
				t.fail(s, "bare return without named results")
				return "?"
			}
			return t.emitReturn(tuple(t.named))
		case 1:
			if id, ok := s.Results[0].(*ast.Ident); ok {
				if st, isLocal := t.locals[id.Name]; isLocal {
					var fs []string
					for i := 0; i < st.NumFields(); i++ {
						fs = append(fs, fmt.Sprintf("%s := %s_%s", safe(st.Field(i).Name()), t.nm(id), st.Field(i).Name()))
					}
					return t.emitReturn("{ " + strings.Join(fs, ", ") + " }")
				}
			}
			return t.emitReturn(t.expr(s.Results[0]))
		default:
			var vs []string
			for _, r := range s.Results {
				vs = append(vs, t.expr(r))
			}
			return t.emitReturn(tuple(vs))
		}
	case *ast.ExprStmt:
		if t.isPanic(s) {
			if !t.wantOpt(s) {
				return "?"
			}
			return "none"
		}
		if dst, src, ok := t.copyStmt(s); ok {
			if dst == nil {
				return "?"
			}
			return t.emitCopy(s, dst, src) + cont()
		}
		if out, ok := t.mutCall(s, cont); ok {
			return out
		}
		if out, ok := t.outCall(s, cont); ok {
			return out
		}
		t.fail(s, "expression statement")
		return "?"
	case *ast.DeclStmt:
		gd := s.Decl.(*ast.GenDecl)
		if gd.Tok == token.TYPE {
			return cont() // a local type: registered where it is used
		}
		if gd.Tok != token.VAR {
			t.fail(s, "declaration")
			return "?"
		}
		out := ""
		for _, sp := range gd.Specs {
			vs := sp.(*ast.ValueSpec)
			for i, n := range vs.Names {
				obj := t.p.info.Defs[n]
				if pt, isPtr := obj.Type().(*types.Pointer); isPtr && len(vs.Values) == 0 && basicType(pt.Elem()).c != tBad && t.spec.round3 {
					t.alias[obj] = nil // `var q *byte`: nil until it is given a target; resolved statically (mut.go)
					continue
				}
				lt := t.ltypeOf(obj.Type())
				if lt.c == tStruct && !t.spec.round6 {
					st := t.structs[lt.sname]
					t.locals[n.Name] = st
					for k := 0; k < st.NumFields(); k++ {
						ft := t.ltypeOf(st.Field(k).Type())
						if ft.c == tStruct {
							t.fail(s, "local struct with a struct field")
							return "?"
						}
						out += fmt.Sprintf("let %s_%s : %s := %s\n", t.nm(n), st.Field(k).Name(), ft.lean(), zero(ft))
					}
					continue
				}
				if lt.c == tBad {
					t.fail(s, "variable type %s", obj.Type())
					return "?"
				}
				val := zeroOf(lt)
				if i < len(vs.Values) {
					val = t.expr(vs.Values[i])
				}
				out += fmt.Sprintf("let %s : %s := %s\n", t.nm(n), lt.lean(), val)
			}
		}
		return out + cont()
	case *ast.AssignStmt:
		if len(s.Lhs) != 1 || len(s.Rhs) != 1 {
			if s.Tok != token.ASSIGN && s.Tok != token.DEFINE {
				t.fail(s, "multi-assignment operator")
				return "?"
			}
			var names []string
			for _, l := range s.Lhs {
				names = append(names, t.lhsName(l))
			}
			var val string
			if len(s.Rhs) == 1 {
				ce, ok := s.Rhs[0].(*ast.CallExpr)
				if !ok {
					t.fail(s, "destructuring of a non-call")
					return "?"
				}
				val = t.call(ce)
			} else if len(s.Rhs) == len(s.Lhs) {
				var vs []string
				for _, r := range s.Rhs {
					vs = append(vs, t.expr(r))
				}
				val = tuple(vs)
			} else {
				t.fail(s, "assignment shape")
				return "?"
			}
			t.markAssigned(s.Lhs...)
			return fmt.Sprintf("let %s := %s\n", tuple(names), val) + cont()
		}
		if id, isId := s.Lhs[0].(*ast.Ident); isId {
			if _, isAlias := t.alias[t.p.info.Uses[id]]; isAlias && s.Tok == token.ASSIGN {
				// `q = &x.f`: from here on `*q` is the field x.f
				if ue, isAddr := s.Rhs[0].(*ast.UnaryExpr); isAddr && ue.Op == token.AND {
					if a, path, ok := t.mutField(ue.X); ok {
						t.alias[t.p.info.Uses[id]] = &aliasT{a: a, path: path, ty: a.views[viewName(a.name, path)].ty}
						return cont()
					}
				}
				t.fail(s, "a pointer may only be given the address of an assignable field of a parameter (`q = &x.f`)")
				return "?"
			}
		}
		if dst, src, ok := t.copyStmt(s); ok {
			if dst == nil {
				return "?"
			}
			return t.emitCopy(s, dst, src) + cont()
		}
		if isAlias, ok := t.pathAccessorDef(s); isAlias {
			if !ok {
				return "?"
			}
			return cont()
		}
		if fl, ok := s.Rhs[0].(*ast.FuncLit); ok {
			id, isId := s.Lhs[0].(*ast.Ident)
			if s.Tok != token.DEFINE || !isId {
				t.fail(s, "function literal outside `name := func..`")
				return "?"
			}
			t.localClosure(id, fl)
			return cont()
		}
		if line, ok := t.assignElem(s.Lhs[0], s.Tok, s.Rhs[0], s.TokPos); ok {
			t.markAssigned(s.Lhs[0])
			return line + cont()
		}
		name := t.lhsName(s.Lhs[0])
		var val string
		var lt ltype
		if s.Tok == token.ASSIGN || s.Tok == token.DEFINE {
			val = t.expr(s.Rhs[0])
			if s.Tok == token.DEFINE {
				lt = t.ltypeOf(t.p.info.Defs[s.Lhs[0].(*ast.Ident)].Type())
			} else {
				lt = t.typeOf(s.Lhs[0])
			}
		} else {
			op, ok := assignOps[s.Tok]
			if !ok {
				t.fail(s, "assignment operator")
				return "?"
			}
			lt = t.typeOf(s.Lhs[0])
			be := &ast.BinaryExpr{X: s.Lhs[0], Op: op, Y: s.Rhs[0], OpPos: s.TokPos}
			val = t.binary(be, lt)
		}
		if lt.c == tBad || lt.c == tTuple {
			t.fail(s, "assigned type")
			return "?"
		}
		t.markAssigned(s.Lhs[0])
		return fmt.Sprintf("let %s : %s := %s\n", name, lt.lean(), val) + cont()
	case *ast.IncDecStmt:
		if _, isIdx := s.X.(*ast.IndexExpr); isIdx {
			op := token.ADD_ASSIGN
			if s.Tok == token.DEC {
				op = token.SUB_ASSIGN
			}
			one := &ast.BasicLit{Kind: token.INT, Value: "1", ValuePos: s.TokPos}
			t.p.info.Types[one] = types.TypeAndValue{Type: t.p.info.Types[s.X].Type, Value: constant.MakeInt64(1)}
			if line, ok := t.assignElem(s.X, op, one, s.TokPos); ok {
				return line + cont()
			}
		}
		name := t.lhsName(s.X)
		lt := t.typeOf(s.X)
		if _, isId := s.X.(*ast.Ident); !isId {
			t.expr(s.X) // a field / dereference: the read checks that it is initialised
		}
		op := "+"
		if s.Tok == token.DEC {
			op = "-"
		}
		one := "1"
		if lt.c == tBV {
			one = fmt.Sprintf("1#%d", lt.width)
		}
		if lt.c == tInt && lt.width > 0 {
			return fmt.Sprintf("let %s : %s := %s\n", name, lt.lean(), wrap(lt, "("+name+" "+op+" "+one+")")) + cont()
		}
		return fmt.Sprintf("let %s : %s := %s %s %s\n", name, lt.lean(), name, op, one) + cont()
	case *ast.IfStmt:
		if s.Init != nil {
			// the names the init statement defines stay visible in the continuation on the Lean side;
			// harmless because a function never has two variables of one name (checkNames)
			inner := *s
			inner.Init = nil
			return t.stmts(append([]ast.Stmt{s.Init, &inner}, tail...), ret)
		}
		c := t.expr(s.Cond)
		entry := t.snapshot()
		thenS := t.stmts(s.Body.List, cont)
		t.restore(entry)
		var elseS string
		switch el := s.Else.(type) {
		case nil:
			elseS = cont()
		case *ast.BlockStmt:
			elseS = t.stmts(el.List, cont)
		case *ast.IfStmt:
			elseS = t.stmts([]ast.Stmt{el}, cont)
		}
		return fmt.Sprintf("if %s then\n%s\nelse\n%s", c, indent(thenS), indent(elseS))
	case *ast.SwitchStmt:
		if s.Init != nil {
			t.fail(s, "switch with init")
			return "?"
		}
		tag := ""
		if s.Tag != nil {
			tag = t.expr(s.Tag)
		}
		// nested ifs, default last
		var build func(i int) string
		clauses := s.Body.List
		// a `break` below would leave the switch, not the enclosing loop: marker on the loop stack (removed for the continuation)
		t.loops = append(t.loops, loopCtx{isSwitch: true})
		depth := len(t.loops)
		defer func() { t.loops = t.loops[:depth-1] }()
		after := cont
		cont = func() string {
			save := t.loops
			t.loops = t.loops[:depth-1]
			r := after()
			t.loops = save
			return r
		}
		if t.spec.round6 {
			// a `break` whose innermost breakable statement is this switch is the switch's continuation (iter.go)
			t.loops[depth-1].brk = cont
		}
		entry := t.snapshot()
		// the body of clause i; a trailing `fallthrough` appends the next clause's body (mut.go)
		var bodyOf func(i int) []ast.Stmt
		bodyOf = func(i int) []ast.Stmt {
			body := clauses[i].(*ast.CaseClause).Body
			for k, b := range body {
				if br, ok := b.(*ast.BranchStmt); ok {
					if t.spec.round3 && br.Tok == token.FALLTHROUGH && k == len(body)-1 && i+1 < len(clauses) {
						return append(append([]ast.Stmt{}, body[:k]...), bodyOf(i+1)...)
					}
					t.fail(br, "branch statement in switch")
				}
			}
			return body
		}
		build = func(i int) string {
			t.restore(entry)
			if i == len(clauses) {
				return cont()
			}
			cc := clauses[i].(*ast.CaseClause)
			ccBody := bodyOf(i)
			if cc.List == nil {
				if i != len(clauses)-1 {
					t.fail(cc, "default not last")
				}
				return t.stmts(ccBody, cont)
			}
			var cs []string
			g := t.guard(cc.List...)
			for _, ce := range cc.List {
				if s.Tag != nil {
					cs = append(cs, "("+tag+" == "+t.expr(ce)+")")
				} else {
					cs = append(cs, t.expr(ce))
				}
			}
			return g + fmt.Sprintf("if %s then\n%s\nelse\n%s", strings.Join(cs, " || "), indent(t.stmts(ccBody, cont)), indent(build(i+1)))
		}
		return build(0)
	case *ast.ForStmt:
		// first-round shapes keep their first-round translation (the bridges are written against it)
		if s.Init == nil && s.Post == nil && s.Cond == nil {
			if ownBreak(s.Body) || (t.spec.round6 && containsReturn(s.Body)) {
				return t.newLoop(s, cont) // `for { .. break .. }`: a general loop whose condition is `true` (eval.go)
			}
			return t.foreverLoop(s)
		}
		if !t.needsNew(s.Body) && !t.opt {
			if s.Init == nil && s.Post == nil {
				return t.whileLoop(s, cont)
			}
			if t.oldForShape(s) {
				return t.forLoop(s, cont)
			}
		}
		return t.newLoop(s, cont)
	case *ast.RangeStmt:
		return t.newLoop(s, cont)
	case *ast.BranchStmt:
		return t.branch(s)
	case *ast.BlockStmt:
		return t.stmts(append(append([]ast.Stmt{}, s.List...), tail...), ret)
	}
	t.fail(s, "statement %T", s)
	return "?"
}

func zero(lt ltype) string {
	switch lt.c {
	case tBV:
		return fmt.Sprintf("0#%d", lt.width)
	case tInt:
		return "(0 : Int)"
	case tNat:
		return "0"
	case tBool:
		return "false"
	case tOpaque:
		return "none"
	}
	return "?"
}

// assigned collects the Lean names assigned in a statement list (loop bodies: assignments only).
func (t *tr) assigned(ss []ast.Stmt, out map[string]ltype) {
	for _, s := range ss {
		switch s := s.(type) {
		case *ast.AssignStmt:
			if s.Tok == token.DEFINE {
				t.fail(s, "definition inside loop body")
				continue
			}
			if len(s.Lhs) != 1 {
				t.fail(s, "multi-assignment inside loop body")
				continue
			}
			out[t.lhsName(s.Lhs[0])] = t.typeOf(s.Lhs[0])
		case *ast.IncDecStmt:
			out[t.lhsName(s.X)] = t.typeOf(s.X)
		case *ast.IfStmt:
			if s.Init != nil {
				t.fail(s, "if with init inside loop")
			}
			t.assigned(s.Body.List, out)
			if b, ok := s.Else.(*ast.BlockStmt); ok {
				t.assigned(b.List, out)
			} else if s.Else != nil {
				t.fail(s, "else-if inside loop")
			}
		default:
			t.fail(s, "statement %T inside loop body", s)
		}
	}
}

type identCollector struct {
	t    *tr
	set  map[string]ltype
	from token.Pos // variables declared inside [from, to) are local to the loop body
	to   token.Pos
}

func (c identCollector) Visit(n ast.Node) ast.Visitor {
	switch n := n.(type) {
	case *ast.SelectorExpr:
		if id, ok := n.X.(*ast.Ident); ok {
			if c.t.absOf(id) != nil {
				c.t.fail(n, "abstract parameter inside a loop")
				return nil
			}
			if _, isLocal := c.t.locals[id.Name]; isLocal {
				c.set[c.t.nm(id)+"_"+n.Sel.Name] = c.t.typeOf(n)
				return nil
			}
			if obj, ok := c.t.p.info.Uses[id].(*types.Var); ok {
				c.set[c.t.nm(id)] = c.t.ltypeOf(obj.Type())
			}
			return nil
		}
	case *ast.Ident:
		if c.t.absOf(n) != nil {
			c.t.fail(n, "abstract parameter inside a loop")
			return nil
		}
		if obj, ok := c.t.p.info.Uses[n].(*types.Var); ok && !obj.IsField() && obj.Parent() != c.t.p.pkg.Scope() {
			if c.from != token.NoPos && obj.Pos() >= c.from && obj.Pos() < c.to {
				return c
			}
			c.set[c.t.nm(n)] = c.t.ltypeOf(obj.Type())
		}
	}
	return c
}

// forLoop: `for i := a; i < b; i++ { assignments }` becomes a helper counting fuel b-a down.
func (t *tr) forLoop(s *ast.ForStmt, cont func() string) string {
	init, ok := s.Init.(*ast.AssignStmt)
	cond, ok2 := s.Cond.(*ast.BinaryExpr)
	post, ok3 := s.Post.(*ast.IncDecStmt)
	if !ok || !ok2 || !ok3 || init.Tok != token.DEFINE || len(init.Lhs) != 1 || cond.Op != token.LSS || post.Tok != token.INC {
		t.fail(s, "loop shape")
		return "?"
	}
	iv := init.Lhs[0].(*ast.Ident)
	if ci, ok := cond.X.(*ast.Ident); !ok || ci.Name != iv.Name {
		t.fail(s, "loop condition")
		return "?"
	}
	if pi, ok := post.X.(*ast.Ident); !ok || pi.Name != iv.Name {
		t.fail(s, "loop post statement")
		return "?"
	}
	ity := t.ltypeOf(t.p.info.Defs[iv].Type())
	if ity.c != tNat {
		t.fail(s, "loop variable must be uint (got %s)", ity.lean())
		return "?"
	}
	state := map[string]ltype{}
	t.assigned(s.Body.List, state)
	if _, bad := state[t.nm(iv)]; bad {
		t.fail(s, "loop variable %s is modified in the body", iv.Name)
		return "?"
	}
	var svars []string
	for k := range state {
		svars = append(svars, k)
	}
	sort.Strings(svars)
	// free variables of bounds and body, minus state and loop variable
	free := map[string]ltype{}
	ast.Walk(identCollector{t: t, set: free}, s.Body)
	ast.Walk(identCollector{t: t, set: free}, cond.Y)
	ast.Walk(identCollector{t: t, set: free}, init.Rhs[0])
	delete(free, t.nm(iv))
	for _, v := range svars {
		delete(free, v)
	}
	boundFree := map[string]ltype{}
	ast.Walk(identCollector{t: t, set: boundFree}, cond.Y)
	ast.Walk(identCollector{t: t, set: boundFree}, init.Rhs[0])
	for v := range boundFree {
		if _, bad := state[v]; bad {
			t.fail(s, "loop bound %s is modified in the body", v)
		}
	}
	var fvars []string
	for k := range free {
		fvars = append(fvars, k)
	}
	sort.Strings(fvars)
	name := fmt.Sprintf("%s_loop%d", t.spec.lean, t.nloop)
	t.nloop++
	a, b := t.expr(init.Rhs[0]), t.expr(cond.Y)
	var params, args []string
	for _, v := range fvars {
		params = append(params, fmt.Sprintf("(%s : %s)", v, free[v].lean()))
		args = append(args, v)
	}
	var stTypes, stNames []string
	for _, v := range svars {
		stTypes = append(stTypes, state[v].lean())
		stNames = append(stNames, v)
	}
	stType := strings.Join(stTypes, " × ")
	body := t.stmts(s.Body.List, func() string { return tuple(stNames) })
	h := fmt.Sprintf("def %s %s (hi : Nat) : Nat → %s → %s\n  | 0, st => st\n  | fuel+1, st =>\n    let %s := st\n    let %s : Nat := hi - (fuel+1)\n    let st' : %s :=\n%s\n    %s %s hi fuel st'\n",
		name, strings.Join(params, " "), stType, stType, tuple(stNames), t.nm(iv), stType, indent(indent(indent(body))), name, strings.Join(args, " "))
	t.helpers = append(t.helpers, h)
	return fmt.Sprintf("let %s := %s %s (%s) ((%s) - (%s)) %s\n", tuple(stNames), name, strings.Join(args, " "), b, b, a, tuple(stNames)) + cont()
}

func (t *tr) loopFuel(s ast.Node) (string, string) {
	k := t.nloop
	t.nloop++
	name := fmt.Sprintf("%s_loop%d", t.spec.lean, k)
	if k >= len(t.spec.fuel) {
		t.fail(s, "no fuel given in the whitelist for loop %d", k)
		return name, "?"
	}
	return name, t.spec.fuel[k]
}

func sortedKeys(m map[string]ltype) []string {
	var ks []string
	for k := range m {
		ks = append(ks, k)
	}
	sort.Strings(ks)
	return ks
}

// whileLoop: `for cond { assignments }` becomes a fuelled helper; the fuel comes from the whitelist entry.
// `<helper>_more` = the condition on a state, so that "the fuel sufficed" can be stated and proved.
func (t *tr) whileLoop(s *ast.ForStmt, cont func() string) string {
	name, fuel := t.loopFuel(s)
	state := map[string]ltype{}
	t.assigned(s.Body.List, state)
	svars := sortedKeys(state)
	if len(svars) == 0 {
		t.fail(s, "loop without state")
		return "?"
	}
	free := map[string]ltype{}
	ast.Walk(identCollector{t: t, set: free}, s.Body)
	ast.Walk(identCollector{t: t, set: free}, s.Cond)
	for _, v := range svars {
		delete(free, v)
	}
	var params, args, stTypes []string
	for _, v := range sortedKeys(free) {
		params = append(params, fmt.Sprintf("(%s : %s)", v, free[v].lean()))
		args = append(args, v)
	}
	for _, v := range svars {
		stTypes = append(stTypes, state[v].lean())
	}
	stType := strings.Join(stTypes, " × ")
	if len(svars) > 1 {
		stType = "(" + stType + ")"
	}
	c := t.expr(s.Cond)
	body := t.stmts(s.Body.List, func() string { return tuple(svars) })
	ps, as := strings.Join(params, " "), strings.Join(args, " ")
	if ps != "" {
		ps += " "
		as += " "
	}
	h := fmt.Sprintf("def %s %s: Nat → %s → %s\n  | 0, st => st\n  | fuel+1, st =>\n    let %s := st\n    if %s then\n      let st' : %s :=\n%s\n      %s %sfuel st'\n    else st\n\n/-- the loop condition of `%s` on a state (true after the loop = the fuel did not suffice) -/\ndef %s_more %s(st : %s) : Bool :=\n  let %s := st\n  %s\n",
		name, ps, stType, stType, tuple(svars), c, stType, indent(indent(indent(indent(body)))), name, as,
		name, name, ps, stType, tuple(svars), c)
	t.helpers = append(t.helpers, h)
	return fmt.Sprintf("let %s := %s %s(%s) %s\n", tuple(svars), name, as, fuel, tuple(svars)) + cont()
}

// foreverLoop: `for { ...; return e; ... }` - the function ends inside the loop; result Option, none = out of fuel.
func (t *tr) foreverLoop(s *ast.ForStmt) string {
	name, fuel := t.loopFuel(s)
	if !t.opt {
		t.fail(s, "unbounded loop in a function not marked as partial")
		return "?"
	}
	// state = variables assigned in the body that are declared outside it
	state := map[string]ltype{}
	ast.Inspect(s.Body, func(n ast.Node) bool {
		var targets []ast.Expr
		switch n := n.(type) {
		case *ast.AssignStmt:
			if n.Tok != token.DEFINE {
				targets = n.Lhs
			}
		case *ast.IncDecStmt:
			targets = []ast.Expr{n.X}
		case *ast.ForStmt:
			t.fail(n, "nested loop inside an unbounded loop")
		}
		for _, l := range targets {
			root, _ := selPath(l)
			if root == nil || root.Name == "_" {
				continue
			}
			obj := t.p.info.Uses[root]
			if obj != nil && obj.Pos() >= s.Body.Pos() && obj.Pos() < s.Body.End() {
				continue
			}
			state[t.lhsName(l)] = t.typeOf(l)
		}
		return true
	})
	svars := sortedKeys(state)
	if len(svars) == 0 {
		t.fail(s, "unbounded loop without state")
		return "?"
	}
	free := map[string]ltype{}
	ast.Walk(identCollector{t: t, set: free, from: s.Body.Pos(), to: s.Body.End()}, s.Body)
	for _, v := range svars {
		delete(free, v)
	}
	var params, args, stTypes []string
	for _, v := range sortedKeys(free) {
		params = append(params, fmt.Sprintf("(%s : %s)", v, free[v].lean()))
		args = append(args, v)
	}
	for _, v := range svars {
		stTypes = append(stTypes, state[v].lean())
	}
	stType := strings.Join(stTypes, " × ")
	if len(svars) > 1 {
		stType = "(" + stType + ")"
	}
	ps, as := strings.Join(params, " "), strings.Join(args, " ")
	if ps != "" {
		ps += " "
		as += " "
	}
	body := t.stmts(s.Body.List, func() string { return fmt.Sprintf("%s %sfuel %s", name, as, tuple(svars)) })
	h := fmt.Sprintf("def %s %s: Nat → %s → Option RESULT\n  | 0, _ => none\n  | fuel+1, st =>\n    let %s := st\n%s\n",
		name, ps, stType, tuple(svars), indent(indent(body)))
	t.helpers = append(t.helpers, h)
	return fmt.Sprintf("%s %s(%s) %s", name, as, fuel, tuple(svars))
}

// localClosure translates `name := func(..) .. { .. }` inside a plain function into a helper definition whose leading
// parameters are the captured variables.  Go captures by reference: only variables that are never reassigned anywhere
// in the enclosing function may be captured (then by-reference and by-value coincide).
func (t *tr) localClosure(id *ast.Ident, fl *ast.FuncLit) {
	h, ci := t.localClosure1(id, fl, false)
	if t.err != nil && t.closureNeedsOpt {
		// the closure reads an index / runs a general loop: Option-valued (eval.go), as for whole functions
		t.err, t.closureNeedsOpt = nil, false
		h, ci = t.localClosure1(id, fl, true)
	}
	if t.err != nil {
		return
	}
	t.helpers = append(t.helpers, h)
	t.closures[t.p.info.Defs[id]] = ci
}

func (t *tr) localClosure1(id *ast.Ident, fl *ast.FuncLit, forceOpt bool) (string, closureInfo) {
	if t.fnBody == nil {
		t.fail(fl, "function literal here")
		return "", closureInfo{}
	}
	// the closure shares the abstract parameters of the enclosing function: a view it reads becomes a leading
	// parameter of the helper (views of parameters the function assigns through are refused below)
	ct := &tr{g: t.g, p: t.p, spec: t.spec, group: t.group, structs: t.structs, locals: map[string]*types.Struct{},
		abs: t.abs, closures: t.closures, fnBody: nil, absAlias: t.absAlias,
		hoisted: map[*ast.CallExpr]string{}, loopDone: map[ast.Stmt]string{}, globals: map[string]ltype{}, names: t.names, ndup: t.ndup, mutInit: t.mutInit, alias: map[types.Object]*aliasT{}}
	ct.spec.lean = t.spec.lean + "_" + id.Name
	ct.spec.outParam = ""
	panics, forever := ct.scanShape(fl.Body)
	ct.opt = panics || forever || forceOpt
	// captured variables
	captured := map[string]ltype{}
	capObj := map[types.Object]bool{}
	ast.Inspect(fl.Body, func(n ast.Node) bool {
		x, ok := n.(*ast.Ident)
		if !ok {
			return true
		}
		obj, ok := t.p.info.Uses[x].(*types.Var)
		if !ok || obj.IsField() || obj.Parent() == t.p.pkg.Scope() {
			return true
		}
		if obj.Pos() >= fl.Pos() && obj.Pos() < fl.End() {
			return true
		}
		if t.abs[obj] != nil || t.absAlias[obj] != nil {
			return true // read through its views (recorded while the body is translated)
		}
		if _, isLocal := t.locals[x.Name]; isLocal {
			t.fail(x, "closure reads the local struct %s", x.Name)
			return true
		}
		if _, isClosure := t.closures[obj]; isClosure {
			return true
		}
		lt := t.ltypeOf(obj.Type())
		if lt.c == tBad || lt.c == tTuple {
			t.fail(x, "captured variable %s of type %s", x.Name, obj.Type())
			return true
		}
		captured[t.nm(x)] = lt
		capObj[obj] = true
		return true
	})
	ast.Inspect(t.fnBody, func(n ast.Node) bool {
		var targets []ast.Expr
		switch n := n.(type) {
		case *ast.AssignStmt:
			if n.Tok != token.DEFINE {
				targets = n.Lhs
			}
		case *ast.IncDecStmt:
			targets = []ast.Expr{n.X}
		}
		for _, l := range targets {
			if root, _ := selPath(stripIndex(l)); root != nil && capObj[t.p.info.Uses[root]] {
				t.fail(l, "variable %s is captured by a closure and reassigned", root.Name)
			}
		}
		return true
	})
	if t.err != nil {
		return "", closureInfo{}
	}
	ps, rt, pre := ct.signature(nil, fl.Type)
	seen := map[string]types.Object{}
	if ct.err == nil {
		ct.checkNames(fl, seen)
	}
	if ct.err == nil {
		csig, _ := t.p.info.Types[fl].Type.(*types.Signature)
		ct.checkAliasingBody(fl.Body, csig, fl.Type)
	}
	for name := range seen {
		if _, clash := captured[safe(name)]; clash {
			ct.fail(fl, "closure variable %s has the name of a captured variable", name)
		}
	}
	body := ""
	frame := map[string]useInfo{}
	ct.uses = append(ct.uses, frame)
	if ct.err == nil {
		body = pre + ct.stmts(fl.Body.List, func() string {
			ct.fail(fl, "control reaches the end of the closure without return")
			return "?"
		})
	}
	for _, sp := range ps {
		if sp.abstract {
			ct.fail(fl, "abstract closure parameter")
		}
	}
	if ct.err != nil {
		t.err = ct.err
		if ct.needOpt && !ct.opt {
			t.closureNeedsOpt = true
		}
		return "", closureInfo{}
	}
	// the views of abstract parameters the body reads
	for _, k := range sortedUseKeys(frame) {
		tracked, known := t.isTrackedName(k)
		if !known {
			continue
		}
		if tracked {
			t.fail(fl, "closure reads %s, a field of a parameter the function assigns through", k)
			return "", closureInfo{}
		}
		captured[k] = frame[k].ty
	}
	for _, n := range ct.sorder {
		t.sorder = append(t.sorder, n)
	}
	var capParams, capArgs []string
	var capTys []ltype
	for _, k := range sortedKeys(captured) {
		capParams = append(capParams, fmt.Sprintf("(%s : %s)", k, captured[k].lean()))
		capArgs = append(capArgs, k)
		capTys = append(capTys, captured[k])
	}
	own, _ := ct.paramList(ps)
	lean := t.spec.lean + "_" + id.Name
	resT := rt.lean()
	h := ""
	for _, hh := range ct.helpers {
		h += hh + "\n"
	}
	sig := strings.TrimSpace(strings.Join(capParams, " ") + " " + own)
	full := resT
	if ct.opt {
		full = "Option (" + resT + ")"
	}
	h += fmt.Sprintf("def %s %s : %s :=\n%s\n", lean, sig, full, indent(body))
	// early returns inside the closure's loops return the closure's result, not the enclosing function's
	h = strings.ReplaceAll(h, "Option RESULT", "Option ("+resT+")")
	h = strings.ReplaceAll(h, "(RESULT)", "("+resT+")")
	return h, closureInfo{lean: lean, outer: capArgs, outerTy: capTys, opt: ct.opt}
}

func findFunc(p *pkgInfo, spec fnSpec) *ast.FuncDecl {
	f := p.files[spec.file]
	if f == nil {
		return nil
	}
	for _, d := range f.Decls {
		fd, ok := d.(*ast.FuncDecl)
		if !ok || fd.Name.Name != spec.name || fd.Body == nil {
			continue
		}
		if spec.recv == "" && fd.Recv == nil {
			return fd
		}
		if spec.recv != "" && fd.Recv != nil && len(fd.Recv.List) == 1 {
			rt := fd.Recv.List[0].Type
			if st, ok := rt.(*ast.StarExpr); ok {
				rt = st.X
			}
			if id, ok := rt.(*ast.Ident); ok && id.Name == spec.recv {
				return fd
			}
		}
	}
	return nil
}

// scanShape: does the body contain panic(..) or an unbounded `for {}` (-> Option result)?
func (t *tr) scanShape(body *ast.BlockStmt) (panics, forever bool) {
	ast.Inspect(body, func(n ast.Node) bool {
		switch n := n.(type) {
		case *ast.ExprStmt:
			if t.isPanic(n) {
				panics = true
			}
		case *ast.ForStmt:
			if n.Init == nil && n.Cond == nil && n.Post == nil {
				forever = true
			}
		}
		return true
	})
	return
}

// checkNames rejects two distinct variables of one name in a function (abstract parameters excepted: they never
// appear under their own name on the Lean side), and local names that could collide with generated ones.
func (t *tr) checkNames(root ast.Node, seen map[string]types.Object) {
	ast.Inspect(root, func(n ast.Node) bool {
		if _, ok := n.(*ast.FuncLit); ok && n != root {
			return false
		}
		id, ok := n.(*ast.Ident)
		if !ok || id.Name == "_" {
			return true
		}
		obj, ok := t.p.info.Defs[id]
		if !ok || obj == nil {
			return true
		}
		if v, isVar := obj.(*types.Var); !isVar || v.IsField() {
			return true
		}
		if t.abs[obj] != nil {
			return true
		}
		if old, dup := seen[id.Name]; dup && old != obj {
			// a second variable of the same name gets a Lean name of its own (every Go variable = one Lean name, so the
			// continuation-passing translation cannot let one capture the other); flattened local structs are keyed by
			// their Go name and stay unique
			_, st := namedStruct(obj.Type())
			if _, isPtr := obj.Type().(*types.Pointer); st != nil && !isPtr && !t.spec.round6 {
				t.fail(id, "two variables named %s, one of them a struct value", id.Name)
			}
			if _, done := t.names[obj]; !done {
				t.ndup[id.Name]++
				t.names[obj] = fmt.Sprintf("%s_%d", id.Name, t.ndup[id.Name])
			}
			return true
		}
		seen[id.Name] = obj
		if strings.Contains(id.Name, "_") {
			t.fail(id, "variable name %s contains an underscore (reserved for generated names)", id.Name)
		}
		return true
	})
}

// signature translates parameters and results of a function type; abstract parameters are registered in t.abs.
type sigParam struct {
	obj      types.Object
	name     string
	ty       ltype
	abstract bool
	skip     bool
}

func (t *tr) signature(recv *ast.FieldList, ft *ast.FuncType) (ps []sigParam, rt ltype, pre string) {
	add := func(n *ast.Ident) {
		obj := t.p.info.Defs[n]
		if obj == nil {
			t.fail(n, "parameter without object")
			return
		}
		lt := t.ltypeOf(obj.Type())
		if lt.c == tBad {
			if abstractable(obj.Type()) {
				t.abs[obj] = &absParam{name: n.Name, views: map[string]viewInfo{}}
				t.declareViews(t.abs[obj], obj.Type())
				ps = append(ps, sigParam{obj: obj, name: n.Name, abstract: true})
				return
			}
			t.fail(n, "parameter type %s", obj.Type())
		}
		ps = append(ps, sigParam{obj: obj, name: t.nm(n), ty: lt})
	}
	lists := []*ast.FieldList{}
	if recv != nil {
		lists = append(lists, recv)
	}
	lists = append(lists, ft.Params)
	for _, l := range lists {
		for _, fl := range l.List {
			if len(fl.Names) == 0 {
				ps = append(ps, sigParam{skip: true}) // unnamed: nothing can read it
			}
			for _, n := range fl.Names {
				if n.Name == "_" {
					ps = append(ps, sigParam{skip: true})
					continue
				}
				add(n)
			}
		}
	}
	if ft.Results == nil || len(ft.Results.List) == 0 {
		if lt, ok := t.globals[t.spec.writes]; ok && t.spec.writes != "" {
			t.named = []string{"g_" + t.spec.writes}
			return ps, lt, ""
		}
		// a function without results that assigns through a parameter returns the assigned fields (mut.go)
		if a := t.theMutParam(ps); a != nil {
			t.voidMut = a
			return ps, t.mutType(a), ""
		}
		if t.spec.outParam != "" {
			// a function that assigns the elements of a slice parameter returns its final value (eval.go)
			for _, sp := range ps {
				if !sp.abstract && !sp.skip && sp.obj != nil && sp.obj.Name() == t.spec.outParam && sp.ty.c == tArr && sp.ty.alen < 0 {
					t.outVar = sp.name
					t.named = []string{sp.name}
					return ps, sp.ty, ""
				}
			}
			t.fail(ft, "out-parameter %s: no slice parameter of that name", t.spec.outParam)
			return
		}
		t.fail(ft, "no result")
		return
	}
	var rts []ltype
	resList := ft.Results.List
	if n := len(resList); n > 0 && len(resList[n-1].Names) <= 1 && isErrorType(t.p.info.Types[resList[n-1].Type].Type) {
		if len(resList[n-1].Names) == 1 || n == 1 {
			t.fail(ft, "error result in this form (named, or the only result)")
			return
		}
		t.errRes = true
		resList = resList[:n-1]
	}
	for _, fl := range resList {
		rty := t.p.info.Types[fl.Type].Type
		lt := t.ltypeOf(rty)
		if _, isPtr := rty.(*types.Pointer); isPtr && len(fl.Names) == 0 && t.spec.slot != "" {
			// `*T` pointing into the declared slice view: the index (search.go)
			lt = t.slotResult(ps, rty)
		}
		if lt.c == tBad && len(fl.Names) == 0 {
			// `*T` of an abstract type: the function returns one of its parameters after assigning through it (mut.go)
			if a := t.mutParamOfType(ps, rty); a != nil && t.retMut == nil {
				t.retMut = a
				lt = t.mutType(a)
			}
		}
		if lt.c == tBad && t.spec.round6 {
			lt = t.opaqueOf(rty) // a pointer to an abstract type handed on from an oracle (iter.go)
		}
		if lt.c == tBad {
			t.fail(fl, "result type")
			return
		}
		n := len(fl.Names)
		if n == 0 {
			n = 1
		}
		for i := 0; i < n; i++ {
			rts = append(rts, lt)
		}
		for _, nm := range fl.Names {
			t.named = append(t.named, t.nm(nm))
			if t.spec.round6 {
				pre += fmt.Sprintf("let %s : %s := %s\n", t.nm(nm), lt.lean(), zeroOf(lt))
				continue
			}
			pre += fmt.Sprintf("let %s : %s := %s\n", t.nm(nm), lt.lean(), zero(lt))
		}
	}
	if len(t.named) != 0 && len(t.named) != len(rts) {
		t.fail(ft, "partly named results")
	}
	if t.slotMut != nil {
		rts = append(rts, t.mutType(t.slotMut)) // a slot function that also assigns through its receiver returns the fields too
	}
	if t.spec.round6 {
		t.r6().resTypes = append([]ltype{}, rts...)
		if a := t.theMutParam(ps); a != nil && t.slotMut == nil && t.retMut == nil && !t.errRes {
			t.r6().resMut = a
			rts = append(rts, t.mutType(a)) // results beside assigned fields (iter.go)
		}
	}
	if len(rts) == 1 {
		rt = rts[0]
	} else {
		rt = ltype{c: tTuple, elems: rts}
	}
	return
}

func (t *tr) paramList(ps []sigParam) (string, []paramInfo) {
	var out []string
	var infos []paramInfo
	for _, p := range ps {
		if p.skip {
			infos = append(infos, paramInfo{skip: true})
			continue
		}
		if !p.abstract {
			out = append(out, fmt.Sprintf("(%s : %s)", p.name, p.ty.lean()))
			infos = append(infos, paramInfo{})
			continue
		}
		a := t.abs[p.obj]
		var names []string
		for k := range a.views {
			names = append(names, k)
		}
		sort.Strings(names)
		pi := paramInfo{abstract: true}
		for _, k := range names {
			if a.input[k] {
				out = append(out, fmt.Sprintf("(%s : %s)", k, a.views[k].ty.lean()))
				pi.views = append(pi.views, a.views[k])
			}
			if a.mut[k] {
				pi.mutViews = append(pi.mutViews, a.views[k])
			}
		}
		infos = append(infos, pi)
	}
	return strings.Join(out, " "), infos
}

func resultType(rt ltype, opt bool) string {
	if opt {
		return "Option (" + rt.lean() + ")"
	}
	return rt.lean()
}

// function translates one plain whitelisted function.  A function that turns out to need an Option result (an index
// expression, a panicking callee ...) is translated a second time with `opt` set.
func (g *generator) function(p *pkgInfo, spec fnSpec, group int, fd *ast.FuncDecl) (string, *tr) {
	def, t := g.function1(p, spec, group, fd, false)
	if t.err != nil && t.needOpt && !t.opt {
		def, t = g.function1(p, spec, group, fd, true)
	}
	return def, t
}

func newTr(g *generator, p *pkgInfo, spec fnSpec, group int) *tr {
	return &tr{g: g, p: p, spec: spec, group: group, structs: map[string]*types.Struct{}, locals: map[string]*types.Struct{},
		abs: map[types.Object]*absParam{}, closures: map[types.Object]closureInfo{},
		hoisted: map[*ast.CallExpr]string{}, loopDone: map[ast.Stmt]string{}, globals: map[string]ltype{},
		names: map[types.Object]string{}, ndup: map[string]int{}, mutInit: map[string]bool{}, alias: map[types.Object]*aliasT{}, absAlias: map[types.Object]*absAliasT{}}
}

func (g *generator) function1(p *pkgInfo, spec fnSpec, group int, fd *ast.FuncDecl, forceOpt bool) (string, *tr) {
	t := newTr(g, p, spec, group)
	t.fnBody = fd.Body
	panics, forever := t.scanShape(fd.Body)
	if panics && forever && !forceOpt {
		t.fail(fd, "panic and unbounded loop in one function")
	}
	t.opt = panics || forever || forceOpt
	t.declareGlobals()
	ps, rt, pre := t.signature(fd.Recv, fd.Type)
	seen := map[string]types.Object{}
	if t.err == nil {
		t.checkNames(fd, seen)
	}
	if t.err == nil {
		t.checkAliasing(fd)
	}
	if t.err == nil {
		t.checkOutParam(fd)
	}
	body := ""
	if t.err == nil {
		body = pre + t.stmts(fd.Body.List, func() string {
			if t.spec.writes != "" && fd.Type.Results == nil {
				return t.retVal(tuple(t.named))
			}
			if t.voidMut != nil {
				return t.retVal(t.mutValue(fd, t.voidMut))
			}
			if t.outVar != "" && fd.Type.Results == nil {
				return t.retVal(t.outVar)
			}
			t.fail(fd, "control reaches the end of the function without return")
			return "?"
		})
	}
	if t.err != nil {
		return "", t
	}
	params, infos := t.paramList(ps)
	mutIdx := -1
	if t.voidMut != nil {
		for i, sp := range ps {
			if sp.abstract && t.abs[sp.obj] == t.voidMut {
				mutIdx = i
			}
		}
	}
	var gparams []string
	for _, n := range t.globalNames() {
		gparams = append(gparams, fmt.Sprintf("(g_%s : %s)", n, t.globals[n].lean()))
	}
	if len(gparams) > 0 {
		params = strings.TrimSpace(strings.Join(gparams, " ") + " " + params)
	}
	variadic := false
	if sig, ok := p.info.Defs[fd.Name].Type().(*types.Signature); ok {
		variadic = sig.Variadic()
	}
	outIdx := -1
	if t.outVar != "" {
		for i, sp := range ps {
			if !sp.abstract && !sp.skip && sp.obj != nil && sp.obj.Name() == spec.outParam {
				outIdx = i
			}
		}
	}
	g.done[specKey(spec)] = &fnInfo{spec: spec, group: group, opt: t.opt, params: infos, globals: t.globalNames(), variadic: variadic, mutParam: mutIdx, outParam: outIdx}
	pos := p.fset.Position(fd.Pos())
	def := fmt.Sprintf("/-- %s/%s:%d `%s` -/\n", spec.dir, spec.file, pos.Line, spec.name)
	resT := rt.lean()
	if t.errRes {
		// `(T, error)`: `.error ()` = a non-nil error was returned (its text is not modelled), `.ok v` = `v, nil`
		resT = "Except Unit (" + resT + ")"
	}
	tps := t.typeParams()
	for _, h := range t.helpers {
		h = strings.ReplaceAll(h, "Option RESULT", "Option ("+resT+")")
		h = strings.ReplaceAll(h, "(RESULT)", "("+resT+")")
		if tps != "" && strings.HasPrefix(h, "def ") {
			if k := strings.Index(h[4:], " "); k > 0 {
				h = h[:4+k+1] + tps + h[4+k+1:]
			}
		}
		def += h + "\n"
	}
	params = tps + params
	body = strings.ReplaceAll(body, "(RESULT)", "("+resT+")")
	if t.opt {
		resT = "Option (" + resT + ")"
	}
	def += fmt.Sprintf("def %s %s : %s :=\n%s\n", spec.lean, params, resT, indent(body))
	return def, t
}

// closureTable translates `func f(outer..) []T { a := func(..)..{..}; ...; return []T{a, b, ...} }`.
func (g *generator) closureTable(p *pkgInfo, spec fnSpec, group int, fd *ast.FuncDecl) (string, *tr) {
	t := newTr(g, p, spec, group)
	var outerPs []sigParam
	for _, fl := range fd.Type.Params.List {
		for _, n := range fl.Names {
			obj := p.info.Defs[n]
			lt := t.ltypeOf(obj.Type())
			if lt.c == tBad || lt.c == tStruct {
				t.fail(n, "closure table parameter type %s", obj.Type())
			}
			outerPs = append(outerPs, sigParam{obj: obj, name: t.nm(n), ty: lt})
		}
	}
	if fd.Recv != nil || len(fd.Body.List) < 2 {
		t.fail(fd, "closure table shape")
	}
	if t.err != nil {
		return "", t
	}
	outerParams, _ := t.paramList(outerPs)
	var outerArgs []string
	for _, op := range outerPs {
		outerArgs = append(outerArgs, op.name)
	}
	pos := p.fset.Position(fd.Pos())
	def := ""
	type clo struct {
		lean   string
		params []sigParam
		rt     ltype
	}
	clos := map[types.Object]clo{}
	n := len(fd.Body.List)
	for _, s := range fd.Body.List[:n-1] {
		as, ok := s.(*ast.AssignStmt)
		if !ok || as.Tok != token.DEFINE || len(as.Lhs) != 1 || len(as.Rhs) != 1 {
			t.fail(s, "closure table: expected `name := func..`")
			return "", t
		}
		fl, ok := as.Rhs[0].(*ast.FuncLit)
		id, ok2 := as.Lhs[0].(*ast.Ident)
		if !ok || !ok2 {
			t.fail(s, "closure table: expected `name := func..`")
			return "", t
		}
		ct := &tr{g: g, p: p, spec: spec, group: group, structs: t.structs, locals: map[string]*types.Struct{},
			abs: map[types.Object]*absParam{}, closures: t.closures,
			hoisted: map[*ast.CallExpr]string{}, loopDone: map[ast.Stmt]string{}, globals: map[string]ltype{}, names: t.names, ndup: t.ndup, mutInit: map[string]bool{}, alias: map[types.Object]*aliasT{}, absAlias: map[types.Object]*absAliasT{}}
		ct.spec.lean = spec.lean + "_" + id.Name
		panics, forever := ct.scanShape(fl.Body)
		if panics || forever {
			t.fail(fl, "closure with panic / unbounded loop")
			return "", t
		}
		ps, rt, pre := ct.signature(nil, fl.Type)
		seen := map[string]types.Object{}
		for _, op := range outerPs {
			seen[op.obj.Name()] = op.obj
		}
		if ct.err == nil {
			ct.checkNames(fl, seen)
		}
		body := ""
		if ct.err == nil {
			body = pre + ct.stmts(fl.Body.List, func() string {
				ct.fail(fl, "control reaches the end of the closure without return")
				return "?"
			})
		}
		if ct.err != nil {
			t.err = ct.err
			return "", t
		}
		for _, sp := range ps {
			if sp.abstract {
				t.fail(fl, "abstract closure parameter")
				return "", t
			}
		}
		t.sorder = append(t.sorder, ct.sorder...)
		own, _ := ct.paramList(ps)
		lean := spec.lean + "_" + id.Name
		cpos := p.fset.Position(fl.Pos())
		def += fmt.Sprintf("/-- %s/%s:%d closure `%s` of `%s` -/\n", spec.dir, spec.file, cpos.Line, id.Name, spec.name)
		for _, h := range ct.helpers {
			def += h + "\n"
		}
		def += fmt.Sprintf("def %s %s %s : %s :=\n%s\n\n", lean, outerParams, own, rt.lean(), indent(body))
		obj := p.info.Defs[id]
		t.closures[obj] = closureInfo{lean: lean, outer: outerArgs}
		clos[obj] = clo{lean: lean, params: ps, rt: rt}
	}
	rs, ok := fd.Body.List[n-1].(*ast.ReturnStmt)
	if !ok || len(rs.Results) != 1 {
		t.fail(fd, "closure table: last statement must return the slice literal")
		return "", t
	}
	cl, ok := rs.Results[0].(*ast.CompositeLit)
	if !ok || len(cl.Elts) == 0 {
		t.fail(rs, "closure table: expected a slice literal")
		return "", t
	}
	var first clo
	var arms []string
	for i, el := range cl.Elts {
		id, ok := el.(*ast.Ident)
		if !ok {
			t.fail(el, "closure table: element is not a name")
			return "", t
		}
		c, ok := clos[p.info.Uses[id]]
		if !ok {
			t.fail(el, "closure table: %s is not one of the closures", id.Name)
			return "", t
		}
		if i == 0 {
			first = c
		} else if len(c.params) != len(first.params) || c.rt.lean() != first.rt.lean() {
			t.fail(el, "closure table: signatures differ")
			return "", t
		}
		for j := range c.params {
			if c.params[j].ty.lean() != first.params[j].ty.lean() {
				t.fail(el, "closure table: signatures differ")
				return "", t
			}
		}
		var args []string
		args = append(args, outerArgs...)
		for _, fp := range first.params {
			args = append(args, fp.name)
		}
		arms = append(arms, fmt.Sprintf("  | %d => %s %s", i, c.lean, strings.Join(args, " ")))
	}
	own, _ := t.paramList(first.params)
	def += fmt.Sprintf("/-- %s/%s:%d `%s`: element `k` of the returned slice, applied -/\n", spec.dir, spec.file, pos.Line, spec.name)
	def += fmt.Sprintf("def %s %s (k : Fin %d) %s : %s :=\n  match k with\n%s\n", spec.lean, outerParams, len(cl.Elts), own, first.rt.lean(), strings.Join(arms, "\n"))
	g.done[specKey(spec)+"#table"] = &fnInfo{spec: spec, group: group, mutParam: -1, outParam: -1}
	return def, t
}

func groupFile(gr string) string { return "Funcs" + gr + ".lean" }

// genFuncs returns file name -> content for every group.
// A group with a failed function is not written at all (the caller keeps the last good file, so that properties that
// do not depend on the group still build); the error names the group.
func genFuncs(ld *loader) (map[string]string, []error) {
	var errs []error
	fail := func(gr string, err error) { errs = append(errs, fmt.Errorf("[%s] %v", groupFile(gr), err)) }
	g := &generator{ld: ld, done: map[string]*fnInfo{}, structs: map[string]bool{}}
	out := map[string]string{}
	gidx := map[string]int{}
	for i, gr := range groups {
		gidx[gr] = i
	}
	for gi, gr := range groups {
		var defs []string
		var structDefs []string
		for _, spec := range whitelist {
			if spec.group != gr {
				continue
			}
			if _, ok := gidx[spec.group]; !ok {
				fail(gr, fmt.Errorf("%s.%s: unknown group %q", spec.dir, spec.name, spec.group))
				continue
			}
			p, err := ld.load(spec.dir)
			if err != nil {
				fail(gr, fmt.Errorf("%s.%s: %v", spec.dir, spec.name, err))
				continue
			}
			fd := findFunc(p, spec)
			if fd == nil {
				fail(gr, fmt.Errorf("%s.%s: function not found in %s/%s", spec.dir, spec.name, spec.dir, spec.file))
				continue
			}
			var def string
			var t *tr
			if spec.round7 && spec.plainDo {
				def, t = g.doFunction(p, spec, gi, fd)
			} else if spec.round7 {
				def, t = g.zwFunction(p, spec, gi, fd)
			} else if spec.table {
				def, t = g.closureTable(p, spec, gi, fd)
			} else {
				def, t = g.function(p, spec, gi, fd)
			}
			if t.err != nil {
				fail(gr, t.err)
				continue
			}
			for _, n := range t.sorder {
				if g.structs[n] {
					continue
				}
				g.structs[n] = true
				st := t.structs[n]
				var b strings.Builder
				fmt.Fprintf(&b, "structure %s where\n", n)
				for i := 0; i < st.NumFields(); i++ {
					fmt.Fprintf(&b, "  %s : %s\n", safe(st.Field(i).Name()), t.ltypeOf(st.Field(i).Type()).lean())
				}
				b.WriteString("deriving Repr, DecidableEq, Inhabited\n\n")
				structDefs = append(structDefs, b.String())
			}
			defs = append(defs, def)
		}
		var b strings.Builder
		for i := 0; i < gi; i++ {
			if upto, ok := groupImportsUpTo[gr]; ok && i > gidx[upto] {
				// a late group that only needs the early files (search.go): a failure in between does not touch it
				extra := false
				for _, x := range groupImportsExtra[gr] {
					extra = extra || x == groups[i]
				}
				if !extra {
					continue
				}
			}
			fmt.Fprintf(&b, "import TakVerif.Generated.%s\n", strings.TrimSuffix(groupFile(groups[i]), ".lean"))
		}
		b.WriteString("-- GENERATED by /verif/gen from the Go sources of the repository on every check run. Do not edit.\n")
		b.WriteString("set_option linter.unusedVariables false\nnamespace Gen\n\n")
		if gi == 1 {
			b.WriteString(prelude)
		}
		if gr == "Search" {
			b.WriteString(prelude5)
		}
		if gr == "Zw" {
			b.WriteString(prelude7)
		}
		for _, s := range structDefs {
			b.WriteString(s)
		}
		for _, d := range defs {
			b.WriteString(d)
			b.WriteString("\n")
		}
		b.WriteString("end Gen\n")
		failed := false
		for _, e := range errs {
			if strings.HasPrefix(e.Error(), "["+groupFile(gr)+"]") {
				failed = true
			}
		}
		if !failed {
			out[groupFile(gr)] = b.String()
		}
	}
	return out, errs
}
