package main

import (
	"fmt"
	"go/ast"
	"go/constant"
	"go/token"
	"go/types"
	"sort"
	"strings"
)

// The whitelist: small pure functions whose whole meaning is integer / bit arithmetic.
// Supported subset: integer and bool parameters and locals, read-only pointer-to-struct
// parameters, one local struct value built field by field, if/else, tagless switch,
// return, `for i := a; i < b; i++` with loop-invariant bounds, the arithmetic, bit and
// comparison operators, conversions between integer types.
// Type mapping: uint64/uint32/uint8 (and named types over them) -> BitVec n (wrap-around
// is modelled); int/int64/time.Duration -> Int (no wrap: the theorems carry range
// hypotheses); uint -> Nat (no underflow: checked by the `fn` correspondence ops).
type fnSpec struct {
	dir, file string
	recv      string // receiver type name, "" for plain functions
	name      string
	lean      string
}

var whitelist = []fnSpec{
	{"bitboard", "bits.go", "", "Precompute", "precompute"},
	{"bitboard", "bits.go", "", "Grow", "grow"},
	{"tak", "hash.go", "", "hash8", "hash8"},
	{"tak", "hash.go", "", "hash64", "hash64"},
	{"tak", "slide.go", "Slides", "Empty", "slidesEmpty"},
	{"tak", "slide.go", "Slides", "Singleton", "slidesSingleton"},
	{"tak", "slide.go", "Slides", "First", "slidesFirst"},
	{"tak", "slide.go", "Slides", "Prepend", "slidesPrepend"},
	{"tak", "slide.go", "SlideIterator", "Next", "slideIterNext"},
	{"tak", "slide.go", "SlideIterator", "Ok", "slideIterOk"},
	{"tak", "slide.go", "SlideIterator", "Elem", "slideIterElem"},
	{"tei", "server.go", "", "calcBudget", "calcBudget"},
	{"prove", "pn.go", "", "saturatingAdd", "saturatingAdd"},
}

type tclass int

const (
	tBV tclass = iota
	tInt
	tNat
	tBool
	tStruct
	tBad
)

type ltype struct {
	c     tclass
	width int
	sname string
}

func (t ltype) lean() string {
	switch t.c {
	case tBV:
		return fmt.Sprintf("BitVec %d", t.width)
	case tInt:
		return "Int"
	case tNat:
		return "Nat"
	case tBool:
		return "Bool"
	case tStruct:
		return t.sname
	}
	return "?"
}

type tr struct {
	p       *pkgInfo
	spec    fnSpec
	structs map[string]*types.Struct // struct types to emit
	helpers []string
	nloop   int
	locals  map[string]*types.Struct // local struct variables (flattened)
	err     error
}

func (t *tr) fail(n ast.Node, format string, a ...interface{}) {
	if t.err == nil {
		pos := t.p.fset.Position(n.Pos())
		t.err = fmt.Errorf("%s.%s (%s:%d): outside the translatable subset: %s", t.spec.dir, t.spec.name, t.spec.file, pos.Line, fmt.Sprintf(format, a...))
	}
}

func (t *tr) ltypeOf(ty types.Type) ltype {
	if p, ok := ty.(*types.Pointer); ok {
		ty = p.Elem()
	}
	if n, ok := ty.(*types.Named); ok {
		if st, ok := n.Underlying().(*types.Struct); ok {
			t.structs[n.Obj().Name()] = st
			return ltype{c: tStruct, sname: n.Obj().Name()}
		}
	}
	b, ok := ty.Underlying().(*types.Basic)
	if !ok {
		return ltype{c: tBad}
	}
	switch b.Kind() {
	case types.Uint64:
		return ltype{c: tBV, width: 64}
	case types.Uint32:
		return ltype{c: tBV, width: 32}
	case types.Uint16:
		return ltype{c: tBV, width: 16}
	case types.Uint8:
		return ltype{c: tBV, width: 8}
	case types.Int, types.Int64, types.UntypedInt:
		return ltype{c: tInt}
	case types.Uint:
		return ltype{c: tNat}
	case types.Bool, types.UntypedBool:
		return ltype{c: tBool}
	}
	return ltype{c: tBad}
}

func lit(v constant.Value, ty ltype) string {
	v = constant.ToInt(v)
	s := v.ExactString()
	switch ty.c {
	case tBV:
		if strings.HasPrefix(s, "-") {
			return fmt.Sprintf("(BitVec.ofInt %d (%s))", ty.width, s)
		}
		return fmt.Sprintf("%s#%d", s, ty.width)
	case tInt:
		if strings.HasPrefix(s, "-") {
			return "(" + s + ")"
		}
		return "(" + s + " : Int)"
	case tNat:
		return s
	}
	return s
}

func safe(name string) string {
	switch name {
	case "next", "end", "at", "from", "in", "then", "do", "fun", "let", "have", "show", "open", "by", "with":
		return name + "_"
	}
	return name
}

func (t *tr) typeOf(e ast.Expr) ltype {
	tv, ok := t.p.info.Types[e]
	if !ok || tv.Type == nil {
		t.fail(e, "expression without type")
		return ltype{c: tBad}
	}
	lt := t.ltypeOf(tv.Type)
	if lt.c == tBad {
		t.fail(e, "unsupported type %s", tv.Type)
	}
	return lt
}

func (t *tr) expr(e ast.Expr) string {
	if t.err != nil {
		return "?"
	}
	tv := t.p.info.Types[e]
	if tv.Value != nil && tv.Value.Kind() != constant.Bool {
		return lit(tv.Value, t.typeOf(e))
	}
	switch e := e.(type) {
	case *ast.ParenExpr:
		return "(" + t.expr(e.X) + ")"
	case *ast.Ident:
		if e.Name == "true" || e.Name == "false" {
			return e.Name
		}
		return safe(e.Name)
	case *ast.SelectorExpr:
		if id, ok := e.X.(*ast.Ident); ok {
			if _, isLocal := t.locals[id.Name]; isLocal {
				return safe(id.Name) + "_" + e.Sel.Name
			}
			return safe(id.Name) + "." + e.Sel.Name
		}
		t.fail(e, "selector")
	case *ast.UnaryExpr:
		x := t.expr(e.X)
		ty := t.typeOf(e.X)
		switch e.Op {
		case token.SUB:
			return "(-" + x + ")"
		case token.XOR:
			if ty.c == tBV {
				return "(~~~" + x + ")"
			}
		case token.NOT:
			return "(!" + x + ")"
		}
		t.fail(e, "unary %s", e.Op)
	case *ast.BinaryExpr:
		return t.binary(e)
	case *ast.CallExpr:
		// conversion?
		if ftv, ok := t.p.info.Types[e.Fun]; ok && ftv.IsType() && len(e.Args) == 1 {
			return t.convert(e.Args[0], t.ltypeOf(ftv.Type), e)
		}
		t.fail(e, "call")
	default:
		t.fail(e, "expression %T", e)
	}
	return "?"
}

func (t *tr) convert(arg ast.Expr, to ltype, at ast.Node) string {
	from := t.typeOf(arg)
	x := t.expr(arg)
	switch {
	case from.c == tBV && to.c == tBV:
		if from.width == to.width {
			return x
		}
		return fmt.Sprintf("(%s.setWidth %d)", x, to.width)
	case from.c == tBV && to.c == tInt:
		return fmt.Sprintf("(Int.ofNat %s.toNat)", x)
	case from.c == tBV && to.c == tNat:
		return fmt.Sprintf("%s.toNat", x)
	case from.c == tInt && to.c == tBV:
		return fmt.Sprintf("(BitVec.ofInt %d %s)", to.width, x)
	case from.c == tNat && to.c == tBV:
		return fmt.Sprintf("(BitVec.ofNat %d %s)", to.width, x)
	case from.c == tInt && to.c == tInt, from.c == tNat && to.c == tNat:
		return x
	case from.c == tNat && to.c == tInt:
		return fmt.Sprintf("(Int.ofNat %s)", x)
	case from.c == tInt && to.c == tNat:
		return fmt.Sprintf("%s.toNat", x)
	}
	t.fail(at, "conversion %s -> %s", from.lean(), to.lean())
	return "?"
}

func (t *tr) shiftAmount(e ast.Expr) string {
	if tv := t.p.info.Types[e]; tv.Value != nil {
		return constant.ToInt(tv.Value).ExactString()
	}
	ty := t.typeOf(e)
	x := t.expr(e)
	switch ty.c {
	case tNat:
		return "(" + x + ")"
	case tBV:
		return "(" + x + ").toNat"
	case tInt:
		return "(" + x + ").toNat"
	}
	t.fail(e, "shift amount type")
	return "?"
}

func (t *tr) binary(e *ast.BinaryExpr) string {
	lt := t.typeOf(e.X)
	l, r := t.expr(e.X), "?"
	if e.Op != token.SHL && e.Op != token.SHR {
		r = t.expr(e.Y)
	}
	switch e.Op {
	case token.LAND:
		return "(" + l + " && " + r + ")"
	case token.LOR:
		return "(" + l + " || " + r + ")"
	case token.EQL:
		return "(" + l + " == " + r + ")"
	case token.NEQ:
		return "(" + l + " != " + r + ")"
	case token.LSS:
		return "(decide (" + l + " < " + r + "))"
	case token.LEQ:
		return "(decide (" + l + " ≤ " + r + "))"
	case token.GTR:
		return "(decide (" + l + " > " + r + "))"
	case token.GEQ:
		return "(decide (" + l + " ≥ " + r + "))"
	case token.ADD:
		return "(" + l + " + " + r + ")"
	case token.SUB:
		return "(" + l + " - " + r + ")"
	case token.MUL:
		return "(" + l + " * " + r + ")"
	case token.QUO:
		if lt.c == tInt {
			return "(Int.tdiv " + l + " " + r + ")"
		}
		return "(" + l + " / " + r + ")"
	case token.REM:
		if lt.c == tInt {
			return "(Int.tmod " + l + " " + r + ")"
		}
		return "(" + l + " % " + r + ")"
	case token.AND:
		if lt.c == tBV {
			return "(" + l + " &&& " + r + ")"
		}
	case token.OR:
		if lt.c == tBV {
			return "(" + l + " ||| " + r + ")"
		}
	case token.XOR:
		if lt.c == tBV {
			return "(" + l + " ^^^ " + r + ")"
		}
	case token.AND_NOT:
		if lt.c == tBV {
			return "(" + l + " &&& ~~~" + r + ")"
		}
	case token.SHL:
		if lt.c == tBV {
			return "(" + l + " <<< " + t.shiftAmount(e.Y) + ")"
		}
	case token.SHR:
		if lt.c == tBV {
			return "(" + l + " >>> " + t.shiftAmount(e.Y) + ")"
		}
	}
	t.fail(e, "operator %s on %s", e.Op, lt.lean())
	return "?"
}

var assignOps = map[token.Token]token.Token{
	token.ADD_ASSIGN: token.ADD, token.SUB_ASSIGN: token.SUB, token.MUL_ASSIGN: token.MUL,
	token.QUO_ASSIGN: token.QUO, token.REM_ASSIGN: token.REM, token.AND_ASSIGN: token.AND,
	token.OR_ASSIGN: token.OR, token.XOR_ASSIGN: token.XOR, token.SHL_ASSIGN: token.SHL,
	token.SHR_ASSIGN: token.SHR, token.AND_NOT_ASSIGN: token.AND_NOT,
}

// lhsName gives the Lean variable an assignment target denotes.
func (t *tr) lhsName(e ast.Expr) string {
	switch e := e.(type) {
	case *ast.Ident:
		return safe(e.Name)
	case *ast.SelectorExpr:
		if id, ok := e.X.(*ast.Ident); ok {
			if _, isLocal := t.locals[id.Name]; isLocal {
				return safe(id.Name) + "_" + e.Sel.Name
			}
		}
	}
	t.fail(e, "assignment target")
	return "?"
}

func indent(s string) string { return "  " + strings.ReplaceAll(s, "\n", "\n  ") }

// stmts translates a statement list followed by `rest` (already-translated continuation thunk).
func (t *tr) stmts(ss []ast.Stmt, ret func() string) string {
	if t.err != nil {
		return "?"
	}
	if len(ss) == 0 {
		return ret()
	}
	s, tail := ss[0], ss[1:]
	cont := func() string { return t.stmts(tail, ret) }
	switch s := s.(type) {
	case *ast.ReturnStmt:
		if len(s.Results) != 1 {
			t.fail(s, "return with %d results", len(s.Results))
			return "?"
		}
		if id, ok := s.Results[0].(*ast.Ident); ok {
			if st, isLocal := t.locals[id.Name]; isLocal {
				var fs []string
				for i := 0; i < st.NumFields(); i++ {
					fs = append(fs, fmt.Sprintf("%s := %s_%s", st.Field(i).Name(), safe(id.Name), st.Field(i).Name()))
				}
				return "{ " + strings.Join(fs, ", ") + " }"
			}
		}
		return t.expr(s.Results[0])
	case *ast.DeclStmt:
		gd := s.Decl.(*ast.GenDecl)
		if gd.Tok != token.VAR {
			t.fail(s, "declaration")
			return "?"
		}
		out := ""
		for _, sp := range gd.Specs {
			vs := sp.(*ast.ValueSpec)
			for i, n := range vs.Names {
				obj := t.p.info.Defs[n]
				lt := t.ltypeOf(obj.Type())
				if lt.c == tStruct {
					st := t.structs[lt.sname]
					t.locals[n.Name] = st
					for k := 0; k < st.NumFields(); k++ {
						ft := t.ltypeOf(st.Field(k).Type())
						out += fmt.Sprintf("let %s_%s : %s := %s\n", safe(n.Name), st.Field(k).Name(), ft.lean(), zero(ft))
					}
					continue
				}
				if lt.c == tBad {
					t.fail(s, "variable type %s", obj.Type())
					return "?"
				}
				val := zero(lt)
				if i < len(vs.Values) {
					val = t.expr(vs.Values[i])
				}
				out += fmt.Sprintf("let %s : %s := %s\n", safe(n.Name), lt.lean(), val)
			}
		}
		return out + cont()
	case *ast.AssignStmt:
		if len(s.Lhs) != 1 || len(s.Rhs) != 1 {
			t.fail(s, "multi-assignment")
			return "?"
		}
		name := t.lhsName(s.Lhs[0])
		var val string
		var lt ltype
		if s.Tok == token.ASSIGN || s.Tok == token.DEFINE {
			val = t.expr(s.Rhs[0])
			if s.Tok == token.DEFINE {
				lt = t.ltypeOf(t.p.info.Defs[s.Lhs[0].(*ast.Ident)].Type())
			} else {
				lt = t.typeOf(s.Lhs[0])
			}
		} else {
			op, ok := assignOps[s.Tok]
			if !ok {
				t.fail(s, "assignment operator")
				return "?"
			}
			lt = t.typeOf(s.Lhs[0])
			be := &ast.BinaryExpr{X: s.Lhs[0], Op: op, Y: s.Rhs[0], OpPos: s.TokPos}
			val = t.binary(be)
		}
		return fmt.Sprintf("let %s : %s := %s\n", name, lt.lean(), val) + cont()
	case *ast.IncDecStmt:
		name := t.lhsName(s.X)
		lt := t.typeOf(s.X)
		op := "+"
		if s.Tok == token.DEC {
			op = "-"
		}
		one := "1"
		if lt.c == tBV {
			one = fmt.Sprintf("1#%d", lt.width)
		}
		return fmt.Sprintf("let %s : %s := %s %s %s\n", name, lt.lean(), name, op, one) + cont()
	case *ast.IfStmt:
		if s.Init != nil {
			t.fail(s, "if with init")
			return "?"
		}
		c := t.expr(s.Cond)
		thenS := t.stmts(s.Body.List, cont)
		var elseS string
		switch el := s.Else.(type) {
		case nil:
			elseS = cont()
		case *ast.BlockStmt:
			elseS = t.stmts(el.List, cont)
		case *ast.IfStmt:
			elseS = t.stmts([]ast.Stmt{el}, cont)
		}
		return fmt.Sprintf("if %s then\n%s\nelse\n%s", c, indent(thenS), indent(elseS))
	case *ast.SwitchStmt:
		if s.Init != nil || s.Tag != nil {
			t.fail(s, "switch with tag")
			return "?"
		}
		// nested ifs, default last
		var build func(i int) string
		clauses := s.Body.List
		build = func(i int) string {
			if i == len(clauses) {
				return cont()
			}
			cc := clauses[i].(*ast.CaseClause)
			for _, b := range cc.Body {
				if br, ok := b.(*ast.BranchStmt); ok {
					t.fail(br, "branch statement in switch")
				}
			}
			if cc.List == nil {
				if i != len(clauses)-1 {
					t.fail(cc, "default not last")
				}
				return t.stmts(cc.Body, cont)
			}
			var cs []string
			for _, ce := range cc.List {
				cs = append(cs, t.expr(ce))
			}
			return fmt.Sprintf("if %s then\n%s\nelse\n%s", strings.Join(cs, " || "), indent(t.stmts(cc.Body, cont)), indent(build(i+1)))
		}
		return build(0)
	case *ast.ForStmt:
		return t.forLoop(s, cont)
	case *ast.BlockStmt:
		return t.stmts(append(append([]ast.Stmt{}, s.List...), tail...), ret)
	}
	t.fail(s, "statement %T", s)
	return "?"
}

func zero(lt ltype) string {
	switch lt.c {
	case tBV:
		return fmt.Sprintf("0#%d", lt.width)
	case tInt:
		return "(0 : Int)"
	case tNat:
		return "0"
	case tBool:
		return "false"
	}
	return "?"
}

// assigned collects the Lean names assigned in a statement list (loop bodies: assignments only).
func (t *tr) assigned(ss []ast.Stmt, out map[string]ltype) {
	for _, s := range ss {
		switch s := s.(type) {
		case *ast.AssignStmt:
			if s.Tok == token.DEFINE {
				t.fail(s, "definition inside loop body")
				continue
			}
			out[t.lhsName(s.Lhs[0])] = t.typeOf(s.Lhs[0])
		case *ast.IncDecStmt:
			out[t.lhsName(s.X)] = t.typeOf(s.X)
		case *ast.IfStmt:
			t.assigned(s.Body.List, out)
			if b, ok := s.Else.(*ast.BlockStmt); ok {
				t.assigned(b.List, out)
			} else if s.Else != nil {
				t.fail(s, "else-if inside loop")
			}
		default:
			t.fail(s, "statement %T inside loop body", s)
		}
	}
}

type identCollector struct {
	t   *tr
	set map[string]ltype
}

func (c identCollector) Visit(n ast.Node) ast.Visitor {
	switch n := n.(type) {
	case *ast.SelectorExpr:
		if id, ok := n.X.(*ast.Ident); ok {
			if _, isLocal := c.t.locals[id.Name]; isLocal {
				c.set[safe(id.Name)+"_"+n.Sel.Name] = c.t.typeOf(n)
				return nil
			}
			if obj, ok := c.t.p.info.Uses[id].(*types.Var); ok {
				c.set[safe(id.Name)] = c.t.ltypeOf(obj.Type())
			}
			return nil
		}
	case *ast.Ident:
		if obj, ok := c.t.p.info.Uses[n].(*types.Var); ok && !obj.IsField() && obj.Parent() != c.t.p.pkg.Scope() {
			c.set[safe(n.Name)] = c.t.ltypeOf(obj.Type())
		}
	}
	return c
}

// forLoop: `for i := a; i < b; i++ { assignments }` becomes a helper counting fuel b-a down.
func (t *tr) forLoop(s *ast.ForStmt, cont func() string) string {
	init, ok := s.Init.(*ast.AssignStmt)
	cond, ok2 := s.Cond.(*ast.BinaryExpr)
	post, ok3 := s.Post.(*ast.IncDecStmt)
	if !ok || !ok2 || !ok3 || init.Tok != token.DEFINE || len(init.Lhs) != 1 || cond.Op != token.LSS || post.Tok != token.INC {
		t.fail(s, "loop shape")
		return "?"
	}
	iv := init.Lhs[0].(*ast.Ident)
	if ci, ok := cond.X.(*ast.Ident); !ok || ci.Name != iv.Name {
		t.fail(s, "loop condition")
		return "?"
	}
	if pi, ok := post.X.(*ast.Ident); !ok || pi.Name != iv.Name {
		t.fail(s, "loop post statement")
		return "?"
	}
	ity := t.ltypeOf(t.p.info.Defs[iv].Type())
	if ity.c != tNat {
		t.fail(s, "loop variable must be uint (got %s)", ity.lean())
		return "?"
	}
	state := map[string]ltype{}
	t.assigned(s.Body.List, state)
	var svars []string
	for k := range state {
		svars = append(svars, k)
	}
	sort.Strings(svars)
	// free variables of bounds and body, minus state and loop variable
	free := map[string]ltype{}
	ast.Walk(identCollector{t, free}, s.Body)
	ast.Walk(identCollector{t, free}, cond.Y)
	ast.Walk(identCollector{t, free}, init.Rhs[0])
	delete(free, safe(iv.Name))
	for _, v := range svars {
		delete(free, v)
	}
	boundFree := map[string]ltype{}
	ast.Walk(identCollector{t, boundFree}, cond.Y)
	ast.Walk(identCollector{t, boundFree}, init.Rhs[0])
	for v := range boundFree {
		if _, bad := state[v]; bad {
			t.fail(s, "loop bound %s is modified in the body", v)
		}
	}
	var fvars []string
	for k := range free {
		fvars = append(fvars, k)
	}
	sort.Strings(fvars)
	name := fmt.Sprintf("%s_loop%d", t.spec.lean, t.nloop)
	t.nloop++
	a, b := t.expr(init.Rhs[0]), t.expr(cond.Y)
	var params, args []string
	for _, v := range fvars {
		params = append(params, fmt.Sprintf("(%s : %s)", v, free[v].lean()))
		args = append(args, v)
	}
	var stTypes, stNames []string
	for _, v := range svars {
		stTypes = append(stTypes, state[v].lean())
		stNames = append(stNames, v)
	}
	tuple := func(xs []string) string {
		if len(xs) == 1 {
			return xs[0]
		}
		return "(" + strings.Join(xs, ", ") + ")"
	}
	stType := strings.Join(stTypes, " × ")
	body := t.stmts(s.Body.List, func() string { return tuple(stNames) })
	h := fmt.Sprintf("def %s %s (hi : Nat) : Nat → %s → %s\n  | 0, st => st\n  | fuel+1, st =>\n    let %s := st\n    let %s : Nat := hi - (fuel+1)\n    let st' : %s :=\n%s\n    %s %s hi fuel st'\n",
		name, strings.Join(params, " "), stType, stType, tuple(stNames), safe(iv.Name), stType, indent(indent(indent(body))), name, strings.Join(args, " "))
	t.helpers = append(t.helpers, h)
	return fmt.Sprintf("let %s := %s %s (%s) ((%s) - (%s)) %s\n", tuple(stNames), name, strings.Join(args, " "), b, b, a, tuple(stNames)) + cont()
}

func findFunc(p *pkgInfo, spec fnSpec) *ast.FuncDecl {
	f := p.files[spec.file]
	if f == nil {
		return nil
	}
	for _, d := range f.Decls {
		fd, ok := d.(*ast.FuncDecl)
		if !ok || fd.Name.Name != spec.name || fd.Body == nil {
			continue
		}
		if spec.recv == "" && fd.Recv == nil {
			return fd
		}
		if spec.recv != "" && fd.Recv != nil && len(fd.Recv.List) == 1 {
			rt := fd.Recv.List[0].Type
			if st, ok := rt.(*ast.StarExpr); ok {
				rt = st.X
			}
			if id, ok := rt.(*ast.Ident); ok && id.Name == spec.recv {
				return fd
			}
		}
	}
	return nil
}

func genFuncs(ld *loader) (string, []error) {
	var errs []error
	var defs []string
	structs := map[string]*types.Struct{}
	structSrc := map[string]*pkgInfo{}
	var order []string
	for _, spec := range whitelist {
		p, err := ld.load(spec.dir)
		if err != nil {
			errs = append(errs, fmt.Errorf("%s.%s: %v", spec.dir, spec.name, err))
			continue
		}
		fd := findFunc(p, spec)
		if fd == nil {
			errs = append(errs, fmt.Errorf("%s.%s: function not found in %s/%s", spec.dir, spec.name, spec.dir, spec.file))
			continue
		}
		t := &tr{p: p, spec: spec, structs: map[string]*types.Struct{}, locals: map[string]*types.Struct{}}
		var params []string
		addParam := func(n *ast.Ident) {
			obj := p.info.Defs[n]
			lt := t.ltypeOf(obj.Type())
			if lt.c == tBad {
				t.fail(n, "parameter type %s", obj.Type())
			}
			params = append(params, fmt.Sprintf("(%s : %s)", safe(n.Name), lt.lean()))
		}
		if fd.Recv != nil {
			for _, n := range fd.Recv.List[0].Names {
				addParam(n)
			}
		}
		for _, fl := range fd.Type.Params.List {
			for _, n := range fl.Names {
				addParam(n)
			}
		}
		if fd.Type.Results == nil || len(fd.Type.Results.List) != 1 || len(fd.Type.Results.List[0].Names) > 1 {
			t.fail(fd, "result list")
		}
		var rt ltype
		if t.err == nil {
			rt = t.ltypeOf(p.info.Types[fd.Type.Results.List[0].Type].Type)
			if rt.c == tBad {
				t.fail(fd, "result type")
			}
		}
		body := ""
		if t.err == nil {
			body = t.stmts(fd.Body.List, func() string {
				t.fail(fd, "control reaches the end of the function without return")
				return "?"
			})
		}
		if t.err != nil {
			errs = append(errs, t.err)
			continue
		}
		for n, st := range t.structs {
			if _, ok := structs[n]; !ok {
				structs[n] = st
				structSrc[n] = p
				order = append(order, n)
			}
		}
		pos := p.fset.Position(fd.Pos())
		def := fmt.Sprintf("/-- %s/%s:%d `%s` -/\n", spec.dir, spec.file, pos.Line, spec.name)
		for _, h := range t.helpers {
			def += h + "\n"
		}
		def += fmt.Sprintf("def %s %s : %s :=\n%s\n", spec.lean, strings.Join(params, " "), rt.lean(), indent(body))
		defs = append(defs, def)
	}
	var b strings.Builder
	b.WriteString("-- GENERATED by /verif/gen from the Go sources of the repository on every check run. Do not edit.\n")
	b.WriteString("set_option linter.unusedVariables false\nnamespace Gen\n\n")
	for _, n := range order {
		st := structs[n]
		tt := &tr{p: structSrc[n], structs: map[string]*types.Struct{}}
		fmt.Fprintf(&b, "structure %s where\n", n)
		for i := 0; i < st.NumFields(); i++ {
			fmt.Fprintf(&b, "  %s : %s\n", st.Field(i).Name(), tt.ltypeOf(st.Field(i).Type()).lean())
		}
		b.WriteString("deriving Repr, DecidableEq, Inhabited\n\n")
	}
	for _, d := range defs {
		b.WriteString(d)
		b.WriteString("\n")
	}
	b.WriteString("end Gen\n")
	return b.String(), errs
}
