package main

import (
	"fmt"
	"go/ast"
	"go/constant"
	"go/token"
	"go/types"
	"path/filepath"
	"regexp"
	"strconv"
	"strings"
)

var factLine = regexp.MustCompile(`^(\s*def\s+\S+\s*:\s*[^:=]+?:=\s*)(.*?)(\s*-- go:\s*(\S+)\s+(const|var|regexp)\s+(\S+)\s*)$`)

func regenFacts(ld *loader, src string) (string, []error) {
	var errs []error
	lines := strings.Split(src, "\n")
	for i, line := range lines {
		m := factLine.FindStringSubmatch(line)
		if m == nil {
			if strings.Contains(line, "-- go:") {
				errs = append(errs, fmt.Errorf("line %d: annotation not understood: %s", i+1, line))
			}
			continue
		}
		file, kind, name := m[4], m[5], m[6]
		isList := strings.Contains(m[1], "List")
		isInt := strings.Contains(m[1], ": Int") || strings.Contains(m[1], "List Int")
		val, err := extract(ld, file, kind, name, isList, isInt)
		if err != nil {
			errs = append(errs, fmt.Errorf("line %d (%s %s in %s): %v", i+1, kind, name, file, err))
			continue
		}
		lines[i] = m[1] + val + m[3]
	}
	return strings.Join(lines, "\n"), errs
}

func leanInt(v constant.Value, isInt bool) (string, error) {
	if v == nil || (v.Kind() != constant.Int && v.Kind() != constant.Float) {
		return "", fmt.Errorf("not an integer constant")
	}
	v = constant.ToInt(v)
	if v.Kind() != constant.Int {
		return "", fmt.Errorf("not integral")
	}
	s := v.ExactString()
	if strings.HasPrefix(s, "-") {
		if !isInt {
			return "", fmt.Errorf("negative value %s for a Nat fact", s)
		}
		return "(" + s + ")", nil
	}
	return s, nil
}

func extract(ld *loader, file, kind, name string, isList, isInt bool) (string, error) {
	dir := filepath.Dir(file)
	p, err := ld.load(dir)
	if err != nil {
		return "", err
	}
	f, ok := p.files[filepath.Base(file)]
	if !ok {
		return "", fmt.Errorf("file not found")
	}
	switch kind {
	case "const":
		obj := p.pkg.Scope().Lookup(name)
		c, ok := obj.(*types.Const)
		if !ok {
			return "", fmt.Errorf("no such constant")
		}
		if p.fset.Position(c.Pos()).Filename != filepath.Join(ld.repo, file) {
			return "", fmt.Errorf("constant is declared in %s", p.fset.Position(c.Pos()).Filename)
		}
		if c.Val().Kind() == constant.String { // e.g. stringer's _Feature_name (FactsPTN.lean)
			return leanString(constant.StringVal(c.Val())), nil
		}
		return leanInt(c.Val(), isInt)
	case "var", "regexp":
		var spec *ast.ValueSpec
		idx := -1
		for _, d := range f.Decls {
			gd, ok := d.(*ast.GenDecl)
			if !ok || gd.Tok != token.VAR {
				continue
			}
			for _, s := range gd.Specs {
				vs := s.(*ast.ValueSpec)
				for k, n := range vs.Names {
					if n.Name == name {
						spec, idx = vs, k
					}
				}
			}
		}
		if spec == nil || idx >= len(spec.Values) {
			return "", fmt.Errorf("no such package-level var with an initialiser")
		}
		e := spec.Values[idx]
		if kind == "regexp" {
			call, ok := e.(*ast.CallExpr)
			if !ok || len(call.Args) != 1 {
				return "", fmt.Errorf("not a regexp.MustCompile(literal)")
			}
			tv := p.info.Types[call.Args[0]]
			if tv.Value == nil || tv.Value.Kind() != constant.String {
				return "", fmt.Errorf("regexp argument is not a constant string")
			}
			return leanString(constant.StringVal(tv.Value)), nil
		}
		cl, ok := e.(*ast.CompositeLit)
		if !ok {
			return "", fmt.Errorf("initialiser is not a composite literal")
		}
		return intList(p, cl, isInt)
	}
	return "", fmt.Errorf("unknown kind")
}

// intList evaluates a (possibly keyed) array/slice literal of integer constants.
func intList(p *pkgInfo, cl *ast.CompositeLit, isInt bool) (string, error) {
	vals := map[int64]string{}
	next := int64(0)
	max := int64(-1)
	for _, el := range cl.Elts {
		var ve ast.Expr = el
		if kv, ok := el.(*ast.KeyValueExpr); ok {
			ktv := p.info.Types[kv.Key]
			if ktv.Value == nil {
				return "", fmt.Errorf("non-constant key")
			}
			k, ok := constant.Int64Val(constant.ToInt(ktv.Value))
			if !ok {
				return "", fmt.Errorf("bad key")
			}
			next = k
			ve = kv.Value
		}
		tv := p.info.Types[ve]
		s, err := leanInt(tv.Value, isInt)
		if err != nil {
			return "", fmt.Errorf("element %d: %v", next, err)
		}
		vals[next] = s
		if next > max {
			max = next
		}
		next++
	}
	n := max + 1
	if tv, ok := p.info.Types[cl]; ok {
		if at, ok := tv.Type.Underlying().(*types.Array); ok {
			n = at.Len()
		}
	}
	parts := make([]string, n)
	for i := int64(0); i < n; i++ {
		if s, ok := vals[i]; ok {
			parts[i] = s
		} else {
			parts[i] = "0"
		}
	}
	return "[" + strings.Join(parts, ", ") + "]", nil
}

func leanString(s string) string {
	var b strings.Builder
	b.WriteByte('"')
	for _, r := range []byte(s) {
		switch {
		case r == '"':
			b.WriteString(`\"`)
		case r == '\\':
			b.WriteString(`\\`)
		case r == '\n':
			b.WriteString(`\n`)
		case r == '\t':
			b.WriteString(`\t`)
		case r < 0x20 || r >= 0x7f:
			b.WriteString(`\x` + strconv.FormatInt(int64(r)+0x100, 16)[1:])
		default:
			b.WriteByte(r)
		}
	}
	b.WriteByte('"')
	return b.String()
}
