package main

import (
	"fmt"
	"go/ast"
	"go/build"
	"go/importer"
	"go/parser"
	"go/token"
	"go/types"
	"path/filepath"
	"strings"
)

// pkgInfo is one type-checked directory of the repository.
type pkgInfo struct {
	fset  *token.FileSet
	files map[string]*ast.File // by base name
	info  *types.Info
	pkg   *types.Package
}

type loader struct {
	repo string
	pkgs map[string]*pkgInfo
	std  types.Importer
}

func newLoader(repo string) *loader {
	return &loader{repo: repo, pkgs: map[string]*pkgInfo{}, std: importer.ForCompiler(token.NewFileSet(), "source", nil)}
}

// fakeImporter resolves repository-internal and third-party imports to empty packages:
// the whitelisted functions and constants only need local declarations and the standard library.
type fakeImporter struct{ l *loader }

func (f fakeImporter) Import(path string) (*types.Package, error) {
	if !strings.Contains(path, ".") {
		if p, err := f.l.std.Import(path); err == nil {
			return p, nil
		}
	}
	// packages of the repository itself are type-checked for real, so that constants of one package
	// (ai.Feature values, tak.MoveType ...) can be used as keys or operands in another
	const mod = "github.com/nelhage/taktician/"
	if strings.HasPrefix(path, mod) {
		if p, err := f.l.load(strings.TrimPrefix(path, mod)); err == nil && p.pkg != nil {
			return p.pkg, nil
		}
	}
	name := path
	if i := strings.LastIndex(path, "/"); i >= 0 {
		name = path[i+1:]
	}
	p := types.NewPackage(path, name)
	p.MarkComplete()
	return p, nil
}

func (l *loader) load(dir string) (*pkgInfo, error) {
	if p, ok := l.pkgs[dir]; ok {
		return p, nil
	}
	fset := token.NewFileSet()
	matches, _ := filepath.Glob(filepath.Join(l.repo, dir, "*.go"))
	var files []*ast.File
	byName := map[string]*ast.File{}
	pkgName := ""
	for _, m := range matches {
		if strings.HasSuffix(m, "_test.go") {
			continue
		}
		// honour build constraints (bitboard/bits_18.go vs bits_19.go): only the files the toolchain would compile
		if ok, err := build.Default.MatchFile(filepath.Dir(m), filepath.Base(m)); err == nil && !ok {
			continue
		}
		f, err := parser.ParseFile(fset, m, nil, parser.ParseComments)
		if err != nil {
			return nil, err
		}
		if pkgName == "" {
			pkgName = f.Name.Name
		}
		if f.Name.Name != pkgName {
			continue
		}
		files = append(files, f)
		byName[filepath.Base(m)] = f
	}
	if len(files) == 0 {
		return nil, fmt.Errorf("no Go files in %s", dir)
	}
	info := &types.Info{
		Types: map[ast.Expr]types.TypeAndValue{},
		Defs:  map[*ast.Ident]types.Object{},
		Uses:  map[*ast.Ident]types.Object{},
	}
	conf := types.Config{Importer: fakeImporter{l}, Error: func(error) {}}
	pkg, _ := conf.Check(dir, fset, files, info)
	p := &pkgInfo{fset: fset, files: byName, info: info, pkg: pkg}
	l.pkgs[dir] = p
	return p, nil
}
