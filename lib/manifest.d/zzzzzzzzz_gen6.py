# Work package "gen6" (translator round 6, gen/iter.go): recordCut proved; the move generator's state machine (ai/moves.go Reset, Next) regenerated.
_GEN6_TECH = (" + recordCut proved equal to the regenerated definition; moveGenerator.Reset / Next regenerated from ai/moves.go on every run (Generated/FuncsMoveIter.lean, oracle "
              "views for AllMoves / MovePreallocated / sortMoves) with the list stage proved equal to the model's generator step (Props/C05_gen3.lean)")
_GEN6_TEXT = (" SIXTH ROUND: recordCut_is_source (Props/C05_gen2.lean) is now PROVED for every engine state with 15 frames whose move types are bytes: same panic, same response map, same four cut "
              "counters modulo 2^64. Generated/FuncsMoveIter.lean holds moveGenerator.Reset and moveGenerator.Next of ai/moves.go as a state machine (i, ms, ms == nil, r) -> (move, child, state); "
              "the calls p.AllMoves(buf[:0]), p.MovePreallocated(m, buf) and sortMoves() are ORACLE parameters (the fn.mgnext op takes their values from the real calls and the Go side re-checks them), "
              "the child pointer is a value of a type parameter (the definition can only hand it on). Proved (Props/C05_gen3.lean) for every game on the regenerated Move type whose moveEq is the regenerated "
              "Move.Equal, every hint configuration (table move, PV, remembered response move), every list and every counter i >= 4 with ply < 15: next_list_is_source - the regenerated Next returns exactly "
              "the first listed move from that index on that is not a hint (the model's skipGen) and that the position accepts, with its child and counter, or (zero move, nil) when the list is exhausted; "
              "the whitelist fuel suffices; scan_runList - that is one step of the model's runList (the list stage of `iterate`). NOT proved: next_iterate_statement (the hint stages i = 0..3 and the "
              "threading of the engine state through the loop body; driveNext = iterate); the hint stages are tied by fn.mgnext (generator FNITER: no hints / each hint alone / duplicate hints / hints not in "
              "the list / empty and one-move lists / counters before, in and beyond the list and negative / ply outside the frame array / nil response map) and by the property ops. sortMoves itself (sort.Sort "
              "by history) stays the ordering oracle of the model.")
_GEN6_NOTE = (" Sixth-round conventions of the translator: a `break` in a switch in a loop is the switch's continuation, `continue` the loop's; `for { .. return .. }` is a fuelled helper; `v, ok = m[k]` assigns the zero "
              "value when the key is absent; declared oracle methods become input views / function-typed parameters (results: error = Bool `is nil`, pointer to an abstract type = Option of a type parameter); "
              "declared buffer paths are skipped as storage (a buffer may only be re-sliced, nil-tested, stored, or passed as `buf[:0]` / a declared pointer path to an oracle; that a buffer is not rewritten while "
              "a value built in it is in use is assumed, as for `reuse`); an assigned slice field with a declared nil view carries its nil-ness as state; reads through a pointer field with a declared nil view are guarded.")
for _pid in ("C05", "C04", "C16"):
    if _pid in LEVEL:
        if _pid == "C05":
            LEVEL[_pid]["text"] = LEVEL[_pid]["text"].replace("NOT proved: recordCut (recordCut_statement keeps the statement; tied by fn.recordcut only). ", "") + _GEN6_TEXT
            LEVEL[_pid]["technique"] += _GEN6_TECH
        else:
            LEVEL[_pid]["text"] += (" Since round 6 recordCut is proved equal to its regenerated definition too, and the list stage of the move generator (moveGenerator.Next, regenerated with oracle views) is proved "
                                    "to be the model's generator step (Props/C05_gen3.lean; generator FNITER runs here too); the hint stages and the search loops stay hand-mirrored.")
        if "Sixth-round conventions" not in LEVEL[_pid]["note"]:
            LEVEL[_pid]["note"] += _GEN6_NOTE
