# Work package "gen7": next_iterate proved (the hint stages of the regenerated moveGenerator.Next + the threading of the engine state through the loop body).
_GEN7_TECH = ("; the whole enumeration loop `for m, child := mg.Next(); child != nil; ...` with the regenerated Next proved equal to the model's `iterate` (Props/C05_gen4.lean)")
_GEN7_OLD = ("NOT proved: next_iterate_statement (the hint stages i = 0..3 and the "
             "threading of the engine state through the loop body; driveNext = iterate); the hint stages are tied by fn.mgnext")
_GEN7_NEW = ("SEVENTH ROUND: next_iterate (Props/C05_gen4.lean) is now PROVED - for every game on the regenerated Move type whose moveEq is the regenerated Move.Equal, every option set, position, "
             "generator literal (table move, PV hint, ply < 15, depth), loop body, accumulator and engine state with 15 frames: calling the regenerated Next from Reset (i = 0, ms == nil) again and again "
             "(every call reads the response map and frame moves the body left; len(AllMoves) + 5 calls suffice) and running the body on every (move, child) it yields is exactly the model's `iterate` - same "
             "control outcome, accumulator, engine state (incl. the sortMoves counter) and error; Next never panics and never runs out of whitelist fuel. Hypotheses (the statement gen6 left was false without "
             "them; next_iterate_unrestricted_false is a kernel-evaluated counterexample for the first): the ordering oracle does not lengthen the list (sort.Sort permutes), and the loop body keeps the 15 "
             "frames of ai.stack - discharged for the search's own loop bodies (Proofs/SearchFrames.lean search_fr: the search never changes the number of frames), so next_iterate_zwSearch / _multiCut / _pvSearch / "
             "_analyzeAll / _getMove state it for each of the five `iterate` calls of Impl/Minimax.lean with no hypothesis on the body; next_iterate_restart covers the second enumeration after mg.Reset() (cached list, stale remembered move) when the cache is nil or nothing is sorted and it holds AllMoves. The hint stages are additionally tied by fn.mgnext")
_GEN7_OTHER_OLD = "the hint stages and the search loops stay hand-mirrored."
_GEN7_OTHER_NEW = ("since round 7 the hint stages too: the whole enumeration loop with the regenerated Next is proved to be the model's `iterate` (Props/C05_gen4.lean next_iterate; hypotheses: the ordering oracle "
                   "does not lengthen the list; the loop body keeps the 15 frames - proved for the search's own bodies, Proofs/SearchFrames.lean); the search loops (pvSearch, zwSearch, Analyze) stay hand-mirrored.")
for _pid in ("C05", "C04", "C16"):
    if _pid in LEVEL:
        if _pid == "C05":
            assert _GEN7_OLD in LEVEL[_pid]["text"]
            LEVEL[_pid]["text"] = LEVEL[_pid]["text"].replace(_GEN7_OLD, _GEN7_NEW)
            LEVEL[_pid]["technique"] += _GEN7_TECH
        else:
            assert _GEN7_OTHER_OLD in LEVEL[_pid]["text"]
            LEVEL[_pid]["text"] = LEVEL[_pid]["text"].replace(_GEN7_OTHER_OLD, _GEN7_OTHER_NEW)

# Task 2 of "gen7": zwSearch regenerated (gen/zw.go, Generated/FuncsZw.lean) - EXECUTED ONLY.
_GEN7_ZW_TECH = ("; zwSearch itself regenerated from ai/minimax.go on every run (Generated/FuncsZw.lean) and executed against the real function (fn.zwsearch), no bridge theorem")
_GEN7_ZW_TEXT = (" zwSearch REGENERATED, EXECUTED AGAINST THE REAL FUNCTION, NO BRIDGE THEOREM: Generated/FuncsZw.lean holds (*MinimaxAI).zwSearch of ai/minimax.go as a whole (translator round 7, gen/zw.go: recursion on a fuel "
                 "argument, the engine state - history, response, Stats, the frame moves / pv buffers / table-entry copies, the table - threaded through as a tuple, the position a value of a type parameter whose "
                 "views and oracles are function parameters, the calls of ttGet / ttPut / teSuffices / nullMoveOK / recordCut / moveGenerator.Next / Reset going to their regenerated definitions). No theorem "
                 "mentions it: the search theorems remain theorems about the hand mirror Impl/Minimax.lean, which is tied by the property ops. The op fn.zwsearch (generator FNZW, about 320 ops per quick run) "
                 "runs the real zwSearch on a NewMinimax engine (3x3 / 4x4 positions, depths -1..4, two calls in a row, all 8 combinations of NoNullMove / NoReduceSlides / MultiCut, tables nil / 0 / 1 / 2 / 7 / 64 / "
                 "1021 entries, cut both ways, pv hints) against the regenerated definition and compares value, returned pv, every Stats counter, the full table, the response and history maps, the 15 frame moves and "
                 "the frame's pv buffer. Not exercised there: NoSort is always on (sortMoves is an oracle instantiated with the identity), the cancel flag is never set. Declared assumptions of the translation: "
                 "the Debug logging blocks are skipped, every atomic load of the cancel flag in one call returns one value, slices crossing the recursive call have value semantics.")
for _pid in ("C05", "C04", "C16"):
    if _pid in LEVEL:
        LEVEL[_pid]["text"] += _GEN7_ZW_TEXT if _pid == "C05" else (" Since round 7 zwSearch itself is regenerated (Generated/FuncsZw.lean) and EXECUTED against the real function by fn.zwsearch (generator FNZW runs here too); "
                                                                     "there is no bridge theorem for it.")
        if _pid == "C05":
            LEVEL[_pid]["technique"] += _GEN7_ZW_TECH

# Task 3 of "gen7": sortMoves regenerated with sort.Sort as a call oracle; the value loop bridged (Props/C05_gen5.lean).
_GEN7_SORT_TEXT = (" sortMoves REGENERATED (Generated/FuncsSort.lean, gen/zwsort.go): the scratch buffer, the loop that stores mg.ai.history[m] for every move of mg.ms, and sort.Sort as a declared ORACLE handed the values "
                   "(ms, vs[:len(ms)]) whose result is assigned to mg.ms (the aliasing of the struct's slices with mg.ms / the buffer is relied on by declaration). PROVED (Props/C05_gen5.lean sortMoves_is_source): for "
                   "every history map, scratch buffer (nil, dirty, too short, longer), list and oracle the regenerated sortMoves never panics and hands sort.Sort exactly the list and the history value of each of its moves "
                   "(0 when absent). NOT proved, only re-checked per op by fn.sortmoves (generator FNSORT, 160 ops): that sort.Sort returns a permutation sorted by those values - it stays the ordering oracle of the model.")
for _pid in ("C05", "C04", "C16"):
    if _pid in LEVEL:
        LEVEL[_pid]["text"] += _GEN7_SORT_TEXT if _pid == "C05" else (" sortMoves' value loop is regenerated too (Generated/FuncsSort.lean; Props/C05_gen5.lean sortMoves_is_source), sort.Sort staying an oracle re-checked by fn.sortmoves (generator FNSORT runs here too).")
