# Work package "gen7": next_iterate proved (the hint stages of the regenerated moveGenerator.Next + the threading of the engine state through the loop body).
_GEN7_TECH = ("; the whole enumeration loop `for m, child := mg.Next(); child != nil; ...` with the regenerated Next proved equal to the model's `iterate` (Props/C05_gen4.lean)")
_GEN7_OLD = ("NOT proved: next_iterate_statement (the hint stages i = 0..3 and the "
             "threading of the engine state through the loop body; driveNext = iterate); the hint stages are tied by fn.mgnext")
_GEN7_NEW = ("SEVENTH ROUND: next_iterate (Props/C05_gen4.lean) is now PROVED - for every game on the regenerated Move type whose moveEq is the regenerated Move.Equal, every option set, position, "
             "generator literal (table move, PV hint, ply < 15, depth), loop body, accumulator and engine state with 15 frames: calling the regenerated Next from Reset (i = 0, ms == nil) again and again "
             "(every call reads the response map and frame moves the body left; len(AllMoves) + 5 calls suffice) and running the body on every (move, child) it yields is exactly the model's `iterate` - same "
             "control outcome, accumulator, engine state (incl. the sortMoves counter) and error; Next never panics and never runs out of whitelist fuel. Hypotheses (the statement gen6 left was false without "
             "them; next_iterate_unrestricted_false is a kernel-evaluated counterexample for the first): the ordering oracle does not lengthen the list (sort.Sort permutes), and the loop body keeps the 15 "
             "frames of ai.stack - discharged for the search's own loop bodies (Proofs/SearchFrames.lean search_fr: the search never changes the number of frames), so next_iterate_zwSearch / _multiCut / _pvSearch / "
             "_analyzeAll / _getMove state it for each of the five `iterate` calls of Impl/Minimax.lean with no hypothesis on the body; next_iterate_restart covers the second enumeration after mg.Reset() (cached list, stale remembered move) when the cache is nil or nothing is sorted and it holds AllMoves. The hint stages are additionally tied by fn.mgnext")
_GEN7_OTHER_OLD = "the hint stages and the search loops stay hand-mirrored."
_GEN7_OTHER_NEW = ("since round 7 the hint stages too: the whole enumeration loop with the regenerated Next is proved to be the model's `iterate` (Props/C05_gen4.lean next_iterate; hypotheses: the ordering oracle "
                   "does not lengthen the list; the loop body keeps the 15 frames - proved for the search's own bodies, Proofs/SearchFrames.lean); the search loops (pvSearch, zwSearch, Analyze) stay hand-mirrored.")
for _pid in ("C05", "C04", "C16"):
    if _pid in LEVEL:
        if _pid == "C05":
            assert _GEN7_OLD in LEVEL[_pid]["text"]
            LEVEL[_pid]["text"] = LEVEL[_pid]["text"].replace(_GEN7_OLD, _GEN7_NEW)
            LEVEL[_pid]["technique"] += _GEN7_TECH
        else:
            assert _GEN7_OTHER_OLD in LEVEL[_pid]["text"]
            LEVEL[_pid]["text"] = LEVEL[_pid]["text"].replace(_GEN7_OTHER_OLD, _GEN7_OTHER_NEW)
