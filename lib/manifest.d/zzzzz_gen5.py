# Work package "gen5" (translator round 5, gen/search.go): the small helpers of the alpha-beta search in ai/minimax.go.
_GEN5_TECH = (" + the search's helpers ttGet / ttPut / nullMoveOK / Stats.Merge regenerated from ai/minimax.go on every run (Generated/FuncsSearch.lean) and proved equal "
              "to the search model's (Props/C05_gen2.lean); recordCut regenerated and executed against the real function")
_GEN5_TEXT = (" FIFTH ROUND (Generated/FuncsSearch.lean, importing only the generated files up to FuncsAI; bridged in Props/C05_gen2.lean): the helpers pvSearch / zwSearch call are translated "
              "from ai/minimax.go - (*MinimaxAI).ttGet and ttPut (a pointer into m.table is the INDEX on both sides; `m.table == nil` is its own input, so the TableMem < 0 case and the "
              "divide-by-zero panic of an empty non-nil table are distinguished; `atomic.LoadInt32(m.cancel)` is the value of that one load), nullMoveOK (`ai.stack[ply-1].m` through the projection "
              "of the frame array, index checked against its static length 15), Stats.Merge, recordCut (statistics, history and response maps as association lists; translated under the declared "
              "assumption `ai.cuts == nil`, i.e. no cut log). Proved for ALL arguments: ttGet_is_source (every engine state with table size < 2^64, every hash: same outcome class - panic / nil / entry - "
              "and the same entry from the same one of the two probe slots), ttPut_is_source (same returned slot, same table afterwards incl. the replacement rule `first slot's entry moves to the second "
              "slot unless its hash is 0`, same behaviour on the cancel flag), nullMoveOK_is_source (Tak instance of the model, every option set / ply / depth / position, frame array of 15 moves whose "
              "types are bytes), statsMerge_is_source (the model's unbounded counters are the source's modulo 2^64). NOT proved: recordCut (recordCut_statement keeps the statement; tied by fn.recordcut only). "
              "The fn.statsmerge / fn.nullok / fn.ttget / fn.ttput / fn.recordcut ops (generator FNSEARCH) run the real helpers on bare engines against the regenerated definitions: tables of 0..67 entries "
              "empty / sparse / full with colliding hashes (both probe slots, i1 == i2, eviction, hash-0 entries), nil and empty tables, cancel flag values, every early exit of nullMoveOK incl. ply outside "
              "the frame array, every `searched` class of recordCut with shift counts 0..65 / negative / huge, nil maps. STILL HAND-MIRRORED (tied by the property ops' sampling only): pvSearch, zwSearch "
              "(incl. its inline slide-reduction test), Analyze's deepening loop, GetMove / AnalyzeAll, moveGenerator.Next / sortMoves / Reset, NewMinimax.")
_GEN5_NOTE = (" Fifth-round conventions of the translator: a `*T` result that points into a declared slice view is the index (Option Nat); `x.f == nil` and `atomic.LoadInt32(x.f)` are input views "
              "(at most one load per function); `x.arr[i].f` with a non-translatable element type is read through a projection array, guarded by the static array length; unsigned division by a variable "
              "is guarded by `divisor == 0 -> panic`; Go maps are association lists (iteration order not modelled, writes guarded by the map's nil view); `stopAt` ends a void function at a declared "
              "`if cond { return }` (the function is translated under the assumption that cond holds there).")
for _pid in ("C05", "C04", "C16"):
    if _pid in LEVEL:
        if _pid == "C05":
            LEVEL[_pid]["text"] += _GEN5_TEXT
            LEVEL[_pid]["technique"] += _GEN5_TECH
        else:
            LEVEL[_pid]["text"] += (" The search model's ttGet / ttPut / nullMoveOK / Stats.Merge, on which this property's theorems rest, are proved equal to definitions regenerated from ai/minimax.go "
                                    "on every run (Props/C05_gen2.lean; generator FNSEARCH runs here too); pvSearch / zwSearch / Analyze / the move generator stay hand-mirrored.")
        if "Fifth-round conventions" not in LEVEL[_pid]["note"]:
            LEVEL[_pid]["note"] += _GEN5_NOTE
