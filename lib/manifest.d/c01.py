level("C01",
      technique="Lean 4 proof over a construct-for-construct model of MovePreallocated (lean/TakVerif/Impl/Move.lean) against a list-level rule book (Spec.step); model tied to the Go code by differential testing on every run",
      text=("PROVED (Props/C01.lean, all sizes 3..8, all positions satisfying the invariant WF, every raw Move value: any Int x,y, "
            "any type code, any 32-bit Slides word, any Zobrist basis table): "
            "move_never_panics - the model of MovePreallocated has no reachable panic for ANY position and move (no WF needed); "
            "move_never_hangs / move_total - every call returns a successor or a returned error, given AnalyzeTotal; "
            "move_refines - for WF p, non-pass m and the 64-piece StackLimit: model rejects => rule book rejects; model accepts with q => "
            "rule book accepts with successor exactly abs q (every stack's contents and order, top kind, reserves, ply) and WF q "
            "(bitboard consistency, Height/Stacks normalisation, incremental hash = from-scratch hash); rejections need no StackLimit; "
            "place_refines needs no StackLimit at all; new_wf (New of every accepted config is WF); fromSquares_wf (whenever FromSquares returns a "
            "position for a board with <= 64 pieces per square and ply >= 0, it is WF; bad bytes make it return an error); reachable_wf (induction along "
            "move sequences, model and rule book stay in step). "
            "SAMPLED, not proved: that the Lean model Pos.apply behaves like the Go function (about 2.7e5 (position, move) pairs per quick run incl. "
            "malformed moves, compared on ok/err and the full successor dump; the spec oracle smove is compared beside it). "
            "NOT covered by a theorem: that the squares of FromSquares' result are the input squares (checked by the rebuild op only), "
            "the engine's pass move (outside the claim). StackLimit is discharged where the game has <= 64 pieces: step_budget (pieces on board + in reserve "
            "never increase), stack_limit_of_budget, reachable_default (default 3x3..6x6 games, 62 pieces: no stack-limit hypothesis at all); on 7x7/8x8 and "
            "custom counts it stays an explicit hypothesis."),
      note=("Hypothesis AnalyzeTotal (forall p, p.analyze != none: flood fuel suffices) is taken as an explicit hypothesis of move_never_hangs/"
            "move_refines/reachable_wf; it is proved unconditionally as Roads.analyze_ne_none in the C02 work package (Proofs/Groups.lean) and is to be "
            "discharged when the branches are merged. StackLimit p m is stated on the rule-book side: if Spec.step accepts, no stack of its "
            "successor exceeds 64 pieces (the documented representation limit); it is vacuous for rejected moves and proved for placements (StackLimit.place). "
            "Impl/Move.lean was refactored into named blocks (setStack, enterSquare, dropOn, liftFrom, placeOn, slideFrom) that mirror contiguous Go statements; "
            "checks C01/C03/C08/C09 re-run with disagreements=0 after the refactor."))

level("C08",
      technique="Lean 4 proof over the model of tak/hash.go + the hash updates inside MovePreallocated; differential testing of Hash()/Equal/internal hash field against the Go code; collision census is sampling only",
      text=("PROVED (Props/C08.lean, for ANY basis table): hash_inv - the invariant HInv (hash field = fnvBasis xor the fold of hashAt over all squares, "
            "size <= 8, empty squares have Height 0) is preserved by every accepted move of the model of MovePreallocated, with no stack-limit or other "
            "assumption, so after every move the incrementally maintained hash equals the from-scratch value (all five hashAt update sites, every slide shape); "
            "hash_inv_new / hash_inv_reachable (start position; any move sequence from it); "
            "equal_iff - on well-formed positions Equal holds iff same size, same squares (every stack's contents and order), same side to move; "
            "hash_congr - Hash() is a function of size, squares and side to move on well-formed positions; "
            "transposition - two move sequences from a common well-formed start reaching the same squares and side give Equal positions with the same Hash(). "
            "SAMPLED, not proved: correspondence of the model with the Go code (Hash(), internal field, from-scratch recomputation, Equal, FromSquares rebuild, "
            "move-order transpositions; about 9e4 ops per quick run). "
            "NOT A THEOREM: the clause 'among the millions of distinct positions met no two share a hash' - by counting it cannot hold of all positions; "
            "the harness census over explored positions is sampled support only. "
            "Positions produced by FromSquares satisfy WF (C01.fromSquares_wf), so equal_iff/hash_congr apply to them; TPS import and symmetry transforms "
            "are covered only insofar as they end in FromSquares (their own parsing/transform code is the subject of C10/C14)."),
      note=("equal_iff/hash_congr/transposition assume Tak.WF (the invariant C01.move_refines proves is preserved from New); transposition additionally takes "
            "AnalyzeTotal (see C01) and the C01 side conditions (no pass, StackLimit) per step."))
