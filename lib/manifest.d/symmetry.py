level("C14",
      technique="Lean 4 proof over the list-level rule book (Spec.step, Spec.outcome) for the eight maps, plus theorems about the model of symmetry.{symmetries,compose,TransformMove,Symmetries} (int8 arithmetic) + differential correspondence (syms/ssyms/xform/xmove/sxmove/xover/sxover/prefer ops)",
      text=("Proved for every board size, every state whose square list has size^2 entries (Spec.abs p always has), every move legal or not, all eight maps (no sampling): "
            "mul_table/group_laws (the 8x8 composition table is composition of the coordinate maps for all integer coordinates; associativity, unit, inverses; on-board squares go to on-board squares); "
            "step_equivariant (Spec.step (k•s) (k•m) = (Spec.step s m).map (k•): placements, slides by induction over the drop list incl. wall-flattening, reserves, opening rule; "
            "illegal stays illegal and conversely) and legality_invariant; outcome_invariant (over, winner, road/flat reason and both flat counts are equal for a state and each image: "
            "the image board is a permutation of the board; adjacency is preserved; a chain joining two opposite edges is mapped to a chain joining two opposite edges, using C02's "
            "spec_hasRoad_iff) and roadPath_invariant; winDetails_invariant (the bit-level WinDetails of two well-formed positions one of which shows the image of the other agree, through C02's winDetails_refines); "
            "transformMove_spec (for every word of basic maps — a bare map or what compose builds — every size <= 8 and every raw move with coordinates in [-100,100], any type code, any drop word: "
            "the model of the fixed TransformMove returns a move, never the 'symmetry is not sane'/'bad type' panic, and its reading is the image of the reading); "
            "symmetries_spec (the list returned by Symmetries consists of pairs (k-th rebuilt image, k), has pairwise different positions and contains every image, under the explicit hypothesis NoCollision "
            "that different images have different hashes); apply_equivariant (Move on image position/image move vs original: both rejected or both accepted with results again image/original) "
            "conditional on the C01-style hypothesis Refines (Pos.apply refines Spec.step) for the two positions."),
      note=("NOT proved: that the rebuilt image imagePos p k (At + FromSquares) shows the list-level image Sym.state k (abs p), and that Pos.apply refines Spec.step (C01's theorem) — "
            "apply_equivariant and winDetails_invariant take these as hypotheses; both links are exercised on every run by the ops ssyms (list-level image list vs Symmetries), "
            "sxmove (Spec.step on image state/move vs Move on the real image) and sxover. NoCollision is an assumption (hash collisions are outside any theorem). "
            "The model is hand-written (Impl/Symmetry.lean); its agreement with /repo is by correspondence: quick ~1.9e5 ops (random, subgroup-symmetric and symmetric-game positions; legal moves, "
            "the malformed stream, named zero-drop/off-board/zero-nibble slides under random or all 8 maps; every slide shape x type code 0..10 x on/off-board origin x 8 maps on 3x3/4x4), thorough adds sizes 5..8 and 1e5 positions. "
            "Defect found by this check on the pinned tree and fixed (bb39ff9): TransformMove panicked on a slide without drops and on type codes > SlideDown."))
level("C15",
      technique="Lean 4 proof about the canonicalisation algorithm of symmetry.Canonical at list level (Spec.canon) via an abstract theory of canonicalisation under a group action, a refinement theorem from the bit-level model (Tak.canonical) to Spec.canon, + differential correspondence of both against the real Canonical (canon/scanon/canonchk ops)",
      text=("Proved for every board size, every legal game of any length and all eight maps (no sampling), for Spec.canon (the loop of Canonical over the rule book: accumulated transform, scan over the maps whose image of board 0 equals board 0, "
            "preferMove, replay): canonical_legal_prefix_images (the canonical form exists, has the same length, replays legally, and each prefix leads to the image under some map of the position the same prefix of the original leads to); "
            "canonical_orbit_invariant (canon n (k•ms) = canon n ms for each of the eight maps); canonical_idempotent (canon n out = some out for out = canon n ms). Method: Proofs/CanonAbstract.lean proves the three statements for any game "
            "with a group action commuting with its step function and a strict preference order whose ties inside an orbit are equalities (invariant: board 0 = tfn•input position; two runs on step-wise images of one game have the same board 0, "
            "their transforms differ by a stabiliser element of it, and the preferred move of a stabiliser orbit is unique); Proofs/CanonTak.lean instantiates it with C14's step_equivariant and the laws of Sym.state/Sym.raw/preferMove. "
            "canonical_refines: on sizes 3..8 the bit-level model Tak.canonical (eight positions replayed through Pos.apply, stabiliser test by Hash(), TransformMove in int8 arithmetic on words built by compose) returns exactly Spec.canon's result "
            "for every game that has one, under PosFacts2 and NoCollisionAt; canonical_refines_default: for the default games on 3x3..6x6 PosFacts2 is discharged from C01.move_refines, C08.hash_congr and C02.analyze_ne_none "
            "(piece budget <= 62, so the 64-piece limit cannot be reached), leaving NoCollisionAt as the only assumption; model_canonical_properties combines the four."),
      note=("On 7x7 and 8x8 canonical_refines stays conditional on PosFacts2 (New/Move keep an invariant, Move accepts exactly the rule-book-legal moves and yields the rule-book successor, positions showing the same board/reserves/ply have the same Hash()) "
            "because C01's refinement needs the 64-piece stack limit, which only the <= 62-piece games guarantee; and on all sizes on NoCollisionAt (no position showing a different image of a canonical board of a prefix of the game has that board's hash), which no theorem can carry. "
            "Independently of these, every run checks canon (bit-level model vs Go), scanon (Spec.canon vs Go directly) and canonchk (the three clauses evaluated on the real code and on the model) on games biased to stay or become self-symmetric "
            "(about a quarter are self-symmetric at ply >= 4, a fifth re-enter symmetry), their eight images, prefixes, double application, a malformed stream, and exhaustively on all legal games of <= 2 plies (3x3, 4x4) and 3 plies (3x3) in the quick tier, "
            "<= 4 plies on 3x3/4x4 and <= 3 on 5x5 in the thorough tier."))
# opening-book clause of C04: text to be merged into C04's level by the coordinator
_book = ("Opening book (Props/C04_book.lean, model Impl/Book.lean of ai/opening.go, random choice = arbitrary oracle within the Int31n contract): book_entries_legal (in a book built without error every entry has a reply, weights are positive, every stored reply is "
         "rule-book-legal in a rebuilt image of a book-line position with the entry's key), book_contains_images (the hash of each of the eight images of each book-line position with a continuation is a key), book_moves_legal (whenever GetMove answers, "
         "the move is rule-book-legal in the looked-up position, provided that position does not collide with a different stored image), book_answers_images (for book positions and all their images GetMove answers, no 'not in book', no Int31n panic while weights < 2^31); "
         "derived from C14 step_equivariant/transformMove_spec under PosFacts (Move sound w.r.t. the rule book and invariant-preserving, along the book lines) and ImageFact (the k-th rebuilt image shows the k-image); book_moves_legal_default: for the default games up to 6x6 and lines without the internal pass move, PosFacts/LinesOk are discharged from C01.move_refines and the piece budget, leaving ImageFact (not proved; exercised by the ssyms op) and the no-collision hypothesis. "
         "Correspondence: the two built-in books as built by playtak's init() and rebuilt, random books sharing prefixes directly and through a symmetry, malformed lines; all prefix positions under all eight maps looked up, stored replies and weights compared with the model, "
         "24 seeded real GetMove calls per position must return a stored reply accepted by Move.")
if "C04" in LEVEL:
    LEVEL["C04"]["text"] += " " + _book
else:
    level("C04", technique="(opening-book clause only) Lean 4 proof over the model of ai/opening.go + differential correspondence (book/realbook/bookget ops)", text=_book)
