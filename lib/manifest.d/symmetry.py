level("C14",
      technique="Lean 4 proof over the list-level rule book (Spec.step, Spec.outcome) for the eight maps, plus theorems about the model of symmetry.{symmetries,compose,TransformMove,Symmetries} (int8 arithmetic) + differential correspondence (syms/ssyms/xform/xmove/sxmove/xover/sxover/prefer ops)",
      text=("Proved for every board size, every state whose square list has size^2 entries (Spec.abs p always has), every move legal or not, all eight maps (no sampling): "
            "mul_table/group_laws (the 8x8 composition table is composition of the coordinate maps for all integer coordinates; associativity, unit, inverses; on-board squares go to on-board squares); "
            "step_equivariant (Spec.step (k•s) (k•m) = (Spec.step s m).map (k•): placements, slides by induction over the drop list incl. wall-flattening, reserves, opening rule; "
            "illegal stays illegal and conversely) and legality_invariant; outcome_invariant (over, winner, road/flat reason and both flat counts are equal for a state and each image: "
            "the image board is a permutation of the board; adjacency is preserved; a chain joining two opposite edges is mapped to a chain joining two opposite edges, using C02's "
            "spec_hasRoad_iff) and roadPath_invariant; winDetails_invariant (the bit-level WinDetails of two well-formed positions one of which shows the image of the other agree, through C02's winDetails_refines); "
            "transformMove_spec (for every word of basic maps — a bare map or what compose builds — every size <= 8 and every raw move with coordinates in [-100,100], any type code, any drop word: "
            "the model of the fixed TransformMove returns a move, never the 'symmetry is not sane'/'bad type' panic, and its reading is the image of the reading); "
            "symmetries_spec (the list returned by Symmetries consists of pairs (k-th rebuilt image, k), has pairwise different positions and contains every image, under the explicit hypothesis NoCollision "
            "that different images have different hashes); apply_equivariant (Move on image position/image move vs original: both rejected or both accepted with results again image/original) "
            "conditional on the C01-style hypothesis Refines (Pos.apply refines Spec.step) for the two positions."),
      note=("NOT proved: that the rebuilt image imagePos p k (At + FromSquares) shows the list-level image Sym.state k (abs p), and that Pos.apply refines Spec.step (C01's theorem) — "
            "apply_equivariant and winDetails_invariant take these as hypotheses; both links are exercised on every run by the ops ssyms (list-level image list vs Symmetries), "
            "sxmove (Spec.step on image state/move vs Move on the real image) and sxover. NoCollision is an assumption (hash collisions are outside any theorem). "
            "The model is hand-written (Impl/Symmetry.lean); its agreement with /repo is by correspondence: quick ~1.9e5 ops (random, subgroup-symmetric and symmetric-game positions; legal moves, "
            "the malformed stream, named zero-drop/off-board/zero-nibble slides under random or all 8 maps; every slide shape x type code 0..10 x on/off-board origin x 8 maps on 3x3/4x4), thorough adds sizes 5..8 and 1e5 positions. "
            "Defect found by this check on the pinned tree and fixed (bb39ff9): TransformMove panicked on a slide without drops and on type codes > SlideDown."))
level("C15",
      technique="Lean 4 proof about the list-level canonicalisation algorithm (Spec.canon: the loop of symmetry.Canonical over the rule book) via an abstract theory of canonicalisation under a group action + differential correspondence of both the bit-level model (Tak.canonical) and Spec.canon against the real Canonical (canon/scanon/canonchk ops)",
      text=("Proved for every board size, every legal game of any length and all eight maps (no sampling), for Spec.canon: canonical_legal_prefix_images (the canonical form exists, has the same length, "
            "replays legally, and each prefix leads to the image under some map of the position the same prefix of the original leads to); canonical_orbit_invariant (canon n (k•ms) = canon n ms for each of the eight maps); "
            "canonical_idempotent (canon n out = some out for out = canon n ms). Method: Proofs/CanonAbstract.lean proves the three statements for any game with a group action commuting with its step function and a strict "
            "preference order whose ties inside an orbit are equalities (invariant: board 0 = tfn•input position; two runs on step-wise images of one game have the same board 0, their transforms differ by a stabiliser "
            "element of it, and the preferred move of a stabiliser orbit is unique); Proofs/CanonTak.lean instantiates it with C14's step_equivariant and the laws of Sym.state/Sym.raw/preferMove."),
      note=("Spec.canon tests 'board k still equals board 0' by equality of the list-level image of board 0, where the Go code compares the hashes of eight separately replayed bit boards, and it composes group "
            "elements where Go composes closures. That the bit-level model Tak.canonical (eight replays through Pos.apply, hash test, TransformMove with int8 arithmetic) computes Spec.canon is NOT proved "
            "(it needs C01's refinement of Pos.apply, C08's hash = function of board and side to move, and the absence of hash collisions among the eight boards); it is checked on every run: canon (bit-level model vs Go), "
            "scanon (Spec.canon vs Go) and canonchk (the three clauses evaluated on the real code and on the model) on games biased to stay or become self-symmetric, their eight images, prefixes, double application, "
            "a malformed stream, and exhaustively on all legal games of <= 2 plies (3x3, 4x4) and 3 plies (3x3) in the quick tier, <= 4 plies on 3x3/4x4 and <= 3 on 5x5 in the thorough tier."))
