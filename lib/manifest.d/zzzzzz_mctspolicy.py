# Work package "mctspolicy": the rollout policies of the Monte-Carlo player (ai/mcts/policy.go) and `rollout` are now
# MODELLED (before: an oracle).  Addition to the C04 claim.
_pol_text = (
    "MONTE-CARLO ROLLOUTS (Props/C04_policy.lean; model Impl/MCTSPolicy.lean = ai/mcts/policy.go findPlaceWins, placeWinMove, PlaceWins.Select as fixed in 8daad40, UniformRandom.Select, "
    "and rollout / the main loop of GetMove in ai/mcts/mcts.go; math/rand = an arbitrary stream read through the contract 0 <= Int31n(n) < n, Int31n(n<=0) panics): "
    "PROVED for every random stream, every position satisfying PolicyInv (C01's WF - proved for New, FromSquares results and every successor -, at most 64 pieces in the game, and on plies 0/1 the flats "
    "of the colour being placed not exhausted; kept by every accepted move: inv_step) whose game is not over: "
    "uniform_select_legal (UniformRandom.Select returns the successor by a move of AllMoves that Move accepts = a rule-book-legal move with exactly that successor; the retry loop ends after at most len(AllMoves) "
    "draws because each refused try removes one candidate; uses C03 completeness through live_has_move: an unfinished position has an accepted, hence generated, placement), "
    "uniform_select_error (on ANY position the only failure is the Int31n(0) panic, exactly when Move refuses every generated move), placeWinMove_total (never reaches the BitCoords panic), "
    "placeWins_select_never_panics (the fixed PlaceWins.Select returns a rule-book-legal successor: the proposed flat, else the capstone on that square, else the uniform choice), "
    "pinned_select_panics (kernel-evaluated: the code before 8daad40 panics 'placeWinMove: bad move' on the live standard 5x5 position x5/x5/x5/2,2,x3/1111111111,111111111,1,1,x 1 30 for every stream) and "
    "fixed_select_on_pinnedPos (the fixed code places the capstone on e1 and wins), "
    "placeWin_square_completes_road (soundness of findPlaceWins w.r.t. C02's road predicate: on every WFBoard position from ply 2 on, every reported square is an empty board square and the flat - and the capstone - "
    "on it is accepted when in reserve and yields WinDetails = road win of the mover and a Spec.RoadPath of the mover) and placeWins_select_wins (then Select returns that winning successor without a random draw), "
    "select_mem_mayReturn (on any position an answer of Select lies in Policy.mayReturn, the set the tie checks real-stream runs against), "
    "rollout_total / rollout_total_default (rollout with either policy, any MaxRollout and threshold, the built-in evaluator (C18 eval_total): returns -1, 0 or 1 - no panic, no hang; at most MaxRollout Select calls), "
    "rollout_buffers (on buffer identities: a rollout ping-pongs between the clone and the policy's scratch buffer, never hands the policy its own scratch and touches no third buffer), "
    "mcts_move_legal_rollouts - the LIFT of mcts_move_legal: GetMove with the rollouts RUN (getMoveR: every rollout of every node reached, all drawing from one stream) instead of read from an oracle returns, for every "
    "clock/UCB/sort oracle with >= 1 iteration, a move that Move accepts; loopR_replay shows its tree is the tree of the oracle model under the replayed rollout values. "
    "NOT proved: completeness of findPlaceWins (a missed square only costs a rollout its shortcut); nothing about the QUALITY of the search. "
    "SAMPLED every run (generator C04policy, ~1.4*10^4 ops quick): findPlaceWins on raw words; placeWinMove + what the proposed placement does (win / no win / refused) on positions one placement from a road with the "
    "mover's reserve in every state, populated opening plies, full and nearly full boards - observed on the unchanged tree: a reported square never fails to win from ply 2 on an unfinished game; before ply 2 it often does not "
    "(the placed flat is the opponent's: a wasted rollout move, not a defect) and on finished games without reserves it is refused; ONE Select step of each policy under a rand.Source that DICTATES Int31n "
    "(successor position, draw count, argument untouched and not aliased, panics included); Select under the real seeded stream (answer must be in the model's set); whole rollouts with dictated draws "
    "(value and draw count, node position untouched); repeated rollouts on one player under the real stream.")
_pol_note = (
    "Rollout policies: the positions the theorems exclude do make the real code panic, as the model says and the tie reproduces - ply 0/1 with no flat left for the colour being placed has no legal move although GameOver is "
    "false (Int31n(0)); Select called on a finished game without legal move likewise; neither is reachable from New through rollout (which tests GameOver first). The policy owner's bitboard constants are assumed to be "
    "those of the position's size. Heap level: the theorems are about values; that Select may keep its argument as scratch storage is an ownership obligation on callers (stated in Impl/MCTSPolicy.lean, met by rollout "
    "through Clone, observed by the tie, not proved against the Go heap).")

if "C04" in LEVEL:
    LEVEL["C04"]["text"] += " " + _pol_text
    LEVEL["C04"]["note"] += " " + _pol_note
    if "rollout policies" not in LEVEL["C04"]["technique"]:
        LEVEL["C04"]["technique"] += " + Lean 4 proof over the model of the Monte-Carlo rollout policies and rollout (ai/mcts/policy.go, mcts.go) + differential correspondence with dictated math/rand results (pw.* ops)"
else:
    level("C04", technique="(Monte-Carlo rollout clause only) Lean 4 proof over the model of ai/mcts/policy.go and rollout + differential correspondence with dictated math/rand results (pw.* ops)",
          text=_pol_text, note=_pol_note)
