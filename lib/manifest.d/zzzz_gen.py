# Work package "gen": what became *regenerated from the source on every run* (tie #1) per property.  Appended to the owners' texts.
_GEN_TECH = " + decision logic of small pure helpers regenerated from the Go source on every run (gen/ whitelist translator) and proved equal to the model's helpers"
_GEN_TEXT = {
    "C01": (" REGENERATED on every run (Generated/FuncsTak.lean) and bridged in Props/C01_gen.lean: tak/pieces.go MakePiece, Piece.Color/Kind/IsRoad, Color.Flip "
            "(makePiece_is_source, pieceParts_is_source, ofCode_is_source: the model's piece codes are the source's for all pieces / all 256 bytes; "
            "colorFlip_is_source: Flip never panics on the three colours and is the model's flip), next to the slide-word helpers already bridged. "
            "The fn.piece / fn.flip ops run the regenerated definitions against the real functions on all 256 byte values."),
    "C02": (" REGENERATED on every run (Generated/FuncsTak.lean, FuncsOver.lean) and bridged in Props/C02_gen.lean, for ALL positions: Position.ToMove (toMove_is_source), "
            "countFlats (countFlats_is_source), flatsWinner (flatsWinner_is_source), the reserve / full-board decision of GameOver (gameOver_is_source: the model's "
            "gameOver is the regenerated GameOver applied to the position's fields and to the model's hasRoad), bitboard.Flood (flood_is_source: same fixpoint loop, same fuel). "
            "hasRoad (loop over group slices) stays a hand-written mirror and enters the regenerated GameOver as a parameter; bitboard.Popcount is the math/bits intrinsic: "
            "Gen.popcount64 is a fixed definition (gen only checks the Go body still is bits.OnesCount64(x)), validated by the fn.popcount op."),
    "C05": (" REGENERATED on every run (Generated/FuncsAI.lean, FuncsMove.lean) and bridged in Props/C05_gen.lean: teSuffices with the tableEntry struct (teSuffices_is_source, "
            "all entries with bound < 256, all depths and windows; WinThreshold and the bound codes are evaluated from the source), Move.Equal (moveEqual_is_source)."),
    "C14": (" REGENERATED on every run (Generated/FuncsSym.lean, FuncsMove.lean) and bridged in Props/C14_gen.lean: the eight closures of symmetries(size) incl. flip "
            "(symBasic_is_source: for every size, every k, all int8 coordinates), Move.IsSlide and Move.Dest with Slides.Len as TransformMove calls them "
            "(isSlide_is_source, dest_is_source; the fuel 8 of Len's `for s != 0` loop is proved sufficient for every 32-bit word: GenMove.slidesLen_fuel)."),
    "C15": (" REGENERATED on every run (Generated/FuncsSym.lean) and bridged in Props/C15_gen.lean: preferMove (preferMove_is_source, all moves with Type < 256)."),
    "C08": (" REGENERATED on every run (Generated/FuncsTak.lean) and bridged in Props/C08_gen.lean for ALL positions: Position.Hash() "
            "(hashOf_is_source: the fold of the hash field with the four bitboards and ToMove, over the regenerated hash64/hash8)."),
    "C18": (" REGENERATED on every run (Generated/FuncsEval.lean, on top of FuncsTak/FuncsOver) and bridged in Props/C18_gen.lean, for ALL positions and ALL weight vectors: "
            "evaluateTerminal (evaluateTerminal_is_source: the position enters through WinDetails(), WhiteStones(), BlackStones(), Size(), MoveNumber() and the regenerated ToMove; "
            "the weights through the four constant indices read; WinBase is evaluated from the source) and EvaluateWinner (evaluateWinner_is_source, through the regenerated GameOver). "
            "int64 is modelled as Int (no overflow for the weights in range, see the range theorems). bitboard.Dimensions (dimensions_is_source: whenever the model's loops end the regenerated "
            "function returns the same width/height; dimensions_width_fuel / dimensions_count_fuel: the whitelist fuel 70 of the counting loops suffices for every 64-bit mask)."),
    "C20": (" REGENERATED on every run (Generated/FuncsFPA.lean, FuncsMove.lean) and bridged in Props/C20_gen.lean: isCentered, isCenterAdjacent (for every board size < 250; "
            "p enters through p.Size() only), distance (all int8 arguments incl. wrap-around), dir (same type / same panic), Move.IsSlide, Move.Dest (destOf_is_source)."),
}
_GEN_NOTE = (" Regenerated definitions: int8 is modelled as Int with wrap8 after every arithmetic step (arguments assumed in int8 range), struct parameters that are not "
             "translatable (tak.Position) are replaced by the fields / accessor results the function reads; a function that leaves the translator's subset breaks the "
             "obligation `gen` of exactly the properties that use its generated file (others keep the last good file). The translation scheme itself is trusted and "
             "validated on every run by fn.* ops (regenerated definition vs real function).")
for _pid, _t in _GEN_TEXT.items():
    if _pid in LEVEL:
        LEVEL[_pid]["text"] += _t
        LEVEL[_pid]["note"] += _GEN_NOTE
        if "regenerated from the Go source" not in LEVEL[_pid]["technique"]:
            LEVEL[_pid]["technique"] += _GEN_TECH
