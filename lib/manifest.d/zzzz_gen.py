# Work package "gen": what became *regenerated from the source on every run* (tie #1) per property.  Appended to the owners' texts.
_GEN_TECH = " + decision logic of small pure helpers regenerated from the Go source on every run (gen/ whitelist translator) and proved equal to the model's helpers"
_GEN_TEXT = {
    "C01": (" REGENERATED on every run (Generated/FuncsTak.lean) and bridged in Props/C01_gen.lean: tak/pieces.go MakePiece, Piece.Color/Kind/IsRoad, Color.Flip "
            "(makePiece_is_source, pieceParts_is_source, ofCode_is_source: the model's piece codes are the source's for all pieces / all 256 bytes; "
            "colorFlip_is_source: Flip never panics on the three colours and is the model's flip), next to the slide-word helpers already bridged. "
            "The fn.piece / fn.flip ops run the regenerated definitions against the real functions on all 256 byte values."),
    "C02": (" REGENERATED on every run (Generated/FuncsTak.lean, FuncsOver.lean) and bridged in Props/C02_gen.lean, for ALL positions: Position.ToMove (toMove_is_source), "
            "countFlats (countFlats_is_source), flatsWinner (flatsWinner_is_source), the reserve / full-board decision of GameOver (gameOver_is_source: the model's "
            "gameOver is the regenerated GameOver applied to the position's fields and to the model's hasRoad), bitboard.Flood (flood_is_source: same fixpoint loop, same fuel). "
            "hasRoad (loop over group slices) stays a hand-written mirror and enters the regenerated GameOver as a parameter; bitboard.Popcount is the math/bits intrinsic: "
            "Gen.popcount64 is a fixed definition (gen only checks the Go body still is bits.OnesCount64(x)), validated by the fn.popcount op."),
    "C05": (" REGENERATED on every run (Generated/FuncsAI.lean, FuncsMove.lean) and bridged in Props/C05_gen.lean: teSuffices with the tableEntry struct (teSuffices_is_source, "
            "all entries with bound < 256, all depths and windows; WinThreshold and the bound codes are evaluated from the source), Move.Equal (moveEqual_is_source)."),
    "C14": (" REGENERATED on every run (Generated/FuncsSym.lean, FuncsMove.lean) and bridged in Props/C14_gen.lean: the eight closures of symmetries(size) incl. flip "
            "(symBasic_is_source: for every size, every k, all int8 coordinates), Move.IsSlide and Move.Dest with Slides.Len as TransformMove calls them "
            "(isSlide_is_source, dest_is_source; the fuel 8 of Len's `for s != 0` loop is proved sufficient for every 32-bit word: GenMove.slidesLen_fuel)."),
    "C15": (" REGENERATED on every run (Generated/FuncsSym.lean) and bridged in Props/C15_gen.lean: preferMove (preferMove_is_source, all moves with Type < 256)."),
    "C08": (" REGENERATED on every run (Generated/FuncsTak.lean) and bridged in Props/C08_gen.lean for ALL positions: Position.Hash() "
            "(hashOf_is_source: the fold of the hash field with the four bitboards and ToMove, over the regenerated hash64/hash8)."),
    "C18": (" REGENERATED on every run (Generated/FuncsEval.lean, on top of FuncsTak/FuncsOver) and bridged in Props/C18_gen.lean, for ALL positions and ALL weight vectors: "
            "evaluateTerminal (evaluateTerminal_is_source: the position enters through WinDetails(), WhiteStones(), BlackStones(), Size(), MoveNumber() and the regenerated ToMove; "
            "the weights through the four constant indices read; WinBase is evaluated from the source) and EvaluateWinner (evaluateWinner_is_source, through the regenerated GameOver). "
            "int64 is modelled as Int (no overflow for the weights in range, see the range theorems). bitboard.Dimensions (dimensions_is_source: whenever the model's loops end the regenerated "
            "function returns the same width/height; dimensions_width_fuel / dimensions_count_fuel: the whitelist fuel 70 of the counting loops suffices for every 64-bit mask)."),
    "C20": (" REGENERATED on every run (Generated/FuncsFPA.lean, FuncsMove.lean) and bridged in Props/C20_gen.lean: isCentered, isCenterAdjacent (for every board size < 250; "
            "p enters through p.Size() only), distance (all int8 arguments incl. wrap-around), dir (same type / same panic), Move.IsSlide, Move.Dest (destOf_is_source)."),
}
_GEN_NOTE = (" Regenerated definitions: int8 is modelled as Int with wrap8 after every arithmetic step (arguments assumed in int8 range), struct parameters that are not "
             "translatable (tak.Position) are replaced by the fields / accessor results the function reads; a function that leaves the translator's subset breaks the "
             "obligation `gen` of exactly the properties that use its generated file (others keep the last good file). The translation scheme itself is trusted and "
             "validated on every run by fn.* ops (regenerated definition vs real function).")
# Second round (work package "gen2"): slice-reading and slice-building functions, Go's index panics explicit.
_GEN2_TEXT = {
    "C01": (" SECOND ROUND (Generated/FuncsPos.lean, bridged in Props/C01_gen2.lean): Position.Top and Position.At - the two functions through which the list-level view of a "
            "position reads the bitboards, Height and Stacks - are regenerated with Go's index panics explicit (result Option, none = panic): top_is_source (for every x, y with "
            "x + y*size = i < 2^64: the regenerated Top is the model's topAt i), at_is_source (on every square inside Height/Stacks whose stack is non-empty when a colour bit is set, "
            "the regenerated At - make, sq[0] = Top, the loop of element assignments - returns the model's squareAt i as Go bytes), at_panics (a colour bit over Height 0 is Go's panic)."),
    "C02": (" SECOND ROUND (Generated/FuncsRoad.lean, bridged in Props/C02_gen2.lean): Position.hasRoad (the two loops over the group slices with their breaks) and bitboard.FloodGroups "
            "(the loop over the set bits with its appends, calling the regenerated Flood) are regenerated: hasRoad_is_source (all positions), gameOver_is_source_full (the model's gameOver "
            "is the regenerated GameOver applied to the regenerated hasRoad: nothing of the game-end decision is a hand-written mirror any more), floodGroups_is_source (the model's group "
            "enumeration is the regenerated function; whitelist fuel 66 = the model's 65 + 1), analyze_is_source (the stored group lists are the regenerated FloodGroups of the road pieces), "
            "winDetails_is_source (Position.WinDetails - over?, winner, road or flats, the flat counts - is the regenerated function of the fields and the regenerated hasRoad)."),
    "C03": (" REGENERATED on every run (Generated/FuncsMoveGen.lean) and bridged in Props/C03_gen.lean: tak.MkSlides, calculateSlides, the init that fills the `slides` table, and "
            "Position.AllMoves itself (four nested loops, appends, continues, the index reads p.Height[i] and slides[h], a local struct type and an array literal), with Go's index panics "
            "explicit. slidesInit_is_source: the table the regenerated init builds from the zero value IS the model's slidesTable (kernel evaluation of the finite table). "
            "allMoves_is_source: for EVERY position of a board of size <= 8 whose Height slice covers the board (all that alloc builds) the regenerated AllMoves(nil) does not panic and "
            "returns the model's Pos.allMoves, move for move, in the same order - so the completeness / no-duplicate / on-board theorems are theorems about the function gen reads out of "
            "tak/move.go (gen_allMoves_complete, gen_allMoves_sound, gen_allMoves_total). The fn.allmoves op compares the regenerated generator with the real one in generation ORDER (not sorted), "
            "also with a non-empty slice to append to; fn.slidesinit / fn.calcslides / fn.mkslides compare the table, its rows (incl. byte(stack) wrap-around and out-of-range rows) and MkSlides (incl. its panic)."),
    "C06": (" REGENERATED on every run (Generated/FuncsProve.lean) and bridged in Props/C06_gen.lean: DFPNSolver.terminalBounds (terminalBounds_is_source: for any game whose side to move is "
            "read from the ply as Position.ToMove does, any attacker and result, the regenerated function does not panic and returns the model's bounds; INFINITY is evaluated from the source) "
            "and the flag readers of the proof-number node, expanded / andNode / proof / disproof (nodeFlags_is_source: the int8 bit tests read the model's three booleans; the flag constants "
            "come from Facts). The fn.termbounds / fn.nodeflags ops run them against the real functions (all 256 flag bytes; panicking attackers)."),
    "C08": (" SECOND ROUND (Generated/FuncsPos.lean, bridged in Props/C08_gen2.lean): Position.hashAt (reads Height[i], Stacks[i] and the Zobrist table basis[i], a package-level variable = a "
            "parameter of the regenerated function) and Position.Equal (field comparisons and the loop over Height/Stacks with its early return) are regenerated with Go's index panics explicit: "
            "hashAt_is_source / hashAt_panics, equal_is_source (the model's equal is the regenerated function whenever the Height/Stacks slices of both positions cover len(p.Height), "
            "as alloc guarantees)."),
    "C14": (" SECOND ROUND (Generated/FuncsSymMove.lean, bridged in Props/C14_gen2.lean): symmetry.TransformMove itself is regenerated (function-typed parameter, struct copy with field update, "
            "the panicking callees MkSlides(1) and Dest(), the default: panic arm): transformMove_is_source - for every composition s of the eight regenerated maps and every move whose type is a "
            "byte, the model's transformMove is the regenerated function applied to s (an error of the model = none = a Go panic)."),
}
_GEN2_NOTE = (" Second-round conventions of the translator: slices/arrays are Lean Arrays; an index read is `getD` AFTER an explicit guard in front of the statement, so the regenerated function "
              "returns none exactly where Go panics (index out of range, explicit panic, a panicking callee, a `<=` loop over a byte that never ends, fuel of a general loop exhausted); "
              "`&&`/`||` keep their short-circuit meaning in the guards; range loops are structural recursion over the list, counted loops recursion on the exact iteration count; package-level "
              "variables are explicit parameters (the fn.* ops pass the real values); uint is Nat (no wrap-around), uint(v) of a negative v is v mod 2^64.")
for _pid, _t in _GEN_TEXT.items():
    if _pid in LEVEL:
        LEVEL[_pid]["text"] += _t
        LEVEL[_pid]["note"] += _GEN_NOTE
        if "regenerated from the Go source" not in LEVEL[_pid]["technique"]:
            LEVEL[_pid]["technique"] += _GEN_TECH
for _pid, _t in _GEN2_TEXT.items():
    if _pid in LEVEL:
        LEVEL[_pid]["text"] += _t
        if "Second-round conventions" not in LEVEL[_pid]["note"]:
            LEVEL[_pid]["note"] += _GEN2_NOTE
        if "regenerated from the Go source" not in LEVEL[_pid]["technique"]:
            LEVEL[_pid]["technique"] += _GEN_TECH

# Third round (work package "gen3"): functions that assign through a pointer parameter - Position.MovePreallocated itself.
_GEN3_TECH = " + Position.MovePreallocated itself regenerated from tak/move.go on every run and proved equal to the model (Props/C01_gen3.lean: the tie for MovePreallocated is a regenerated definition + bridge theorem, not only sampling)"
_GEN3_TEXT = {
    "C01": (" THIRD ROUND (Generated/FuncsApply.lean, bridged in Props/C01_gen3.lean): Position.MovePreallocated ITSELF, Position.analyze and Slides.Iterator are regenerated from the "
            "source on every run (mutation through `next *Position` kept as state, the `stones *byte` alias resolved statically per path, fallthrough, `return nil, Err` = .error (), "
            "Go's panics = none; alloc / copyPosition abstracted as the declared copy `next is a copy of p`, the storage itself being C09's subject). movePreallocated_is_source: for EVERY "
            "position of a board of size <= 8 whose Height / Stacks cover the board (well-formed or not), EVERY raw move value (any coordinates, any type byte, any 32-bit slide word), both "
            "values of `next == nil` and any basis table covering the board, the regenerated function returns exactly what the hand-written model Pos.apply returns - same error / panic class "
            "or the same successor field for field (incl. the hash field and the group lists). Hence gen_move_total and gen_move_refines: C01's theorems (never panics, succeeds iff legal, "
            "exact successor, well-formedness preserved) are theorems about the function gen reads out of tak/move.go. The fn.apply / fn.analyze ops (generator FNAPPLY) run the real "
            "MovePreallocated (into nil, into Alloc(size), into a dirty position) against the regenerated definition on raw positions (a quarter malformed) and every raw move class of "
            "C01's generator, comparing the successor field for field."),
    "C03": (" THIRD ROUND (Props/C03_gen3.lean): gen_allMoves_complete_gen_engine - every non-pass raw move the REGENERATED MovePreallocated accepts is Equal to an entry of the slice the "
            "REGENERATED AllMoves returns (both sides of the completeness claim are functions read out of tak/move.go; bridges C03_gen.allMoves_is_source and C01_gen3.movePreallocated_is_source). "
            "FNAPPLY runs with C03 as well."),
    "C08": (" THIRD ROUND (Props/C08_gen3.lean): gen_hash_inv - the incremental-hash theorem stated for the REGENERATED MovePreallocated: from a position satisfying HInv whose slices cover the board, "
            "whatever move value the regenerated function accepts, the hash field it returns is the from-scratch fold over the Height / Stacks it returns (the three `next.hash ^= next.hashAt(i)` "
            "brackets are read from the source, not mirrored by hand). FNAPPLY (successor incl. the hash field, field for field) runs with C08 as well."),
}
_GEN3_NOTE = (" Third-round conventions of the translator: the pointee of a pointer parameter is state (one Lean variable per assignable field, the function returns the tuple of them); "
              "a field that is not an input is tracked and may not be read before it is assigned or copied; `alloc` / `copyPosition` are DECLARED to mean `next becomes a copy of p` (storage: C09); "
              "`(T, error)` is Except Unit T (error texts not modelled; only statically non-nil errors accepted); pointer aliases are resolved statically or rejected; uint is Nat - in "
              "MovePreallocated every uint subtraction is guarded by the code's own checks (ct >= c >= 1), which the bridge proof goes through.")
for _pid, _t in _GEN3_TEXT.items():
    if _pid in LEVEL:
        LEVEL[_pid]["text"] += _t
        if "Third-round conventions" not in LEVEL[_pid]["note"]:
            LEVEL[_pid]["note"] += _GEN3_NOTE
        if "MovePreallocated itself regenerated" not in LEVEL[_pid]["technique"]:
            LEVEL[_pid]["technique"] += _GEN3_TECH

# Fourth round (work package "gen4"): the threat detector and the heuristic evaluator of ai/evaluate.go.
_GEN4_TECH = {
    "C18": " + ai.evaluate ITSELF (with mobility, scoreGroups, scoreThreats, computeInfluence / computeControl, scoreControl and the init that builds DefaultWeights) regenerated from ai/evaluate.go on every run and proved equal to the model (Props/C18_gen2.lean: the tie for the evaluator is a regenerated definition + bridge theorems, not only sampling)",
    "C19": " + ai.CountThreats ITSELF regenerated from ai/evaluate.go on every run and proved equal to the model for all constants and positions (Props/C19_gen.lean: threat_real is a theorem about the regenerated detector)",
}
_GEN4_TEXT = {
    "C19": (" REGENERATED on every run (Generated/FuncsThreat.lean) and bridged in Props/C19_gen.lean: ai.CountThreats itself - the closure countOne with its captured variables (c, empty, and "
            "the fields p.Standing / p.Caps of the position), the two range loops, the inner `for { .. break .. }` loop over `earlier groups, then single flats` with the index read gs[j], "
            "the four edge tests - is translated from ai/evaluate.go; p.Analysis() enters as the stored group lists. countThreats_is_source: for EVERY Constants value and EVERY position (no "
            "well-formedness assumed) the regenerated function returns (gs[j] never panics; the whitelist fuel len(gs)+65 of the inner loop suffices) and its four results are the model's counts. "
            "Hence gen_threat_real / gen_threat_real_rulebook: C19's theorem is about the function gen reads out of the source; gen_countThreats_total. The fn.threats op (generator FNTHREAT) runs "
            "the real CountThreats against the regenerated definition on gap / junction / many-singles / many-groups / extremal / small boards and arbitrary raw states."),
    "C18": (" FOURTH ROUND (Generated/FuncsHeur.lean, on top of FuncsThreat.lean; bridged in Props/C18_gen2.lean, lemmas in Proofs/GenHeur.lean, GenControl.lean, GenEvalMain.lean): ai.evaluate itself "
            "and every helper it calls are translated from ai/evaluate.go - `w *Weights` as ONE array parameter with the computed index ws[int(Groups)+w] guarded against the STATIC length 36 (Go's index panic = none), "
            "the range loop over p.Height with p.Stacks[i], the joined ifs and the switch, the hoisted calls of mobility (four general loops, fuel height+1), scoreGroups (over the regenerated Dimensions), "
            "scoreThreats (over the regenerated CountThreats), computeInfluence (an OUT-PARAMETER function: the ripple-carry counters are assigned in place; `computeInfluence(c, x, wi[:])` = `let wi := ..`), "
            "computeControl (`var wi, bi [3]uint64`, the down-counting loop), scoreControl, and the init() that builds DefaultWeights (arrays as values, range over an array). "
            "Helper by helper, for ALL arguments: mobility_is_source, scoreThreats_is_source, computeControl_is_source, scoreControl_is_source, computeInfluence_is_source (three zeroed counters), "
            "scoreGroups_is_source (whenever the model returns a value); defaultWeights_is_source (the regenerated init applied to the source's two tables builds the model's DefaultWeights: kernel evaluation). "
            "evaluate_is_source: for every Constants value, every weight vector and every position whose Height has at most 64 entries covered by Stacks, whenever the model's evaluate returns a value "
            "(finished game or not) the regenerated evaluator returns the same value; evaluateDefault_is_source for the MakeEvaluator(size, nil) path. Hence gen_eval_total (the regenerated evaluator returns on "
            "every RoadWF position: no index panic, every loop inside its whitelist fuel), gen_eval_abs_le, gen_c18 (C18 in one statement - within [MinEval, MaxEval], strictly inside the threshold for "
            "undecided games, 0 / beyond the threshold with the right sign for finished ones - for the function gen reads out of the source) and gen_beyond_threshold_is_over. "
            "The fn.evalw / fn.evalparts / fn.mobility / fn.control / fn.influence / fn.evalinit ops (generator FNHEUR) run the real functions against the regenerated definitions (exact int64 equality) on playouts, extremal, "
            "finished, gap, many-singles boards and arbitrary raw states (heights to 255), with the built-in, one-hot, group-distinguishing, Potential=Threat=0, EmptyControl=FlatControl=0 and random weight vectors."),
}
_GEN4_NOTE = (" Fourth-round conventions of the translator: an abstract array parameter with the view `[all]` is one Array parameter, a computed index into it is checked against the static length of the Go array type; "
              "`x := p.Analysis()` names the field path p.analysis (gen checks the accessor's body still is `return &p.analysis`); a local closure may read views of the enclosing function's abstract parameters, contain loops and be "
              "Option-valued; `for { .. break .. }` is a general loop with whitelist fuel; a function that assigns the ELEMENTS of a slice parameter (declared `outParam`; never the slice itself, never append) returns its final value and the "
              "call statement rebinds the caller's variable (the caller's variable may have no second name); MakeEvaluator itself (it returns a func value) stays a three-line hand mirror (evaluateDefault); hasRoad() / WinDetails() / GameOver() "
              "enter evaluate as the regenerated functions of the earlier rounds; int64 is Int (no overflow: C18's bound).")
for _pid, _t in _GEN4_TEXT.items():
    if _pid in LEVEL:
        LEVEL[_pid]["text"] += _t
        if "Fourth-round conventions" not in LEVEL[_pid]["note"]:
            LEVEL[_pid]["note"] += (_GEN_NOTE if "Regenerated definitions:" not in LEVEL[_pid]["note"] else "") + _GEN4_NOTE
        LEVEL[_pid]["technique"] += _GEN4_TECH[_pid]
# the owners' notes predate the regenerated definitions: say what still is tied by sampling only
if "C19" in LEVEL:
    LEVEL["C19"]["note"] = LEVEL["C19"]["note"].replace(
        "The models of CountThreats/Move are tied to the Go code by testing, not proof.",
        "The models of CountThreats and MovePreallocated are tied to the Go code by regenerated definitions + bridge theorems (C19_gen, C01_gen3) in addition to the sampling; what stays tied by sampling only is the translator's scheme itself (fn.* ops).")
if "C18" in LEVEL:
    LEVEL["C18"]["note"] = LEVEL["C18"]["note"].replace(
        "the model is tied to the Go code by testing, not proof.",
        "the model of evaluate / evaluateTerminal / EvaluateWinner is tied to the Go code by regenerated definitions + bridge theorems (C18_gen, C18_gen2) in addition to the sampling; MakeEvaluator's three lines and the translator's scheme itself are tied by sampling only.")
