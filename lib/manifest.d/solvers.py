level("C06",
      technique="Lean 4 theorems over an abstract game graph, instantiated by the bit-level Tak model; exact executable mirror of prove/pn.go and prove/dfpn.go tied by differential correspondence; verdicts compared with ground truth from retrograde analysis",
      text=("Proved (Props/C06.lean, for every abstract game with alternating players and < 2^32 moves per position, hence for the Tak model, "
            "for every configuration: node limit, depth limit, preserve-solved, PN-squared, any fuel): in the model of Prover.Prove every node of the "
            "search tree with proof number 0 stands for a position with a forced win of the attacker, and every node with disproof number 0 for a "
            "position without one (a third occurrence on the path counting against the attacker) unless MaxDepth cut the tree (pn_numbers_sound); the "
            "invariant is preserved by every primitive tree operation in any order (pn_numbers_sound_any_schedule: selection rule, node limits and "
            "PN-squared schedule are irrelevant to soundness); verdict 'proven' => forced win and the returned move is legal and keeps the win "
            "(pn_proven_sound, pn_move_sound), 'disproven' => no forced win (pn_disproven_sound; after the depth-limit fix without a MaxDepth hypothesis); "
            "a plain forced win is a forced win under the threefold-repetition rule when Equal identifies only positions the rules cannot tell apart "
            "(plainWin_forcedWin). NOT proved: the theorems assume the ghost flag `anomaly` of the run is false (a solved node is never expanded or "
            "renumbered again; this can only happen after a 32-bit sum of proof numbers saturates, never observed); the depth-first solver (table, "
            "replacement, killer moves, CountThreats shortcut) is covered by the exact mirror, the correspondence and the ground-truth comparison only "
            "- its soundness theorems are not finished; a disproof of the depth-first solver that rests on a repetition stored in the table "
            "(graph-history interaction) is not excluded by a theorem, no failing input was found in ~10^5 real runs. "
            "Sampled, not proved: that the Go code equals the model (every field of every result compared on each run) and that model verdicts equal "
            "the retrograde truth on the explored graphs."),
      note=("Defects found by this check and fixed in /repo: PN depth limit reported 'disproven' (3a5b70b), DFPN verdict inverted when the attacker is not to move (8004269), "
            "DFPN on a finished game wrong or non-terminating (20025c0). The float factor 1.1 of the DFPN threshold is computed with Lean's Float in the driver and is an "
            "arbitrary function in the model. Constants of package prove are re-extracted into Generated/FactsProve.lean (epsilon = 0.1 is a float literal and is compared "
            "only through the correspondence)."))
