level("C06",
      technique="Lean 4 theorems over an abstract game graph instantiated by the Tak model + exact mirror of prove/pn.go and prove/dfpn.go tied by differential correspondence + ground truth by retrograde analysis",
      text=("placeholder - rewritten when Props/C06.lean lands"),
      note="placeholder")
