# Work package "legalshape": "the move was legal when played" connected to the notation theorems (C11) and to what
# rests on them (C12 moveSafe, C17 SearcherCanonical, C07 wire form).  Additions to existing claims.
def _legal_add(pid, text, note):
    lv = LEVEL.get(pid)
    if lv is None:
        return
    lv["text"] = lv["text"] + " " + text
    lv["note"] = lv["note"] + " " + note

_legal_add("C11",
    "LEGAL-SHAPE LINK (Props/C11_legal.lean, helper Proofs/LegalShape.lean; Notation.normalize m = m with the Slides word cleared when m.Type < SlideLeft, i.e. exactly the field Move.Equal ignores): "
    "PROVED, all positions / all raw move values (any int8 coordinates, any type byte, any 32-bit Slides word), sizes 3..8: "
    "normalize_equal, equal_iff_normalize (m.Equal(r) iff normalize m = normalize r: normalize picks one representative per Equal class), normalize_transparent (Spec.decode, Spec.step and the model of MovePreallocated "
    "return the same for m and normalize m); step_legalShape (whatever the rule book accepts has a normal form in LegalShape size - the pass and invalid type codes are rejected by the rule book, no side condition), "
    "apply_legalShape (the same for the model of MovePreallocated on ANY position, well-formed or not, read off its own acceptance tests; hypothesis m.Type != Pass because the engine applies its internal pass), "
    "apply_legalShape_wf / apply_legalShape_via_rules (over C01's WF; the second through C01.move_refines - both routes agree), allMoves_legalShape (every generated move is a LegalShape as it stands), "
    "normalize_mem_allMoves (for an accepted raw move the AllMoves entry Equal to it IS normalize m); "
    "legal_move_notations_roundtrip - for every raw move m the engine accepts (not the pass), n = normalize m: n.Equal(m), the engine treats n as m, FormatMove/FormatMoveLong/FormatServer of n parse back to n, with any "
    "suffix over !?'* on the PTN forms, and ParseServer(FormatServer m) = n for the RAW m (FormatServer never reads the Slides word of a placement); legal_moves_notations_agree (two accepted moves are spelled alike iff Equal); "
    "ptn_junk_placement_not_roundtrip - the normalisation is NEEDED for PTN: on the 5x5 start position the placement a1 with Slides = 3 is accepted (Equal to the generated a1) but FormatMove prints '3a1', which ParseMove rejects. "
    "legalShape_legal_somewhere (converse: every LegalShape of size n is accepted by the rule book in some n x n position - a placement on the empty board at ply 2, a slide from a stack of exactly the carried number of the mover's flats on an otherwise empty board) and legalShape_iff_legal_somewhere: LegalShape size m iff m is normal and legal in some position of that size. So the domain of the C11 theorems is EXACTLY 'every legal move on every board size' of the property, up to Move.Equal. "
    "SAMPLED (generator C11legal, op legalraw, ~1.2*10^4 (position, move) pairs per quick run): on the real code, per pair: accepted or not; Move.Equal both ways against the cleared value; Position.Move of the cleared value = "
    "identical successor; for accepted non-pass moves the AllMoves entry Equal to it (= normalize m), membership of the cleared value in the harness' legal-shape enumeration, FormatMove/ParseMove of the raw and of the cleared value, "
    "FormatServer/ParseServer of the raw value; the model additionally checks its answers against the theorems (MODEL-THM-FAIL). Observed on the unchanged tree: ~98% of accepted placements with a junk Slides word "
    "print a PTN text that ParseMove rejects (the rest print the clean text), all of them print the clean wire text.",
    "normalize has no counterpart in the Go code; it is tied to it through Move.Equal, AllMoves and Position.Move (three observations per accepted move). The junk-Slides placement is not a violation of C11 as stated "
    "(its quantifier is over placements and slide compositions, i.e. canonical values; ParseMove, ParseServer and AllMoves only ever produce canonical values: C12_legal.parsed_moves_canonical, allMoves_legalShape) - "
    "it is a latent hazard for code that builds tak.Move values by hand and then prints them with ptn.FormatMove.")

_legal_add("C12",
    "LEGAL REPLAYS (Props/C12_legal.lean, helper Proofs/LegalShapePTN.lean): the hypothesis 'every recorded move has a legal shape' of render_parse_bytes_real / render_parse_games is DERIVED from the record: "
    "moveSafe_of_legal (every non-pass raw move the model of MovePreallocated accepts on a 3..8 board: its normal form is moveSafe for the real FormatMove/ParseMove; the move itself if it is normal), "
    "LegalReplay (the recorded moves apply one after the other from the start position = frames_spec clause 1 run to the end of the record; none is the pass; placements carry an empty Slides word), "
    "replay_applies_of_frames (in the iterator's terms: a frame after every recorded move), legal_replay_legalShape, render_parse_bytes_legal (iff dataSafe), "
    "render_parse_legal_games (the property as stated, BOM or not, for every legally replayed record with GameData = the data clauses only), parsed_moves_canonical (whatever the real ParseMove returns - hence every move of a file "
    "the linked ParsePTN returns - is a placement with empty Slides word or a slide: normal, never the pass, never type 0), reparse_stable_legal (a parsed file whose moves apply in order re-renders losslessly; movesSafe no longer assumed).",
    "The two value conditions of LegalReplay (not the pass, placements normal) are automatic for moves from ParseMove and from AllMoves; for hand-built tak.Move values the second is needed (C11_legal.ptn_junk_placement_not_roundtrip). "
    "Moves after a game-ending move are not replayed by the iterator; LegalReplay asks that they apply too (Position.Move does not look at the end of the game).")

_legal_add("C17",
    "SEARCHER CONTRACT FROM LEGALITY (Props/C17_legal.lean): SearcherLegal (on a live position of a 3..8 board the PV head is accepted by Position.Move, is not the pass and is normal) and SearcherGenerated (accepted and a member of AllMoves) "
    "replace SearcherCanonical's shape clause: searcherLegal_of_generated, searcherCanonical_of_legal (LegalShape of the PV head follows from its legality, C11_legal.apply_legalShape), "
    "client_server_bestmove_legal_of_accepted (client_server_bestmove_legal under SearcherLegal; additionally the returned move is a LegalShape). A concrete searcher satisfying SearcherGenerated is exhibited (first accepted generated move).",
    "Normal form cannot be dropped from the contract: the engine prints the PV head with FormatMove, which prints a stray Slides word of a placement, and the client's ParseMove rejects that text. The searching players take their moves from AllMoves (C04/C03), "
    "which SearcherGenerated states as a hypothesis; it is not derived from the search model here.")

_legal_add("C07",
    "WIRE FORM OF THE BOT'S OWN MOVES (Props/C07_legal.lean, helper Proofs/LegalShapeBot.lean): bot_board_size (in every reachable state of a game started on size 3..8 the record's position, every recorded position and every "
    "position at which a move was transmitted have that size: the loop only gets positions from Position.Move), bot_sent_moves_wire (for every interleaving and whatever the AI answers: every transmitted move m other than the pass "
    "has normalize m in LegalShape size, ParseServer(FormatServer m) = normalize m, which is Equal to m and legal in the position it was sent in = the server's current position).",
    "Position.Move accepts the engine's internal pass, so an AI answering Pass would have it transmitted (example in C07_legal.lean); the pass has no playtak wire form and is excluded by hypothesis (no searching player returns it). "
    "ParseServer on the SERVER's lines remains an input of the deliver event.")
