level("C09",
      technique="Lean 4 proof (induction over op sequences, separation invariant with an ownership map) about a hand-written heap model of Go slices + differential correspondence of that model and of the pure value model against the real code",
      text=("Proved (Props/C09.lean, for ALL op sequences over New / hand-built value / Clone / Move / MovePreallocated with any buffer other than the source "
            "- live positions, dead buffers, buffers other live positions were derived from - incl. failed moves, all sizes): "
            "heap_refines_pure: after any sequence the heap model is Separated (every object's WhiteGroups header and every live position's BlackGroups header "
            "point, within bounds, into arrays owned by that object alone: its own Groups array or arrays allocated by append during its own analyze; BlackGroups "
            "lies behind the used part of WhiteGroups) and every live handle observes - scalars, Height/Stacks and both group slices read through their headers - exactly "
            "the value of the pure semantics (Clone = same value, Move = Pos.apply, failed move = no value). Corollaries: move_preserves_source, movepre_preserves_source, "
            "move_preserves_earlier_results (any live handle keeps its value across any later ops until it is itself handed in as a buffer), failed_move_preserves_all, "
            "clone_observationally_identical + clone_independent (a clone observes the identical Pos, hence squares/verdict/groups/moves/hash, immediately and after either "
            "side is used or its storage reused), values_analysed, interpreters_agree, wellformed_not_rejected. clone_pinned_counterexample (kernel-evaluated): the pinned Clone "
            "(alloc without analyze) reports a won game as not over and has its BlackGroups changed by reuse of the source's storage - the defect fixed in fbe43a9. "
            "Sampled (every run): the heap model AND the pure model agree with the real tak package on random op sequences with aggressive buffer reuse, all live handles dumped "
            "(position, groups, verdict, hash, move count) after every op; the driver executes the very functions the theorem is about (HState.step / PState.step). "
            "Also compared per live handle: the slice HEADERS of the real object (WhiteGroups in the object's own array or an appended one, len, cap, offset/cap of BlackGroups behind it, "
            "Height/Stacks inside the object) with the model's headers, as far as append's growth policy does not enter; and on real addresses that the storage windows of distinct "
            "objects are pairwise disjoint (always 'yes' in the model by the theorem; 'no' thousands of times on the pre-fix tree). Domino boards make append reallocate."),
      note=("The heap model of slices (arrays in a store, headers (arr, off, len, cap), append in place / reallocating, analyze's re-slicing, alloc's and copyPosition's header handling) "
            "is hand-written from tak/alloc.go, tak/game.go, tak/move.go, bitboard/bits.go and tied to the code only by the correspondence. Abstracted: Go's GC and escape analysis "
            "(objects and arrays are never freed or moved in the model), append's growth policy (the model doubles; under separation the capacity of a reallocated array is unobservable, "
            "and the theorem holds for the model's policy only), the shared *Config pointer (immutable after New, modelled as a value), Height/Stacks as per-object arrays "
            "(alloc/copyPosition always re-point these two headers at the object's own arrays - argued in Impl/Alloc.lean, not proved from the Go text). "
            "MovePreallocated with buffer == source is outside the property (rejected by the model). ai/mcts.go's use of these APIs is not modelled. "
            "The value a failed move leaves in its buffer is not specified (the buffer is only reusable as a buffer). Concurrency is out of scope."))
