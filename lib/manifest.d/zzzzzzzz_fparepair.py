# Work package "fparepair": the FPA rules' notes are rebuilt from the game record (fixes/C07-fpa-record-notes.diff).
def _fparepair_add(pid, text, note):
    lv = LEVEL.get(pid)
    if lv is None:
        return
    lv["text"] = lv["text"] + " " + text
    lv["note"] = lv["note"] + " " + note

_fparepair_add("C20",
    "FPA NOTES FROM THE RECORD (fixes/C07-fpa-record-notes.diff; model Impl/FPARepair.lean, Impl/Friendly.lean; Props/C20_repair.lean, Proofs/FPARepair.lean). "
    "The model of Friendly.GetMove is of the patched code: before judging the newest pair the rule is shown the older pairs of the record, oldest first, and LegalMove on a ply-0 position starts from a fresh rule value "
    "(the tree before the patch is kept as friendlyGetMovePinned / prevCheckPinned for the counterexamples). PROVED: holdsR_of_holds - the record-based opening game (Spec/FPARepair.lean: state = record + ANY notes the rule value happens to hold) "
    "is simulated move for move by the incremental game the C20 shards were evaluated on (reach_sim, turn_sim, entryNotes_eq: on a record with plies 0,1,2,.. the rebuilt notes are the chain of LegalMove over the older pairs, independent of the notes on entry), "
    "so fpa_centre_repaired, fpa_doubleStack_repaired, fpa_cairn_repaired, fpa_all_repaired (all sizes 4..8, both colours, any left-over notes: also one rule value used for several games) follow from fpa_centre / fpa_doubleStack / fpa_cairn WITHOUT evaluating an opening again; "
    "friendly_eq_pinned (the patched GetMove = the old code run on the rebuilt notes); friendly_move_legal* now quantify over the notes on entry (hypothesis: the notes rebuilt from the record are the state's); "
    "cairn_undo_no_resign_glue, doubleStack_resume_no_resign_glue against cairn_undo_resigns_pinned, doubleStack_resume_resigns_pinned (kernel-evaluated runs; corpus/C20/glue-record-state.ops).",
    "The driver ops fpa / fpaopts / fpaseq run the record-based model (friendlyGetMoveR). On a tree WITHOUT the patch the harness marks a glue line `notes-` when a live GetMove call judged the newest move with notes that differ from those a fresh rule shown the whole record would hold "
    "(verdict or notes afterwards differ); exactly these lines disagree with the model and are listed as open known finding C20-fpa-record-notes until the patch is applied (then 0 disagreements, checked against a patched worktree, seeds 1-3).")

_fparepair_add("C07",
    "FPA NOTES FROM THE RECORD (fixes/C07-fpa-record-notes.diff; Props/C07_fpa.lean; Compose.Conf.replay, false = the tree before the patch). PROVED for every colour, size 3..8, clock and EVERY event list: call_notes_irrelevant - in every reachable state whose protocol goroutine has not panicked and whose record holds a move, "
    "the GetMove call of the current thinker (started on a position that is not a start position) computes the same action and leaves the same notes whatever notes the rule value holds on entry (notes_irrelevant: the record ends in the ply-0 start position, so the replay starts from a fresh rule): "
    "resumed games, undone plies and earlier games cannot put the rule out of step with the record. Kernel-evaluated schedules (corpus/C07/compose-fpa-undo-resume.ops): resume_no_panic, cairn_undo_no_resign, doubleStack_resume_no_resign (patched) against "
    "doubleStack_resume_panics_composed_pinned, cairn_undo_resigns_composed_pinned, doubleStack_resume_resigns_composed_pinned (model of the tree before the patch). bot_inv_friendly / current_thinker_total now assume c.replay = true (the patched code).",
    "current_thinker_total still assumes C20.RuleTotal (now a statement about the record only, since the notes are a function of it): panic-freedom of the rule's own scripts on EVERY record - including resumed openings that were not played by the rule, where e.g. dir(blackTmp, blackPlace) can still meet equal squares - was not proved by fparepair and is REFUTED by work package fpatotal (see FPA SCRIPTS ON EVERY LEGAL RECORD below; the sentence is kept for the record) "
    "(it needs the geometry of legal Tak records at plies 2..5 at bit level, or a larger shard evaluation with the bot's own moves free); for records played by the rule it is part of C20.HoldsR. On a tree without the patch the composed sessions in which a live call used out-of-step notes are marked `notes-` (open known finding C07-fpa-resume-panic).")
