# Work package "searchtotal": totality of the alpha-beta model on Tak (Props/C04_total.lean, Props/C07_compose3.lean).
def _searchtotal_add(pid, text, note):
    lv = LEVEL.get(pid)
    if lv is None:
        return
    lv["text"] = lv["text"] + " " + text
    lv["note"] = lv["note"] + " " + note

_SEARCHTOTAL_CORE = (
    "TOTALITY OF THE ALPHA-BETA MODEL (work package searchtotal; Props/C04_total.lean, Proofs/SearchTotal{,Nodes,Zw,Analyze,Tak}.lean). "
    "All other theorems about Search.getMove / analyze / analyzeAll are partial correctness (IF the call returns .ok ...). PROVED: the call RETURNS - getMove_total_tak, analyze_total_tak, analyzeAll_total_tak, "
    "getMove_history_total (any list of calls threaded through one engine from NewMinimax): from every engine state satisfying the invariant EngTak n (every move value the engine holds - table entries, response map, "
    "stack[i].pv[0], stack[i].m - is the zero move, the null-move pass or a move on the n x n board; both per-ply arrays have maxDepth elements; table entries at most maxDepth deep; a table that exists is not empty; "
    "st.Depth <= maxDepth; established by NewMinimax - engTak_new - and re-established by every call), on every position of board size n <= 8 with len(Height) = n^2 (every WF / GoodPos position: nTak_of_wf), for Cfg.Depth <= 15, "
    "NO .error exit of the model is reachable: not ai.stack[ply] beyond maxDepth (= the model's recursion fuel), not a stack[ply].m / stack[ply].pv / stack[ply-1].m index, not ttGet/ttPut (divide by zero, index), not best[0], "
    "not a panic or flood-fuel hang inside MovePreallocated on a hint / generated move / the null move (C01.move_total_closed), not Dest/Height[i] in the slide-reduction test (takReduceSlide_total), not rand.Int63n - for every "
    "option combination (sorting, null move, slide reduction, multi-cut, symmetry de-duplication, MaxEvals, randomisation), every cancel oracle, random stream, evaluator, WITH and WITHOUT a table (any content satisfying the invariant, "
    "hash collisions included). Generic form: Search.getMove_t / analyze_t / analyzeAll_t / search_t over any Game with TGame (Tot = returns .ok AND postcondition). "
    "Hypotheses shown necessary: empty_table_panics (a table of 0 entries, i.e. TableMem in 1..31: ttGet divides by zero on the first call), engOK_not_enough (EngOK..FromGen..SizeOK alone does not constrain the array lengths: a state "
    "satisfying it from which GetMove panics); Depth > maxDepth: NewMinimax does not clamp, the 16th nested pvSearch indexes ai.stack[15] (not proved by evaluation; reproduced on the real code, see note).")

_searchtotal_add("C04", _SEARCHTOTAL_CORE,
    "Lean only; no new op. Not in the model, hence not covered: the `Analyze: wrong size` panic (engine of another board size: the invariant is indexed by the board size instead), ctx deadlines, the history map / sort.Sort (an oracle), "
    "Debug logging. Two configuration panics of the REAL engine follow from the necessity results and were reproduced on /repo with a standalone Go test (not through ./check: the harness's `tbl=` key counts whole entries and its "
    "generators draw d <= 15): MinimaxConfig{TableMem: 8} -> integer divide by zero in ttGet; MinimaxConfig{Depth: 16} on the empty 3x3 board with a constant evaluator -> index out of range [15] with length 15 after 0.3 s (Depth 15: returns) (cmd flags -table-mem / -depth reach both). "
    "Proposed repairs in fixes/proposed/C04-minimax-config-panics.{diff,msg} (+ the reproducing Go test, _test.go.txt; ai tests pass with the patch) (not applied; theorems carry the two hypotheses).")

_searchtotal_add("C05", "TOTALITY: see C04 (analyze_total_tak, analyzeAll_total_tak in Props/C04_total.lean): Analyze / AnalyzeAll return from every EngTak state for Depth <= 15, every configuration, with and without a table.",
    "Lean only.")
_searchtotal_add("C16", "TOTALITY: see C04 (Props/C04_total.lean): a cancelled or uncancelled call returns (every cancel oracle, not necessarily monotone) and leaves an EngTak state.",
    "Lean only.")

_searchtotal_add("C07",
    "THE BOT WITH THE ALPHA-BETA MODEL NEVER LOSES A THINKER (work package searchtotal; Props/C07_compose3.lean). bot_never_dead_minimax_statement of Props/C07_compose2.lean is DISCHARGED: bot_never_dead_minimax - Friendly (any rule or none) or Taktician with "
    "the alpha-beta model created by NewMinimax as searching player, any colour, size 3..8, clock, evaluator, every option combination, no table or a table of >= 1 entries, Depth <= 15, EVERY event list with ChkOK and RuleOK: dead = none "
    "(composition of bot_dead_only_by_search with C04.getMove_total_tak; invariant EngTak c.size on the engine, NTak c.size on every position the bot holds: pinv_startBot_nTak, nTak_apply); bot_never_dead_minimax_declining - the same for the tree as it is "
    "(fixes/C07-fpa-script-declines.diff applied, 89e66ee) with RuleOK replaced by MovesOK, for ANY rule. The statement as written in C07_compose2 quantifies over every Search.Cfg and is false for Depth > 15 and for a table of 0 entries "
    "(C04.empty_table_panics); exactly these two are excluded (bot_never_dead_minimax_statement_of_cfg).",
    "bot_never_dead_minimax_events (END-TO-END, tree as it is: guard, record notes, declining scripts): Friendly with any rule or none / Taktician with the alpha-beta model, every event list in which no server line parses to the pass and with sane check verdicts (ChkOK): dead = none - "
    "nothing is assumed about the searching player any more (it returns: C04.getMove_total_tak; it never answers the pass: Search.getMove_engOK + fromGen_not_pass; both engine invariants EngTak and EngInv are carried: EngBoth; movesOK_run_on / Compose.minv_composed_step_on = the fpatotal lemmas relativised to the engine invariant and the positions the bot holds). "
    "Remaining hypotheses: ChkOK (the check engine's verdicts), no pass on the wire, Depth <= 15, table absent or non-empty; the searching player is the MODEL (tie: C04/C05/C16 correspondence).")
