level("C18",
      technique="Lean 4 proof over an executable model of ai/evaluate.go + differential correspondence (exact int64 equality of evaluate on every run)",
      text=("Proved (kernel-checked, std axioms): eval_abs_le — for EVERY state whose game is not over (any bitboards, any uint8 heights, any reserves/ply, "
            "any weight vector; group lists = the analysed ones) |evaluate| <= B w n, B explicit and linear in |w f| (popcount<=64, height<256, <=65 groups); "
            "B_lt_threshold — B w 64 < WinThreshold for DefaultWeights[0..8] (as built by init), easyWeights, medWeights by `decide` on the extracted tables (re-checked when a weight/constant changes); "
            "heuristic_inside / beyond_threshold_is_over (a value beyond the threshold denotes a finished game); terminal_outside — game over, size<=8, 0<=ply<=2*10^6: value 0 for a draw, "
            "else WinThreshold < |v| <= MaxEval with the sign of winner-vs-mover; winner_eval_spec for EvaluateWinner; eval_total — on every position satisfying C02's RoadWF evaluate returns a value "
            "(the computed index ws[Groups+w] stays inside Weights, Dimensions terminates); undecided_inside_rules / finished_outside_rules / c18 — the same with game end, winner and draw read from the rule book "
            "(Spec.outcome, via C02's gameOver_refines); terminal_beyond_bound — with the default weights a game finished at ply >= 2 685 000 scores <= WinThreshold (the ply hypothesis is necessary; outside the property's domain). "
            "Sampled (correspondence, every run): eval/evalw(easy, med, random weight vectors)/evalwinner/evalterm/score parts/control/mobility/Dimensions/threat counts/constants and weight tables on playouts, constructed boards, "
            "testdata games, feature-maximising boards per size, small dense boards, finished games at plies to 2*10^6 and beyond, arbitrary raw states; evalcheck = the property itself evaluated on the real code."),
      note=("Assumed: int64 arithmetic does not wrap (all intermediates of built-in sets are < 2^31 by the bound); the model is tied to the Go code by testing, not proof. "
            "The bound B is deliberately coarse (popcount<=64, |captives|<=255 per square, <=65 groups): B(default, 64 squares) is about 2.5*10^7 against a threshold of 5.4*10^8; the largest undecided value met in the runs is below 2^24. "
            "Finding (fixed by e481ce3, root cause C02-reserve-wrap): reserve bytes summing to 256 made GameOver report a finished game, so an undecided position got a decided-game score; found by this check on the unfixed tree."))
level("C19",
      technique="Lean 4 proof over executable models of ai.CountThreats and Position.MovePreallocated + differential correspondence with a one-ply search on the real code",
      text=("Proved (kernel-checked, std axioms, no extra hypotheses): threat_real — for every well-formed position (C02's WFBoard: sizes 3..8, consistent bitboards, group lists = analyze; "
            "HeightsOK: occupied squares have height >= 1) from ply 2 on whose game is not over, a positive CountThreats count (placement or one-step slide) for the side to move yields a move m with "
            "Pos.apply p m = ok q and WinDetails(q) = over / winner = mover / reason = road (also when the slide uncovers a road of the opponent), and a road group of the mover in q's analysis; "
            "threat_real_search (the same as `winsByRoad`); threat_real_rulebook (q satisfies RoadWF again; RoadPath of the mover in abs q and the rule book's verdict over/road/mover); "
            "threat_real_rules (with C01.move_refines: the move is legal for the rule book's Spec.step, hypotheses C01's WF + analysed + 64-piece stack limit); threatHypB_sound (the hypotheses as an executable test). "
            "Covers exhausted flat reserves (capstone placement), walls/capstones next to the gap, own flats of the road itself (excluded by the slide map), pinned own flats on enemy stacks. "
            "Sampled (every run): the four counts compared exactly on gap-geometry boards, junction boards, broken road walks, small dense boards, extremal boards and the shared random sources; whenever the mover's count is positive "
            "a one-ply search (AllMoves filtered by Move + WinDetails) on the real code and on the model must find a road win (BOGUS on either side is a disagreement); a third judge uses the list-level rule book; "
            "the theorem's hypotheses are evaluated on every sampled position (all satisfied); thorough tier: every 3x3 board of flats and walls, both sides to move."),
      note=("Uses the C02 development (Roads.groups_spec, groups_road_iff, analyze_ne_none, winDetails_refines) and C01's move_refines. The models of CountThreats/Move are tied to the Go code by testing, not proof. "
            "The claim is for ply >= 2 and unfinished games (as the property says); finished/opening positions are answered `over`/`opening` and not judged. Under-counting (a win exists, count 0) is allowed and is reported in the distribution."))
