level("C18",
      technique="Lean 4 proof over an executable model of ai/evaluate.go + differential correspondence (exact int64 equality of evaluate on every run)",
      text=("Proved (kernel-checked, std axioms): eval_abs_le — for EVERY state whose game is not over (any bitboards, any uint8 heights, any reserves/ply, "
            "any weight vector; group lists = the analysed ones) |evaluate| <= B w n, B explicit and linear in |w f| (popcount<=64, height<256, <=65 groups); "
            "B_lt_threshold — B w 64 < WinThreshold for DefaultWeights[0..8], easyWeights, medWeights by `decide` on the extracted tables (re-checked when a weight/constant changes); "
            "heuristic_inside / beyond_threshold_is_over (a value beyond the threshold denotes a finished game); terminal_outside — game over, size<=8, 0<=ply<=2*10^6: value 0 for a draw, "
            "else WinThreshold < |v| <= MaxEval with the sign of winner-vs-mover; winner_eval_spec for EvaluateWinner; terminal_beyond_bound — with the default weights a game finished at ply >= 2 685 000 scores <= WinThreshold "
            "(the ply hypothesis is necessary; outside the property's domain). "
            "Sampled (correspondence, every run): eval/evalw(easy, med, random weight vectors)/evalwinner/evalterm/score parts/control/mobility/Dimensions/threat counts on playouts, constructed boards, testdata games, "
            "feature-maximising boards per size, finished games at plies to 2*10^6 and beyond, arbitrary raw states; evalcheck = the property itself evaluated on the real code."),
      note=("Assumed: int64 arithmetic does not wrap (all intermediates of built-in sets are < 2^31 by the bound); the model is tied to the Go code by testing, not proof. "
            "Not proved: that evaluate never panics/hangs on well-formed positions (scoreGroups' computed index ws[Groups+w] and Dimensions' loops are guarded in the model; the theorems are stated for returned values; no panic/hang was ever observed). "
            "Game end is the model's GameOver (C02 links it to the rules)."))
level("C19",
      technique="Lean 4 proof (reduction) over an executable model of ai.CountThreats + differential correspondence with a one-ply search on the real code",
      text=("Model: countThreats mirrors CountThreats (edge-adjacent gaps, two-group junctions, place map vs one-step slide map). "
            "Every run: the four counts compared exactly; whenever the mover's count is positive at ply>=2 in an unfinished game, a one-ply search (AllMoves filtered by Move + WinDetails) on the real code and on the model "
            "must find a road win (BOGUS on either side is a disagreement); a third judge uses the list-level rule book (Spec.step/Spec.outcome)."),
      note="See Props/C19.lean for what is proved and which flood/group facts are named hypotheses.")
