# Work package "chkok": ChkOK discharged (Props/C07_compose4.lean, Proofs/CheckEngine.lean, Proofs/CheckEngineTak.lean).
def _chkok_add(pid, text, note):
    lv = LEVEL.get(pid)
    if lv is None:
        return
    lv["text"] = lv["text"] + " " + text
    lv["note"] = lv["note"] + " " + note

_chkok_add("C07",
    "ChkOK DISCHARGED (work package chkok; Props/C07_compose4.lean). In the system with Friendly's check engine threaded (Impl/BotCheck.lean runK: f.check = the alpha-beta model with NewGame's exact configuration checkCfg - "
    "Depth 3, no table, EvaluateWinner, null move and slide reduction ON, not Precise - asked by waitUndo) the hypothesis ChkOK of bot_never_dead_minimax_events is a THEOREM: chkOK_threaded / threaded_refines_chk - from NewGame, "
    "every run of the threaded system is a run of the oracle system on an event list that satisfies ChkOK (the check engine's own Analyze never takes an .error exit - checkOK_analyze via C04.analyze_total_tak, invariant ChkInv = EngTak and no table - "
    "and never reports v >= WinThreshold with Stats.Depth <= 1 for a ply-0 position). bot_never_dead_minimax_final: Friendly (any rule or none) or Taktician, f.ai = NewMinimax(any cfg with Depth <= 15, table absent or non-empty, any evaluator) and "
    "f.check both the MODEL, tree as it is (guard, record notes, declining scripts), any colour, size 3..8, clock, EVERY event list (every cancel / sort / random oracle of every call of either engine) in which no server line parses to the pass: dead = none; "
    "no hypothesis about reachable states is left. bot_never_dead_minimax_parsed: the same with 'no pass' replaced by 'the move of every deliver event is an answer of the ParseServer model (C11)' (parseServer_not_pass: ParseServer never answers the pass).",
    "Ingredients: Proofs/CheckEngine.lean (any Game, ANY option set, any oracle): pvNode_depth1_le (a depth-1 root without a table returns at most max(alpha, B) when -eval of every child is <= B), analyze_noTable (Analyze keeps 'no table'; on a position in which "
    "no move wins at once it never reports v >= WinThreshold with Stats.Depth <= 1). Proofs/CheckEngineTak.lean: new_child_not_over / noWinInOne_new - on the empty board of tak.New (size 3..8, default piece counts) every move Position.Move accepts "
    "(only the pass and a black flat on one of the size^2 squares pass the opening rule; any coordinates, type code, slide word, hash basis) gives a position that is not over (the 2*199 positions and 12 passes kernel-evaluated: placedNotOver_all). "
    "PosA: the only ply-0 position the bot ever holds is the start position (play-closed, plies >= 0). Non-vacuity: a kernel-evaluated 3x3 run in which the ply-0 thinker reaches waitUndo and the real check engine answers (0, depth 3). "
    "Lean only, no new op (the real waitUndo / real engine tie is C07check / gluewait of botcompose2). Towards checkerSpec_minimax_statement: check_winInOne_sound - when the real f.check reports v >= WinThreshold at Stats.Depth <= 1 there IS a move after which GameOver holds with the mover as winner (the -> half of CheckerSpec.winInOne at the level of Position.Move). STILL OPEN: the rest of checkerSpec_minimax_statement (the depth <= 3 verdicts of the non-Precise check engine equal the rule-book statement; affects waiting time only, not C07).")

_chkok_add("C05",
    "DEPTH-1 WITHOUT A TABLE, ANY OPTION SET (work package chkok; Proofs/CheckEngine.lean): Search.pvNode_depth1_le / analyze_noTable / analyze_noWinInOne - an engine without a table, whatever its options (null move, slide reduction, multi-cut, de-duplication, "
    "MaxEvals: not Precise), never reports a value >= WinThreshold at Stats.Depth <= 1 on a position in which no move wins at once (-eval(child) < WinThreshold for every accepted move).",
    "Lean only; used by C07 (ChkOK).")
