level("C10",
      technique="Lean 4 proof over a byte-level model of ptn/tps.go + tak.FromSquares, tied to the real code by differential correspondence",
      text=("Proved (Props/C10.lean, structural proofs, all sizes 3..8, all positions, every Zobrist table): "
            "tps_roundtrip — for every well-formed position with default piece counts and ply in [0,2^63) (decidable predicate Notation.tpsHyp: consistent bitboards inside the board, "
            "heights/buried-colour words consistent, stacks <= 64, hash = its definition, reserves = totals - pieces on board) FormatTPS succeeds, ParseTPS of the text succeeds and the result is Equal, "
            "has the same Hash(), the same four reserve counters, side to move and move number; tps_canonical_roundtrip — every string of the decidable canonical grammar "
            "(maximal x/x2..x8 runs, stacks of 1..64 digits 1/2 with optional S/C, 3..8 rows, turn 1/2, move number 1..2^62 without sign/leading zero) parses and formats back byte for byte; "
            "formatTPS_canonical — FormatTPS of a well-formed position is in that grammar. "
            "The two theorems through ParseTPS carry the hypothesis AnalyzeTotal (analyze() returns, i.e. the flood fuel of the model suffices); it is proved unconditionally as Roads.analyze_ne_none in the C02 package "
            "and closed by Props/C10_closed.lean(.merge) once both are merged. "
            "Sampled, not proved: that the Lean model equals the Go code (tps/parsetps/rttps/tpshyp/canontps ops on random playout, constructed and testdata positions, all 2^size row patterns in every row, "
            "stacks 1..64 with each top kind at both row ends, grammar-generated strings, structure-aware mutations); that positions the engine reaches satisfy tpsHyp is checked on every sampled position (tpshyp op), "
            "its preservation by Move is the subject of C01/C08."),
      note="Round trip of reserves is claimed for default piece counts only (TPS does not carry the configuration). Stacks above 64 pieces lose buried colours in the representation and are outside the grammar. "
           "Go library behaviour (strings.Split, strconv.Atoi, fmt %d, range over string) is modelled, not verified; validated by the correspondence incl. non-ASCII bytes.")
level("C11",
      technique="Lean 4 proof over byte-level models of ptn/move.go and playtak/move.go, tied to the real code by an exhaustive differential correspondence",
      text=("Proved (Props/C11.lean, structural proofs — no enumeration, no decide over the domain): for every move value m with Notation.LegalShape size m, 3 <= size <= 8 "
            "(placement F/S/C on the board with empty Slides; slide from a board square with drops each 1..8, sum <= size, number of drops <= distance to the edge): "
            "ptn_short_rt, ptn_long_rt, server_rt — ParseMove(FormatMove m) = ParseMove(FormatMoveLong m) = ParseServer(FormatServer m) = ok m with all four fields identical; "
            "notations_agree — a PTN spelling of m and a wire spelling of m' parse to the same value iff m = m' (likewise short vs long); "
            "annotations_ignored — any suffix over ! ? ' * of any length appended to either PTN spelling parses to m. "
            "Correspondence is exhaustive in both tiers: all 51 977 legal-shape moves of sizes 3..8 (32 704 distinct) through the five Go functions and a Go-side round-trip op, every spelling with all 20 non-empty suffixes of length <= 2, "
            "membership and count of the harness enumeration against the Lean predicate (shape/shapecount ops); plus raw move values (int8 range coordinates, all type codes, damaged slide words) through the formatters."),
      note="Moves outside LegalShape (zero drops, more drops than squares, Pass) are outside the claim; the models still mirror the Go formatters/parsers on them and are compared on random raw values.")
# C13, text part (ParseMove, ParseTPS, ParseServer) — for the coordinator to merge into the C13 entry:
C13_TEXT_PART = {
    "technique": "Lean 4 proof that the byte-level parser models never reach a modelled panic, tied to the real code by differential correspondence on byte streams",
    "text": ("Proved (Props/C13_tps.lean): parseMove_total, parseTPS_total, parseServer_total — for every byte string (and every Zobrist table) the model of ptn.ParseMove / ptn.ParseTPS (through parseRow and tak.FromSquares) / "
             "playtak.ParseServer returns a value or an ordinary error, never one of the explicit panic outcomes placed at every index expression, slice expression, MkSlides' explicit panic, New's table lookups and FromSquares' board indexing; "
             "parseTPS_terminates — no hang outcome either, given that analyze() returns (Roads.analyze_ne_none, C02 package; closed in C10_closed.lean.merge). The theorems are about the repaired tree (fixes 626086a, f3eb905); "
             "on the pinned tree the check found both ParseTPS panics by itself (corpus/C13/tps-*.ops). "
             "Sampled: model = code on valid formatter outputs, structure-aware mutations (separators dropped/duplicated, empty cells, lone S/C, out-of-range digits, Atoi edge cases, Latin-1/UTF-8 garbage), all single-byte deletions/duplications of sampled valid inputs, "
             "uniformly random bytes, and every byte string of length <= 3 over each parser's alphabet + {00,80,FF} (also behind the shortest prefixes that reach the inner loops); values are compared, not only outcome classes."),
    "note": "ParseMove and ParseServer had no panic on the pinned tree (searched with the same streams). ParseServer silently drops the ninth and later drops (32-bit Slides word) — an accepted-input quirk, not a crash.",
}
