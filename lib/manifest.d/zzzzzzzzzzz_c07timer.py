# Work package "c07timer": C07's grace timers under real time (older timers expire first; their expiry is a no-op).
if "C07" in LEVEL:
    LEVEL["C07"]["technique"] += (" + the clock around the loop (Impl/BotTimer.lean: every time.After timer the loop arms stays armed until it expires, timers expire oldest first; the tie's timer seam "
                                  "redirects every time.After call of bot.go, harness/rewrite/playtak_bot.json)")
    LEVEL["C07"]["text"] += (" THE GRACE TIMERS UNDER REAL TIME (Props/C07_timer.lean, model Impl/BotTimer.lean: the loop of Impl/Bot.lean plus the number of armed timers nobody looks at - overwritten by the next server move or left "
                             "behind by an invocation that returned -, one clock event `expire` = the oldest armed timer expires): stale_timer_noop (the expiry of a timer older than the live one changes nothing but that count: record, "
                             "thinkers, transmitted commands and status stay as they are, no thinker step follows); rearm_then_expire_noop + arms_live (a server move applied while an earlier move's grace timer of the same invocation is "
                             "still waited for leaves that timer armed and older: the next expiry is a no-op and the new timer is the one waited for - the grace period runs from the LAST server move of an invocation); "
                             "timed_run_untimed / timed_tie_untimed (the state of every timed schedule is the state Bot.run reaches on the same events with the stale expiries erased: every theorem about Bot.run over all event lists holds under the clock); "
                             "bot_inv_timed (C07's invariant for every schedule of the timed tie, the runs compared with the real loop).")
    LEVEL["C07"]["note"] += (" c07timer: the schedules carry no timestamps - the model says that timers expire in creation order (all grace periods have one length) and leaves open what happens between two expiries; a loop whose "
                             "behaviour depended on the LENGTH of a period (two different durations, a deadline computed from time.Now) is outside it, and the harness build refuses bot.go if it reaches the clock by anything but time.After. "
                             "`arms` (which delivered line creates a timer) restates the path to the one call site in handleMove and is compared with the real loop on every `ev timer` (a timer the model does not expect shows as stale/fired/idle mismatch).")
    LEVEL["C07"]["note"] = LEVEL["C07"]["note"].replace(
        "in the harness time.After is replaced by a package variable through a one-token build-time rewrite of a COPY of bot.go",
        "in the harness every call time.After( is replaced by a package variable through a build-time token rewrite of a COPY of bot.go (all occurrences, at least one; the build refuses the file if it reaches the clock in another way)")
