# Work package "selfplay2": the accounts of selfplay.Simulate, one selfplay game against the rule book (C01 + C02 composed), the written game file
# against C12, canonicalize through its printed text (C12 + printf0_plain composed).
if "C04" in LEVEL:
    LEVEL["C04"]["text"] += (" selfplay2 (Props/C04_selfplay_tally.lean, C04_selfplay_rules.lean; for ANY two players): tally_identities - after any results p1.wins + p2.wins = White + Black, the same per colour, and for each player "
                             "wins = wins as White + wins as Black = road + flat + time wins; tally_totals - White / Black / Ties / Cutoff are the counts of results by kind; tally_credit + worker_plays_specs + simulate_credit - the results of worker are the "
                             "specified games in order (all when the process ends normally), player 1 has a colour in each, and a win is credited to the player who had the winning colour in that game; "
                             "game_by_the_rule_book - a game from a well-formed opening whose recorded moves do not contain the internal pass and respect the 64-piece limit (automatic with at most 64 pieces: game_by_the_rule_book_budget) is a legal game of the rule book "
                             "(Spec.step accepts every recorded move in turn and reaches abs of the recorded position), no state strictly inside it is finished, and it ended by the rules (Spec.outcome says over and names the recorded winner), on time, or at the cut-off "
                             "(the rule book then says still running, for a non-empty record).")
    LEVEL["C04"]["note"] += (" selfplay2: the three items listed above as NOT proved are proved now (tally identities and crediting; the recorded winner is the rule book's - C02.gameOver_refines with the well-formedness invariant carried along the game by C01.reachable_wf; "
                             "the written file parses back - under C12). The pass is a stated hypothesis of game_by_the_rule_book (pass_is_recorded: Position.Move accepts it and worker records it); a finished OPENING is played on, so the still-running clauses speak about non-empty records.")
if "C12" in LEVEL:
    LEVEL["C12"]["text"] += (" At the producer `taktician selfplay -out` (Props/C12_selfplay.lean): written_game_parses_back - for a result whose moves were accepted in turn from an opening of size 3..8, none the pass, each in normal form, ply counter within int, "
                             "the bytes writeGame produces parse (with or without BOM) to the same tags and exactly the moves played, with a Result tag iff the final position is finished and a TPS tag iff the opening's ply is not 0; "
                             "written_game_replays_from_start - from tak.New(size) the parsed file's InitialPosition is the opening, so the file replays to the game played.")
    LEVEL["C12"]["note"] += (" selfplay2: hypothesis left in written_game_parses_back: tagSafe of the written tags (player command lines and TPS text free of `\"` and `]`); not composed: InitialPosition of a file WITH the TPS tag equals the opening (C10). "
                             "Observation, judged not a violation of C12 (the ptn package handles the file as C12 says; the writer is outside C12's anchors): writeGame omits the TPS tag for an opening at ply 0 with stones on the board, the file replays from the empty board "
                             "(written_game_ply0_opening_lost, kernel-evaluated; fixes/proposed/selfplay-tps-tag-ply0.msg).")
if "C15" in LEVEL:
    LEVEL["C15"]["text"] += (" Through the printed text (Props/C15_cmd_text.lean): canonicalize_text_idempotent - for a fixed point fc of the command's file transformation (what canonicalize_cmd_properties delivers) that is a C12 GameFile and whose rendered text contains no `%`, "
                             "`taktician canonicalize` run on the bytes it printed prints the same bytes again (ParsePTN reads back Render up to src, which neither Canonical, the write-back loop nor Render looks at; fmt.Printf leaves %-free text alone).")
    LEVEL["C15"]["note"] += (" selfplay2: the `%` caveat is exact in this direction - canonicalize_percent_not_idempotent (kernel-evaluated): the comment {100%} is printed as {100%!}(MISSING) and the second run stops in log.Fatalf.")
if "C13" in LEVEL:
    LEVEL["C13"]["text"] += (" `taktician play -out` (Props/C13_cmd_out.lean): play_out_file_parses_back - for moves applied in turn from tak.New(size) (play_record_is_replay), none the pass, each in normal form, the written file parses to exactly "
                             "these moves and its InitialPosition is the start position, so it replays to the game played.")
    LEVEL["C13"]["note"] += (" selfplay2: in play_out_file_parses_back `no pass, normal form` is a stated hypothesis (true of everything ParseMove returns - C12.parsed_moves_canonical's lemma - but not threaded through the model's playLoop).")
