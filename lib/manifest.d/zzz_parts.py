# Coordinator: MANIFEST text of properties assembled from several work packages.
level("C13",
      technique="Lean 4 proof that the byte-level models of every text entry point never reach a modelled panic or run out of loop fuel, tied to the real code by differential correspondence on three byte streams per entry point",
      text=("Proved, for EVERY byte string / command stream (Props/C13_tps.lean, C13_ptn.lean, C13_tei.lean): parseMove_total, parseTPS_total, "
            "parseServer_total (ptn.ParseMove, ptn.ParseTPS through parseRow and tak.FromSquares, playtak.ParseServer: no explicit panic outcome — one is placed at every "
            "index/slice expression, MkSlides' panic, New's table lookups, FromSquares' board indexing — and no hang, C10_closed.parseTPS_terminates via Roads.analyze_ne_none); "
            "parsePTN_total_linked, initialPosition_total_linked, replay_total_linked (ptn.ParsePTN incl. BOM, scanner window with the 64 KiB token limit, readMoves; "
            "InitialPosition; ParsePTN followed by PositionAtMove for every (n, colour): value or error, with the byte-level ParseMove/ParseTPS models plugged in, no hypothesis left); next_total; "
            "parseChat_total and unmarshalWeights_total (the glue around regexp / encoding/json never indexes out of range given the documented result shape); "
            "tei_total, tei_total_stream, tei_state_consistent (no command stream makes Engine.Run panic; position size, configured size and cached-searcher size stay in agreement). "
            "The theorems are about the repaired tree: on the pinned tree the check found by itself six panics (TPS empty cell 626086a, TPS lone marker f3eb905, PTN unterminated comment 3f3de3c, "
            "Size tag outside 3..8 e3fbbd1, TEI position before teinewgame 91b47ca, TEI go without a move to report 10cbf9c); minimal inputs in corpus/C13. "
            "Sampled (about 4*10^5 ops per quick run): model = code (values, not only outcome classes) on valid formatter outputs, structure-aware mutations, uniformly random bytes, every byte string of "
            "length <= 3 over each parser's alphabet + {00,80,FF}, tokens/comments/space runs around 64 KiB, Size -2..14, malformed TEI streams (commands out of order, go on finished games, bad sizes, garbage)."),
      note=("regexp, encoding/json, bufio.Scanner, strconv, strings are modelled for the inputs the parsers pass them and compared on every run, not verified; their internals are assumed total. "
            "tei_total assumes total token parsers and a total size-preserving Pos.apply on reachable positions (C01/C02/C13 parts provide them) and the searcher contract of C04. "
            "`os.Exit`/log.Fatal are not reachable from the modelled entry points."))
