# Work package "pvhead": the facts about the principal variation that C17/C20/C07 took as hypotheses about "the searcher",
# derived from the search model itself, for every configuration.  Additions to existing claims.
def _pv_add(pid, text, note):
    lv = LEVEL.get(pid)
    if lv is None:
        return
    lv["text"] = lv["text"] + " " + text
    lv["note"] = lv["note"] + " " + note

_pv_add("C04",
    "PV PROVENANCE AND LEGALITY FOR EVERY CONFIGURATION (Props/C04_pv.lean; helpers Proofs/PvHead.lean, PvHeadNodes.lean, PvHeadAnalyze.lean). "
    "One induction through the model of pvSearch/zwSearch (Search.search_q) for EVERY option combination (sorting, table of any size, null move, slide reduction, multi-cut, symmetry de-duplication), every cancel oracle "
    "(not necessarily monotone), every move order that returns moves of the list it was given, generic in the game. State invariant EngOK g Q D s: every hint the engine keeps (table-entry moves, response-map values, PV buffers) "
    "satisfies a predicate Q that holds of all generated moves, and the move of every EXACT table entry is accepted in every position of D that would find the entry. PROVED (kernel-checked, standard axioms): "
    "what a pvSearch(p, pv-hint, alpha, beta) returns when it returns a PV l (PvRes): l is not empty, consists of Q-moves; value > alpha => the head of l is accepted by MovePreallocated in p; value <= alpha => l is the node's initial best, whose head is "
    "accepted if the hint's head was; value strictly inside (alpha, beta) => the WHOLE line l replays from p. A new engine is EngOK (engOK_new) and every Analyze/GetMove/AnalyzeAll call keeps EngOK (so it holds in every state an engine can reach: history_engOK). "
    "analyze_pv_head_generated: the PV Analyze returns consists of Q-moves and its head is accepted in the analysed position - hypotheses only at that position: Move.Equal moves act alike and the zero move equals no generated move (GenOK), some generated move is accepted, "
    "the children's evaluations are <= MaxEval (C18); getMove_generated (with and without the randomised choice, every random stream: the result is the zero move - only when Analyze returned an empty PV - or an accepted Q-move); "
    "analyzeAll_heads_generated (every listed line starts with an accepted Q-move; the lines added to Analyze's PV replay in full); analyze_pv_nonempty (an Analyze whose cancel flag is never set, with Cfg.Depth >= 1 on a position that is not over, returns a non-empty PV: any configuration, ANY engine state, helper Proofs/PvHeadNonEmpty.lean). "
    "pv_replays - C04's last clause at full strength, which DESIGN carried as pv_replays_partial: whenever the reported value lies in [MinEval, MaxEval], in particular whenever it is not decisive, the whole reported PV replays legally - "
    "nothing assumed about the game; engine state arbitrary without a table (pv_replays_noTable), EngOK on a collision-free domain with one (pv_replays_table). What was missing: a value strictly inside the window makes the node improve on a played move whose "
    "sub-PV comes from a full-window search with a value strictly inside the negated window (zero-window results are re-searched before they can improve without a cut-off), so exactness propagates down the PV; and the root window is (MinEval-1, MaxEval+1). "
    "TAK INSTANCE: with Q = FromGen (the zero move, or a move AllMoves produced for some position of size 3..8), analyze_pv_head_generated_tak / _tak_table / getMove_generated_tak: on a well-formed position (C01's WF) with a legal move the PV head "
    "(the move GetMove returns) is LITERALLY a member of AllMoves of that position and accepted by MovePreallocated - never the pass, never a placement with a junk Slides word (fromGen_accepted_mem: C03 completeness + C11 normal forms; zero_not_accepted). "
    "WHY NOT 'ANY ENGINE STATE' (two counterexamples evaluated by the kernel on the 3x3 board): junk_hint_becomes_pv_head (a table entry holding a junk-Slides placement as hint of the analysed position: the PV head IS that junk move - accepted, Equal to the generated b2, "
    "not in AllMoves); stale_exact_entry_is_returned (Analyze returns the move of an exact root entry WITHOUT re-validation when the entry already covers Cfg.Depth or the first iteration is cancelled: here a slide nothing accepts). Neither state is reachable from NewMinimax "
    "on a collision-free domain: that is what EngOK says. "
    "SAMPLED ON THE REAL ENGINE: every c04/c04s claim (GetMove, Analyze, AnalyzeAll on the option lattice, fresh and reused engines, tiny tables) now also checks that the returned move / PV head is literally one of Position.AllMoves (answer 'ungenerated ...' otherwise) "
    "and that the Analyze PV replays for EVERY value in [MinEval, MaxEval] (was: non-decisive values only); 0 disagreements.",
    "With a table the theorems range over a set D of positions closed under moves on which Position.Hash is injective (C04.TableDom: the no-collision hypothesis among the positions this engine ever sees; C08 samples it); without a table nothing is assumed about hashes. "
    "Position.Hash ignores the ply counter and the reserves, so a TPS with move number 1 on a populated board (unreachable) shares its hash with the same board later: outside TableDom (see corpus/C05/serve-opening-hash.ops). "
    "A PV head with a junk Slides word cannot be produced by the real engine unless it differs from the model in where it takes move values from: every tak.Move it handles is an AllMoves output, the zero value or the pass of the null move (which only ever reaches stack[ply].m); "
    "the 'ungenerated' claim checks this on every run. Hypotheses left for the Tak instance: WF of the analysed position, existence of a legal move, the evaluator's bound (named hypotheses; work package takgame discharges them on reachable positions), OrderOK for sort.Sort.")

_pv_add("C17",
    "THE SEARCHER CONTRACT DERIVED (Props/C17_pv.lean): tei_one_bestmove_at (the conclusion of tei_one_bestmove from the PV of the ONE call made: nothing assumed about the searcher elsewhere); tei_bestmove_legal_minimax / _table: where the answer to this go is the PV "
    "Search.analyze returns on the told position from the state of the cached engine (any options, any cancel oracle = deadline, any move order; engine state EngOK = a new engine or the state earlier go commands left), and the PV is not empty, Run writes the info line "
    "and 'bestmove m' with m the PV head, accepted by Position.Move in the told position, LITERALLY a member of its AllMoves - hence not the pass, a LegalShape, normal: FormatMove prints it parseably (C11) - and the engine state is EngOK again for the next go. "
    "minimax_pv_nonempty: the PV is not empty whenever the search is not cancelled, so such a go is answered by exactly one bestmove. SearcherOK / SearcherLegal / SearcherGenerated are no longer needed where the thinker is the alpha-beta model.",
    "SearcherOK/SearcherLegal/SearcherGenerated quantify over ALL Pos values (also malformed ones) and so cannot be instantiated by the model; the new theorems state the contract at the call made. Remaining hypotheses: the told position is WF and has a legal move (C01/C04), "
    "the evaluator's bound (C18), and with a table the no-collision domain; an EMPTY PV (search cut off before its first iteration completed: the engine writes no bestmove, fix C13-tei-go) is excluded by hypothesis, which minimax_pv_nonempty discharges for uncancelled searches.")

_pv_add("C20",
    "WITH THE ALPHA-BETA MODEL AS SEARCHING PLAYER (Props/C20_pv.lean): friendly_move_legal_minimax - friendly_move_legal with its hypothesis hsearch (the searcher's answer is legal whenever it is consulted) DERIVED from C04.getMove_generated_tak and C01.move_ok_iff: "
    "every move Friendly.GetMove returns under an FPA rule is the zero move (resignation, not the bot's turn, or a search cancelled before its first iteration completed) or legal by the rule book.",
    "Assumes the opening-game state's current position is the abstraction of the bit-level position the bot holds, WF of that position, a legal move, the stack limit (automatic for default games up to 6x6) and the evaluator's bound.")

_pv_add("C07",
    "WITH THE ALPHA-BETA MODEL AS THINKER (Props/C07_pv.lean, helper Proofs/PvHeadBot.lean): logFrom_run (the ghost log grows only in onAnswer, by the move the aiReturns event carries: a predicate true of every AI answer of a schedule is true of every transmitted move); "
    "minimaxAnswer_of_getMove (what Search.getMove returns is the zero move or a generated move); bot_inv_minimax: for every interleaving whose AI answers are such, C07's invariant holds AND every transmitted move is not the pass, is - as it stands, without normalisation - "
    "a LegalShape of the board, ParseServer(FormatServer m) = m exactly, and is legal where it was sent. The hypothesis 'not the pass' of bot_sent_moves_wire is discharged.",
    "The zero move the model returns when cancelled is never transmitted (Position.Move rejects it: 'ai returned bad move').")
