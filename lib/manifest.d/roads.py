level("C02",
      technique="Lean 4 proof over the bit-level model of bitboard.{Precompute,Grow,Flood,FloodGroups} and tak.{analyze,hasRoad,GameOver,countFlats,flatsWinner,WinDetails}, ptn.ResultFromGame + differential correspondence (over/sover/result/sresult/wfb/dump ops)",
      text=("Proved for all sizes 3..8 and all 64-bit boards satisfying the hypotheses (no sampling): grow_bit (bit meaning of Grow for arbitrary "
            "constants); edge_masks (R = column x=0, L = column x=size-1, B, T, Mask of Precompute(n), by kernel evaluation over the 64 bits per size, "
            "incl. bit 63 on 8x8); grow_spec (one round = within ∧ (seed ∨ seed at an on-board orthogonal neighbour), no row wrap); flood_isSome "
            "(Flood terminates within the model's fuel for any constants when seed ⊆ within); flood_reach (Flood = set of squares joined to the seed "
            "by a chain of adjacent squares inside `within`); groups_spec (FloodGroups = exactly the connected components with ≥ 2 squares, each once; "
            "components_disjoint); floodGroups_isSome / analyze_ne_none (analyze never exhausts the fuel, for every position and any constants); "
            "spec_hasRoad_iff (the executable rule-book road search decides the inductive RoadPath, any size); hasRoad_iff (on a RoadWF board: a recorded "
            "group touches two opposite edges ⇔ RoadPath of that colour in the position seen through At — bent roads, capstones, walls, single-square groups); "
            "outcome_rules (the rule-book outcome restated with RoadPath: over ⇔ road ∨ full ∨ a side without stones and capstones; double road → previous mover; "
            "flats with the tie-break flag); winDetails_refines and gameOver_refines (WinDetails()/GameOver() = rule-book outcome of the abstracted position: "
            "over, winner, reason, both flat counts; popcount = count over squares) and result_refines (ptn.ResultFromGame = rule-book result string, panics iff not over) "
            "for every RoadWF board (any reserve bytes); fromSquares_wf / constructed_gameOver (every FromSquares result is RoadWF), new_wf."),
      note=("Hypothesis RoadWF p (size 3..8, constants = Precompute(size), White/Black ⊆ Mask and disjoint, groups = analyze()) is proved for New and for every FromSquares result; "
            "that Move preserves it is C01's invariant (move_refines) and is NOT proved here — the stronger WFBoard (also: Standing/Caps on occupied squares and disjoint) is evaluated on every "
            "sampled position incl. all playout positions (op wfb, real data vs model, always true so far). Defect found by this check: GameOver tested the uint8 sums stones+capstones, which wrap to 0 at 256 pieces in reserve "
            "(Config{Size:5,Pieces:253,Capstones:3}: start position reported finished, draw); fixes/C02-reserve-wrap.diff tests the counters one by one, the model is of the fixed tree, "
            "corpus/C02/reserve-wrap.ops keeps the cases, known_findings C02-reserve-wrap (open) suppresses exactly those until the fix is applied. The model is hand-written (Impl/Bitboard.lean, "
            "Impl/Position.lean) except Precompute/Grow (Generated/Funcs.lean); its agreement with /repo is by correspondence: quick ≈ 1.2e5 ops incl. all 3^9 3x3 flat boards, "
            "thorough adds both parities × reserve modes and all 2^16 4x4 subsets (+ wall/capstone substitutions) and 2.4e6 random positions."))
