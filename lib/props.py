"""Per-property configuration of ./check."""

TRUSTED_BASE = [
    "Lean 4.33.0 kernel (thorough tier: leanchecker re-check of the property module)",
    "axioms allowed: propext, Classical.choice, Quot.sound (audited per theorem by #print axioms on every run); no sorry/admit/native_decide/bv_decide/own axioms (source audit on every run)",
    "gen/ (fact extractor + whitelist Go->Lean translator) regenerates lean/TakVerif/Generated/*.lean from /repo on every run",
    "harness (Go, overlaid into /repo's module at build time) + Lean driver + line diff: the correspondence between the hand-written model and the real code is differential testing, not proof",
    "Go compiler/runtime and the Lean compiler (driver executable) are trusted for the correspondence only",
]

PROPS = {}

def prop(pid, **kw):
    PROPS[pid] = kw


import os, glob
_d = os.path.join(os.path.dirname(os.path.abspath(__file__)), "props.d")
for _f in sorted(glob.glob(os.path.join(_d, "*.py"))):
    exec(compile(open(_f).read(), _f, "exec"), {"prop": prop, "PROPS": PROPS, "_f": _f})
