"""Per-property configuration of ./check."""

TRUSTED_BASE = [
    "Lean 4.33.0 kernel (thorough tier: leanchecker re-check of the property module)",
    "axioms allowed: propext, Classical.choice, Quot.sound (audited per theorem by #print axioms on every run); no sorry/admit/native_decide/bv_decide/own axioms (source audit on every run)",
    "gen/ (fact extractor + whitelist Go->Lean translator) regenerates lean/TakVerif/Generated/*.lean from /repo on every run",
    "harness (Go, overlaid into /repo's module at build time) + Lean driver + line diff: the correspondence between the hand-written model and the real code is differential testing, not proof",
    "Go compiler/runtime and the Lean compiler (driver executable) are trusted for the correspondence only",
]

PROPS = {}

def prop(pid, **kw):
    PROPS[pid] = kw

prop("C01",
     rule="positions: biased random playouts, well-formed constructed boards (stacks to 64), testdata games; moves: generated moves + malformed stream (off-board/int8-range coordinates, all type codes, damaged slide words). Every distinct (position, move) op line counts; trivial = none (both accepted and rejected moves are claims of the property)",
     assumptions=["stacks never exceed 64 pieces (documented representation limit)", "custom piece counts <= 255 (reserve counters are bytes)"])
prop("C02", rule="positions as C01 plus road-shape boards (random edge-to-edge walks, broken by wall/enemy/hole, optional second road); distinct op lines", assumptions=[])
prop("C03", rule="positions as C01; allmoves (sorted list equality) and legal-set equality with the rule book; distinct op lines", assumptions=[])
