# C13, the part for PTN files / chat lines / weights JSON (generator "C13ptn", theorems Props/C13_ptn.lean).
# Loaded after the other files (zz_): joins the generator to C13's list, or defines C13 when run alone.
_rule = ("PTN files: hand-made malformed inputs (unterminated comments, broken tags, Size -2..14 and non-numeric with/without TPS, "
         "tokens/comments/space runs/tags around the 64 KiB scanner limit, BOM fragments, Latin-1 spaces), structure-aware mutations of "
         "generated games and of testdata files (delete/duplicate/replace/insert/truncate/drop span), random bytes over the PTN alphabet, "
         "TPS stress starts (stacks to 300, reserves wrapped) followed by random well-formed moves; each through ParsePTN, InitialPosition, "
         "full replay (PositionAtMove(0)), a third also through the Iterator trace. Chat lines: shaped, mutated and random lines through "
         "ParseTell/ParseShout/ParseShoutRoom. Weights JSON: valid, mutated, hand-made and random documents through (*Weights).UnmarshalJSON")
_assume = "regexp, encoding/json and bufio internals are assumed total; the models cover the glue around them (PTN part: ParseMove/ParseTPS are parameters, see C12)"
if "C13" in PROPS:
    _c = PROPS["C13"]
    _g = _c.setdefault("generators", ["C13"])
    if "C13ptn" not in _g:
        _g.append("C13ptn")
    _c["rule"] = _c.get("rule", "") + " || " + _rule
    _c.setdefault("assumptions", []).append(_assume)
    _c.setdefault("per_op_timeout", "20s")
else:
    prop("C13", rule=_rule, assumptions=[_assume], generators=["C13ptn"], per_op_timeout="20s")
