# Work package "mctspolicy": the rollout policies of the Monte-Carlo player (ai/mcts/policy.go) and rollout.
# Generator C04policy (ops pw.find, pw.move, pw.sel, pw.selr, pw.roll, pw.rolls) is appended to C04.
def _policy_part(pid, gen, rule, assumptions):
    cur = PROPS.get(pid)
    if cur is None:
        prop(pid, generators=[gen], rule=rule, assumptions=list(assumptions))
        return
    gens = cur.setdefault("generators", [pid])
    if gen not in gens:
        gens.append(gen)
    cur["rule"] = (cur.get("rule", "") + " || " + rule).strip(" |")
    cur["assumptions"] = cur.get("assumptions", []) + [a for a in assumptions if a not in cur.get("assumptions", [])]

_policy_part("C04", "C04policy",
     "ROLLOUT POLICIES (model Impl/MCTSPolicy.lean): findPlaceWins on raw words (any bits, also outside the board, group lists unrelated to the mask); "
     "placeWinMove + what the proposed placement does (win by road / no win / refused) on positions one placement from a road with the mover's reserve in every state "
     "(flats exhausted, capstones only, one flat, custom piece counts, nothing left, the opponent's flats gone), random positions, reachable and populated opening plies "
     "(the placed flat is the opponent's), full boards, full-minus-one, nearly full; ONE Select step of each policy with DICTATED math/rand results "
     "(a rand.Source under which Int31n(n) = draw % n): the successor position, the number of draws, argument untouched and not aliased are compared, panics included "
     "(positions with no legal move: Int31n(0)); one Select step under the real seeded stream: the answer must be in the set the model allows; whole rollouts "
     "(MaxRollout 0..50, thresholds 1..2^40, both policies) with dictated results: value and number of draws compared, the node's position untouched; several rollouts on one "
     "player under the real stream (totality, value range, node untouched). distinct op lines; trivial = none",
     ["rollout policies: math/rand is used through Int31n only and is modelled by the contract 0 <= Int31n(n) < n (n <= 0 panics); the policy owner's bitboard constants are those of the position's size (as NewMonteCarlo's callers configure it)"])
