# Work package "serve": the RPC handlers of cmd/internal/serve (consumers of verdicts and canonical forms) are
# exercised by two extra generators attached to the properties that name them.
for _pid, _gen, _rule in (
    ("C05", "C05serve",
     " (E, generator C05serve) the gRPC handlers Analyze / IsPositionInTak of cmd/internal/serve called in-process on ONE server object per session: "
     "request sequences over the positions of default-configuration games on 3x3..5x5 (TPS text from FormatTPS, turn-flipped and mutated TPS), depth 1..3 (and 0/<0 on finished roots), precise on/off, "
     "key changes one component at a time; compared: the engine-cache rule on every request (replaced/reused, table length), the complete response where the engine never sorts (depth-1 engines, finished roots, every IsPositionInTak), "
     "and for sorting engines the claims the property prescribes on the real response (line replays; precise: forced result within the depth reported, fresh precise engine: value = exhaustive negamax under the default evaluator and first move attains it; any engine: no opposite verdict); "
     "IsPositionInTak re-read by the rule book (InTak <=> the side not to move wins at once after a pass; TakMove is such a move)"),
    ("C15", "C15serve",
     "; (generator C15serve) the gRPC handler Canonicalize of cmd/internal/serve on PTN spellings (short/long forms, annotation marks) of the same game sources, their canonical forms again, their images, illegal games, garbled spellings, sizes outside 3..8: complete response compared with the composed model ParseMove -> Canonical -> FormatMove"),
):
    if _pid in PROPS:
        PROPS[_pid].setdefault("generators", [_pid])
        if _gen not in PROPS[_pid]["generators"]:
            PROPS[_pid]["generators"].append(_gen)
        PROPS[_pid]["rule"] = PROPS[_pid].get("rule", "") + _rule
if "C05" in PROPS:
    PROPS["C05"].setdefault("assumptions", []).append(
        "serve: sort.Sort order is not modelled, so responses of sorting engines (depth >= 2) are compared through the property's claims, not bit for bit; the request context is never cancelled")
