# Work package "gen": the `fn.*` correspondence ops of the functions regenerated into Generated/Funcs<Group>.lean run with
# every property whose model is bridged to them (Props/Cxx_gen.lean), and `gen_files` names the generated files a
# property's model/bridges use (Funcs.lean is used by all): a translation failure in another file does not break it.
def _attach(pid, g):
    if pid in PROPS:
        gens = list(PROPS[pid].get("generators", [pid]))
        if g not in gens:
            gens.append(g)
        PROPS[pid]["generators"] = gens

# Second round (work package "gen2"): FuncsPos (Position.Top/At/hashAt/Equal), FuncsRoad (hasRoad, bitboard.FloodGroups),
# FuncsMoveGen (MkSlides, calculateSlides, the `slides` table of init, Position.AllMoves).  Every group file imports the
# earlier ones, so a property lists all files up to the last one it uses.
_UPTO_EVAL = ["FuncsTak.lean", "FuncsOver.lean", "FuncsMove.lean", "FuncsSym.lean", "FuncsAI.lean", "FuncsFPA.lean", "FuncsEval.lean"]
# Third round (work package "gen3"): FuncsApply (Slides.Iterator, Position.analyze, Position.MovePreallocated) is the last
# generated file and imports all the others.
_ALL_APPLY = _UPTO_EVAL + ["FuncsPos.lean", "FuncsRoad.lean", "FuncsMoveGen.lean", "FuncsSymMove.lean", "FuncsProve.lean", "FuncsApply.lean"]
# Fourth round (work package "gen4"): FuncsThreat (ai.CountThreats) and FuncsHeur (ai.evaluate with mobility, scoreGroups,
# scoreThreats, computeInfluence / computeControl, scoreControl, the init that builds DefaultWeights) come last.
_ALL_THREAT = _ALL_APPLY + ["FuncsThreat.lean"]
_ALL_HEUR = _ALL_THREAT + ["FuncsHeur.lean"]
# Fifth round (work package "gen5"): FuncsSearch (Stats.Merge, nullMoveOK, ttGet, ttPut, recordCut of ai/minimax.go) imports only
# the files up to FuncsAI (gen/search.go groupImportsUpTo), so the search properties do not depend on the evaluator's files.
# Sixth round (work package "gen6"): FuncsMoveIter (moveGenerator.Reset / Next of ai/moves.go) imports the files up to FuncsAI and FuncsSearch.
# Seventh round (work package "gen7", task 2): FuncsZw (zwSearch itself, executed only - no bridge theorem; gen/zw.go) imports the files up to
# FuncsAI, FuncsSearch and FuncsMoveIter; its `fn.zwsearch` op (generator FNZW) runs the regenerated definition against the real function.
# Task 3: FuncsSort (moveGenerator.sortMoves with sort.Sort as a permutation oracle; gen/zwsort.go), op `fn.sortmoves`, generator FNSORT.
_SEARCH = ["FuncsTak.lean", "FuncsMove.lean", "FuncsAI.lean", "FuncsSearch.lean", "FuncsMoveIter.lean", "FuncsZw.lean", "FuncsSort.lean"]
_GEN = {
    "C01": (_ALL_APPLY, ["FNTAK", "FNPOS", "FNAPPLY"]),
    "C02": (_UPTO_EVAL + ["FuncsPos.lean", "FuncsRoad.lean"], ["FNTAK", "FNOVER", "FNROAD"]),
    "C03": (_ALL_APPLY, ["FNMOVEGEN", "FNAPPLY"]),
    "C05": (_SEARCH, ["FNMOVE", "FNAI", "FNSEARCH", "FNITER", "FNZW", "FNSORT"]),
    "C04": (_SEARCH, ["FNSEARCH", "FNITER", "FNZW", "FNSORT"]),
    "C16": (_SEARCH, ["FNSEARCH", "FNITER", "FNZW", "FNSORT"]),
    "C14": (_UPTO_EVAL + ["FuncsPos.lean", "FuncsRoad.lean", "FuncsMoveGen.lean", "FuncsSymMove.lean"], ["FNMOVE", "FNSYM", "FNXFORM"]),
    "C06": (_UPTO_EVAL + ["FuncsPos.lean", "FuncsRoad.lean", "FuncsMoveGen.lean", "FuncsSymMove.lean", "FuncsProve.lean"], ["FNPROVE"]),
    "C15": (["FuncsTak.lean", "FuncsMove.lean", "FuncsSym.lean"], ["FNSYM"]),
    "C20": (["FuncsTak.lean", "FuncsMove.lean", "FuncsFPA.lean"], ["FNMOVE", "FNFPA"]),
    "C08": (_ALL_APPLY, ["FNHASH", "FNPOS", "FNAPPLY"]),
    "C18": (_ALL_HEUR, ["FNEVAL", "FNHEUR"]),
    "C19": (_ALL_THREAT, ["FNTHREAT"]),
}
for _pid in list(PROPS):
    _files, _gens = _GEN.get(_pid, ([], []))
    PROPS[_pid].setdefault("gen_files", _files)
    for _g in _gens:
        _attach(_pid, _g)
