# Work package "gen": the `fn.*` correspondence ops of the functions regenerated into Generated/Funcs{Tak,Sym,AI,FPA}.lean
# run with every property whose model is bridged to them (Props/Cxx_gen.lean).
def _attach(pid, g):
    if pid in PROPS:
        gens = list(PROPS[pid].get("generators", [pid]))
        if g not in gens:
            gens.append(g)
        PROPS[pid]["generators"] = gens

for _pid, _g in (("C01", "FNTAK"), ("C02", "FNTAK"), ("C14", "FNSYM"), ("C15", "FNSYM"), ("C05", "FNAI"), ("C20", "FNFPA")):
    _attach(_pid, _g)
