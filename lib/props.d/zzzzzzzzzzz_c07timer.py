# Work package "c07timer": the grace timers of the bot loop under real time.  The timer seam follows every time.After call of bot.go
# and the clock event of the tie is "the OLDEST armed timer expires" (model: lean/TakVerif/Impl/BotTimer.lean, theorems Props/C07_timer.lean).
if "C07" in PROPS:
    _p = PROPS["C07"]
    _p["rule"] = _p.get("rule", "").replace("grace-timer expiry,", "clock (the oldest armed grace timer expires: after several server moves inside one handleMove invocation - a resume replay - "
                                            "the timers of the earlier moves expire first, as stale no-ops, before the one of the last move ends the invocation; distribution tags timer:stale / timer:fired / timer:expiry-with-a-newer-timer-armed),")
    _old = [a for a in _p.get("assumptions", []) if "one-token rewrite of bot.go" in a]
    for a in _old:
        _p["assumptions"].remove(a)
    _p.setdefault("assumptions", []).append(
        "time: EVERY call time.After( in playtak/bot/bot.go is redirected to a package variable at harness build time (harness/rewrite/playtak_bot.json: all occurrences, at least one; "
        "any other road to the clock in that file - time.NewTimer, AfterFunc, Sleep, Now, context.WithTimeout ... - fails the harness build and is reported as a broken tie); the scheduler keeps all timers "
        "the loop creates and lets them expire oldest first, one per `ev timer` (real time is monotone and all grace periods are equally long); the schedule has no timestamps: which events fall between two expiries is the "
        "schedule's choice, the real 500 ms duration is not exercised")
