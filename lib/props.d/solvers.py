prop("C06",
     rule=("solver runs `pn <maxnodes> <preserve> <pn2> <maxdepth>` / `dfpn <attacker> <table entries>` on (a) positions of exactly solved game graphs "
           "(3x3 and 4x4 with reduced reserves; whole reachable graph explored and solved by fixed-point iteration in the Lean model, "
           "independently in the Go harness; node and win counts compared), chosen with a bias to positions where the side to move wins but not at once, "
           "cannot win (draws by repetition, flat ties, losses) and uniformly; (b) positions 1-5 plies before the end of random games on 3x3-6x6, judged "
           "one-sidedly by exhaustive search to depth 2-3. Every op compares verdict, move, depth, root numbers and all statistics with the model, and the "
           "model's verdict/move with the truth. Distinct op lines count; `pnthreats` lines (CountThreats mirror) and `case`/`pngraph` lines are not solver claims"),
     assumptions=["the depth-first solver has no limit of its own: generated positions on which the real solver does not return within 3 s are skipped (counted as dfpn.skipped-no-return)",
                  "pn2Threshold is a constant of the code (1000 nodes): PN-squared re-rooting is exercised only by searches that grow beyond it"],
     per_op_timeout="120s",
     dedup=lambda m: (m["ops"][-1].split(" ")[0], m["go"].split(" ")[0], m["model"].split(" ")[0], m["model"].split(" ")[-1][:20]),
     why=("the Lean model (Impl/PN.lean, Impl/DFPN.lean) mirrors the solvers and its verdicts are compared with the game-theoretic truth computed by retrograde "
          "analysis / bounded exhaustive search (Spec/GameTruth.lean); Props/C06.lean proves that zero proof/disproof numbers in the model are sound. "
          "A `truth=bad:...` field in the model output means the solver's verdict contradicts the truth on this input; any other difference means the real "
          "code left the proved model"))
