prop("C06",
     rule=("solver runs `pn <maxnodes> <preserve> <pn2> <maxdepth>` / `dfpn <attacker> <table entries>` (fresh solver) and `pnuse`/`dfpnuse` "
           "(one Prover / one DFPNSolver used for several positions, also of different board sizes, larger first) on "
           "(a) positions of exactly solved game graphs (3x3 and 4x4 with reduced reserves; whole reachable graph explored and solved by "
           "fixed-point iteration in the Lean model and independently in the Go harness, node and win counts compared), chosen with a bias to "
           "positions where the side to move wins but not at once, or cannot win (repetition draws, flat ties, losses); "
           "(b) positions 1-5 plies before the end of random games on 3x3-6x6, judged one-sidedly by exhaustive search to depth 1-3; "
           "(c) finished games as roots; (d) 7x7/8x8 positions with more than 1100 moves (PN-squared beyond its node threshold at depth 1) under a depth limit. "
           "Every op compares verdict, move, depth, root numbers and all statistics with the model, and the model's verdict and move with the truth "
           "(`truth=` field). Distinct op lines count; `case`, `pngraph`, `pnnew`, `dfpnnew` lines are set-up, not solver claims"),
     assumptions=["the depth-first solver has no limit of its own: generated positions on which the real solver does not return within 2 s are skipped (counted as dfpn.skipped-no-return), as are runs larger than the model can replay in the tier's time (pn.skipped-too-large, dfpn.skipped-too-large)",
                  "pn2Threshold is a constant of the code (1000 nodes): PN-squared re-rooting is reached only by searches that grow beyond it (wide 7x7/8x8 positions, and larger node limits in the thorough tier)",
                  "one DFPNSolver used first on a smaller and then on a larger board panics in the real code (a pooled position of the smaller board is handed to MovePreallocated); such sequences are outside the property (no verdict is returned) and are not generated"],
     per_op_timeout="120s",
     dedup=lambda m: (m["ops"][-1].split(" ")[0], m["go"].split(" ")[0], m["model"].split(" ")[0], m["model"].split(" ")[-1][:20]),
     why=("the Lean model (Impl/PN.lean, Impl/DFPN.lean) mirrors the solvers and its verdicts are compared with the game-theoretic truth computed by retrograde "
          "analysis / bounded exhaustive search (Spec/GameTruth.lean); Props/C06.lean proves that zero proof/disproof numbers in the PN model are sound, Props/C06_dfpn.lean that the DFPN model's 'proven' is sound and its 'disproven' while no repetition was met (otherwise only the truth comparison guards it). "
          "A `truth=bad:...` field in the model output means the solver's verdict contradicts the truth on this input; any other difference means the real "
          "code left the proved model"))
