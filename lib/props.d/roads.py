# C02 (roads / game end) -- overrides the entry in core.py
prop("C02",
     rule=("positions: all 3^9 boards of {empty, white flat, black flat} on 3x3 (quick: one random parity/tie-break/reserve mode each; "
           "thorough: both parities x 3 reserve modes), thorough also all 2^16 white-flat subsets of 4x4 (plain, and with one square "
           "turned into a wall / a capstone); road-shape boards on sizes 3..8 (random edge-to-edge walks, broken by wall/enemy/hole, "
           "capstones inside, optional second road); flat/full boards with balanced counts and both tie-break settings; many-small-groups boards; reserve modes "
           "(default, a side out of stones, out of stones with a capstone left); 1 in 40 positions with a reserve pair adding up to 256 (byte-sum wrap); the shared sources of C01 (playouts, constructed stacks, testdata). "
           "Ops per position: over (real WinDetails vs model), sover (vs list-level rule book), wfb (hypothesis WFBoard of the "
           "theorems evaluated on the real position data vs on the model), result/sresult (ptn.ResultFromGame incl. its panic when not over), dump for 1 in 4 (group lists). Every distinct op line counts; trivial = none"),
     assumptions=["the model is of the tree with fixes/C02-reserve-wrap.diff applied (GameOver tests each reserve counter instead of the wrapping byte sum stones+capstones); until the fix is in /repo the cases it changes (a reserve pair adding up to 256) are reported as KNOWN-FINDING C02-reserve-wrap",
                  "RoadWF (size 3..8, constants = Precompute(size), White/Black on the board and disjoint, groups = analyze()) is the hypothesis of hasRoad_iff / winDetails_refines / gameOver_refines / result_refines; "
                  "it is proved for New (new_wf) and for every result of FromSquares (fromSquares_wf); its preservation by Move belongs to C01 (move_refines / reachable_wf); here the stronger WFBoard is evaluated on every sampled position (op wfb: always 1 on both sides)"])
