# C02 (roads / game end) -- overrides the entry in core.py
prop("C02",
     rule=("positions: all 3^9 boards of {empty, white flat, black flat} on 3x3 (quick: one random parity/tie-break/reserve mode each; "
           "thorough: both parities x 3 reserve modes), thorough also all 2^16 white-flat subsets of 4x4 (plain, and with one square "
           "turned into a wall / a capstone); road-shape boards on sizes 3..8 (random edge-to-edge walks, broken by wall/enemy/hole, "
           "capstones inside, optional second road); flat/full boards with balanced counts and both tie-break settings; many-small-groups boards; reserve modes "
           "(default, a side out of stones, out of stones with a capstone left); the shared sources of C01 (playouts, constructed stacks, testdata). "
           "Ops per position: over (real WinDetails vs model), sover (vs list-level rule book), wfb (hypothesis WFBoard+ReservesOK of the "
           "theorems evaluated on the real position data vs on the model), result/sresult (ptn.ResultFromGame incl. its panic when not over), dump for 1 in 4 (group lists). Every distinct op line counts; trivial = none"),
     assumptions=["reserve sums stones+capstones of each side fit a byte (<= 255): beyond that the real `whiteStones+whiteCaps != 0` test wraps around (e.g. Pieces=253, Capstones=3 ends the game at the start position)",
                  "RoadWF (size 3..8, constants = Precompute(size), White/Black on the board and disjoint, groups = analyze()) is the hypothesis of hasRoad_iff / winDetails_refines / gameOver_refines / result_refines; "
                  "it is proved for New (new_wf) and for every result of FromSquares (fromSquares_wf); its preservation by Move belongs to C01 (move_refines / reachable_wf); here the stronger WFBoard is evaluated on every sampled position (op wfb: always 1 on both sides)"])
