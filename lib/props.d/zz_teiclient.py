# Work package "teiclient": the client side of C17 (tei/client.go, tei/time.go, selfplay clock bookkeeping).
# The generator C17client is attached to C17 (file name sorts after teifpa.py, which creates the C17 entry).
_c17 = PROPS.get("C17")
if _c17 is None:
    prop("C17", generators=[])
    _c17 = PROPS["C17"]
if "C17client" not in _c17.setdefault("generators", ["C17"]):
    _c17["generators"].append("C17client")
_c17["rule"] = (_c17.get("rule", "") + " || client: the real tei.Client/Player.TEIGetMove talking to the real Engine.Run in-process over instrumented in-memory pipes "
    "(scripts: handshake, NewGame, 1-3 TEIGetMove per game on sampled positions of all sizes 3..8 - start, playouts, finished, constructed boards with stacks, non-default piece counts - both movers, "
    "second games, dead players, wrong/refused sizes, selfplay clock sequences) with every (White, Black) clock pair of the grid {0,1ns,999999ns,1ms,1ms+1ns,5ms,1s,2^62ns}^2 x both movers, every single field incl. negative and extreme values, "
    "per-move times {expired, 0, 1ns, 999999ns, k ms + 0.5 ms, 2^62 ns} / none; compared: every line the client writes (position tps ..., go ... with exact millisecond values), ok move / err / panic / hang, "
    "the deadline the engine installs for that go, whether the engine's position equals the caller's; the client against scripted engines (empty lines, malformed/duplicated/missing bestmove, no newline, EOF or silence); "
    "formatTime on a boundary grid and random int64. Distinct op lines").strip(" |")
_c17["assumptions"] = _c17.get("assumptions", []) + [
    "client tie: synchronous peer (the harness waits until the engine has consumed a line before the client's next call); the searcher is an oracle read from the real engine's info line and checked for legality in the model engine's position; the engine's deadline is recorded, not acted on",
    "client tie: the context deadline handed to TEIGetMove is always `rem` away when asked (custom context), so deadline.Sub(time.Now()) = rem minus nanoseconds; rem values of at least 1 ms are chosen 0.5 ms above a millisecond boundary and a run whose movetime came out lower (machine stalled > 0.5 ms between two statements) is repeated",
]

# C10 names the tei client's `position tps` line among its observation points: the client generator runs under C10 as well
_c10 = PROPS["C10"]
if "C17client" not in _c10.setdefault("generators", ["C10"]):
    _c10["generators"].append("C17client")
_c10["rule"] = (_c10.get("rule", "") + " || the tei client's `position tps` line (generator C17client, described under C17): the text the real Player.TEIGetMove writes is FormatTPS of "
    "the position it was asked about and the engine's parsed position equals it - also for successive requests on one Player whose positions differ in the move number only").strip(" |")
