prop("C17",
     generators=["C17"],
     rule="budget: complete boundary grid {0,1ns,1ms±1,1.25ms±1,5ms±1,1s,5s,60s,2^31,2^40,2^62-1,2^62}^3 + random triples (boundary-biased; some outside the domain for wrap-around fidelity); "
          "TEI: every command stream of <=4 (thorough: 5) commands over an 8-command alphabet for sizes 3 and 5, plus random multi-game histories on one engine (sizes 3..8, startpos/TPS starts, move lists, go with clock arguments, stop/isready/quit, missing final newline); "
          "plus every (mover, wtime, btime) on the clock grid {0,1,2,4,5,6,10,1000,60000 ms}^2 x {White, Black to move} with five movetime settings and increments, several go per engine and a second game on the same engine; "
          "compared: the whole output stream (info lines without the time field), the engine's (searcher cached, size, position) after every command, and the DEADLINE analyze installs for every go (duration handed to context.WithTimeout, or none), observed through the build-time seam harness/rewrite/tei_server.json. Distinct op lines; trivial = none",
     assumptions=["ASCII command streams (strings.Fields/TrimSpace are modelled for bytes < 0x80)",
                  "PTN move / TPS token parsing is a parameter of the model (resolved per token by the real parsers, see C10/C11/C13)",
                  "the searcher is an oracle: its answers are read from the real engine's output and checked for legality in the model's position; in fully compared histories the installed deadline is recorded but does not act on the search (the seam hands the search a context without deadline), so the output does not depend on the wall clock even for budgets of 0; streams with arbitrary go arguments run with the real deadline and are compared by outcome class and installed deadlines",
                  "budget rule domain: 0 <= movetime, gametime, inc <= 2^62 ns"],
     why="the Lean model of tei/server.go is proved to satisfy C17 (Props/C17.lean); the real code disagrees with it on this input")
prop("C13tei",
     generators=["C13tei"],
     rule="malformed TEI streams: commands out of order, position before teinewgame / for another size, go on finished games, any go arguments (tiny, zero, wrapped-negative budgets: outcome class only), bad sizes, mutated position lines, garbage words, random ASCII lines, quit mid-stream, missing final newline",
     assumptions=["ASCII streams"])
prop("C20",
     generators=["C20"],
     exhaustive=True,
     rule="EXHAUSTIVE: every opening line of every variant {center, doublestack, cairn} x bot colour {W,B} x size 4..6 (thorough: 4..8): all first-stone squares, then at every unscripted ply every legal move the variant's own rule check accepts (`fpaopts` lines compare the accepted sets themselves, `fpa` lines the complete opening: scripted moves, their legality on the board, resignations = self-rejection), driven through the real Friendly.GetMove with a stub searcher; plus isCentered/isCenterAdjacent/distance/dir on their whole small domains and adjacent() on random boards. Distinct op lines; trivial = none",
     assumptions=["the bot's unscripted own plies (the two first stones) are treated as free choices of its searcher: all squares are enumerated",
                  "the opponent only plays moves that are legal on the board (the server enforces this) and, for the claim, accepted by the rule check"],
     why="the Lean model of cmd/internal/playtak/fpa.go (fixed) is proved to script only legal, self-accepted moves (Props/C20.lean); the real code disagrees with it on this opening line")
prop("C04mcts",
     generators=["C04mcts"],
     rule="cornerMove on every opening position (empty board / one stone on any square) of sizes 3..8 with every random-bit string of 0..6 draws, and on random later positions; populate on random positions (children and proven marks, in order); update on random root-to-leaf paths (depth 1..5, proven marks incl. unusual values, siblings); the whole Monte-Carlo player (both policies + default, corner forcing on/off, limits 150-250 ms) on live positions: answer checked against the legal set",
     assumptions=["Monte-Carlo behaviour inside a real time limit is sampled, not modelled: UCB floats, math/rand, the clock, rollouts and sort.Sort are oracles of the model; the theorem is generic in them"])


# ---- parts of C13 (TEI command stream) and C04 (Monte-Carlo player) owned by this package ----
# Their generators are registered under their own names; here they are appended to the owning
# property's generator list (or the property is created when this file is used alone).
def _part_of(pid, gen, rule, assumptions):
    cur = PROPS.get(pid)
    if cur is None:
        prop(pid, generators=[gen], rule=rule, assumptions=list(assumptions))
        return
    gens = cur.setdefault("generators", [pid])
    if gen not in gens:
        gens.append(gen)
    cur["rule"] = (cur.get("rule", "") + " || " + rule).strip(" |")
    cur["assumptions"] = cur.get("assumptions", []) + [a for a in assumptions if a not in cur.get("assumptions", [])]

_part_of("C13", "C13tei", PROPS["C13tei"]["rule"], ["TEI streams are ASCII (strings.Fields/TrimSpace modelled for bytes < 0x80)"])
_part_of("C04", "C04mcts", PROPS["C04mcts"]["rule"], PROPS["C04mcts"]["assumptions"])
