prop("C01",
     rule="positions: biased random playouts, well-formed constructed boards (stacks to 64), testdata games; moves: generated moves + malformed stream (off-board/int8-range coordinates, all type codes, damaged slide words). Every distinct (position, move) op line counts; trivial = none (both accepted and rejected moves are claims of the property)",
     assumptions=["stacks never exceed 64 pieces (documented representation limit)", "custom piece counts <= 255 (reserve counters are bytes)"])
prop("C02", rule="positions as C01 plus road-shape boards (random edge-to-edge walks, broken by wall/enemy/hole, optional second road); distinct op lines", assumptions=[])
prop("C03", rule="positions as C01; allmoves (sorted list equality) and legal-set equality with the rule book; distinct op lines", assumptions=[])
