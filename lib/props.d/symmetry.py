prop("C14",
     rule="positions: shared random sources (playouts, constructed boards with stacks to 64, testdata), boards invariant under a random subgroup of the eight maps (optionally perturbed on one square), positions of symmetric games; per position: the image list (bit-level dump and list-level view), outcome of images, and equivariance of Move for generated legal moves, the malformed stream (int8-range coordinates, all type codes, damaged slide words) and the named malformed slides (no drops, destination off board, interior zero nibble) under random or all eight maps; plus every slide shape from on/off-board origins under all eight maps (sizes 3-4 quick, 3-8 thorough). Every distinct op line counts; trivial = none",
     assumptions=["stacks never exceed 64 pieces (documented representation limit)",
                  "symmetries_spec: the hashes of the (at most eight) distinct images of the position do not collide (explicit NoCollision hypothesis)",
                  "bit-level theorems (move_equivariant_default, winDetails_invariant_default, symmetries_show_images): default piece counts, sizes on which the game has <= 64 pieces (3x3..6x6); larger games only under the explicit refinement hypotheses"])
prop("C15",
     rule="legal games from the start biased to stay or become self-symmetric (mirror debts, self-mirror moves, most-symmetric continuation), sizes 3..8, with slides; per game: canonical form, double application, images under the eight maps, a prefix, and the property clauses checked on the real code (canonchk); malformed: an illegal/garbled move inside a game, sizes outside 3..8, empty game; exhaustive: all legal games of <= 2 plies on 3x3/4x4 and 3 plies on 3x3 (quick), <= 4 plies on 3x3/4x4 and <= 3 on 5x5 (thorough). Every distinct op line counts",
     assumptions=["no collision among the hashes of the eight replayed boards of a game (explicit NoCollisionAt hypothesis of canonical_refines)",
                  "canonical_refines is unconditional (beyond NoCollisionAt) on 3x3..6x6; on 7x7/8x8 it assumes the refinement facts PosFacts2 (C01 needs the 64-piece stack limit there)"])
# The opening-book part of C04: its ops/generator live here; ./check C04 must list generator "C04book".
if "C04" in PROPS:
    PROPS["C04"].setdefault("generators", ["C04"])
    if "C04book" not in PROPS["C04"]["generators"]:
        PROPS["C04"]["generators"].append("C04book")
else:
    prop("C04", generators=["C04book"],
         rule="(symmetry package only) opening books: the two built-in books as built by playtak's init() and rebuilt through BuildOpeningBook, random books of legal lines sharing prefixes directly and through a symmetry, malformed lines; every prefix position under all eight maps is looked up, stored children and weights are compared with the model, 24 seeded GetMove calls per position must return a stored child that Move accepts",
         assumptions=["no collision among the hashes of the stored images (explicit NoCollision hypothesis)"])
