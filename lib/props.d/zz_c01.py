prop("C01",
     rule="positions: biased random playouts, well-formed constructed boards (stacks to 64), testdata games; moves: generated moves + malformed stream (off-board/int8-range coordinates, all type codes, damaged slide words). Every distinct (position, move) op line counts; trivial = none (both accepted and rejected moves are claims of the property)",
     assumptions=["stacks never exceed 64 pieces (documented representation limit; hypothesis StackLimit of move_refines, stated on the rule-book successor, vacuous for rejected moves, proved for placements)",
                  "custom piece counts <= 255 (reserve counters are bytes)",
                  "AnalyzeTotal (flood fuel suffices) is a hypothesis of move_never_hangs/move_refines/reachable_wf; proved as Roads.analyze_ne_none in the C02 package",
                  "the internal pass move is outside the claim (m.type != Pass)",
                  "FromSquares: well-formedness of the result is proved (fromSquares_wf); that its squares equal the input board is only sampled (rebuild op)"])
prop("C08",
     rule="positions as C01; mhash: Hash(), internal hash field and from-scratch recomputation after biased legal moves; rebuild: FromSquares(At()) equal + same hash; trans: a;x;b vs b;x;a move orders (Equal, hashes, board identity); equal: position vs one-piece perturbation and vs itself; distinct op lines",
     assumptions=["the no-collision clause is a census (sampled support), not a theorem",
                  "equal_iff/hash_congr/transposition are stated for well-formed positions (Tak.WF): New, move successors and FromSquares results are proved WF; TPS import and symmetry images only insofar as they go through FromSquares",
                  "hash_inv needs only HInv (hash field correct, size <= 8, empty squares have height 0), no stack limit, any basis table"])
