# Coordinator: properties whose parts come from several work packages.
import re, os, glob
def _registered():
    names = set()
    here = os.environ.get("VERIF_DIR") or os.path.dirname(os.path.dirname(os.path.dirname(os.path.abspath(_f))))
    for f in glob.glob(os.path.join(here, "harness", "verifh", "*.go")):
        names |= set(re.findall(r'genTable\["([A-Za-z0-9_]+)"\]', open(f).read()))
    return names
_reg = _registered()
def _gens(*names):
    return [n for n in names if n in _reg]

prop("C13",
     generators=_gens("C13tps", "C13ptn", "C13tei"),
     per_op_timeout="20s",
     rule="three byte streams per entry point (valid formatter outputs; structure-aware mutations: dropped/duplicated separators, empty cells, lone markers, unterminated comments, out-of-range sizes, commands out of order, go on finished games; uniformly random bytes), all byte strings of length <= 3 over each parser's alphabet plus {00,80,FF} in the thorough tier; outcome class (ok value / err / panic / hang) compared with the byte-level models; distinct op lines",
     assumptions=["regexp, encoding/json, bufio, strconv internals are assumed total; the glue around them is modelled",
                  "TEI: the searcher returns a legal PV head on live positions (C04)"])
prop("C04",
     generators=_gens("C04ab", "C04book", "C04mcts"),
     per_op_timeout="60s",
     rule="alpha-beta over the option lattice on live positions (stale-hint stress on reused engines, tiny tables, low reserves), opening book positions and all their symmetric images, Monte-Carlo player with both policies and corner forcing (limits >= 100 ms); every answer / PV head checked against the legal set of the model; distinct op lines",
     assumptions=["Monte-Carlo behaviour inside real time limits and sort.Sort order are oracles in the theorems and sampled in the tie"])

# generators added by the coordinator on top of the owners' entries
PROPS["C02"]["generators"] = ["C02", "FN"]
PROPS["C08"]["generators"] = ["C08", "FN", "CENSUS"]
for _k in ("C13tei", "C04mcts", "C13tps", "C13ptn", "C04ab", "C04book"):
    PROPS.pop(_k, None)   # temporary per-part entries of the work packages

# ops whose exact output the property does not prescribe (see ./check: weak_ops)
PROPS["C08"]["weak_ops"] = ["hash", "mhash"]
PROPS["C18"]["weak_ops"] = ["eval", "evalw", "evalparts", "control", "mobility", "dims", "evalconsts", "weights", "evalterm"]
