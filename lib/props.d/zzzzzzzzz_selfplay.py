# Work package "selfplay": `taktician selfplay` (cmd/internal/selfplay: Simulate / startGames / worker with one worker, readOpenings,
# writeGame, (*Command).Execute) run in-process by one extra generator attached to the properties it consumes.
def _sp_part(pid, gen, rule, assumptions):
    cur = PROPS.get(pid)
    if cur is None:
        return
    gens = cur.setdefault("generators", [pid])
    if gen not in gens:
        gens.append(gen)
    cur["rule"] = (cur.get("rule", "") + " || " + rule).strip(" |")
    cur["assumptions"] = cur.get("assumptions", []) + [a for a in assumptions if a not in cur.get("assumptions", [])]

_SP_RULE = ("TOURNAMENT FRONT END (generator C04selfplay): (1) op sp.sim: the real selfplay.Simulate with one worker on 1-2 openings of 3x3 / 4x4 (start, mid-game and finished positions), "
    "Games in {-1,0,1,2}, Swap on/off, Cutoff in {-1,0,1,2,3,5,8,20,80}, -limit 0 / 1 ns / 1 ms / 1 s, game clocks {0, 1 ns, 1 ms, 1 ms + 1 ns, 2 ms, 5 ms, 1 s} with increments {0, +-1 ms, 999999 ns} on a virtual clock, "
    "players = scripted deterministic movers (legal move number (A*ply+B) mod #legal; at chosen plies an error, the pass, the zero move, an off-board / occupied-square placement, a capstone, an arbitrary slide) and the REAL ai.MinimaxAI at depth 1-2 "
    "(three evaluators, with and without a table), clients that do not start, NewGame that fails: compared are the six totals, the per-player accounts, Count(), every Result in order (opening index, game index, player 1's colour, winner, hash and ply of the final position, every move), "
    "the number of GetMove calls and of calls under a deadline, the clocks shown at every call, and how the process would have ended (ok / Fatalf client / game / Get move / panic illegal move); "
    "(2) op sp.game: writeGame on sampled results of (1): the exact bytes of the PTN file; (3) op sp.open: readOpenings on files of TPS lines (valid, mutated, garbage, ply 0 with stones, \\r\\n, empty lines, no final newline, BOM, lines of 65535 / 65536 / 70000 bytes): the positions field by field, or an error; "
    "(4) op sp.run: `taktician selfplay` in-process as the dispatcher runs it (fresh Command, SetFlags, Parse, Execute; -threads 1, -openings FILE / missing file / none, -size, -games, -cutoff, -swap, -limit, -tc good and bad, -out DIR, -p1/-p2): the logged totals, the table of printSummary (white space normalised), every file under -out byte for byte, the Stats of summary.json, or which log.Fatalf / panic ended it")
_SP_ASSUME = ["selfplay: tei.NewClient (a child process speaking TEI) is replaced at build time (harness/rewrite/cmd_selfplay_simulate.json) by an in-process client with the surface the worker uses; its answers come from the harness (scripted movers / the real MinimaxAI.GetMove without deadline). The TEI client and engine are C17's subject (generators C17, C17client)",
    "selfplay: time.Now / time.Since in worker read a virtual clock that a player advances by D0 + D1*ply ns per call; log.Fatalf and a panic inside the worker goroutine (both end the real process) are turned into a recorded stop, after which Simulate returns what was counted before (the model returns the same prefix); one worker thread only (with more the ORDER of Stats.Games depends on the scheduler)",
    "selfplay: time.ParseDuration (-limit, -tc) is read from a table of the generated spellings; the ELO and binomial lines of printSummary (floating point), the seed, the Duration text of -limit, os error texts, -prefix / -merge / -v / -debug / -mem-profile are not compared"]

_sp_part("C04", "C04selfplay", _SP_RULE, _SP_ASSUME)
