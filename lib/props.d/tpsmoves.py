prop("C10",
     generators=["C10"],
     rule="tps/parsetps/rttps/tpshyp on positions from the shared sources (playouts, constructed boards with stacks to 64, testdata), every empty/occupied pattern of a row in every row of sizes 3..8, stacks of every height 1..64 with each top kind at both row ends; parsetps+canontps on strings drawn from the canonical grammar; parsetps on structure-aware mutations. Distinct op lines; trivial = none",
     assumptions=["stacks never exceed 64 pieces (documented representation limit)",
                  "round trip of reserves is claimed for default piece counts only (TPS does not carry the configuration)",
                  "ply within [0, 2^63) (Go int)"])
prop("C11",
     generators=["C11"],
     exhaustive=True,
     rule="exhaustive: every legal-shape move of every size 3..8 (placements on the board; slides with drops 1..8, sum <= size, number of drops <= distance to the edge) through FormatMove, FormatMoveLong, FormatServer, ParseMove (both spellings), ParseServer and the Go-side round-trip op; every spelling with every suffix over !?'* of length <= 2; plus raw move values through the formatters (outside the theorems). Distinct op lines; trivial = none",
     assumptions=[])
# C13 text part (ParseMove, ParseTPS, ParseServer); the coordinator merges the generator list of C13
prop("C13",
     generators=["C13tps"],
     rule="outcome class and value of ParseMove/ParseTPS/ParseServer on three byte streams (valid formatter outputs, structure-aware mutations, random bytes), all single-byte deletions/duplications of sampled valid inputs, and every byte string of length <= 3 over each parser's alphabet + {00,80,FF} (also behind the shortest prefixes that reach the inner loops). Distinct op lines; trivial = none",
     assumptions=["regexp/encoding/json/bufio internals are assumed total (not used by these three parsers)"])
