# Work package "cmdglue2": three more command front ends that consume anchored code — `taktician canonicalize`
# (cmd/internal/canonicalize), `taktician import-ptn` (cmd/internal/importptn), `taktician play` (cmd/internal/play over
# cli.CLI.Play / cliPlayer.GetMove) — each exercised in-process by one extra generator attached to a property it consumes.
def _cmd2_part(pid, gen, rule, assumptions):
    cur = PROPS.get(pid)
    if cur is None:
        return
    gens = cur.setdefault("generators", [pid])
    if gen not in gens:
        gens.append(gen)
    cur["rule"] = (cur.get("rule", "") + " || " + rule).strip(" |")
    cur["assumptions"] = cur.get("assumptions", []) + [a for a in assumptions if a not in cur.get("assumptions", [])]

_cmd2_part("C15", "C15canon",
    "COMMAND FRONT END (generator C15canon, op cmd.canon): `taktician canonicalize FILE` run in-process exactly as the subcommand dispatcher runs it (fresh Command, SetFlags, Parse, Execute on a temporary file); compared: the exact bytes of standard output, or that the command left through log.Fatalf, returned the usage status, or panicked. "
    "Files: self-symmetric-leaning and tower games on 3x3..8x8 inside a PTN skeleton (tags in any order, move numbers, annotation marks, comments, a result; BOM in 1/8), the command's own output again, the seven images of the game in the same skeleton, illegal games (repeated / appended move, bad slides, raw moves), "
    "Size tags as strconv.ParseUint and tak.New see them (missing, signed, padded, 0..2, 9.., 2^32), comments and tag values carrying `%` sequences (the command prints with fmt.Printf(g.Render())), files of generator C12 (TPS starts: the command ignores the tag), hand-made / random / mutated non-games; no argument; a missing file",
    ["canonicalize: log.Fatalf of package cmd/internal/canonicalize is redirected at build time (harness/rewrite/cmd_canonicalize_main.json) to a package variable whose Fatalf panics with a sentinel that the in-process entry point recovers; os.Stdout is pointed at a pipe for the duration of a run (one run at a time)"])

_cmd2_part("C11", "C11import",
    "COMMAND FRONT END (generator C11import): (1) op cmd.imp1: importOne of cmd/internal/importptn on one row of the playtak games table — notation = the playtak.FormatServer spelling of a random legal game on 3x3..8x8 joined by commas (also `, `, padded pieces, an empty piece, a mutated / lower-case / hand-made odd piece, another separator, no notation), player names with quotes / brackets / `%` / control characters, odd results, sizes, clocks (negative, 32-bit extremes) and dates (epoch, negative, far future): the exact PTN text, or that the row is rejected; "
    "(2) op cmd.impdb: `taktician import-ptn DB` run in-process TWICE (fresh Command, SetFlags, Parse, Execute) on a real sqlite file the harness creates with the games schema quoted in sql.go and 1-7 such rows, good and bad mixed: the ptns table after the first run (ids and exact texts) and that the second run adds nothing",
    ["import-ptn: package log of cmd/internal/importptn is redirected at build time (harness/rewrite/cmd_importptn_command.json; Fatal panics with a sentinel, Printf is swallowed); the calendar strings of a row's date (time.Unix(..).Format, standard library, local zone) travel on the op line and are not modelled; rows are generated with increasing ids (sqlite's scan order) and |timertime| < 2^31; which of the four workers converts which row is unobservable (ptns is keyed and read back by id)"])

_cmd2_part("C13", "C13play",
    "COMMAND FRONT END (generator C13play, op cmd.play): `taktician play` with two human players run in-process (fresh Command, SetFlags, Parse, Execute) on scripted standard input: legal games on 3x3..5x5 in short / long PTN spelling with annotation marks and trailing \\r, cut short or played to the end, with lines that must not move the game mixed in (mutated spellings, well-formed but illegal moves and slides, walls / capstones in the opening, empty lines, blanks, random text, bytes >= 0x80), input without a final newline, input after the end of the game; -size 3..5 and sizes tak.New rejects; -out FILE: "
    "every printed line (white space normalised, Go error texts after `parse error:` / `illegal move:` cut), whether the command panicked (end of input), and the bytes of the -out file",
    ["play: os.Stdin / os.Stdout of package cmd/internal/play are redirected at build time (harness/rewrite/cmd_play_main.json) to package variables holding the script and a buffer; text/tabwriter's padding and the wording of Go error values are not modelled; AI / TEI players and -unicode are not modelled and not generated"])
