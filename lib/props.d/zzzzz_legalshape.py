# Work package "legalshape": the link between "the move was legal when played" and the notation theorems.
# Generator C11legal (op legalraw) is appended to C11.
def _legal_part(pid, gen, rule, assumptions):
    cur = PROPS.get(pid)
    if cur is None:
        return
    gens = cur.setdefault("generators", [pid])
    if gen not in gens:
        gens.append(gen)
    cur["rule"] = (cur.get("rule", "") + " || " + rule).strip(" |")
    cur["assumptions"] = cur.get("assumptions", []) + [a for a in assumptions if a not in cur.get("assumptions", [])]

_legal_part("C11", "C11legal",
     "LEGAL-SHAPE LINK (sampled, not exhaustive): op legalraw on (position, raw move) pairs - positions from the shared sources; moves: legal generated moves, "
     "the same placements with a junk Slides word (single nibbles, drop-list look-alikes, single bits, all ones, random words), random placements with junk on any square, "
     "the malformed stream of C01, the pass and type codes 0 / 9..255 with junk in every field. One output line per pair: accepted or not by Position.Move; the move with the "
     "Slides word of a non-slide cleared (= Notation.normalize); Move.Equal both ways; Position.Move of the cleared move = same outcome and field-identical successor; and for accepted "
     "non-pass moves: the AllMoves entry Equal to it (= normalize m), membership of the cleared move in the harness' enumeration of legal shapes (= Notation.legalShape), "
     "FormatMove/ParseMove of the RAW value and of the cleared value (short and long), FormatServer of the raw value and ParseServer of it. The model prefixes MODEL-THM-FAIL "
     "when its own answer contradicts Props/C11_legal.lean (never printed by the Go side). distinct op lines; trivial = rejected moves",
     ["legal-shape link: normalize has no counterpart in the Go code; it is tied through three observations of the real code per accepted move: the AllMoves entry Move.Equal to it, "
      "Move.Equal itself, and Position.Move's identical result on both values"])
