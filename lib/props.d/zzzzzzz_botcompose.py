# Work package "botcompose": the bot loop composed with the real Bot implementations.  Generator C07compose runs the real
# bot.PlayGame / ObserveGame with the REAL Friendly (no rule / centre / double stack / cairn) or Taktician as Bot.
def _compose_part(pid, gen, rule, assumptions):
    cur = PROPS.get(pid)
    if cur is None:
        return
    gens = cur.setdefault("generators", [pid])
    if gen not in gens:
        gens.append(gen)
    cur["rule"] = (cur.get("rule", "") + " || " + rule).strip(" |")
    cur["assumptions"] = cur.get("assumptions", []) + [a for a in assumptions if a not in cur.get("assumptions", [])]

_compose_part("C07", "C07compose",
     "COMPOSED (sampled): the real bot.PlayGame / ObserveGame with the real Friendly (no FPA rule, centre, double stack, cairn) or Taktician (-use-opponent-time on/off) as its Bot under the lock-step scheduler; "
     "only the searching player (f.ai / t.ai) is a stub that waits for the scheduler and Friendly's depth-3 check engine answers what the schedule says. Random schedules of 6-28 events: server moves (rule-accepted or any legal) with and without clock line, "
     "clock line alone, grace timer, RequestUndo / Undo (Friendly agrees, Taktician refuses), chat, foreign-game lines, Over / Abandoned / close, answers of the searching player at once or held back over several invocation-ending events (thinkers queue on moveLock and enter GetMove after their invocation "
     "is over), legal / rule-accepted / zero / garbage answers, new check-engine verdicts. Compared after every event: loop status, record length and hash of g.p, every command on the wire in order (moves, RequestUndo, Resign, the resignation Tell's table entry), "
     "the GetMove call in progress (searching or waiting on its context after a resignation, position, cancelled or not), how often moveLock was taken; `cstate` adds the whole record, clocks, result and the FPA rule's remembered squares. "
     "A panic inside GetMove (thinker goroutine: the real process would die) is `tpanic`; the harness prefixes the status with `stale-` once a GetMove call whose context was already cancelled on entry had any effect (fixes/C07-stale-thinker.diff makes such calls return at once)",
     ["composed: the searching player is a stub (its answer is an input of the schedule); Friendly's check-engine verdicts are inputs; clocks through the seams of harness/rewrite/playtak_friendly.json, playtak_taktician.json, playtak_bot.json",
      "composed: thinkers take moveLock in the order they were started (they are parked on the mutex one event apart) and everything in GetMove that does not wait happens at once (Tak.Compose.settle); other lock orders are covered by the theorems only",
      "composed: chat commands that arrive as Shout lines (HandleChat), the opening-book wrapper and Friendly.GameOver's survey Tell are outside the composed model"])

# Work package "botcompose2": Friendly's check engine threaded (Impl/BotCheck.lean); generator C07check runs the real waitUndo with the REAL f.check.
_compose_part("C07", "C07check",
     "CHECK ENGINE (sampled): a real Friendly whose game was started through the real NewGame (so f.check is the depth-3 EvaluateWinner engine NewGame builds), the record after a random playout on a 3x3 / 4x4 board, "
     "then the real waitUndo(p) with the real engine, after every ply from the second on; compared with Tak.Compose.waitUndoK on Tak.Compose.minimaxChecker: whether the first analysis reports a win in one (value >= WinThreshold at depth <= 1), "
     "how often the engine is consulted, and the decision when there is no win in one",
     ["check engine: with a win in one the decision depends on the class of a depth-3 value searched with slide reduction (applied in zwSearch only) and history-ordered moves, which can depend on the move order the model does not mirror - that decision is not compared"])

# Work package "botcompose2": chat lines during the game (the `level` command replaces f.ai in mid-game).
_compose_part("C07", "C07compose",
     "LEVEL COMMAND (sampled, same generator): one event in seven is a line `Tell <Opp|Kibitz> msg` delivered to the real PlayGame (level 1..14, 0, 99, max, junk, upper case, double blank, help, size, other words), with and without a search in progress; "
     "the harness keeps the engine the real handleCommand built (its Depth is compared with the model's levelDepth) and puts a stub of the next build in its place, every stub reports which build it is; compared after every event in addition: "
     "f.level, how often f.ai was rebuilt, the Depth of the engine built last, the build of the f.ai object the search in progress runs on, and the replies (class, addressee, level) in wire order with all other commands",
     [])
