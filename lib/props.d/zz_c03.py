prop("C03",
     generators=["C03", "C03x"],
     rule="C03: positions as C01; allmoves (sorted list equality) and legal-set equality with the rule book. "
          "C03x: for every size a single stack of height 1..12, 20, 64 on corner/edge/interior squares with every top kind, both colours, "
          "both sides to move, bare and with walls/capstones/flats on its lines; random boards with emptied reserves "
          "(stones and capstones separately, per colour) and opening plies; true plies 0-2. Per position: allmoves, slegal, "
          "gencheck (no two Equal entries, none off the board, Dest defined) and accepts = EVERY raw move shape "
          "((x,y) in -1..size, type 0..9 except Pass, all 255 table words + damaged words) through Position.Move, each accepted move mapped to the "
          "AllMoves entry it is Equal to (UNLISTED otherwise), compared with the rule-book legal set. Quick tier: 15 of 16 probes are acceptsq = the same, but all 289 words "
          "only for slide types from on-board squares carrying a stack and a fixed 16-word sample elsewhere; thorough tier: always the full product. "
          "C03 base generator: slegal on one position in three (allmoves on all). distinct op lines",
     assumptions=["completeness is proved against the rule book Spec.step; that Position.Move accepts exactly what Spec.step accepts is C01 (here: sampled by the accepts probe)",
                  "Height[i]==0 exactly on squares without a colour bit (WFlite; implied by C01's WF, which holds of New, FromSquares output and along applied moves: Props/C03_WF.lean)"])
