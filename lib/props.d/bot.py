prop("C07",
     rule="lock-step schedules on the real bot.PlayGame/ObserveGame (mock client, gated mock AI, injected grace timer): ALL orderings of the enabled events "
          "{next server line, answer of the thinker inside GetMove (scripted / alternative-legal / illegal), grace-timer expiry, RequestUndo accepted or denied, Undo, "
          "clock line, chat and foreign-game lines, Over, Abandoned, connection close} up to the depth bound (quick 4-5, thorough 6-7 events) after a canonical prefix that "
          "plays the scripted game to every ply (3x3: every ply; 4x4, 5x5: plies 0-2 quick, every ply thorough), both colours and observer, resume replay of every prefix; "
          "eleven short 3x3 games ending in every class of finished position (draw with a full board, decisive flat count for either side, road of the mover, road of the other side) x colour of the last mover, "
          "the bot playing either colour (so each class is reached by the opponent's move and by the bot's own move) and observing, with clock line / grace timer / Over / undo traffic / AI answers in every order afterwards (scenarios fin-*; distribution tags finished:<class>:last-move-by-*); "
          "plus random walks of 6-35 events over the full menu including lines a server never sends. Every op line of every schedule is compared "
          "(sent commands, Positions/Moves hashes, clocks, the thinker inside GetMove, loop status); distinct_nontrivial = number of distinct schedules (hash of all op lines of a case); a schedule with no event after `botnew` is trivial and not counted",
     assumptions=["quick tier: each worker stops deepening after a wall-clock budget of 8 s (thorough 900 s) so that a loaded machine bounds the run; units beyond the budget are still run two events deep (distribution tags budget:*; none on an idle 16-core machine)",
                  "events are atomic at the select of handleMove (lock-step): Go scheduler fairness, real goroutine timing and lines in flight between server and bot are outside the model",
                  "the server accepts every transmitted move that is legal and on turn in its own history; wire parsing (ParseServer) is taken from the real code per line (C11/C13 own it)",
                  "the AI never answers tak.Pass (FormatServer has no wire form for it)",
                  "the grace timer is reached through a one-token rewrite of bot.go at harness build time (time.After -> package variable, harness/rewrite/playtak_bot.json); the real 500 ms duration is not exercised"],
     per_op_timeout="150s",
     search_thorough_on_break=True,
     why="the Lean model of handleMove (with the stale-answer fix) is proved to keep the record equal to the server's history and to transmit only legal, on-turn answers computed for the current position (Props/C07.lean: bot_inv, bot_ends_iff); the real loop disagrees with it on this schedule",
     dedup=lambda m: (m["ops"][-1].split(" ")[0:2] and " ".join(m["ops"][-1].split(" ")[0:2]), m["go"].split(" ")[0], m["model"].split(" ")[0]))
