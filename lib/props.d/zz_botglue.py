# Work package "botglue": the glue between the playtak bot loop and the searching players
# (cmd/internal/playtak/friendly.go, taktician.go, book.go).  Generator C20glue is appended to C20.
def _glue_part(pid, gen, rule, assumptions):
    cur = PROPS.get(pid)
    if cur is None:
        return
    gens = cur.setdefault("generators", [pid])
    if gen not in gens:
        gens.append(gen)
    cur["rule"] = (cur.get("rule", "") + " || " + rule).strip(" |")
    cur["assumptions"] = cur.get("assumptions", []) + [a for a in assumptions if a not in cur.get("assumptions", [])]

_glue_part("C20", "C20glue",
     "GLUE (sampled, not exhaustive): the real Friendly.GetMove / Taktician.GetMove on game records, one output word per call = (commands sent incl. the resignation text's table entry and the wait on the context, searcher consulted or not, the clock requests time.After/WithDeadline/WithTimeout with their durations and the check-engine consultations in program order, the returned move and its legality). "
     "FPA games of every variant x bot colour x size 4..6 (thorough 4..8): scripted plies by the rule's own script, rule-accepted moves elsewhere, one ply per line (any of 0..6, mover = opponent or bot) with a legal move the rule rejects; calls at every ply / only after a replayed prefix (resume) / after undos / for a thinker started on an earlier or already undone position (index panics compared); "
     "non-FPA games sizes 3..6, bot White/Black/observer, stub searcher answering legal, zero and garbage moves, check-engine verdicts on a grid around +-WinThreshold and depths 0..3; real searcher (levels 1..5 through the real level command, NewGame, wrapWithBook) with the verdicts of the real depth-3 engine taken from a probe run; "
     "Taktician: limits {0,1ns,1ms,1s,60s,negative,2^62}, -use-opponent-time on/off, bot White/Black/observer, plies 0..6, stub and real searcher (depth 2, book); levelSettings for levels -3..120, the level command on a grid of arguments, HandleTell of both bots on ~2700 chat messages (command words in any case x numeric arguments around the accepted ranges, empty and space-only messages, random printable ASCII), Friendly.Config and wrapWithBook for every size",
     ["glue: the searching player is an oracle with the C04 contract (a legal move on a live position): with the real searcher only the legality of its answer is compared",
      "glue: the clock is reached through token rewrites of friendly.go / taktician.go at harness build time (harness/rewrite/playtak_friendly.json, playtak_taktician.json: time.After, context.WithDeadline, context.WithTimeout and waitUndo's two f.check.Analyze calls go through package functions that record the requested duration / supply the verdict when the context carries the harness' recorder); the real waits (5 s, 30 s, 1 min) are not exercised",
      "glue: GetMove is called sequentially on a quiescent record; concurrent mutation of the record by the protocol goroutine while a thinker reads it is outside the model (C07's lock-step assumption)"])

_glue_part("C07", "C07glue",
     "GLUE (sampled): the two Bot implementations the loop is run with, as thinkers - the real Friendly.GetMove without FPA rule and Taktician.GetMove on game records "
     "(sizes 3..6, bot White/Black/observer, every ply incl. 0 and 1, undos, calls for a thinker whose position is no longer the newest or was undone): "
     "commands sent from inside GetMove (none), whether and on which position the searching player is asked, the deadline put on its context (Taktician: 20 s for plies 0-1, then -limit; none when pondering; "
     "off turn without -use-opponent-time: zero move at once), Friendly's reply-time floor and search deadline, the returned move = the searcher's answer and its legality",
     ["glue: see C20 (the searching player is an oracle with the C04 contract; clocks observed through the build-time seams harness/rewrite/playtak_friendly.json, playtak_taktician.json; GetMove called sequentially on a quiescent record)"])

# C07 also runs the FPA glue generator: a Friendly with an FPA rule decides what is transmitted (scripted move, resignation) from the
# rule's notes, which must follow the server's history through undos and replacement moves (seed C07-6)
if "C07" in PROPS and "C20glue" not in PROPS["C07"].setdefault("generators", ["C07"]):
    PROPS["C07"]["generators"].append("C20glue")

# C16 anchors cmd/internal/playtak/taktician.go: the Taktician half of the glue generator runs under C16 as well
if "C16" in PROPS and "C16glueT" not in PROPS["C16"].setdefault("generators", ["C16"]):
    PROPS["C16"]["generators"].append("C16glueT")
    PROPS["C16"]["rule"] = (PROPS["C16"].get("rule", "") + " || C16glueT: the real Taktician.GetMove on game records (ops `glue T ...`, described under C20/C07), "
        "among them calls whose per-move time budget runs out while the searching player works (`x=1`): the returned move is the searcher's answer").strip(" |")
