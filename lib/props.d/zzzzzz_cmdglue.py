# Work package "cmdglue": the command front ends the properties name as consumers — `taktician analyze`
# (cmd/internal/analyze) and the labelling stage of `taktician gencorpus` (cmd/internal/gencorpus) — are exercised by
# three extra generators attached to the properties that name them.
def _cmd_part(pid, gen, rule, assumptions):
    cur = PROPS.get(pid)
    if cur is None:
        return
    gens = cur.setdefault("generators", [pid])
    if gen not in gens:
        gens.append(gen)
    cur["rule"] = (cur.get("rule", "") + " || " + rule).strip(" |")
    cur["assumptions"] = cur.get("assumptions", []) + [a for a in assumptions if a not in cur.get("assumptions", [])]

_CMD_COMMON = ("`taktician analyze` runs in-process exactly as the subcommand dispatcher runs it (a fresh Command, its own SetFlags on a fresh FlagSet, Parse of the generated argument list, Execute on a temporary file); "
               "compared: every printed line (white space normalised, wall-clock fields dropped) and whether the command left through log.Fatal")

_cmd_part("C12", "C12cmd",
     "COMMAND FRONT END (generator C12cmd, op cmd.an): " + _CMD_COMMON + ". Files: the games of generator C12 (random games on 3x3..8x8 from tak.New or a TPS tag, puzzle files, earliest-end games; BOM in 1/5), "
     "three flag sets per file over -move n (0, 1, 2, the file's markers, max+1, max+2, negative), -white / -black / both / neither, -all (small short games), -variation (legal continuations of the selected position, an illegal first move, garbage, double and trailing blanks), "
     "under the cheap analyzers (depth-1 minimax with -tps, with and without board diagrams and the resulting position; -evaluate); files that are not games (hand-made, random bytes, mutated games); the flag parser's rejections. distinct op lines; trivial = FATAL / flagerr outputs",
     ["analyze: log.Fatal / log.Printf of package cmd/internal/analyze are redirected at build time (harness/rewrite/cmd_analyze_*.json) to a package variable whose Fatal panics with a sentinel that the in-process entry point recovers; os.Stdout is pointed at a pipe for the duration of a run (one run at a time); "
      "text/tabwriter's padding is not modelled (white space is normalised); -limit is 0 or never expires; -mcts, -explain, -dump-tree, -debug, the weight flags are not modelled and not generated"])

_cmd_part("C06", "C06cmd",
     "COMMAND FRONT ENDS (generator C06cmd): (1) op cmd.an: " + _CMD_COMMON + " for -prove (with -max-nodes / -max-depth / -pn2) and -dfpn (with -attacker white/black/unparsable, -table-mem from one entry to the default) on default-configuration 3x3 / 4x4 game files "
     "(from the start or from a TPS tag 1-4 plies before the end, finished or one move short), the analysed position selected by -move n -white/-black, as the final position (finished roots), beyond the game, or -all; "
     "(2) op cmd.gc dfpn: the labelling stage of `taktician gencorpus -analysis dfpn` ((*Command).evaluate called in-process with ONE worker) on 2-6 positions 2-4 plies before the end of such games, consecutive positions of one game (both sides to move) in one stream: move and label of every entry. "
     "Runs whose searches exceed what the model replays in the tier's time are skipped (counted). distinct op lines",
     ["gencorpus: the worker is modelled with fixes/C06-gencorpus-attacker.diff applied (one depth-first solver per side to move); which worker receives which position, the game generator, the position selector and the CSV writer of Execute are not modelled"])

_cmd_part("C05", "C05cmd",
     "COMMAND FRONT ENDS (generator C05cmd): (1) op cmd.an: " + _CMD_COMMON + " for the minimax analyzer with engines that never sort (-sort=false) at depth 2-3, precise or with the default pruning, no / tiny / default table, on 3x3 / 4x4 game files from a TPS tag 2-5 plies before the end: "
     "a fresh engine for one selected position, or -all (ONE engine per colour for all positions of that colour: histories of AnalyzeAll calls on related positions); every line of every analysis, the value and the resulting position; "
     "(2) op cmd.gcmm: the labels `taktician gencorpus -analysis minimax` gives ((*Command).evaluate in-process, one worker = one default engine with a 100 MiB table, 40 ms per position) on positions 2-4 plies before the end of 3x3 / 4x4 games, judged by exhaustive search of the first plies: "
     "an immediate win must be labelled +1 with a move that wins at once, +1 never goes with a forced loss within two plies, -1 never with a win within three, the move is legal; op cmd.gc none. distinct op lines",
     ["gencorpus -analysis minimax uses the default (sorting, null-move, slide-reducing) engine against the wall clock: its labels are not reproducible by the model and are compared through claims only; -analysis winning is not modelled"])
