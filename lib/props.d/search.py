prop("C05",
     generators=["C05"],
     rule="live positions of biased random games on 3x3..5x5 (full and reduced reserves). Counted: distinct op lines of (A) one Analyze on a fresh engine compared field by field with the model (value, PV, depth, all Stats counters, digests of table / response map / frame buffers) under NoSort with table none/2..4096 entries, precise and heuristic (null-move, slide reduction, multi-cut) configurations, MaxEvals; (B) value+depth of precise table-less searches (sort on/off, symmetry de-duplication on/off) against exhaustive negamax, first-move-attains and AnalyzeAll first-move sets; (C) histories of Analyze/GetMove/AnalyzeAll calls on ONE engine over related/repeated positions incl. cancelled calls, tables from 2 entries, compared exactly with the model's state machine; (D) histories with sorting: verdicts (decisive value <=> forced result by winner-only exhaustive negamax). Trivial = none (every line is a distinct (configuration, position[, history]) claim)",
     assumptions=["no two positions met in one engine's lifetime share a 64-bit hash, and no position hashes to 0 (NoCollision)",
                  "Cfg.Depth <= 15 (ai.stack has 15 frames), contexts without deadline, Seed != 0",
                  "move order under sort.Sort is an arbitrary permutation (not modelled); exact correspondence is under NoSort",
                  "every non-finished position has a legal move (holds for Tak positions with reserves left; hypothesis `Live` of the theorems)"],
     per_op_timeout="120s")
prop("C16",
     # "C07": the property's clause about the SAME engine being used again after a cancelled search rests, in the bot
     # (playtak/bot/bot.go, anchored by C16), on moveLock admitting one GetMove at a time: a cancelled thinker that is
     # still unwinding must have returned before the next thinker enters the (non-reentrant) engine.  The C07 tie observes
     # exactly that (status two-thinkers-in-GetMove; model: C07.lock_exclusive), so its schedules run here as well.
     generators=["C16", "C07"],
     rule="for sampled (configuration, position): the cancel flag is set from inside the k-th leaf evaluation for EVERY k in 1..size of the search when that size <= 40 (thorough: <= 400), else boundaries + 20 random k; counted: distinct op lines: the cancelled Analyze compared exactly with the model (cancel oracle), equality with an uninterrupted search limited to the completed depth (value, PV, depth, counters), a follow-up Analyze on the same engine compared with the model and with a fresh engine",
     assumptions=["data-race freedom is outside the model (thorough tier: go test -race of TestCancel/TestRepeatedCancel as supporting evidence only)",
                  "as C05"],
     per_op_timeout="120s")
