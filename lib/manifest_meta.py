"""Texts for MANIFEST.json per claimed property."""
NOTES = "Machine-checked proof in Lean 4 about executable models of taktician; see DESIGN.md. Every check = lake build of the property's theorems + axiom/sorry audit + differential correspondence of the model against /repo's working tree."
NA = {}
LEVEL = {}
COMMON_NOTE = ("Trusted: Lean 4.33 kernel; axioms propext/Classical.choice/Quot.sound only (audited every run); "
               "gen/ translator for regenerated definitions; the Go harness + Lean driver diff (differential testing) ties the hand model to the code; "
               "Go/Lean compilers for the executable side. ")
def level(pid, technique, text, note=""):
    LEVEL[pid] = {"technique": technique, "text": text, "note": COMMON_NOTE + note}

import os, glob
_d = os.path.join(os.path.dirname(os.path.abspath(__file__)), "manifest.d")
for _f in sorted(glob.glob(os.path.join(_d, "*.py"))):
    exec(compile(open(_f).read(), _f, "exec"), {"level": level, "NA": NA, "LEVEL": LEVEL})
