import json, subprocess, os
os.chdir('/verif')
def show(stage):
    return json.loads(subprocess.run(["git","show",":%d:known_findings.json"%stage],capture_output=True,text=True).stdout)
ours, theirs = show(2), show(3)
byid = {f["id"]: f for f in ours["findings"]}
order = [f["id"] for f in ours["findings"]]
for f in theirs["findings"]:
    if f["id"] not in byid:
        order.append(f["id"])
    byid[f["id"]] = f if (f["id"] not in byid or len(json.dumps(f)) >= len(json.dumps(byid[f["id"]]))) else byid[f["id"]]
ours["findings"] = [byid[i] for i in order]
json.dump(ours, open("known_findings.json","w"), indent=1)
subprocess.run(["git","add","known_findings.json"])
print("known_findings merged:", len(order))
