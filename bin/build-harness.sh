#!/bin/bash
# Build verifh from /repo's *working tree* with the harness overlaid (no file is written under /repo).
# usage: build-harness.sh [repo-dir]    -> $VERIF/build/verifh
set -e
VERIF="$(cd "$(dirname "$0")/.." && pwd)"
REPO="${1:-${VERIF_REPO:-/repo}}"
B="$VERIF/build"
mkdir -p "$B"
export GOFLAGS=-mod=mod GOPROXY=off GOSUMDB=off GOTOOLCHAIN=local GONOSUMCHECK=1 GONOSUMDB=* GOFLAGS=-mod=mod
cp "$REPO/go.mod" "$B/go.mod"
cp "$REPO/go.sum" "$B/go.sum"
python3 - "$VERIF" "$REPO" "$B" <<'PY'
import json, os, sys
verif, repo, b = sys.argv[1:4]
rep = {}
hd = os.path.join(verif, "harness", "verifh")
for f in sorted(os.listdir(hd)):
    if f.endswith(".go"):
        rep[os.path.join(repo, "cmd/internal/verifh", f)] = os.path.join(hd, f)
ed = os.path.join(verif, "harness", "export")
# export files are named <pkgpath with _ for />__<name>.go, e.g. tak__export.go, cmd_internal_playtak__export.go
for f in sorted(os.listdir(ed)):
    if f.endswith(".go") and "__" in f:
        pkg, name = f.split("__", 1)
        rep[os.path.join(repo, pkg.replace("_", "/"), "zz_verif_" + name)] = os.path.join(ed, f)
json.dump({"Replace": rep}, open(os.path.join(b, "overlay.json"), "w"), indent=1)
PY
cd "$REPO"
OUT="${VERIF_HARNESS_OUT:-$B/verifh}"
go build -modfile="$B/go.mod" -overlay="$B/overlay.json" -o "$OUT.tmp$$" github.com/nelhage/taktician/cmd/internal/verifh
mv -f "$OUT.tmp$$" "$OUT"
