#!/bin/bash
# Build verifh from /repo's *working tree* with the harness overlaid (no file is written under /repo).
# usage: build-harness.sh [repo-dir]    -> $VERIF/build/verifh
set -e
VERIF="$(cd "$(dirname "$0")/.." && pwd)"
REPO="${1:-${VERIF_REPO:-/repo}}"
B="$VERIF/build"
mkdir -p "$B"
export GOFLAGS=-mod=mod GOPROXY=off GOSUMDB=off GOTOOLCHAIN=local GONOSUMCHECK=1 GONOSUMDB=* GOFLAGS=-mod=mod
cp "$REPO/go.mod" "$B/go.mod"
cp "$REPO/go.sum" "$B/go.sum"
python3 - "$VERIF" "$REPO" "$B" <<'PY'
import json, os, re, sys
verif, repo, b = sys.argv[1:4]
rep = {}
hd = os.path.join(verif, "harness", "verifh")
for f in sorted(os.listdir(hd)):
    if f.endswith(".go"):
        rep[os.path.join(repo, "cmd/internal/verifh", f)] = os.path.join(hd, f)
ed = os.path.join(verif, "harness", "export")
# export files are named <pkgpath with _ for />__<name>.go, e.g. tak__export.go, cmd_internal_playtak__export.go
for f in sorted(os.listdir(ed)):
    if f.endswith(".go") and "__" in f:
        pkg, name = f.split("__", 1)
        rep[os.path.join(repo, pkg.replace("_", "/"), "zz_verif_" + name)] = os.path.join(ed, f)
# rewrite seams: harness/rewrite/*.json = {"file": "<path in repo>", "subst": [[old, new, count], ...], "forbid": [regex, ...]}.
# The repo file is copied to build/rewrite/ with exactly these token substitutions and overlaid.  count is either a number
# (exactly that many occurrences) or ">=N" (every occurrence, at least N of them); a substitution whose occurrence count
# does not fit, or a "forbid" regex that matches the source, fails the build (exit != 0 -> ./check reports the tie as
# broken: the seam has to be looked at again, the check could not run).
rd = os.path.join(verif, "harness", "rewrite")
for f in sorted(os.listdir(rd)) if os.path.isdir(rd) else []:
    if f.endswith(".json"):
        spec = json.load(open(os.path.join(rd, f)))
        src = open(os.path.join(repo, spec["file"])).read()
        # forbid patterns look at the code only: comments are blanked, string literals kept
        code = re.sub(r'"(?:\\.|[^"\\\n])*"|`[^`]*`|\'(?:\\.|[^\'\\\n])*\'|//[^\n]*|/\*.*?\*/',
                      lambda m: m.group(0) if m.group(0)[0] in "\"`'" else " ", src, flags=re.S)
        for rx in spec.get("forbid", []):
            m = re.search(rx, code)
            if m:
                sys.exit("rewrite %s: %s now contains %r (forbidden pattern %r): the seam does not cover it" % (f, spec["file"], m.group(0), rx))
        for old, new, cnt in spec["subst"]:
            n = src.count(old)
            if isinstance(cnt, str):
                if not cnt.startswith(">=") or n < int(cnt[2:]):
                    sys.exit("rewrite %s: expected %s occurrence(s) of %r in %s, found %d" % (f, cnt, old, spec["file"], n))
            elif n != cnt:
                sys.exit("rewrite %s: expected %d occurrence(s) of %r in %s" % (f, cnt, old, spec["file"]))
            src = src.replace(old, new)
        out = os.path.join(b, "rewrite", spec["file"].replace("/", "__"))
        os.makedirs(os.path.dirname(out), exist_ok=True)
        if not os.path.exists(out) or open(out).read() != src:
            open(out, "w").write(src)
        rep[os.path.join(repo, spec["file"])] = out
json.dump({"Replace": rep}, open(os.path.join(b, "overlay.json"), "w"), indent=1)
PY
# two work packages must not register the same op or generator name (map assignment would silently pick one)
python3 - "$VERIF" <<'PY' || { echo "ERROR harness: duplicate op/generator registration"; exit 2; }
import re, sys, glob, collections
seen = collections.defaultdict(list)
for f in glob.glob(sys.argv[1] + "/harness/verifh/*.go"):
    for m in re.finditer(r'(opTable|genTable)\["([^"]+)"\]\s*=\s*func', open(f).read()):
        seen[(m.group(1), m.group(2))].append(f.split("/")[-1])
dups = {k: v for k, v in seen.items() if len(v) > 1 and k != ("opTable", "case")}
if dups:
    print(dups); sys.exit(1)
PY
cd "$REPO"
OUT="${VERIF_HARNESS_OUT:-$B/verifh}"
go build -modfile="$B/go.mod" -overlay="$B/overlay.json" -o "$OUT.tmp$$" github.com/nelhage/taktician/cmd/internal/verifh
mv -f "$OUT.tmp$$" "$OUT"
