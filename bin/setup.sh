#!/bin/bash
# Offline setup after a fresh restore: build the Lean library, the property proofs, the driver and the harness.
set -e
VERIF="$(cd "$(dirname "$0")/.." && pwd)"
export GOFLAGS=-mod=mod GOPROXY=off GOSUMDB=off GOTOOLCHAIN=local
cd "$VERIF"
mkdir -p build evidence replays
if [ -d gen ]; then (cd gen && go run . -repo "${VERIF_REPO:-/repo}" -out "$VERIF/lean/TakVerif/Generated"); fi
(cd lean && lake build && lake build $(ls TakVerif/Props/*.lean | sed 's#/#.#g; s#\.lean$##'))
cp lean/.lake/build/bin/driver build/driver.good
bin/build-harness.sh
echo setup-ok
