#!/usr/bin/env python3
"""keep-seed.py <seedout-dir> <name> <caught-by...>  -> /verif/seeded/<name>/{patch.diff, demo files, meta.json}"""
import sys, os, json, shutil
src, name = sys.argv[1], sys.argv[2]
caught = sys.argv[3:]
V = os.path.dirname(os.path.dirname(os.path.abspath(__file__)))
dst = os.path.join(V, "seeded", name)
os.makedirs(dst, exist_ok=True)
for f in os.listdir(src):
    if os.path.isfile(os.path.join(src, f)):
        shutil.copy2(os.path.join(src, f), os.path.join(dst, f))
m = json.load(open(os.path.join(dst, "meta.json")))
m["confirmed_by_coordinator"] = {
    "how": "bin/try-seed.sh: scratch worktree of /repo HEAD; demo passes without the change; patch applies; go build + full go test pass with the change (demo excluded); demo fails with the change; then the listed checks were run with VERIF_REPO pointing at the changed tree",
    "checks_run": caught,
}
json.dump(m, open(os.path.join(dst, "meta.json"), "w"), indent=1)
print("kept", dst)
