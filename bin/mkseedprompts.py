#!/usr/bin/env python3
"""mkseedprompts.py <round-dir e.g. /tmp/s8> [Cxx ...]: one prompt per property for an independent seeding sub-agent
(property text + anchors from properties.jsonl, the ideas of earlier rounds from seeded/*/meta.json so that a new one differs),
and one scratch worktree of /repo HEAD per property.  Nothing from /verif but the property text reaches the agent."""
import json, os, sys, glob, subprocess
V = os.path.dirname(os.path.dirname(os.path.abspath(__file__)))
rd = sys.argv[1]
want = sys.argv[2:]
props = [json.loads(l) for l in open(os.path.join(V, "properties.jsonl"))]
os.makedirs(rd, exist_ok=True)
PKG = {"C12": "ptn", "C13": "ptn", "C17": "tei", "C07": "playtak/bot", "C20": "cmd/internal/playtak", "C06": "prove", "C14": "symmetry", "C15": "symmetry",
       "C04": "ai", "C05": "ai", "C16": "ai", "C18": "ai", "C19": "ai", "C10": "bitboard"}
for p in props:
    P = p["id"]
    if want and P not in want:
        continue
    a = p["anchors"]
    obs = "; ".join(a.get("observe_at") or [])
    used = []
    for d in sorted(glob.glob(os.path.join(V, "seeded", P + "-*", "meta.json"))):
        m = json.load(open(d))
        used.append("- [%s] %s" % (", ".join(m.get("files_changed", [])), (m.get("summary") or "")[:170].replace("\n", " ")))
    out = "%s/%s-out" % (rd, P)
    repo = "%s/%s-repo" % (rd, P)
    pkg = PKG.get(P, "tak")
    txt = f"""You are helping test a verification suite for the Go project nelhage/taktician (a Tak board-game engine). Your job is to write ONE realistic, subtle change to the project's source that BREAKS the semantic property stated below, while the project still compiles and its entire existing test suite still passes.

PROPERTY {P}: {p['title']}
{p['statement']}
(Quantified over: {p['quantifier']['text']})
(Anchored in: {', '.join(a['files'])}; observed at: {obs})

Your private scratch checkout of the project is the git worktree at {repo} (already created for you). Work ONLY there and in {out}. Do NOT read, list or touch /verif, /repo, or any other directory under /tmp - your change must be written independently, from the property text and the source code alone. NEVER use `git stash` (the stash is shared between worktrees and other testers work in parallel): to test the unmodified tree use `git diff > {out}/wip.diff; git checkout -- .; ...; git apply {out}/wip.diff`.

Go environment (set in every shell call; there is no network):  export GOFLAGS=-mod=mod GOPROXY=off GOSUMDB=off GOTOOLCHAIN=local
After any go command, run `git checkout go.mod go.sum` in the worktree (go may rewrite them).
Build: go build ./...     Full test suite: go test -vet=off -count=1 ./...   (about 10 s; all packages must print ok; ai.TestRepeatedCancel is occasionally timing-flaky on a loaded machine - rerun it once if it alone fails)

What I want:
1. A change that a maintainer could plausibly commit (an "optimisation", refactor, tidy-up, defensive check, off-by-one, wrong operand among similar names, stale cache, new fast path, ...), NOT blatant sabotage, that makes the property false.
2. The breakage must need something SPECIFIC to manifest - a particular multi-step sequence of operations, an unusual input or board size, a rare coincidence of state, reuse of an object across calls, a particular interleaving or cancellation point, a less-travelled exported entry point or wrapper (the property covers every exported way of doing the thing, not just the common one), or two cooperating edits that each look fine alone. It must NOT be exposed by ordinary use at once.
3. A demonstration: a Go test file zz_seed_demo_test.go in the appropriate package directory (prefer exported API) with a test named TestSeedDemo that FAILS with your change and PASSES on the unmodified tree. It should check the property itself (e.g. against an independent straightforward computation), not merely pin the old behaviour of an internal detail.
4. Verify all of it yourself: (a) unmodified tree + demo: demo passes; (b) with change: go build ./... ok, full suite passes (with the demo file moved aside), demo fails.

Ideas already used by earlier testers for this property (changed files in brackets) - choose something DIFFERENT in mechanism AND in code location; prefer a function no earlier tester touched (look through ALL the anchored files and everything they call, including small helpers, constructors, accessors, String/format methods, configuration defaults, init() tables, and the files that CONSUME the anchored code such as the cmd/ front ends). Think about what a verification suite that compares the real code with an executable model on generated inputs would be LEAST likely to exercise: rare states, long sequences, large sizes, unusual configurations (custom piece counts, BlackWinsTies, depth or time limits at their extremes), second and later uses of an object, values that outlive the call that produced them, error paths followed by normal use, interactions between two exported entry points, values at numeric boundaries (int8 coordinates, byte reserves, 64-piece stacks, 2^31 scores), behaviour that depends on iteration order of a Go map, on goroutine scheduling, or on process-wide state (package variables, sync.Pool, init order):
{chr(10).join(used)}

Deliver into {out}/ :
- patch.diff   (git diff of the source change only, not the demo; must apply with `git apply` on a clean checkout of the same commit)
- zz_seed_demo_test.go  (the demo) and demo.sh - a one/two-line bash script, run from the repository root, that runs just the demo test and exits non-zero when it fails, e.g.:  go test -vet=off -count=1 -run TestSeedDemo ./{pkg}
- place.sh  - a bash script, run from the repository root, that copies the demo file(s) from {out}/ to where they belong, e.g.:  cp {out}/zz_seed_demo_test.go {pkg}/
- meta.json with keys: property ("{P}"), summary (what the change does and why it looks innocent), needs_to_manifest (exactly what is required to see the breakage), files_changed, demo (what the demo does), commands_run.
Leave the worktree clean (git checkout -- . ; remove the demo file) when you are done. In your final reply, give a 5-line summary: the change, the trigger, and the verification results.
"""
    open("%s/%s.prompt" % (rd, P), "w").write(txt)
    os.makedirs(out, exist_ok=True)
    if not os.path.exists(repo):
        subprocess.check_call(["git", "-C", "/repo", "worktree", "add", "-q", "--detach", repo, "HEAD"])
    print(P, len(used), "earlier ideas")
