#!/bin/bash
# merge an agent branch into /verif main; auto-resolve evidence conflicts (ours); list what is left
cd /verif
git merge --no-edit "agent-$1" >/tmp/merge.log 2>&1
for f in $(git diff --name-only --diff-filter=U); do
  case "$f" in
    evidence/*) git checkout --ours "$f" 2>/dev/null || git rm -q --cached "$f"; git add "$f" 2>/dev/null;;
  esac
done
left=$(git diff --name-only --diff-filter=U)
if [ -z "$left" ]; then
  if git rev-parse -q --verify MERGE_HEAD >/dev/null; then git commit -qm "Merge branch 'agent-$1'"; fi
  echo "merged agent-$1 cleanly"
else
  echo "CONFLICTS left:"; echo "$left"
fi
