#!/bin/bash
# usage: try-seed3.sh <seed-dir with patch.diff, place.sh, demo.sh, demo files> <property id> [more ids...]
# Confirms a seeded change in a scratch worktree of /repo (demo passes without / fails with the change; build and the
# full suite pass with it), then runs the given checks from /verif itself against the changed tree (VERIF_REPO).
set -u
SEED="$(cd "$1" && pwd)"; shift
export GOFLAGS=-mod=mod GOPROXY=off GOSUMDB=off GOTOOLCHAIN=local
W=/tmp/seedtry-repo-$$
git -C /repo worktree add -q --detach "$W" || exit 2
trap 'git -C /repo worktree remove --force "$W" >/dev/null 2>&1' EXIT
cd "$W"
place() { sed "s#/tmp/s[0-9]/[A-Za-z0-9]*-out#$SEED#g; s#__SEED__#$SEED#g" "$SEED/place.sh" | bash; }
place
echo "== demo without change"; bash "$SEED/demo.sh" >/tmp/seedtry-$$.log 2>&1; echo "rc=$? (want 0)"
git checkout -q go.mod go.sum 2>/dev/null
git apply "$SEED/patch.diff" || { echo "PATCH DOES NOT APPLY"; exit 2; }
echo "== demo with change"; bash "$SEED/demo.sh" >/tmp/seedtry-$$.log 2>&1; echo "rc=$? (want !=0)"; grep -m3 -E "^\s+(---|.*_test.go)" /tmp/seedtry-$$.log | cut -c1-300
git status --short | grep '^??' | awk '{print $2}' | xargs -r rm -rf
echo "== build + suite with change"
go build ./... 2>/dev/null; echo "build rc=$?"
go test -vet=off -count=1 ./... 2>&1 | grep -E "^(FAIL|---|panic)" ; echo "(suite failures listed above, none = pass)"
git checkout -q go.mod go.sum 2>/dev/null
for P in "$@"; do
  echo "== ./check $P against the change"
  (cd /verif && VERIF_REPO="$W" ./check "$P" 2>&1 | tail -6 | cut -c1-400)
done
rm -f /tmp/seedtry-$$.log
# the runs above regenerated lean/TakVerif/Generated from the CHANGED tree: put the committed files back
(cd /verif && git checkout -- lean/TakVerif/Generated 2>/dev/null)
