#!/usr/bin/env python3
"""union-resolve the usual conflicts: Driver/Main.lean (imports+handlers), TakVerif.lean (imports), Driver/State.lean (fields)"""
import re, sys, subprocess, os
os.chdir('/verif')
def blocks(s):
    return re.compile(r"<<<<<<< HEAD\n(.*?)=======\n(.*?)>>>>>>> [^\n]*\n", re.S)
def res_main(p):
    s=open(p).read()
    theirs="".join(m.group(2) for m in blocks(s).finditer(s))
    s=blocks(s).sub(lambda m:m.group(1), s)
    imps=re.findall(r"^import (\S+)$", theirs, re.M)
    hs=re.findall(r"\bhandle[A-Z]\w*", theirs)
    for i in imps:
        if "import %s\n"%i not in s:
            s=s.replace("namespace Driver\n","",1) if False else s
            # insert before 'namespace Driver'
            s=s.replace("namespace Driver","import %s\nnamespace Driver"%i,1)
    for h in hs:
        if not re.search(r"\b%s\b"%h, s):
            s=s.replace("]\n\ndef step","  %s,\n]\n\ndef step"%h,1)
    open(p,'w').write(s)
def res_union(p):
    s=open(p).read()
    def f(m):
        ours=m.group(1); out=ours
        for l in m.group(2).split("\n"):
            if l.strip() and l not in ours.split("\n"):
                out+=l+"\n"
        return out
    s=blocks(s).sub(f,s)
    open(p,'w').write(s)
for p in subprocess.run(["git","diff","--name-only","--diff-filter=U"],capture_output=True,text=True).stdout.split():
    if p=="lean/Driver/Main.lean": res_main(p)
    elif p in ("lean/TakVerif.lean","lean/Driver/State.lean",".gitignore"): res_union(p)
    elif p.startswith("evidence/"): subprocess.run(["git","checkout","--ours",p])
    elif p=="known_findings.json":
        subprocess.run(["python3","/verif/bin/resolve-kf.py"]); continue
    else:
        print("UNRESOLVED",p); continue
    subprocess.run(["git","add",p]); print("resolved",p)
