#!/bin/bash
# usage: try-seed.sh <seed-dir with patch.diff, demo files, demo.sh> <property id> [more property ids...]
# Confirms a seeded change (applies, builds, suite passes, demo fails with / passes without) in a scratch
# worktree of /repo, then runs the given checks against it from a scratch worktree of /verif's HEAD.
set -u
SEED="$(cd "$1" && pwd)"; shift
export GOFLAGS=-mod=mod GOPROXY=off GOSUMDB=off GOTOOLCHAIN=local
W=/tmp/seedtry-repo-$$
VW=${SEEDTEST_VERIF:-/tmp/vw-seedtest}
git -C /repo worktree add -q --detach "$W" || exit 2
trap 'git -C /repo worktree remove --force "$W" >/dev/null 2>&1' EXIT
cd "$W"
for f in "$SEED"/*_test.go; do [ -f "$f" ] || continue; :; done
run_demo() { (cd "$W" && bash "$SEED/demo.sh" >/tmp/seedtry-demo-$$.log 2>&1); }
# place demo files where meta/demo.sh expects them: copy every non-patch file next to its package if a path hint exists
if [ -f "$SEED/place.sh" ]; then (cd "$W" && bash "$SEED/place.sh"); fi
echo "== demo without change"; run_demo; echo "rc=$?"
git apply "$SEED/patch.diff" || { echo "PATCH DOES NOT APPLY"; exit 2; }
echo "== build + suite with change"
go build ./... 2>/dev/null; echo "build rc=$?"
go test -vet=off -count=1 ./... 2>&1 | grep -E "^(ok|FAIL|---)" | grep -v "^ok" ; echo "suite-failures-listed-above"
git checkout go.mod go.sum 2>/dev/null
echo "== demo with change"; run_demo; echo "rc=$?"
# remove demo test files before running the checks (they are not part of the change)
git status --short | grep '^??' | awk '{print $2}' | xargs -r rm -rf
if [ ! -d "$VW" ]; then git -C /verif worktree add -q --detach "$VW"; fi
git -C "$VW" checkout -q --detach "$(git -C /verif rev-parse HEAD)"
for P in "$@"; do
  echo "== ./check $P against the change"
  (cd "$VW" && VERIF_REPO="$W" ./check "$P" 2>&1 | tail -8)
done
(cd "$VW" && git checkout -q -- . 2>/dev/null)
rm -f /tmp/seedtry-demo-$$.log
