#!/usr/bin/env python3
"""Mutation sweep: small syntactic changes to the anchored Go files, kept when the repository still builds and
its own test suite still passes, then run against the mapped quick checks.

usage: mutate.py [--files f1,f2] [--max N] [--seed S] [--out report.jsonl] [--verif DIR]

Each surviving-the-tests mutant is one line of the report: file, line, change, checks run, which reported VIOLATION.
Mutants no check reports are either equivalent (behaviour unchanged) or a gap: they are listed for triage.
Works in scratch worktrees of /repo and of /verif's HEAD; nothing is written to /repo or /verif (except the report).
"""
import argparse, json, os, random, re, subprocess, sys, time, shutil

FILE_CHECKS = {
    "tak/move.go": ["C01", "C03", "C08"],
    "tak/slide.go": ["C01", "C03", "C11"],
    "tak/game.go": ["C02", "C09", "C10"],
    "tak/hash.go": ["C08"],
    "tak/alloc.go": ["C09"],
    "bitboard/bits.go": ["C02", "C19"],
    "ptn/tps.go": ["C10", "C13"],
    "ptn/move.go": ["C11", "C13"],
    "playtak/move.go": ["C11", "C13"],
    "ptn/ptn.go": ["C12", "C13"],
    "ptn/iterator.go": ["C12"],
    "symmetry/canonical.go": ["C14", "C15"],
    "ai/evaluate.go": ["C18", "C19"],
    "tei/server.go": ["C17", "C13"],
    "cmd/internal/playtak/fpa.go": ["C20"],
    "playtak/bot/bot.go": ["C07"],
    "ai/minimax.go": ["C05", "C16", "C04"],
    "ai/moves.go": ["C05", "C04"],
    "ai/opening.go": ["C04"],
    "ai/mcts/mcts.go": ["C04"],
    "prove/pn.go": ["C06"],
    "prove/dfpn.go": ["C06"],
}

# (regex, replacement) pairs applied to one occurrence at a time
OPS = [
    (r"<=", "<"), (r">=", ">"), (r"(?<![<>=!-])<(?![<=-])", "<="), (r"(?<![<>=!-])>(?![>=])", ">="),
    (r"==", "!="), (r"!=", "=="), (r"&&", "||"), (r"\|\|", "&&"),
    (r"\+ 1\b", "+ 2"), (r"- 1\b", "- 2"), (r"\+ 1\b", "+ 0"), (r"- 1\b", "- 0"),
    (r"&\^", "&"), (r"\|=", "&="), (r"<<", ">>"), (r">>", "<<"),
    (r"\btrue\b", "false"), (r"\bfalse\b", "true"),
    (r"\+\+", "--"), (r"\b0\b", "1"), (r"\b1\b", "0"),
]

ENV = dict(os.environ, GOFLAGS="-mod=mod", GOPROXY="off", GOSUMDB="off", GOTOOLCHAIN="local")


def sh(cmd, cwd=None, timeout=900, env=None):
    try:
        r = subprocess.run(cmd, cwd=cwd, shell=isinstance(cmd, str), stdout=subprocess.PIPE, stderr=subprocess.STDOUT,
                           text=True, timeout=timeout, env=env or ENV)
        return r.returncode, r.stdout
    except subprocess.TimeoutExpired:
        return -9, "timeout"


def candidates(src):
    out = []
    lines = src.split("\n")
    in_block = False
    for ln, line in enumerate(lines):
        s = line.strip()
        if s.startswith("/*"):
            in_block = True
        if in_block:
            if "*/" in s:
                in_block = False
            continue
        if s.startswith("//") or s.startswith("import") or s.startswith("package") or "log." in s or "fmt." in s or "errors.New" in s or "panic(" in s:
            continue
        code = line.split("//")[0]
        if '"' in code or "`" in code:
            code = re.sub(r'"[^"]*"', lambda m: " " * len(m.group(0)), code)
        for k, (pat, rep) in enumerate(OPS):
            for m in re.finditer(pat, code):
                out.append((ln, m.start(), m.end(), rep, k))
    return out


def main():
    ap = argparse.ArgumentParser()
    ap.add_argument("--files", default=",".join(FILE_CHECKS))
    ap.add_argument("--max", type=int, default=200)
    ap.add_argument("--seed", type=int, default=1)
    ap.add_argument("--out", default="/verif/build/mutation-report.jsonl")
    ap.add_argument("--verif", default="/tmp/vw-mutate")
    a = ap.parse_args()
    rnd = random.Random(a.seed)
    repo = "/tmp/mutate-repo-%d" % os.getpid()
    sh(["git", "-C", "/repo", "worktree", "add", "-q", "--detach", repo])
    if not os.path.isdir(a.verif):
        sh(["git", "-C", "/verif", "worktree", "add", "-q", "--detach", a.verif])
    sh("git checkout -q --detach $(git -C /verif rev-parse HEAD)", cwd=a.verif)
    sh(["bin/setup.sh"], cwd=a.verif, timeout=3600)
    files = [f for f in a.files.split(",") if f in FILE_CHECKS]
    pool = []
    for f in files:
        src = open(os.path.join(repo, f)).read()
        for c in candidates(src):
            pool.append((f,) + c)
    rnd.shuffle(pool)
    done = 0
    os.makedirs(os.path.dirname(a.out), exist_ok=True)
    with open(a.out, "a") as rep:
        for (f, ln, s, e, repl, k) in pool:
            if done >= a.max:
                break
            path = os.path.join(repo, f)
            src = open(path).read()
            lines = src.split("\n")
            old = lines[ln]
            new = old[:s] + repl + old[e:]
            if new == old:
                continue
            lines[ln] = new
            open(path, "w").write("\n".join(lines))
            rc, out = sh("go build ./... 2>&1 | grep -v sqlite | grep -v warning | grep -E 'error|cannot|undefined|mismatched|invalid' | head -3", cwd=repo, timeout=300)
            rc2, _ = sh("go vet ./%s 2>/dev/null; go build ./..." % os.path.dirname(f), cwd=repo, timeout=300)
            ok_build = rc2 == 0
            entry = {"file": f, "line": ln + 1, "old": old.strip(), "new": new.strip()}
            if not ok_build:
                entry["status"] = "does-not-build"
            else:
                rc3, tout = sh("go test -vet=off -count=1 -timeout 5m ./... 2>&1 | grep -E '^(FAIL|---|panic)' | head -3", cwd=repo, timeout=900)
                sh("git checkout go.mod go.sum", cwd=repo)
                if tout.strip():
                    entry["status"] = "killed-by-tests"
                else:
                    done += 1
                    caught = []
                    for chk in FILE_CHECKS[f]:
                        rc4, cout = sh(["./check", chk], cwd=a.verif, timeout=1500, env=dict(ENV, VERIF_REPO=repo, VERIF_SEED=str(a.seed)))
                        if "VIOLATION" in cout:
                            caught.append(chk)
                        elif rc4 not in (0, 1):
                            caught.append(chk + ":ERROR")
                    entry["status"] = "caught" if caught else "SURVIVED"
                    entry["checks"] = FILE_CHECKS[f]
                    entry["caught_by"] = caught
                    sh("git checkout -q -- .", cwd=a.verif)
            rep.write(json.dumps(entry) + "\n")
            rep.flush()
            open(path, "w").write(src)
    sh(["git", "-C", "/repo", "worktree", "remove", "--force", repo])
    print("done", done)


if __name__ == "__main__":
    main()
