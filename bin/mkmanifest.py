#!/usr/bin/env python3
"""Regenerate MANIFEST.json from lib/props.py (claimed properties) and lib/manifest_meta.py."""
import json, os, sys
V = os.path.dirname(os.path.dirname(os.path.abspath(__file__)))
sys.path.insert(0, os.path.join(V, "lib"))
import props, manifest_meta as M
ids = [json.loads(l)["id"] for l in open(os.path.join(V, "properties.jsonl"))]
checks = []
na = []
for pid in ids:
    if pid in props.PROPS and pid in M.LEVEL:
        lv = M.LEVEL[pid]
        checks.append({
            "property_id": pid,
            "quick_cmd": "./check %s --tier quick" % pid,
            "thorough_cmd": "./check %s --tier thorough" % pid,
            "evidence_file": "evidence/%s.json" % pid,
            "replay_cmd_template": "./check %s --replay {path}" % pid,
            "engine": "lean4-proof+correspondence",
            "level_claimed": {"category": "proof", "text": lv["text"], "design_ref": lv.get("design_ref", "DESIGN.md §4 " + pid)},
            "level_note": lv["note"],
            "technique": lv["technique"],
        })
    else:
        na.append({"property_id": pid, "reason": M.NA.get(pid, "model and proof not built yet in this round; not claimed")})
man = {
    "version": 1,
    "setup_cmd": "bin/setup.sh",
    "hooks": {
        "guard": "verif",
        "enable": "no source hooks: bin/build-harness.sh overlays harness/verifh (package main at cmd/internal/verifh) and harness/export/*.go (read-only accessors compiled into tak, ai, tei, ...) with `go build -overlay -modfile`, nothing is written under /repo",
        "baseline_off_cmd": "cd /repo && go test -mod=mod -json -vet=off -count=1 -timeout 25m ./...",
        "source_commits": [],
        "add_only": True,
    },
    "engines": [{"name": "lean4-proof+correspondence", "path": "check", "serves_properties": [c["property_id"] for c in checks],
                 "kind_free_text": "Lean 4 theorems about an executable model (lean/TakVerif), model tied to /repo on every run by regenerated definitions (gen/) and a differential correspondence (harness/ vs lean driver)"}],
    "checks": checks,
    "notes": M.NOTES,
    "not_applicable": na,
}
json.dump(man, open(os.path.join(V, "MANIFEST.json"), "w"), indent=1)
print("claimed", len(checks), "not claimed", len(na))
