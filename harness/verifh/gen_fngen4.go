package main

import (
	"fmt"
	"strings"

	"github.com/nelhage/taktician/tak"
)

// `fn.*` ops of the third batch of regenerated functions (work package gen3: functions that assign through a pointer
// parameter): Generated/FuncsApply.lean - Position.analyze and Position.MovePreallocated itself.
// `fn.apply <pos> <move> <mode> [<dirty pos>]` runs the real MovePreallocated (mode 0: next == nil; 1: into tak.Alloc(size);
// 2: into a position that has just held something else) and prints err / panic / ok + the raw successor (with the group
// lists analyze() stored).  Generator FNAPPLY (C01, C03, C08): every raw move class of C01's generator, on well-formed and
// on malformed raw positions.

func init() {
	opTable["fn.apply"] = func(s *Session, a []string) string {
		p := decPos(a[0])
		m := decMove(a[1])
		var next *tak.Position
		switch a[2] {
		case "1":
			next = tak.Alloc(p.Size())
		case "2":
			next = decPos(a[3])
		}
		n, err := p.MovePreallocated(m, next)
		if err != nil {
			return "err"
		}
		return "ok " + dumpPos(n)
	}
	opTable["fn.analyze"] = func(s *Session, a []string) string {
		r := decPos(a[0]).VerifRaw() // VerifFromRaw runs analyze()
		return u64s(r.WG) + " " + u64s(r.BG)
	}
	genTable["FNAPPLY"] = genFNAPPLY
}

func genFNAPPLY(c *Ctx) {
	n := c.Scale(350, 120000)
	for k := 0; k < n; k++ {
		p := randomPosition(c.R)
		if p == nil {
			continue
		}
		tok := encPos(p)
		size := p.Size()
		wellFormed := true
		if c.R.Chance(1, 4) {
			raw, tag, _ := malformRaw(c.R, p)
			tok = encRaw(raw, false)
			p = tak.VerifFromRaw(raw)
			wellFormed = false
			c.Count("pos:" + tag)
		} else {
			c.Count("pos:wellformed")
		}
		c.Emit("fn.analyze " + tok)
		emit := func(m tak.Move) {
			mode := c.R.Intn(3)
			line := fmt.Sprintf("fn.apply %s %s %d", tok, encMove(m), mode)
			if mode == 2 {
				line += " " + encPos(constructed(c.R, size))
			}
			out := c.Emit(line)
			kind := "place"
			if m.IsSlide() {
				kind = "slide"
			}
			if m.Type == tak.Pass {
				kind = "pass"
			} else if m.Type < 1 || m.Type > 8 {
				kind = "badtype"
			}
			res := "ok"
			if strings.HasPrefix(out, "err") {
				res = "err"
			} else if out == "panic" {
				res = "panic"
			}
			c.Count("apply." + kind + "." + res)
		}
		ms := p.AllMoves(nil)
		limit := 25
		if c.R.Chance(1, 8) {
			limit = len(ms)
		}
		for j := 0; j < limit && len(ms) > 0; j++ {
			if limit == len(ms) {
				emit(ms[j])
			} else {
				emit(ms[c.R.Intn(len(ms))])
			}
		}
		for j := 0; j < 20; j++ {
			emit(rawMove(c.R, size))
		}
		emit(tak.Move{Type: tak.Pass, X: int8(c.R.Intn(size)), Y: randCoord(c.R, size)})
		// slide words with a zero nibble below a non-zero one, on stacks the mover controls
		if wellFormed && p.MoveNumber() >= 2 {
			words := []tak.Slides{0x10, 0x101, 0x100, 0x201, 0x1001, 0x20, 0x110, 0x1010, 0x10000000, 0x102}
			tried := 0
			for y := 0; y < size && tried < 8; y++ {
				for x := 0; x < size && tried < 8; x++ {
					t := p.Top(x, y)
					if t == 0 || t.Color() != p.ToMove() {
						continue
					}
					emit(tak.Move{X: int8(x), Y: int8(y), Type: tak.MoveType(5 + c.R.Intn(4)), Slides: words[c.R.Intn(len(words))]})
					tried++
				}
			}
		}
	}
}
