package main

import (
	"strconv"
	"strings"

	"github.com/nelhage/taktician/tak"
)

func u64s(xs []uint64) string {
	if len(xs) == 0 {
		return "-"
	}
	var b strings.Builder
	for i, x := range xs {
		if i > 0 {
			b.WriteByte(',')
		}
		b.WriteString(strconv.FormatUint(x, 10))
	}
	return b.String()
}

func u8s(xs []uint8) string {
	if len(xs) == 0 {
		return "-"
	}
	var b strings.Builder
	for i, x := range xs {
		if i > 0 {
			b.WriteByte(',')
		}
		b.WriteString(strconv.Itoa(int(x)))
	}
	return b.String()
}

func b2i(b bool) int {
	if b {
		return 1
	}
	return 0
}

// encRaw renders the 16-field input form; withGroups appends the two group lists.
func encRaw(r tak.VerifRaw, withGroups bool) string {
	f := []string{
		strconv.Itoa(r.Size), strconv.Itoa(r.Pieces), strconv.Itoa(r.Capstones), strconv.Itoa(b2i(r.BWT)),
		strconv.Itoa(r.Move),
		strconv.Itoa(int(r.WS)), strconv.Itoa(int(r.WC)), strconv.Itoa(int(r.BS)), strconv.Itoa(int(r.BC)),
		strconv.FormatUint(r.White, 10), strconv.FormatUint(r.Black, 10),
		strconv.FormatUint(r.Standing, 10), strconv.FormatUint(r.Caps, 10),
		u8s(r.Height), u64s(r.Stacks), strconv.FormatUint(r.Hash, 10),
	}
	if withGroups {
		f = append(f, u64s(r.WG), u64s(r.BG))
	}
	return strings.Join(f, "/")
}

func encPos(p *tak.Position) string  { return encRaw(p.VerifRaw(), false) }
func dumpPos(p *tak.Position) string { return encRaw(p.VerifRaw(), true) }

func encMove(m tak.Move) string {
	return strconv.Itoa(int(m.X)) + "," + strconv.Itoa(int(m.Y)) + "," + strconv.Itoa(int(m.Type)) + "," + strconv.FormatUint(uint64(m.Slides), 10)
}

func pieceStr(p tak.Piece) string {
	s := "?"
	switch p.Color() {
	case tak.White:
		s = "W"
	case tak.Black:
		s = "B"
	}
	switch p.Kind() {
	case tak.Standing:
		s += "S"
	case tak.Capstone:
		s += "C"
	}
	return s
}

// absDump is the list-level view through the exported API only (At, reserves via
// legality are not exported for capstones, so the raw reserve bytes come from the export file).
func absDump(p *tak.Position) string {
	r := p.VerifRaw()
	var b strings.Builder
	b.WriteString(strconv.Itoa(p.Size()))
	b.WriteByte('/')
	b.WriteString(strconv.Itoa(p.MoveNumber()))
	b.WriteByte('/')
	b.WriteString(strconv.Itoa(p.WhiteStones()))
	b.WriteByte('/')
	b.WriteString(strconv.Itoa(int(r.WC)))
	b.WriteByte('/')
	b.WriteString(strconv.Itoa(p.BlackStones()))
	b.WriteByte('/')
	b.WriteString(strconv.Itoa(int(r.BC)))
	b.WriteByte('/')
	n := p.Size()
	for y := 0; y < n; y++ {
		for x := 0; x < n; x++ {
			if x+y > 0 {
				b.WriteByte(',')
			}
			sq := p.At(x, y)
			if len(sq) == 0 {
				b.WriteByte('_')
				continue
			}
			for _, pc := range sq {
				b.WriteString(pieceStr(pc))
			}
		}
	}
	return b.String()
}

func colorStr(c tak.Color) string {
	switch c {
	case tak.White:
		return "W"
	case tak.Black:
		return "B"
	}
	return "N"
}
