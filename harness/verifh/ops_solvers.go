package main

// C06: ops on the real proof-number solvers (prove/pn.go, prove/dfpn.go) and the
// harness's own exact game-graph solver (an independent second opinion for the Lean one).

import (
	"context"
	"io"
	"log"
	"strconv"
	"strings"

	"github.com/nelhage/taktician/prove"
	"github.com/nelhage/taktician/tak"
)

func verdictStr(e prove.Evaluation) string {
	switch e {
	case prove.EvalTrue:
		return "proven"
	case prove.EvalFalse:
		return "disproven"
	case prove.EvalUnknown:
		return "unknown"
	}
	return "bad-eval"
}

type pnArgs struct {
	maxNodes uint64
	preserve bool
	pn2      bool
	maxDepth int
}

func runPN(a pnArgs, p *tak.Position) (prove.ProofResult, prove.PNStats) {
	pr := prove.New(prove.Config{MaxNodes: a.maxNodes, PreserveSolved: a.preserve, PN2: a.pn2, MaxDepth: a.maxDepth})
	return pr.Prove(context.Background(), p)
}

func fmtPN(res prove.ProofResult, st prove.PNStats) string {
	return strings.Join([]string{
		verdictStr(res.Result), encMove(res.Move),
		strconv.FormatUint(uint64(res.Depth), 10),
		strconv.FormatUint(uint64(res.Proof), 10), strconv.FormatUint(uint64(res.Disproof), 10),
		strconv.FormatUint(st.Nodes, 10), strconv.FormatUint(st.Proved, 10), strconv.FormatUint(st.Disproved, 10),
		strconv.FormatUint(st.Dropped, 10), strconv.FormatUint(st.Expanded, 10), strconv.FormatUint(st.MaxDepth, 10),
	}, " ")
}

func parseColor(s string) tak.Color {
	switch s {
	case "W":
		return tak.White
	case "B":
		return tak.Black
	}
	return tak.NoColor
}

func runDFPN(attacker tak.Color, entries int, p *tak.Position) (prove.ProofResult, prove.DFPNStats) {
	d := prove.NewDFPN(&prove.DFPNConfig{Attacker: attacker, TableMem: int64(entries) * prove.VerifEntrySize()})
	if d.VerifTableLen() != entries {
		panic("table length")
	}
	return d.Prove(p)
}

func fmtDFPN(res prove.ProofResult, st prove.DFPNStats) string {
	return strings.Join([]string{
		verdictStr(res.Result), encMove(res.Move),
		strconv.FormatUint(uint64(res.Proof), 10), strconv.FormatUint(uint64(res.Disproof), 10),
		strconv.FormatUint(st.Work, 10), strconv.FormatUint(st.Repetition, 10), strconv.FormatUint(st.Terminal, 10),
		strconv.FormatUint(st.Solved, 10), strconv.FormatUint(st.Hits, 10), strconv.FormatUint(st.Miss, 10),
	}, " ")
}

func init() {
	log.SetOutput(io.Discard) // pn.go logs progress lines

	// pn <maxnodes> <preserve> <pn2> <maxdepth> <truthmode> <pos>
	// The real code's verdict, move, depth, root numbers and statistics. The trailing field is the
	// model's own comparison of its verdict with the game-theoretic truth; the real code has nothing to say there.
	opTable["pn"] = func(s *Session, a []string) string {
		args := pnArgs{maxNodes: atou(a[0]), preserve: a[1] != "0", pn2: a[2] != "0", maxDepth: atoi(a[3])}
		p := decPos(a[5])
		res, st := runPN(args, p)
		return fmtPN(res, st) + " " + truthField(s, a[4], p)
	}
	// dfpn <attacker W|B|N> <table entries> <truthmode> <pos>
	opTable["dfpn"] = func(s *Session, a []string) string {
		p := decPos(a[3])
		res, st := runDFPN(parseColor(a[0]), atoi(a[1]), p)
		return fmtDFPN(res, st) + " " + truthField(s, a[2], p)
	}
	// dfpnnew <slot> <attacker> <entries> / dfpnuse <slot> <truthmode> <pos>: ONE DFPNSolver used for
	// several positions (its table, killer moves, position pool and attacker live on between the calls)
	opTable["dfpnnew"] = func(s *Session, a []string) string {
		d := prove.NewDFPN(&prove.DFPNConfig{Attacker: parseColor(a[1]), TableMem: int64(atoi(a[2])) * prove.VerifEntrySize()})
		s.slots["dfpn:"+a[0]] = d
		return "ok"
	}
	opTable["dfpnuse"] = func(s *Session, a []string) string {
		d, _ := s.slots["dfpn:"+a[0]].(*prove.DFPNSolver)
		if d == nil {
			return "no-solver"
		}
		p := decPos(a[2])
		res, st := d.Prove(p)
		return fmtDFPN(res, st) + " " + truthField(s, a[1], p)
	}
	// pnnew <slot> <maxnodes> <preserve> <pn2> <maxdepth> / pnuse <slot> <truthmode> <pos>: ONE Prover used for several positions
	opTable["pnnew"] = func(s *Session, a []string) string {
		s.slots["pn:"+a[0]] = prove.New(prove.Config{MaxNodes: atou(a[1]), PreserveSolved: a[2] != "0", PN2: a[3] != "0", MaxDepth: atoi(a[4])})
		return "ok"
	}
	opTable["pnuse"] = func(s *Session, a []string) string {
		pr, _ := s.slots["pn:"+a[0]].(*prove.Prover)
		if pr == nil {
			return "no-solver"
		}
		p := decPos(a[2])
		res, st := pr.Prove(context.Background(), p)
		return fmtPN(res, st) + " " + truthField(s, a[1], p)
	}
	// gtruth <attacker W|B> <cap> <pos>: exact forced-win status by retrograde analysis of the reachable graph
	opTable["gtruth"] = func(s *Session, a []string) string {
		g := exploreGraph(decPos(a[2]), atoi(a[1]))
		if g == nil {
			return "toolarge"
		}
		win := g.solve(parseColor(a[0]))
		r := "nowin"
		if win[0] {
			r = "win"
		}
		return r + " " + strconv.Itoa(len(g.nodes))
	}
}

// truthField: the real code makes no statement about the truth; the field only says whether the
// model has an oracle for this op (so that both sides agree on ops that cannot be judged).
func truthField(s *Session, mode string, p *tak.Position) string {
	switch {
	case mode == "g":
		g, _ := s.slots["cache:pngraph"].(*graph)
		if g == nil {
			return "truth=nograph"
		}
		if _, ok := g.index[posKey(p)]; !ok {
			return "truth=nograph"
		}
	case strings.HasPrefix(mode, "x"):
		if exploreGraph(p, atoi(mode[1:])) == nil {
			return "truth=toolarge"
		}
	}
	return "truth=ok"
}

func countTrue(b []bool) int {
	n := 0
	for _, x := range b {
		if x {
			n++
		}
	}
	return n
}

func init() {
	// case <id>: start of a stateful sequence; everything but caches is dropped
	opTable["case"] = func(s *Session, a []string) string {
		for k := range s.slots {
			if !strings.HasPrefix(k, "cache:") {
				delete(s.slots, k)
			}
		}
		return "ok"
	}
	// pngraph <cap> <pos>: explore and solve the graph below pos; it stays the session's graph
	// (re-used when the same root is asked for again)
	opTable["pngraph"] = func(s *Session, a []string) string {
		p := decPos(a[1])
		limit := atoi(a[0])
		g, _ := s.slots["cache:pngraph"].(*graph)
		if g == nil || g.limit != limit || posKey(g.nodes[0].p) != posKey(p) {
			g = exploreGraph(p, limit)
			if g == nil {
				delete(s.slots, "cache:pngraph")
				return "toolarge"
			}
			g.limit = limit
			g.winW = g.solve(tak.White)
			g.winB = g.solve(tak.Black)
			s.slots["cache:pngraph"] = g
		}
		return strconv.Itoa(len(g.nodes)) + " " + strconv.Itoa(countTrue(g.winW)) + " " + strconv.Itoa(countTrue(g.winB))
	}
}

// ---------------------------------------------------------------- exact game graph (harness side)

type gnode struct {
	p     *tak.Position
	over  bool
	who   tak.Color
	succ  []int
	moves []tak.Move
}

type graph struct {
	nodes      []*gnode
	index      map[string]int
	limit      int
	winW, winB []bool
}

// posKey identifies a position up to what the rules can see: board, side to move, and whether the
// opening rule still applies (ply 0, 1, or later).
func posKey(p *tak.Position) string {
	r := p.VerifRaw()
	var b strings.Builder
	b.WriteString(strconv.FormatUint(r.White, 36))
	b.WriteByte('.')
	b.WriteString(strconv.FormatUint(r.Black, 36))
	b.WriteByte('.')
	b.WriteString(strconv.FormatUint(r.Standing, 36))
	b.WriteByte('.')
	b.WriteString(strconv.FormatUint(r.Caps, 36))
	for i, h := range r.Height {
		if h > 1 {
			b.WriteByte('.')
			b.WriteString(strconv.Itoa(i))
			b.WriteByte(':')
			b.WriteString(strconv.Itoa(int(h)))
			b.WriteByte(':')
			b.WriteString(strconv.FormatUint(r.Stacks[i], 36))
		}
	}
	b.WriteByte('/')
	if r.Move < 2 {
		b.WriteString(strconv.Itoa(r.Move))
	} else {
		b.WriteString(strconv.Itoa(2 + r.Move%2))
	}
	return b.String()
}

// exploreGraph builds the graph reachable from root (node 0); nil if it has more than limit nodes.
func exploreGraph(root *tak.Position, limit int) *graph {
	g := &graph{index: map[string]int{}}
	add := func(p *tak.Position) int {
		k := posKey(p)
		if i, ok := g.index[k]; ok {
			return i
		}
		i := len(g.nodes)
		g.index[k] = i
		n := &gnode{p: p}
		n.over, n.who = p.GameOver()
		g.nodes = append(g.nodes, n)
		return i
	}
	add(root)
	for i := 0; i < len(g.nodes); i++ {
		n := g.nodes[i]
		if n.over {
			continue
		}
		for _, m := range n.p.AllMoves(nil) {
			q, err := n.p.Move(m)
			if err != nil {
				continue
			}
			j := add(q)
			n.succ = append(n.succ, j)
			n.moves = append(n.moves, m)
			if len(g.nodes) > limit {
				return nil
			}
		}
	}
	return g
}

// solve returns, per node, whether the attacker can force a win (least fixed point: play that
// never ends, draws and losses are all "no win").
func (g *graph) solve(attacker tak.Color) []bool {
	win := make([]bool, len(g.nodes))
	for changed := true; changed; {
		changed = false
		for i, n := range g.nodes {
			if win[i] {
				continue
			}
			w := false
			if n.over {
				w = n.who == attacker
			} else if n.p.ToMove() == attacker {
				for _, j := range n.succ {
					if win[j] {
						w = true
						break
					}
				}
			} else {
				w = true // a stuck defender does not occur in Tak (a position that is not over has a placement)
				for _, j := range n.succ {
					if !win[j] {
						w = false
						break
					}
				}
			}
			if w {
				win[i] = true
				changed = true
			}
		}
	}
	return win
}
