package main

// C12: the boundary of every clause of the render/parse safety predicate (lean/TakVerif/Impl/PTNSafe.lean),
// from both sides. Each case is a small real game with one tag / op just inside or just outside the clause;
// `ptnsafe` prints the class of the value under the predicate and what render+parse does with it. The model
// proves class "safe" <=> "same" (C12.render_parse_bytes); the real code has to agree line by line, on the
// unsafe side as well (a different value, or an error, never "same").

import (
	"math"
	"strings"

	"github.com/nelhage/taktician/ptn"
	"github.com/nelhage/taktician/tak"
)

type boundCase struct {
	label string // clause.side.detail
	p     *ptn.PTN
}

func boundMove(x, y int, t tak.MoveType) *ptn.Move {
	return &ptn.Move{Move: tak.Move{X: int8(x), Y: int8(y), Type: t}}
}

// boundOps puts the op under test at the front, in the middle and at the end of a short 5x5 record.
func boundOps(op ptn.Op, where int) []ptn.Op {
	pre := []ptn.Op{&ptn.MoveNumber{Number: 1}, boundMove(0, 0, tak.PlaceFlat)}
	post := []ptn.Op{boundMove(4, 4, tak.PlaceFlat), &ptn.MoveNumber{Number: 2}, boundMove(2, 2, tak.PlaceFlat)}
	switch where {
	case 0:
		return append([]ptn.Op{op}, append(pre, post...)...)
	case 1:
		return append(append(append([]ptn.Op{}, pre...), op), post...)
	default:
		return append(append(append([]ptn.Op{}, pre...), post...), op)
	}
}

func boundCases() []boundCase {
	var out []boundCase
	size := []ptn.Tag{{Name: "Size", Value: "5"}}
	addOp := func(label string, op ptn.Op) {
		for w, pos := range []string{"first", "middle", "last"} {
			out = append(out, boundCase{label + "@" + pos, &ptn.PTN{Tags: size, Ops: boundOps(op, w)}})
		}
	}
	addTag := func(label string, t ptn.Tag) {
		ops := boundOps(&ptn.Comment{Comment: "c"}, 1)
		out = append(out, boundCase{label + "@only", &ptn.PTN{Tags: []ptn.Tag{t}, Ops: ops}})
		out = append(out, boundCase{label + "@middle", &ptn.PTN{Tags: []ptn.Tag{size[0], t, {Name: "Player1", Value: "x y"}}, Ops: ops}})
		out = append(out, boundCase{label + "@last-noops", &ptn.PTN{Tags: []ptn.Tag{size[0], t}}})
	}
	// --- tags: name without ' ' and ']', value without '"' and ']'
	for _, n := range []string{"", "N\tM", "N\nM", "N\xa0M", "N\x85", "N[", "[", "N\"", "\"N\"", "N{", "N}", "N.", "\xef\xbb\xbf"} {
		addTag("tag.name.safe", ptn.Tag{Name: n, Value: "v"})
	}
	for _, n := range []string{"A B", " A", "A ", " ", "A]", "]", "]A", "A]B C", "A B]"} {
		addTag("tag.name.unsafe", ptn.Tag{Name: n, Value: "v"})
	}
	for _, v := range []string{"", " ", "a b", "a'b", "[x", "a\nb", "{}", "\x85\xa0", "a  b ", " a", "'", "1. a1 R-0"} {
		addTag("tag.value.safe", ptn.Tag{Name: "N", Value: v})
	}
	for _, v := range []string{"\"", "\"x", "x\"", "x\"y", "\"\"", "\"x\"", "]", "x]y", "x]", "]x", "x\"]", "a\"b\"c"} {
		addTag("tag.value.unsafe", ptn.Tag{Name: "N", Value: v})
	}
	// --- comments: no '}', and '{' + text + '}' within the scanner's 64 KiB window
	for _, s := range []string{"", "{", "{{", "a b", "\n", " ", "1.", "R-0", "[x]", "\x85\xa0", "a1", "\"", "]"} {
		addOp("comment.chars.safe", &ptn.Comment{Comment: s})
	}
	for _, s := range []string{"}", "a}", "}a", "a}b", "{}", "} {", "a} b"} {
		addOp("comment.chars.unsafe", &ptn.Comment{Comment: s})
	}
	for _, n := range []int{scanWindow - 3, scanWindow - 2} {
		addOp("comment.len.safe", &ptn.Comment{Comment: strings.Repeat("x", n)})
		addOp("comment.len.safe", &ptn.Comment{Comment: strings.Repeat("y \n", n/3) + strings.Repeat("z", n%3)})
	}
	for _, n := range []int{scanWindow - 1, scanWindow, scanWindow + 1, 2*scanWindow + 5} {
		addOp("comment.len.unsafe", &ptn.Comment{Comment: strings.Repeat("x", n)})
	}
	addOp("comment.len.unsafe", &ptn.Comment{Comment: strings.Repeat(" ", scanWindow-1)})
	// --- modifiers: over ?!' only, and FormatMove + modifiers + the byte ending the token within the window
	mv := tak.Move{X: 1, Y: 1, Type: tak.PlaceFlat} // "b2"
	sl := tak.Move{X: 1, Y: 1, Type: tak.SlideRight, Slides: tak.MkSlides(1)}
	for _, s := range []string{"?", "!", "'", "?!'", "''", "!!??"} {
		addOp("mods.chars.safe", &ptn.Move{Move: mv, Modifiers: s})
		addOp("mods.chars.safe", &ptn.Move{Move: sl, Modifiers: s})
	}
	for _, s := range []string{"*", "?*", "*?", "x", ".", "?.", " ", "? ", "?a", "\"", "}", "1", "-", "\n", "\xa0", "?\x85!"} {
		addOp("mods.chars.unsafe", &ptn.Move{Move: mv, Modifiers: s})
		addOp("mods.chars.unsafe", &ptn.Move{Move: sl, Modifiers: s})
	}
	addOp("mods.len.safe", &ptn.Move{Move: mv, Modifiers: strings.Repeat("!", scanWindow-4)})
	addOp("mods.len.safe", &ptn.Move{Move: mv, Modifiers: strings.Repeat("?", scanWindow-3)})
	addOp("mods.len.safe", &ptn.Move{Move: sl, Modifiers: strings.Repeat("'", scanWindow-4)})
	addOp("mods.len.unsafe", &ptn.Move{Move: mv, Modifiers: strings.Repeat("!", scanWindow-2)})
	addOp("mods.len.unsafe", &ptn.Move{Move: sl, Modifiers: strings.Repeat("?", scanWindow-3)})
	addOp("mods.len.unsafe", &ptn.Move{Move: mv, Modifiers: strings.Repeat("'", scanWindow+7)})
	// --- results: exactly the strings resultRE matches
	sides := []string{"F", "R", "1/2", "1", "0"}
	for _, a := range sides {
		for _, b := range sides {
			addOp("result.safe", &ptn.Result{Result: a + "-" + b})
		}
	}
	for _, s := range []string{"", "2-0", "R", "R-", "-0", "-", "R-0 ", " R-0", "R-0\n", "r-0", "1/2-1/2-1", "0-0-0", "1/2", "F - 0",
		"R-0.", "{R-0}", "a1", "1.", "R-0?", "R-0!", "0-2", "1/2-1/3", "R-0\xa0", "[R-0]", "R--0", "R-00"} {
		addOp("result.unsafe", &ptn.Result{Result: s})
	}
	// --- move numbers: every int is representable
	for _, n := range []int{0, 1, -1, math.MaxInt64, math.MinInt64, math.MaxInt64 - 1, math.MinInt64 + 1, 1 << 62} {
		addOp("number.safe", &ptn.MoveNumber{Number: n})
	}
	// --- moves FormatMove/ParseMove do not carry (the moveSafe hypothesis fails: class "nomove")
	for _, m := range []tak.Move{
		{X: 8, Y: 0, Type: tak.PlaceFlat},                         // "i1"
		{X: 0, Y: 8, Type: tak.PlaceFlat},                         // "a9"
		{X: 0, Y: 0},                                              // type 0 prints as a flat placement
		{X: 0, Y: 0, Type: tak.PlaceFlat, Slides: tak.MkSlides(1)},    // slides on a placement
		{X: 1, Y: 1, Type: tak.SlideLeft},                         // a slide without drops
		{X: -6, Y: 0, Type: tak.PlaceFlat},                        // "[1": looks like a tag
		{X: -65, Y: 0, Type: tak.PlaceFlat},                       // " 1": white space
		{X: 26, Y: 0, Type: tak.PlaceFlat},                        // "{1": looks like a comment
		{X: 0, Y: -3, Type: tak.PlaceFlat},                        // "a."
		{X: 0, Y: -16, Type: tak.PlaceFlat},                       // "a!"
	} {
		addOp("move.unformattable", &ptn.Move{Move: m})
	}
	return out
}

func emitBoundary(c *Ctx) {
	for i, bc := range boundCases() {
		if i%c.NShard != c.Shard {
			continue
		}
		enc := fmtPTN(bc.p)
		out := c.Emit("ptnsafe " + enc)
		lab := bc.label[:strings.IndexByte(bc.label, '@')]
		c.Count("bound." + lab + "=" + strings.ReplaceAll(out, " ", "/"))
		if len(enc) < 4096 {
			text := []byte(bc.p.Render())
			c.Emit("ptnrender " + enc)
			c.Emit("ptnparse " + hexEnc(text))
		}
	}
}
