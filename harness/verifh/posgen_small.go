package main

import (
	"sync"

	"github.com/nelhage/taktician/tak"
)

// smallPosition builds a position near the end of a game on a small board: a handful of pieces on
// the board (stacks, walls, sometimes a capstone) and one or two stones left in reserve, so that the
// whole game graph below it is small enough for exact retrograde analysis.
func smallPosition(r *RNG) *tak.Position {
	for {
		size := 3
		if r.Chance(1, 5) {
			size = 4
		}
		k := 2 + r.Intn(4)
		if size == 4 {
			k = 2 + r.Intn(3)
		}
		board := make([][]tak.Square, size)
		for y := range board {
			board[y] = make([]tak.Square, size)
		}
		var stones, caps [2]int
		allowCaps := r.Chance(1, 4)
		for i := 0; i < k; i++ {
			ci := r.Intn(2)
			col := []tak.Color{tak.White, tak.Black}[ci]
			kind := tak.Flat
			switch x := r.Intn(100); {
			case x < 22:
				kind = tak.Standing
			case x < 34 && allowCaps && caps[ci] == 0:
				kind = tak.Capstone
			}
			// a square whose top is a flat (stack on it) or an empty one
			var x, y int
			ok := false
			for try := 0; try < 20 && !ok; try++ {
				x, y = r.Intn(size), r.Intn(size)
				sq := board[y][x]
				if len(sq) == 0 {
					ok = true
				} else if sq[0].Kind() == tak.Flat && r.Chance(1, 2) {
					ok = true
				}
			}
			if !ok {
				continue
			}
			board[y][x] = append(tak.Square{tak.MakePiece(col, kind)}, board[y][x]...)
			if kind == tak.Capstone {
				caps[ci]++
			} else {
				stones[ci]++
			}
		}
		cfg := tak.Config{Size: size, BlackWinsTies: r.Chance(1, 4)}
		mx := stones[0]
		if stones[1] > mx {
			mx = stones[1]
		}
		cfg.Pieces = mx + 1 + r.Intn(2)
		mc := caps[0]
		if caps[1] > mc {
			mc = caps[1]
		}
		cfg.Capstones = mc
		if allowCaps && r.Chance(1, 2) {
			cfg.Capstones = mc + 1
		}
		ply := 2 + r.Intn(40)
		p, err := tak.FromSquares(cfg, board, ply)
		if err != nil {
			continue
		}
		return p
	}
}

// famPosition builds a position of one of the families whose whole game graph is known to be small:
// nW white and nB black pieces (flats or walls, stacked with probability stackPct when legal) on a
// size x size board, and exactly `res` stones left for the colour with more stones on the board.
func famPosition(r *RNG, size, nW, nB, wallPct, stackPct, res int) *tak.Position {
	for {
		board := make([][]tak.Square, size)
		for y := range board {
			board[y] = make([]tak.Square, size)
		}
		todo := []tak.Color{}
		for i := 0; i < nW; i++ {
			todo = append(todo, tak.White)
		}
		for i := 0; i < nB; i++ {
			todo = append(todo, tak.Black)
		}
		for i := len(todo) - 1; i > 0; i-- {
			j := r.Intn(i + 1)
			todo[i], todo[j] = todo[j], todo[i]
		}
		ok := true
		for _, col := range todo {
			kind := tak.Flat
			if r.Intn(100) < wallPct {
				kind = tak.Standing
			}
			placed := false
			for try := 0; try < 50 && !placed; try++ {
				x, y := r.Intn(size), r.Intn(size)
				sq := board[y][x]
				if len(sq) == 0 || (sq[0].Kind() == tak.Flat && r.Intn(100) < stackPct) {
					board[y][x] = append(tak.Square{tak.MakePiece(col, kind)}, sq...)
					placed = true
				}
			}
			ok = ok && placed
		}
		if !ok {
			continue
		}
		mx := nW
		if nB > mx {
			mx = nB
		}
		cfg := tak.Config{Size: size, Pieces: mx + res, BlackWinsTies: r.Chance(1, 4)}
		if famCaps > 0 {
			// a capstone each (custom piece counts: 3x3 and 4x4 have none by default); with res = 0 the side that
			// has placed most is out of flat stones and can only drop its capstone or slide
			cfg.Capstones = famCaps
		}
		p, err := tak.FromSquares(cfg, board, 2+r.Intn(30))
		if err != nil {
			continue
		}
		if over, _ := p.GameOver(); over {
			continue
		}
		return p
	}
}

// graphFamily draws a root for an exactly solvable graph; larger families only when `big`.
// famCaps: capstones per side of the next famPosition (0 = the size's default)
var famCapsMu sync.Mutex
var famCaps int

func famPositionCaps(r *RNG, size, nW, nB, wallPct, stackPct, res, caps int) *tak.Position {
	famCapsMu.Lock()
	defer famCapsMu.Unlock()
	famCaps = caps
	defer func() { famCaps = 0 }()
	return famPosition(r, size, nW, nB, wallPct, stackPct, res)
}

func graphFamily(r *RNG, big bool) *tak.Position {
	x := r.Intn(100)
	switch {
	case x < 12:
		// flat stones exhausted or nearly so, a capstone still in hand
		return famPositionCaps(r, 3, 1, 1, 30, 0, r.Intn(2), 1)
	case x < 30:
		return famPosition(r, 3, 1, 1, 30, 0, 1) // about 1 000 positions
	case x < 45:
		return famPosition(r, 4, 1, 1, 30, 0, 1) // about 6 500
	case x < 60:
		return famPosition(r, 3, 3, 3, 100, 0, 1) // six walls: about 9 000
	case x < 90 || !big:
		return famPosition(r, 3, 2, 2, 35, 30, 1) // 15 000 - 60 000
	default:
		return smallPosition(r)
	}
}
