package main

import (
	"fmt"
	"strconv"
	"strings"

	"github.com/nelhage/taktician/ai"
	"github.com/nelhage/taktician/bitboard"
	"github.com/nelhage/taktician/tak"
)

// `fn.*` ops of the fourth batch of regenerated functions (work package gen4): Generated/FuncsThreat.lean (ai.CountThreats)
// and FuncsHeur.lean (mobility, scoreGroups, scoreThreats, computeInfluence, computeControl, scoreControl, evaluate, the init
// that builds DefaultWeights).  Each op runs the real function; the Lean side evaluates the regenerated definition on the
// fields of the same raw position (Driver/OpsFnGen4.lean).  Generators: FNTHREAT (C19), FNHEUR (C18).

func init() {
	opTable["fn.threats"] = func(s *Session, a []string) string { return opTable["threats"](s, a) }
	opTable["fn.evalw"] = func(s *Session, a []string) string {
		p := decPos(a[1])
		c := bitboard.Precompute(uint(p.Size()))
		return strconv.FormatInt(ai.VerifEvaluate(&c, weightSet(a[0], p.Size()), p), 10)
	}
	opTable["fn.evalparts"] = func(s *Session, a []string) string { return opTable["evalparts"](s, a) }
	opTable["fn.mobility"] = func(s *Session, a []string) string { return opTable["mobility"](s, a) }
	opTable["fn.control"] = func(s *Session, a []string) string { return opTable["control"](s, a) }
	opTable["fn.influence"] = func(s *Session, a []string) string {
		var out []uint64
		if a[2] != "-" {
			for _, f := range strings.Split(a[2], ",") {
				out = append(out, atou(f))
			}
		}
		return u64s(ai.VerifComputeInfluence(uint(atoi(a[0])), atou(a[1]), out))
	}
	opTable["fn.evalinit"] = func(s *Session, a []string) string {
		rows := make([]string, len(ai.DefaultWeights))
		for i := range ai.DefaultWeights {
			rows[i] = i64s(ai.DefaultWeights[i][:])
		}
		return strings.Join(rows, ";")
	}
	genTable["FNTHREAT"] = genFNTHREAT
	genTable["FNHEUR"] = genFNHEUR
}

// singlesBoard: many isolated flats of both colours (the `singles` of countOne: pieces that belong to no group) next to a few
// edge groups, so that the inner loop of CountThreats walks the group prefix AND the single bits; walls / capstones between.
func singlesBoard(r *RNG, size int) *tak.Position {
	board := emptyBoard(size)
	kinds := []tak.Kind{tak.Flat, tak.Flat, tak.Flat, tak.Standing, tak.Capstone}
	for y := 0; y < size; y++ {
		for x := 0; x < size; x++ {
			switch {
			case (x+y)%2 == 0 && r.Chance(2, 3):
				// checkerboard squares: isolated unless a filler joins them
				board[y][x] = tak.Square{tak.MakePiece(bothColors[r.Intn(2)], tak.Flat)}
			case r.Chance(1, 5):
				board[y][x] = tak.Square{tak.MakePiece(bothColors[r.Intn(2)], kinds[r.Intn(len(kinds))])}
			}
		}
	}
	// one or two edge segments per colour
	for k := 0; k < 1+r.Intn(3); k++ {
		col := bothColors[r.Intn(2)]
		n := 2 + r.Intn(size-2)
		if r.Chance(1, 2) {
			y := []int{0, size - 1}[r.Intn(2)]
			for x := 0; x < n; x++ {
				board[y][x] = tak.Square{tak.MakePiece(col, tak.Flat)}
			}
		} else {
			x := []int{0, size - 1}[r.Intn(2)]
			for y := 0; y < n; y++ {
				board[y][x] = tak.Square{tak.MakePiece(col, tak.Flat)}
			}
		}
	}
	p, err := tak.FromSquares(bigCfg(r, size), board, 2+r.Intn(40))
	if err != nil {
		panic(err)
	}
	return p
}

// threatPosition: the position sources of C19's generator plus the boundary boards of this file and raw states
func threatPosition(c *Ctx, size int) (*tak.Position, string) {
	x := c.R.Intn(100)
	switch {
	case x < 22:
		return gapBoard(c.R, size, c), "src.gap"
	case x < 36:
		return junctionBoard(c.R, size, c), "src.junction"
	case x < 50:
		return singlesBoard(c.R, size), "src.singles"
	case x < 58:
		return groupsBoard(c.R, size), "src.groupsboard"
	case x < 66:
		p, tag := extremalBoard(c.R, size)
		return p, "src." + tag
	case x < 72:
		return roadBoard(c.R, size), "src.roadboard"
	case x < 80:
		return smallBoard(c.R, 3+c.R.Intn(3)), "src.smallboard"
	case x < 88:
		// any bitboards inside the mask, any heights: far outside the reachable positions (the bridge theorem's domain)
		return rawState(c.R, size), "src.rawstate"
	}
	return randomPosition(c.R), "src.random"
}

func genFNTHREAT(c *Ctx) {
	n := c.Scale(4000, 400000)
	for k := 0; k < n; k++ {
		size := 3 + c.R.Intn(6)
		if c.R.Chance(1, 3) {
			size = 3 + c.R.Intn(3)
		}
		p, src := threatPosition(c, size)
		c.Count(src)
		out := c.Emit("fn.threats " + encPos(p))
		f := strings.Fields(out)
		if len(f) == 4 {
			for i, name := range []string{"wp", "wt", "bp", "bt"} {
				if f[i] != "0" {
					c.Count("nonzero." + name)
				}
			}
			if out == "0 0 0 0" {
				c.Count("threats=none")
			}
		} else {
			c.Count("threats=" + out)
		}
	}
}

// heurWeights: weight vectors that take every branch of evaluate: all 36 entries random (Liberties / GroupLiberties on),
// sparse ones, Potential = Threat = 0 (scoreThreats returns early), EmptyControl = FlatControl = 0 (scoreControl returns
// early), one-hot vectors (an off-by-one in a weight index changes the value), the built-in sets
func heurWeights(r *RNG) string {
	switch r.Intn(10) {
	case 0:
		return "default"
	case 1:
		return []string{"easy", "med", "raw", "over6"}[r.Intn(4)]
	case 2, 3:
		// one-hot / two-hot
		parts := make([]string, 36)
		for i := range parts {
			parts[i] = "0"
		}
		parts[r.Intn(36)] = strconv.Itoa(1 + r.Intn(1000))
		if r.Chance(1, 2) {
			parts[r.Intn(36)] = strconv.Itoa(-1 - r.Intn(1000))
		}
		return "c:" + strings.Join(parts, ",")
	case 4:
		// distinct primes-like values on the group entries: every Groups_k distinguishable
		parts := make([]string, 36)
		for i := range parts {
			parts[i] = strconv.Itoa(r.Intn(5))
		}
		for i := 14; i <= 22; i++ {
			parts[i] = strconv.Itoa(1000 + 137*(i-13)*(i-13))
		}
		return "c:" + strings.Join(parts, ",")
	case 5:
		f := strings.Split(randWeights(r)[2:], ",")
		f[23], f[24] = "0", "0"
		if r.Chance(1, 2) {
			f[25], f[26] = "0", "0"
		}
		return "c:" + strings.Join(f, ",")
	}
	return randWeights(r)
}

func genFNHEUR(c *Ctx) {
	if c.Shard == 0 {
		c.Emit("fn.evalinit")
		// computeInfluence on its own: counters of every length (also none: the final `out[len(out)-1]` then panics), dirty counters
		for _, out := range []string{"-", "0", "0,0", "0,0,0", "0,0,0,0", "7,7,7", "18446744073709551615,0,1"} {
			for _, mine := range []uint64{0, 1, 0x1ff, 0x155, 0xffffffffffffffff, 1 << 63} {
				for _, size := range []int{3, 5, 8} {
					c.Emit(fmt.Sprintf("fn.influence %d %d %s", size, mine, out))
				}
			}
		}
	}
	n := c.Scale(2200, 220000)
	for k := 0; k < n; k++ {
		size := 3 + c.R.Intn(6)
		var p *tak.Position
		x := c.R.Intn(100)
		switch {
		case x < 30:
			p = randomPosition(c.R)
			c.Count("src.random")
		case x < 50:
			var tag string
			p, tag = extremalBoard(c.R, size)
			c.Count("src." + tag)
		case x < 58:
			var tag string
			p, tag = finishedGame(c.R, size, 2+c.R.Intn(1000))
			c.Count("src." + tag)
		case x < 68:
			p = gapBoard(c.R, size, c)
			c.Count("src.gap")
		case x < 76:
			p = singlesBoard(c.R, size)
			c.Count("src.singles")
		case x < 82:
			p = roadBoard(c.R, size)
			c.Count("src.roadboard")
		default:
			p = rawState(c.R, size)
			c.Count("src.rawstate")
		}
		tok := encPos(p)
		w := heurWeights(c.R)
		out := c.Emit("fn.evalw " + w + " " + tok)
		c.Count(absClass(out))
		if over, _ := p.GameOver(); over {
			c.Count("evalw.finished")
		} else {
			c.Count("evalw.undecided")
		}
		switch c.R.Intn(4) {
		case 0:
			c.Emit("fn.evalparts " + w + " " + tok)
		case 1:
			c.Emit("fn.control " + tok)
		case 2:
			// heights from -1 (no step) to beyond the board and up to a uint8's 255
			i := c.R.Intn(p.Size() * p.Size())
			h := []int{-1, 0, 1, 2, 3, 7, 8, 9, 64, 254, 255}[c.R.Intn(11)]
			c.Emit("fn.mobility " + tok + " " + strconv.Itoa(i) + " " + strconv.Itoa(h))
		default:
			mask := uint64(1)<<uint(size*size) - 1
			outs := []string{"0,0,0", "0,0", "0", fmt.Sprintf("%d,%d,%d", c.R.Next()&mask, c.R.Next()&mask, c.R.Next()&mask)}
			c.Emit(fmt.Sprintf("fn.influence %d %d %s", size, edgeU64(c.R)&mask, outs[c.R.Intn(len(outs))]))
		}
	}
}
