package main

import (
	"os"
	"path/filepath"
	"sync"

	"github.com/nelhage/taktician/ptn"
	"github.com/nelhage/taktician/tak"
)

var defaultPieces = []int{0, 0, 0, 10, 15, 21, 30, 40, 50}
var defaultCaps = []int{0, 0, 0, 0, 0, 1, 1, 2, 2}

func legalMoves(p *tak.Position) []tak.Move {
	var out []tak.Move
	for _, m := range p.AllMoves(nil) {
		if _, err := p.Move(m); err == nil {
			out = append(out, m)
		}
	}
	return out
}

// pickBiased chooses a legal move with a bias towards slides, walls and capstones.
func pickBiased(r *RNG, p *tak.Position, ms []tak.Move) tak.Move {
	var slides, multi, walls, caps, flats []tak.Move
	for _, m := range ms {
		switch {
		case m.IsSlide():
			slides = append(slides, m)
			if m.Slides.Len() > 1 || m.Slides.First() > 1 {
				multi = append(multi, m)
			}
		case m.Type == tak.PlaceStanding:
			walls = append(walls, m)
		case m.Type == tak.PlaceCapstone:
			caps = append(caps, m)
		default:
			flats = append(flats, m)
		}
	}
	x := r.Intn(100)
	switch {
	case x < 20 && len(multi) > 0:
		return multi[r.Intn(len(multi))]
	case x < 40 && len(slides) > 0:
		return slides[r.Intn(len(slides))]
	case x < 50 && len(walls) > 0:
		return walls[r.Intn(len(walls))]
	case x < 58 && len(caps) > 0:
		return caps[r.Intn(len(caps))]
	case len(flats) > 0:
		return flats[r.Intn(len(flats))]
	}
	return ms[r.Intn(len(ms))]
}

func randomConfig(r *RNG, size int) tak.Config {
	cfg := tak.Config{Size: size, BlackWinsTies: r.Chance(1, 4)}
	if r.Chance(1, 4) {
		cfg.Pieces = 2 + r.Intn(2*defaultPieces[size])
		cfg.Capstones = r.Intn(4)
	}
	return cfg
}

// playout plays a biased random game from the start and hands every position to f
// (including the final one). Returns the number of plies played.
func playout(r *RNG, cfg tak.Config, maxPlies int, f func(p *tak.Position)) int {
	p := tak.New(cfg)
	for ply := 0; ply < maxPlies; ply++ {
		f(p)
		if over, _ := p.GameOver(); over {
			return ply
		}
		ms := legalMoves(p)
		if len(ms) == 0 {
			return ply
		}
		m := pickBiased(r, p, ms)
		n, err := p.Move(m)
		if err != nil {
			panic("playout: legal move rejected")
		}
		p = n
	}
	f(p)
	return maxPlies
}

func randHeight(r *RNG, tall bool) int {
	x := r.Intn(100)
	switch {
	case x < 45:
		return 1
	case x < 80:
		return 2 + r.Intn(4)
	case x < 94:
		return 6 + r.Intn(7)
	}
	if tall {
		return 13 + r.Intn(52)
	}
	return 6 + r.Intn(7)
}

// constructed builds a random well-formed board through FromSquares: stacks of any
// height up to 64, any top kind, any ply, reserves consistent with the configured totals.
func constructed(r *RNG, size int) *tak.Position {
	for {
		board := make([][]tak.Square, size)
		density := 15 + r.Intn(80)
		tall := r.Chance(1, 3)
		var cnt, capCnt [2]int
		maxCaps := defaultCaps[size] + r.Intn(2)
		total := 0
		for y := 0; y < size; y++ {
			board[y] = make([]tak.Square, size)
			for x := 0; x < size; x++ {
				if r.Intn(100) >= density {
					continue
				}
				h := randHeight(r, tall)
				if total+h > 230 {
					h = 1
				}
				total += h
				sq := make(tak.Square, h)
				ci := r.Intn(2)
				col := []tak.Color{tak.White, tak.Black}[ci]
				kind := tak.Flat
				k := r.Intn(100)
				if k < 25 {
					kind = tak.Standing
				} else if k < 40 && capCnt[ci] < maxCaps {
					kind = tak.Capstone
				}
				sq[0] = tak.MakePiece(col, kind)
				if kind == tak.Capstone {
					capCnt[ci]++
				} else {
					cnt[ci]++
				}
				for j := 1; j < h; j++ {
					cj := r.Intn(2)
					sq[j] = tak.MakePiece([]tak.Color{tak.White, tak.Black}[cj], tak.Flat)
					cnt[cj]++
				}
				board[y][x] = sq
			}
		}
		cfg := tak.Config{Size: size, BlackWinsTies: r.Chance(1, 4)}
		need := cnt[0]
		if cnt[1] > need {
			need = cnt[1]
		}
		needCaps := capCnt[0]
		if capCnt[1] > needCaps {
			needCaps = capCnt[1]
		}
		if need > defaultPieces[size] || r.Chance(1, 5) {
			cfg.Pieces = need + r.Intn(4)
			if r.Chance(1, 6) {
				cfg.Pieces = need // one side exhausted
			}
			if cfg.Pieces == 0 {
				cfg.Pieces = 1
			}
		}
		if needCaps > defaultCaps[size] || r.Chance(1, 5) {
			cfg.Capstones = needCaps + r.Intn(2)
		}
		if cfg.Pieces > 250 {
			continue
		}
		ply := 0
		switch x := r.Intn(10); {
		case x == 0:
			ply = r.Intn(2)
		case x < 8:
			ply = 2 + r.Intn(120)
		default:
			ply = 2 + r.Intn(20000)
		}
		p, err := tak.FromSquares(cfg, board, ply)
		if err != nil {
			panic(err)
		}
		return p
	}
}

var (
	tdOnce sync.Once
	tdPos  []*tak.Position
)

// testdataPositions replays every PTN under /repo/testdata and returns all positions met.
func testdataPositions() []*tak.Position {
	tdOnce.Do(func() {
		root := os.Getenv("VERIF_REPO")
		if root == "" {
			root = "/repo"
		}
		files, _ := filepath.Glob(filepath.Join(root, "testdata", "*", "*.ptn"))
		more, _ := filepath.Glob(filepath.Join(root, "testdata", "*.ptn"))
		files = append(files, more...)
		for _, f := range files {
			func() {
				defer func() { recover() }()
				g, err := ptn.ParseFile(f)
				if err != nil {
					return
				}
				it := g.Iterator()
				for it.Next() {
					tdPos = append(tdPos, tak.VerifFromRaw(it.Position().VerifRaw()))
				}
			}()
		}
	})
	return tdPos
}

// randomPosition draws from the shared position sources.
func randomPosition(r *RNG) *tak.Position {
	size := 3 + r.Intn(6)
	x := r.Intn(100)
	switch {
	case x < 8:
		return groupsBoard(r, size)
	case x < 45:
		return constructed(r, size)
	case x < 50:
		td := testdataPositions()
		if len(td) > 0 {
			return td[r.Intn(len(td))]
		}
		fallthrough
	default:
		var keep *tak.Position
		n := 0
		stop := 1 + r.Intn(4*size*size)
		playout(r, randomConfig(r, size), stop, func(p *tak.Position) {
			n++
			keep = p
		})
		return keep
	}
}

// groupsBoard builds a board of many small road groups (dominoes and short bars separated by gaps,
// walls or enemy stones), with a random split between the colours: boards whose group count exceeds
// size or 2*size (the capacity of the per-position group array) are otherwise very rare.
func groupsBoard(r *RNG, size int) *tak.Position {
	board := make([][]tak.Square, size)
	for y := range board {
		board[y] = make([]tak.Square, size)
	}
	if r.Chance(1, 2) {
		// dense mode: dominoes coloured like a checkerboard (neighbours differ, so nothing merges), then
		// thinned per colour: up to size*size/4 groups of each colour, any split between them
		keep := [2]int{[]int{15, 40, 70, 100}[r.Intn(4)], []int{15, 40, 70, 100}[r.Intn(4)]}
		for y := 0; y < size; y++ {
			for k := 0; 2*k+1 < size; k++ {
				ci := (y + k) % 2
				if r.Intn(100) >= keep[ci] {
					if r.Chance(1, 2) {
						c := []tak.Color{tak.White, tak.Black}[ci]
						board[y][2*k] = tak.Square{tak.MakePiece(c, tak.Standing)}
					}
					continue
				}
				c := []tak.Color{tak.White, tak.Black}[ci]
				board[y][2*k] = tak.Square{tak.MakePiece(c, tak.Flat)}
				board[y][2*k+1] = tak.Square{tak.MakePiece(c, tak.Flat)}
			}
		}
		if r.Chance(1, 3) {
			// one square short of (or exactly) a column road on the last file when it is free
			if size%2 == 1 {
				col := []tak.Color{tak.White, tak.Black}[r.Intn(2)]
				for y := 0; y < size; y++ {
					board[y][size-1] = tak.Square{tak.MakePiece(col, tak.Flat)}
				}
				if r.Chance(1, 2) {
					board[r.Intn(size)][size-1] = nil
				}
			}
		}
		cfg := tak.Config{Size: size, BlackWinsTies: r.Chance(1, 2), Pieces: size*size + 3, Capstones: 1}
		p, err := tak.FromSquares(cfg, board, 2+r.Intn(40))
		if err != nil {
			panic(err)
		}
		return p
	}
	whiteShare := []int{5, 20, 50, 80, 95}[r.Intn(5)]
	rowGap := r.Chance(2, 3) // separate rows of dominoes by a non-road row
	y := 0
	for y < size {
		x := 0
		for x+1 < size {
			l := 2
			if r.Chance(1, 5) && x+2 < size {
				l = 3
			}
			col := tak.Black
			if r.Intn(100) < whiteShare {
				col = tak.White
			}
			for k := 0; k < l; k++ {
				kind := tak.Flat
				board[y][x+k] = tak.Square{tak.MakePiece(col, kind)}
			}
			x += l
			// separator square: empty, a wall, or left to the next domino of the other colour
			if x < size {
				switch r.Intn(3) {
				case 0:
				case 1:
					board[y][x] = tak.Square{tak.MakePiece(col.Flip(), tak.Standing)}
				case 2:
					board[y][x] = tak.Square{tak.MakePiece(col, tak.Standing)}
				}
				x++
			}
		}
		y++
		if rowGap && y < size {
			// a row that cannot join the rows around it
			for x := 0; x < size; x++ {
				if r.Chance(1, 3) {
					c := []tak.Color{tak.White, tak.Black}[r.Intn(2)]
					board[y][x] = tak.Square{tak.MakePiece(c, tak.Standing)}
				}
			}
			y++
		}
	}
	// optionally one long line for one colour (a road next to many groups)
	if r.Chance(1, 3) {
		yy := size - 1
		col := []tak.Color{tak.White, tak.Black}[r.Intn(2)]
		for x := 0; x < size; x++ {
			board[yy][x] = tak.Square{tak.MakePiece(col, tak.Flat)}
		}
		if r.Chance(1, 2) {
			board[yy][r.Intn(size)] = nil // one short
		}
	}
	cfg := tak.Config{Size: size, BlackWinsTies: r.Chance(1, 2), Pieces: size*size + 3, Capstones: 1}
	p, err := tak.FromSquares(cfg, board, 2+r.Intn(40))
	if err != nil {
		panic(err)
	}
	return p
}
