package main

import (
	"encoding/hex"
	"strconv"

	"github.com/nelhage/taktician/playtak"
	"github.com/nelhage/taktician/ptn"
	"github.com/nelhage/taktician/tak"
)

// Byte strings travel hex-encoded on op lines; "-" is the empty string.
func hexOf(s string) string {
	if s == "" {
		return "-"
	}
	return hex.EncodeToString([]byte(s))
}

func unhex(tok string) string {
	if tok == "-" {
		return ""
	}
	b, err := hex.DecodeString(tok)
	if err != nil {
		panic("bad hex " + tok)
	}
	return string(b)
}

func fmtMoveR(m tak.Move, err error) string {
	if err != nil {
		return "err"
	}
	return "ok " + encMove(m)
}

func bit01(b bool) string {
	if b {
		return "1"
	}
	return "0"
}

func init() {
	opTable["tps"] = func(s *Session, a []string) string { return hexOf(ptn.FormatTPS(decPos(a[0]))) }
	opTable["parsetps"] = func(s *Session, a []string) string {
		p, err := ptn.ParseTPS(unhex(a[0]))
		if err != nil {
			return "err"
		}
		return "ok " + dumpPos(p)
	}
	// ParseTPS(FormatTPS(p)) against p: Equal, Hash, reserves, side to move, move number
	opTable["rttps"] = func(s *Session, a []string) string {
		p := decPos(a[0])
		q, err := ptn.ParseTPS(ptn.FormatTPS(p))
		if err != nil {
			return "parse-err"
		}
		rp, rq := p.VerifRaw(), q.VerifRaw()
		eq := q.Equal(p)
		h := q.Hash() == p.Hash()
		r := rp.WS == rq.WS && rp.WC == rq.WC && rp.BS == rq.BS && rp.BC == rq.BC
		sd := q.ToMove() == p.ToMove()
		m := q.MoveNumber() == p.MoveNumber()
		if eq && h && r && sd && m {
			return "ok"
		}
		return "diff " + bit01(eq) + bit01(h) + bit01(r) + bit01(sd) + bit01(m)
	}
	// the harness only sends positions built by New/Move/FromSquares (well-formed by construction);
	// the model side evaluates the hypothesis of C10.tps_roundtrip, which must therefore agree with
	// "default piece counts and ply >= 0"
	opTable["tpshyp"] = func(s *Session, a []string) string {
		r := decRaw(a[0])
		ok := r.Size >= 3 && r.Size <= 8 && r.Pieces == defaultPieces[r.Size] && r.Capstones == defaultCaps[r.Size] && r.Move >= 0
		for _, h := range r.Height {
			if h > 64 {
				ok = false
			}
		}
		return bit01(ok)
	}
	// FormatTPS(ParseTPS(s)) against s, for strings the generator built from the canonical grammar
	opTable["canontps"] = func(s *Session, a []string) string {
		in := unhex(a[0])
		p, err := ptn.ParseTPS(in)
		if err != nil {
			return "parse-err"
		}
		out := ptn.FormatTPS(p)
		if out == in {
			return "same"
		}
		return "differs " + hexOf(out)
	}
	// membership in / size of the harness's own enumeration of legal move shapes
	opTable["shape"] = func(s *Session, a []string) string {
		size := atoi(a[0])
		if size < 3 || size > 8 {
			return "0"
		}
		m := decMove(a[1])
		for _, x := range shapesCache[size] {
			if x == m {
				return "1"
			}
		}
		return "0"
	}
	opTable["shapecount"] = func(s *Session, a []string) string {
		return strconv.Itoa(len(legalShapes(atoi(a[0]))))
	}
	opTable["fmtmove"] = func(s *Session, a []string) string { return hexOf(ptn.FormatMove(decMove(a[0]))) }
	opTable["fmtmovelong"] = func(s *Session, a []string) string { return hexOf(ptn.FormatMoveLong(decMove(a[0]))) }
	opTable["fmtserver"] = func(s *Session, a []string) string { return hexOf(playtak.FormatServer(decMove(a[0]))) }
	opTable["parsemove"] = func(s *Session, a []string) string { return fmtMoveR(ptn.ParseMove(unhex(a[0]))) }
	opTable["parseserver"] = func(s *Session, a []string) string { return fmtMoveR(playtak.ParseServer(unhex(a[0]))) }
	// the three round trips on the real code; identical values (==, not Move.Equal) are demanded
	opTable["rtmove"] = func(s *Session, a []string) string {
		m := decMove(a[1])
		good := func(r tak.Move, err error) bool { return err == nil && r == m }
		x := good(ptn.ParseMove(ptn.FormatMove(m)))
		y := good(ptn.ParseMove(ptn.FormatMoveLong(m)))
		z := good(playtak.ParseServer(playtak.FormatServer(m)))
		if x && y && z {
			return "ok"
		}
		return "diff " + bit01(x) + bit01(y) + bit01(z)
	}
}
