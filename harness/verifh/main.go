// verifh: the /verif correspondence harness. It is overlaid into the
// repository's module at cmd/internal/verifh at build time (go build -overlay),
// calls the real code in-process and speaks the same one-op-per-line protocol
// as the Lean driver.
package main

import (
	"strconv"
	"runtime/debug"
	"io"
	"bufio"
	"encoding/json"
	"flag"
	"fmt"
	"os"
	"path/filepath"
	"sort"
	"strings"
	"sync"
	"time"
)

// An op handler executes one op on the real code and renders its canonical output.
type opFunc func(s *Session, args []string) string

var opTable = map[string]opFunc{}

// A generator emits op lines for one property.
type genFunc func(c *Ctx)

var genTable = map[string]genFunc{}

// Session carries state for op sequences that need it (slots, engines ...).
type Session struct {
	slots map[string]interface{}
}

func NewSession() *Session { return &Session{slots: map[string]interface{}{}} }

// execLine runs one op line under recover.
func execLine(s *Session, line string) (out string) {
	f := strings.Fields(line)
	if len(f) == 0 {
		return ""
	}
	h, ok := opTable[f[0]]
	if !ok {
		return "bad-op"
	}
	defer func() {
		if r := recover(); r != nil {
			out = "panic"
			if os.Getenv("VERIF_PANIC_TRACE") != "" {
				fmt.Fprintf(os.Stderr, "panic in %q: %v\n", line, r)
			}
		}
	}()
	return h(s, f[1:])
}

// execTimed is execLine with a watchdog; an op that does not finish is reported as "hang".
func execTimed(s *Session, line string, d time.Duration) string {
	ch := make(chan string, 1)
	go func() { ch <- execLine(s, line) }()
	select {
	case r := <-ch:
		return r
	case <-time.After(d):
		return "hang"
	}
}

type Ctx struct {
	Prop  string
	Tier  string
	Seed  uint64
	Shard int
	NShard int
	R     *RNG
	S     *Session
	ops   *bufio.Writer
	exp   *bufio.Writer
	N     int
	Stats map[string]int
	Timeout time.Duration
	samples []string
	distinct map[uint64]struct{}
}

func (c *Ctx) Thorough() bool { return c.Tier == "thorough" }

// Scale returns the per-shard case budget: q cases in the quick tier, t in the thorough tier.
func (c *Ctx) Scale(q, t int) int {
	n := q
	if c.Thorough() {
		n = t
	}
	n = n / c.NShard
	if n < 1 {
		n = 1
	}
	return n
}

func (c *Ctx) Count(tag string) { c.Stats[tag]++ }

// Emit executes the op on the real code and records op line and expected output.
func (c *Ctx) Emit(line string) string {
	var out string
	if c.Timeout > 0 {
		out = execTimed(c.S, line, c.Timeout)
	} else {
		out = execLine(c.S, line)
	}
	c.ops.WriteString(line)
	c.ops.WriteByte('\n')
	c.exp.WriteString(out)
	c.exp.WriteByte('\n')
	c.N++
	if !strings.HasPrefix(line, "basis ") && !strings.HasPrefix(line, "case ") && out != "bad-op" {
		c.distinct[hashStr(line)] = struct{}{}
	}
	if !strings.HasPrefix(line, "basis ") && !strings.HasPrefix(line, "case ") && (len(c.samples) < 3 || (c.N%997 == 0 && len(c.samples) < 8)) {
		c.samples = append(c.samples, line+" => "+clip(out, 300))
	}
	return out
}

func clip(s string, n int) string {
	if len(s) > n {
		return s[:n] + "..."
	}
	return s
}

func cmdRun(args []string) {
	fs := flag.NewFlagSet("run", flag.ExitOnError)
	prop := fs.String("prop", "", "property id")
	seed := fs.Uint64("seed", 1, "seed")
	tier := fs.String("tier", "quick", "quick|thorough")
	out := fs.String("out", ".", "output directory")
	shards := fs.Int("shards", 16, "parallel shards")
	fs.Parse(args)
	g, ok := genTable[*prop]
	if !ok {
		fmt.Fprintf(os.Stderr, "no generator for %s\n", *prop)
		os.Exit(2)
	}
	os.MkdirAll(*out, 0o755)
	var wg sync.WaitGroup
	ctxs := make([]*Ctx, *shards)
	for i := 0; i < *shards; i++ {
		wg.Add(1)
		go func(i int) {
			defer wg.Done()
			of, err := os.Create(filepath.Join(*out, fmt.Sprintf("%s.%02d.ops", *prop, i)))
			if err != nil {
				panic(err)
			}
			ef, err := os.Create(filepath.Join(*out, fmt.Sprintf("%s.%02d.exp", *prop, i)))
			if err != nil {
				panic(err)
			}
			c := &Ctx{Prop: *prop, Tier: *tier, Seed: *seed, Shard: i, NShard: *shards,
				R: NewRNG(*seed*1000003 + uint64(i)*7919 + hashStr(*prop)), S: NewSession(),
				ops: bufio.NewWriterSize(of, 1<<20), exp: bufio.NewWriterSize(ef, 1<<20), Stats: map[string]int{}, distinct: map[uint64]struct{}{}}
			ctxs[i] = c
			preamble(c)
			runGuarded(c, g)
			c.ops.Flush()
			c.exp.Flush()
			of.Close()
			ef.Close()
		}(i)
	}
	wg.Wait()
	// summary
	stats := map[string]int{}
	total := 0
	var samples []string
	all := map[uint64]struct{}{}
	for _, c := range ctxs {
		for k := range c.distinct {
			all[k] = struct{}{}
		}
		total += c.N
		for k, v := range c.Stats {
			stats[k] += v
		}
		if len(samples) < 6 {
			samples = append(samples, c.samples...)
		}
	}
	if len(samples) > 6 {
		samples = samples[:6]
	}
	keys := make([]string, 0, len(stats))
	for k := range stats {
		keys = append(keys, k)
	}
	sort.Strings(keys)
	sum := map[string]interface{}{"ops": total, "distribution": stats, "samples": samples, "shards": *shards, "distinct_nontrivial": len(all)}
	b, _ := json.MarshalIndent(sum, "", " ")
	os.WriteFile(filepath.Join(*out, *prop+".summary.json"), b, 0o644)
}

// runGuarded runs a generator; if the REAL code panics while the generator itself is building inputs (outside any op, so
// outside the per-op recover), the crash is recorded as an op line of its own: the model side does not know `gencrash`
// (it answers bad-op), so the check reports it as a disagreement whose replay re-runs this shard of the generator.
func runGuarded(c *Ctx, g func(*Ctx)) {
	defer func() {
		if r := recover(); r != nil {
			line := fmt.Sprintf("gencrash %s %d %d %s %d", c.Prop, c.Seed, c.Shard, c.Tier, c.NShard)
			out := "crash: " + crashSite(r)
			c.ops.WriteString(line + "\n")
			c.exp.WriteString(out + "\n")
			c.N++
			c.Stats["generator-crashed-in-real-code"]++
		}
	}()
	g(c)
}

// crashSite: the panic value and the innermost frame inside the repository proper (not the harness)
func crashSite(r interface{}) string {
	msg := strings.ReplaceAll(fmt.Sprint(r), "\n", " ")
	site := ""
	for _, l := range strings.Split(string(debug.Stack()), "\n") {
		l = strings.TrimSpace(l)
		if strings.HasPrefix(l, "github.com/nelhage/taktician/") && !strings.Contains(l, "/verifh.") && !strings.Contains(l, "Verif") {
			site = l
			if k := strings.Index(site, "("); k > 0 {
				site = site[:k]
			}
			break
		}
	}
	return clip(msg, 160) + " in " + site
}

func init() {
	opTable["gencrash"] = func(s *Session, a []string) string {
		g, ok := genTable[a[0]]
		if !ok || len(a) < 5 {
			return "bad-op"
		}
		seed, _ := strconv.ParseUint(a[1], 10, 64)
		shard, nshard := atoi(a[2]), atoi(a[4])
		c := &Ctx{Prop: a[0], Tier: a[3], Seed: seed, Shard: shard, NShard: nshard,
			R: NewRNG(seed*1000003 + uint64(shard)*7919 + hashStr(a[0])), S: NewSession(),
			ops: bufio.NewWriterSize(io.Discard, 1<<16), exp: bufio.NewWriterSize(io.Discard, 1<<16), Stats: map[string]int{}, distinct: map[uint64]struct{}{}}
		preamble(c)
		runGuarded(c, g)
		if c.Stats["generator-crashed-in-real-code"] > 0 {
			return "crash"
		}
		return "no-crash"
	}
}

func hashStr(s string) uint64 {
	h := uint64(14695981039346656037)
	for i := 0; i < len(s); i++ {
		h = (h ^ uint64(s[i])) * 1099511628211
	}
	return h
}

// cmdExec reads op lines on stdin and prints the real code's outputs (used for replays and the corpus).
func cmdExec(args []string) {
	fs := flag.NewFlagSet("exec", flag.ExitOnError)
	timeout := fs.Duration("timeout", 0, "per-op watchdog")
	fs.Parse(args)
	s := NewSession()
	sc := bufio.NewScanner(os.Stdin)
	sc.Buffer(make([]byte, 1<<20), 1<<26)
	w := bufio.NewWriter(os.Stdout)
	defer w.Flush()
	for sc.Scan() {
		line := sc.Text()
		var out string
		if *timeout > 0 {
			out = execTimed(s, line, *timeout)
		} else {
			out = execLine(s, line)
		}
		w.WriteString(out)
		w.WriteByte('\n')
		w.Flush()
	}
}

func main() {
	if len(os.Args) < 2 {
		fmt.Fprintln(os.Stderr, "usage: verifh run|exec ...")
		os.Exit(2)
	}
	switch os.Args[1] {
	case "run":
		cmdRun(os.Args[2:])
	case "exec":
		cmdExec(os.Args[2:])
	default:
		fmt.Fprintln(os.Stderr, "unknown command")
		os.Exit(2)
	}
}
