package main

import (
	"fmt"

	"github.com/nelhage/taktician/tak"
)

// C09 sessions: slots hold real *tak.Position objects; a slot is "live" when its position may be observed.
type allocState struct {
	objs [16]*tak.Position
	live [16]bool
}

func allocOf(s *Session) *allocState {
	a, ok := s.slots["alloc"].(*allocState)
	if !ok {
		a = &allocState{}
		s.slots["alloc"] = a
	}
	return a
}

func obsStr(p *tak.Position) string {
	d := p.WinDetails()
	return fmt.Sprintf("%s over=%d%s hash=%d nmoves=%d", dumpPos(p), b2i(d.Over), colorStr(d.Winner), p.Hash(), len(p.AllMoves(nil)))
}

func init() {
	opTable["case"] = func(s *Session, a []string) string {
		s.slots = map[string]interface{}{}
		return "ok"
	}
	opTable["h.new"] = func(s *Session, a []string) string {
		st := allocOf(s)
		k := atoi(a[0])
		st.objs[k] = tak.New(tak.Config{Size: atoi(a[1]), Pieces: atoi(a[2]), Capstones: atoi(a[3]), BlackWinsTies: a[4] != "0"})
		st.live[k] = true
		return "ok"
	}
	opTable["h.fromraw"] = func(s *Session, a []string) string {
		st := allocOf(s)
		k := atoi(a[0])
		st.objs[k] = decPos(a[1])
		st.live[k] = true
		return "ok"
	}
	opTable["h.clone"] = func(s *Session, a []string) string {
		st := allocOf(s)
		d, src := atoi(a[0]), atoi(a[1])
		if st.objs[src] == nil || !st.live[src] {
			return "bad-slot"
		}
		st.objs[d] = st.objs[src].Clone()
		st.live[d] = true
		return "ok"
	}
	opTable["h.move"] = func(s *Session, a []string) string {
		st := allocOf(s)
		d, src := atoi(a[0]), atoi(a[1])
		m := decMove(a[2])
		if st.objs[src] == nil || !st.live[src] {
			return "bad-slot"
		}
		var buf *tak.Position
		b := -1
		if len(a) > 3 {
			b = atoi(a[3])
			buf = st.objs[b]
			if buf == nil {
				return "bad-slot"
			}
			st.live[b] = false
			st.objs[b] = nil
		}
		n, err := st.objs[src].MovePreallocated(m, buf)
		if err != nil {
			if b >= 0 {
				st.objs[b] = buf
			}
			st.objs[d] = nil
			st.live[d] = false
			return "err"
		}
		st.objs[d] = n
		st.live[d] = true
		return "ok"
	}
	obs := func(s *Session, a []string) string {
		st := allocOf(s)
		k := atoi(a[0])
		if st.objs[k] == nil || !st.live[k] {
			return "dead"
		}
		return obsStr(st.objs[k])
	}
	opTable["h.obs"] = obs
	opTable["p.obs"] = obs
}

func genC09(c *Ctx) {
	n := c.Scale(1600, 320000)
	const nslots = 6
	for k := 0; k < n; k++ {
		c.Emit(fmt.Sprintf("case %d", k))
		preamble(c)
		st := allocOf(c.S)
		size := 3 + c.R.Intn(6)
		// first slot
		if c.R.Chance(1, 2) {
			cfg := randomConfig(c.R, size)
			c.Emit(fmt.Sprintf("h.new 0 %d %d %d %d", size, cfg.Pieces, cfg.Capstones, b2i(cfg.BlackWinsTies)))
		} else {
			var p *tak.Position
			if x := c.R.Intn(9); x < 3 {
				p = roadBoard(c.R, size)
			} else if x < 6 {
				p = groupsBoard(c.R, size)
				c.Count("start.groupsboard")
			} else {
				p = constructed(c.R, size)
			}
			c.Emit("h.fromraw 0 " + encPos(p))
		}
		steps := 12 + c.R.Intn(30)
		for j := 0; j < steps; j++ {
			var live, objs []int
			for i := 0; i < nslots; i++ {
				if st.objs[i] != nil && st.live[i] {
					live = append(live, i)
				}
				if st.objs[i] != nil {
					objs = append(objs, i)
				}
			}
			if len(live) == 0 {
				break
			}
			src := live[c.R.Intn(len(live))]
			dst := c.R.Intn(nslots)
			x := c.R.Intn(100)
			switch {
			case x < 15:
				if dst == src {
					continue
				}
				c.Emit(fmt.Sprintf("h.clone %d %d", dst, src))
				c.Count("op.clone")
			default:
				p := st.objs[src]
				var m tak.Move
				ms := p.AllMoves(nil)
				if c.R.Chance(1, 8) || len(ms) == 0 {
					m = rawMove(c.R, p.Size())
				} else {
					m = pickBiased(c.R, p, ms)
				}
				line := fmt.Sprintf("h.move %d %d %s", dst, src, encMove(m))
				usebuf := false
				if x < 70 {
					// pick a buffer: any object other than the source (live positions, dead buffers, the destination itself)
					var cands []int
					for _, o := range objs {
						if o != src {
							cands = append(cands, o)
						}
					}
					if len(cands) > 0 {
						b := cands[c.R.Intn(len(cands))]
						line += fmt.Sprintf(" %d", b)
						usebuf = true
					}
				}
				if !usebuf && dst == src {
					// overwriting the source's slot with a fresh result is fine (the old object stays untouched, just unreachable)
				}
				out := c.Emit(line)
				if usebuf {
					c.Count("op.movepre." + out)
				} else {
					c.Count("op.move." + out)
				}
			}
			// observe every live slot after every op
			for i := 0; i < nslots; i++ {
				if st.objs[i] != nil && st.live[i] {
					c.Emit(fmt.Sprintf("h.obs %d", i))
					c.Emit(fmt.Sprintf("p.obs %d", i))
				}
			}
		}
	}
}

func init() { genTable["C09"] = genC09 }
