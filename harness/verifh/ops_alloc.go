package main

import (
	"context"
	"fmt"
	"time"

	"github.com/nelhage/taktician/ai/mcts"

	"github.com/nelhage/taktician/tak"
)

// C09 sessions: slots hold real *tak.Position objects; a slot is "live" when its position may be observed.
type allocState struct {
	objs [16]*tak.Position
	live [16]bool
	// move lists handed out by AllMoves(nil) earlier in the session, with what they held then: a list belongs to the
	// caller and must not change when other positions (clones, successors) are asked for their moves later
	held    [][]tak.Move
	heldStr []string
}

func allocOf(s *Session) *allocState {
	a, ok := s.slots["alloc"].(*allocState)
	if !ok {
		a = &allocState{}
		s.slots["alloc"] = a
	}
	return a
}

func obsStr(p *tak.Position) string {
	d := p.WinDetails()
	return fmt.Sprintf("%s over=%d%s hash=%d nmoves=%d", dumpPos(p), b2i(d.Over), colorStr(d.Winner), p.Hash(), len(p.AllMoves(nil)))
}

// obsHeld: obsStr, and the move list of this observation joins the held ones; every held list is looked at again
func obsHeld(st *allocState, p *tak.Position) string {
	d := p.WinDetails()
	ms := p.AllMoves(nil)
	out := fmt.Sprintf("%s over=%d%s hash=%d nmoves=%d", dumpPos(p), b2i(d.Over), colorStr(d.Winner), p.Hash(), len(ms))
	held := "ok"
	for i, l := range st.held {
		if fmtMoves(l) != st.heldStr[i] {
			held = "changed"
		}
	}
	if len(st.held) < 24 {
		st.held = append(st.held, ms)
		st.heldStr = append(st.heldStr, fmtMoves(ms))
	}
	return out + " held=" + held
}

func init() {
	opTable["case"] = func(s *Session, a []string) string {
		s.slots = map[string]interface{}{}
		return "ok"
	}
	opTable["h.new"] = func(s *Session, a []string) string {
		st := allocOf(s)
		k := atoi(a[0])
		st.objs[k] = tak.New(tak.Config{Size: atoi(a[1]), Pieces: atoi(a[2]), Capstones: atoi(a[3]), BlackWinsTies: a[4] != "0"})
		st.live[k] = true
		return "ok"
	}
	// h.alloc k size: a scratch position from tak.Alloc (what the search stacks, rollouts and solvers hand to
	// MovePreallocated): a dead buffer - usable as storage, never observed
	opTable["h.alloc"] = func(s *Session, a []string) string {
		st := allocOf(s)
		k := atoi(a[0])
		st.objs[k] = tak.Alloc(atoi(a[1]))
		st.live[k] = false
		return "ok"
	}
	// clonemcts <policy|-> <seed> <pos>: a Clone taken BETWEEN two searches of a Monte-Carlo player (which clones, rolls
	// out and recycles scratch positions of the same size in the same process) stays what it was, and so does its source
	opTable["clonemcts"] = func(s *Session, a []string) string {
		policy := a[0]
		if policy == "-" {
			policy = ""
		}
		p := decPos(a[2])
		if over, _ := p.GameOver(); over {
			return "n/a"
		}
		mc := mcts.NewMonteCarlo(mcts.MCTSConfig{Policy: policy, Limit: 20 * time.Millisecond, Seed: int64(atoi(a[1])), Size: p.Size()})
		src := obsStr(p)
		mc.GetMove(context.Background(), p)
		k1 := p.Clone()
		mc.GetMove(context.Background(), p)
		k2 := p.Clone()
		mc.GetMove(context.Background(), p)
		out := "clone=ok"
		if obsStr(k1) != src || obsStr(k2) != src || fmtMoves(k1.AllMoves(nil)) != fmtMoves(p.AllMoves(nil)) {
			out = "clone=changed"
		}
		if obsStr(p) != src {
			return out + " src=changed"
		}
		return out + " src=ok"
	}
	opTable["h.fromraw"] = func(s *Session, a []string) string {
		st := allocOf(s)
		k := atoi(a[0])
		st.objs[k] = decPos(a[1])
		st.live[k] = true
		return "ok"
	}
	opTable["h.clone"] = func(s *Session, a []string) string {
		st := allocOf(s)
		d, src := atoi(a[0]), atoi(a[1])
		if st.objs[src] == nil || !st.live[src] {
			return "bad-slot"
		}
		st.objs[d] = st.objs[src].Clone()
		st.live[d] = true
		return "ok"
	}
	opTable["h.move"] = func(s *Session, a []string) string {
		st := allocOf(s)
		d, src := atoi(a[0]), atoi(a[1])
		m := decMove(a[2])
		if st.objs[src] == nil || !st.live[src] {
			return "bad-slot"
		}
		var buf *tak.Position
		b := -1
		if len(a) > 3 && a[3] == "nil" {
			// MovePreallocated with a nil buffer (documented to allocate); without the 4th argument: Position.Move
			n, err := st.objs[src].MovePreallocated(m, nil)
			if err != nil {
				st.objs[d] = nil
				st.live[d] = false
				return "err"
			}
			st.objs[d] = n
			st.live[d] = true
			return "ok"
		}
		if len(a) <= 3 {
			n, err := st.objs[src].Move(m)
			if err != nil {
				st.objs[d] = nil
				st.live[d] = false
				return "err"
			}
			st.objs[d] = n
			st.live[d] = true
			return "ok"
		}
		if len(a) > 3 {
			b = atoi(a[3])
			buf = st.objs[b]
			if buf == nil {
				return "bad-slot"
			}
			st.live[b] = false
			st.objs[b] = nil
		}
		n, err := st.objs[src].MovePreallocated(m, buf)
		if err != nil {
			if b >= 0 {
				st.objs[b] = buf
			}
			st.objs[d] = nil
			st.live[d] = false
			return "err"
		}
		st.objs[d] = n
		st.live[d] = true
		return "ok"
	}
	obs := func(s *Session, a []string) string {
		st := allocOf(s)
		k := atoi(a[0])
		if st.objs[k] == nil || !st.live[k] {
			return "dead"
		}
		return obsHeld(st, st.objs[k])
	}
	opTable["h.obs"] = obs
	opTable["p.obs"] = obs
	// h.hdr k: the slice HEADERS of the live position in slot k, as far as they do not depend on append's growth policy
	opTable["h.hdr"] = func(s *Session, a []string) string {
		st := allocOf(s)
		k := atoi(a[0])
		if st.objs[k] == nil || !st.live[k] {
			return "dead"
		}
		return hdrStr(st.objs[k])
	}
	// h.sep: are the storage windows reachable from distinct objects (live positions and dead buffers) pairwise disjoint?
	opTable["h.sep"] = func(s *Session, a []string) string {
		st := allocOf(s)
		type win struct{ lo, hi uintptr }
		var wins [16][]win
		for i := range st.objs {
			if st.objs[i] == nil {
				continue
			}
			v := st.objs[i].VerifStore()
			w := []win{{v.Obj, v.ObjEnd}, {v.W, v.W + 8*uintptr(v.WCap)}, {v.H, v.H + uintptr(v.HCap)}, {v.S, v.S + 8*uintptr(v.SCap)}}
			if st.live[i] {
				w = append(w, win{v.B, v.B + 8*uintptr(v.BCap)})
			}
			wins[i] = w
		}
		for i := range wins {
			for j := i + 1; j < len(wins); j++ {
				for _, x := range wins[i] {
					for _, y := range wins[j] {
						if x.lo < x.hi && y.lo < y.hi && x.lo < y.hi && y.lo < x.hi {
							return "sep=0"
						}
					}
				}
			}
		}
		return "sep=1"
	}
}

func hdrStr(p *tak.Position) string {
	v := p.VerifStore()
	n := p.Size()
	in := func(x uintptr) bool { return v.Obj <= x && x < v.ObjEnd }
	out := ""
	wOwn := in(v.W)
	if wOwn {
		out = fmt.Sprintf("w=own wlen=%d wcap=%d", v.WLen, v.WCap)
	} else {
		out = fmt.Sprintf("w=ext wlen=%d", v.WLen)
	}
	switch {
	case !wOwn:
		// WhiteGroups lives in an array allocated by append: its capacity, hence where BlackGroups ends up, is growth policy
		out += fmt.Sprintf(" b=? len=%d", v.BLen)
	case v.BCap == 0:
		out += " b=empty"
	case v.W <= v.B && v.B <= v.W+8*uintptr(v.WCap):
		out += fmt.Sprintf(" b=inw off=%d len=%d cap=%d", (v.B-v.W)/8, v.BLen, v.BCap)
	default:
		out += fmt.Sprintf(" b=ext len=%d", v.BLen)
	}
	if in(v.H) && v.HLen == n*n && v.HCap == n*n {
		out += " h=own"
	} else {
		out += " h=BAD"
	}
	if in(v.S) && v.SLen == n*n && v.SCap == n*n {
		out += " s=own"
	} else {
		out += " s=BAD"
	}
	return out
}

// dominoBoard: the board tiled with two-stone groups of alternating colours (neighbouring dominoes differ in
// colour), some knocked out.  From size 5 up that is more road groups than the 2*size entries of alloc.Groups, so
// analyze()'s second FloodGroups call appends beyond capacity and BlackGroups moves to an array outside the object.
func dominoBoard(r *RNG, size int) *tak.Position {
	board := make([][]tak.Square, size)
	for y := range board {
		board[y] = make([]tak.Square, size)
	}
	drop := r.Intn(25) // per cent of dominoes left out
	for y := 0; y < size; y++ {
		for k := 0; 2*k+1 < size; k++ {
			if r.Intn(100) < drop {
				continue
			}
			col := tak.White
			if (k+y)%2 == 1 {
				col = tak.Black
			}
			board[y][2*k] = tak.Square{tak.MakePiece(col, tak.Flat)}
			board[y][2*k+1] = tak.Square{tak.MakePiece(col, tak.Flat)}
		}
		if size%2 == 1 && y%2 == 0 && y+1 < size && r.Chance(3, 4) {
			// odd sizes: vertical dominoes in the last column
			col := tak.White
			if (y/2+size/2)%2 == 1 {
				col = tak.Black
			}
			board[y][size-1] = tak.Square{tak.MakePiece(col, tak.Flat)}
			board[y+1][size-1] = tak.Square{tak.MakePiece(col, tak.Flat)}
		}
	}
	cfg := tak.Config{Size: size, BlackWinsTies: r.Chance(1, 2), Pieces: size*size + 2, Capstones: 2}
	p, err := tak.FromSquares(cfg, board, 2+r.Intn(60))
	if err != nil {
		panic(err)
	}
	return p
}

// errorThenCopy: a REJECTED move from `src` into fresh storage, then a copy of `src` (Clone, or a pass into a buffer), then
// both the source and the copy move on into fresh storage, every live handle observed after each step.  Anything the
// error path leaves behind in the source (recycled storage, half-written successors) is inherited by the copy here.
func errorThenCopy(c *Ctx, st *allocState, src, nslots int) bool {
	p := st.objs[src]
	probe := decPos(encPos(p)) // legality is probed on an independent object so that the probe leaves no trace in `src`
	var bad, good []tak.Move
	for _, m := range probe.AllMoves(nil) {
		if _, err := probe.Move(m); err != nil {
			bad = append(bad, m)
		} else {
			good = append(good, m)
		}
	}
	if len(good) < 2 {
		return false
	}
	var slots []int
	for i := 0; i < nslots; i++ {
		if i != src {
			slots = append(slots, i)
		}
	}
	cp, a, b := slots[0], slots[1], slots[2]
	observe := func() {
		for i := 0; i < nslots; i++ {
			if st.objs[i] != nil && st.live[i] {
				c.Emit(fmt.Sprintf("h.obs %d", i))
			}
		}
	}
	var rej tak.Move
	if len(bad) > 0 && c.R.Chance(3, 4) {
		rej = bad[c.R.Intn(len(bad))]
	} else {
		rej = rawMove(c.R, p.Size())
	}
	for t := 1 + c.R.Intn(2); t > 0; t-- {
		c.Emit(fmt.Sprintf("h.move %d %d %s", a, src, encMove(rej)))
	}
	if c.R.Chance(1, 2) {
		c.Emit(fmt.Sprintf("h.clone %d %d", cp, src))
	} else {
		// a second failed attempt on the copy as well, sometimes
		c.Emit(fmt.Sprintf("h.clone %d %d", cp, src))
		c.Emit(fmt.Sprintf("h.move %d %d %s", b, cp, encMove(rej)))
	}
	observe()
	m1 := good[c.R.Intn(len(good))]
	m2 := good[c.R.Intn(len(good))]
	first, second := src, cp
	if c.R.Chance(1, 2) {
		first, second = cp, src
	}
	c.Emit(fmt.Sprintf("h.move %d %d %s", a, first, encMove(m1)))
	observe()
	c.Emit(fmt.Sprintf("h.move %d %d %s", b, second, encMove(m2)))
	observe()
	c.Emit("h.sep")
	c.Count("pattern.error-then-copy")
	return true
}

func genC09(c *Ctx) {
	// clones taken between the searches of a Monte-Carlo player
	for k := c.Scale(48, 1600); k > 0; k-- {
		p := livePosition(c.R, 3+c.R.Intn(4))
		c.Count("clonemcts." + c.Emit(fmt.Sprintf("clonemcts %s %d %s", []string{"-", "uniform", "place_win"}[c.R.Intn(3)], 1+c.R.Intn(1000), encPos(p))))
	}
	n := c.Scale(1400, 60000)
	const nslots = 6
	for k := 0; k < n; k++ {
		c.Emit(fmt.Sprintf("case %d", k))
		preamble(c)
		st := allocOf(c.S)
		size := 3 + c.R.Intn(6)
		// first slot
		if c.R.Chance(1, 2) {
			cfg := randomConfig(c.R, size)
			c.Emit(fmt.Sprintf("h.new 0 %d %d %d %d", size, cfg.Pieces, cfg.Capstones, b2i(cfg.BlackWinsTies)))
		} else {
			var p *tak.Position
			switch x := c.R.Intn(6); {
			case x == 0:
				p = dominoBoard(c.R, size)
				c.Count("src.domino")
			case x <= 2:
				p = roadBoard(c.R, size)
				c.Count("src.roadboard")
			case x == 3:
				p = groupsBoard(c.R, size)
				c.Count("src.groupsboard")
			default:
				p = constructed(c.R, size)
				c.Count("src.constructed")
			}
			c.Emit("h.fromraw 0 " + encPos(p))
		}
		// scratch buffers from consecutive tak.Alloc calls (slots from the top): results held in one while another is refilled
		if c.R.Chance(1, 2) {
			if st.objs[0] != nil {
				size = st.objs[0].Size()
			}
			for i := 0; i < 2+c.R.Intn(3); i++ {
				c.Emit(fmt.Sprintf("h.alloc %d %d", nslots-1-i, size))
			}
			c.Emit("h.sep")
			c.Count("session.with-alloc-buffers")
		}
		steps := 12 + c.R.Intn(30)
		for j := 0; j < steps; j++ {
			var live, objs []int
			for i := 0; i < nslots; i++ {
				if st.objs[i] != nil && st.live[i] {
					live = append(live, i)
				}
				if st.objs[i] != nil {
					objs = append(objs, i)
				}
			}
			if len(live) == 0 {
				break
			}
			src := live[c.R.Intn(len(live))]
			dst := c.R.Intn(nslots)
			x := c.R.Intn(100)
			if c.R.Chance(1, 6) && errorThenCopy(c, st, src, nslots) {
				continue
			}
			switch {
			case x < 15:
				if dst == src {
					continue
				}
				c.Emit(fmt.Sprintf("h.clone %d %d", dst, src))
				c.Count("op.clone")
			default:
				p := st.objs[src]
				var m tak.Move
				ms := p.AllMoves(nil)
				if c.R.Chance(1, 12) {
					// the engine's null move (tak.Pass): a copy with the other side to move
					m = tak.Move{Type: tak.Pass}
					c.Count("op.pass")
				} else if c.R.Chance(1, 8) || len(ms) == 0 {
					m = rawMove(c.R, p.Size())
				} else {
					m = pickBiased(c.R, p, ms)
				}
				line := fmt.Sprintf("h.move %d %d %s", dst, src, encMove(m))
				usebuf := false
				if x < 70 {
					// pick a buffer: any object other than the source (live positions, dead buffers, the destination itself)
					var cands []int
					for _, o := range objs {
						if o != src {
							cands = append(cands, o)
						}
					}
					if len(cands) > 0 {
						b := cands[c.R.Intn(len(cands))]
						line += fmt.Sprintf(" %d", b)
						usebuf = true
					}
				}
				if !usebuf && c.R.Chance(1, 3) {
					line += " nil"
				}
				out := c.Emit(line)
				if usebuf {
					c.Count("op.movepre." + out)
				} else {
					c.Count("op.move." + out)
				}
			}
			// observe every live slot after every op
			for i := 0; i < nslots; i++ {
				if st.objs[i] != nil && st.live[i] {
					c.Emit(fmt.Sprintf("h.obs %d", i))
					c.Emit(fmt.Sprintf("p.obs %d", i))
					c.Emit(fmt.Sprintf("h.hdr %d", i))
				}
			}
			c.Emit("h.sep")
		}
	}
}

func init() { genTable["C09"] = genC09 }
