package main

// C17 (client side): the real tei.Client / tei.Player talking to the real tei.Engine.Run (or to a scripted
// engine) in-process over an instrumented pair of in-memory pipes.

import (
	"context"
	"encoding/hex"
	"errors"
	"io"
	"strconv"
	"strings"
	"sync"
	"time"

	"github.com/nelhage/taktician/tak"
	"github.com/nelhage/taktician/tei"
)

// duplex is a pair of unbounded in-memory pipes (client->engine, engine->client) under one lock, so that
// two facts can be decided exactly instead of by a watchdog:
//   - quiescence: the engine has consumed everything written to it and is waiting for more (or has ended);
//   - deadlock: the client waits for a line while the engine waits for a command: the call would never return.
type duplex struct {
	mu         sync.Mutex
	cond       *sync.Cond
	c2e, e2c   []byte
	engDone    bool // Run returned (or the scripted engine closed): both pipes are closed
	engWaiting bool // the engine is blocked reading with nothing to read
	shutdown   bool // the op is over: the engine reads EOF
	hung       bool // a client read met the deadlock
	engOut     []byte
}

func newDuplex() *duplex {
	d := &duplex{}
	d.cond = sync.NewCond(&d.mu)
	return d
}

var errHang = errors.New("verif: the engine is waiting for input, nothing more will be written")
var errClosed = errors.New("verif: write on closed pipe")

type engReader struct{ d *duplex }
type engWriter struct{ d *duplex }
type cliReader struct{ d *duplex }
type cliWriter struct{ d *duplex }

func (r engReader) Read(p []byte) (int, error) {
	d := r.d
	d.mu.Lock()
	defer d.mu.Unlock()
	for len(d.c2e) == 0 {
		if d.shutdown {
			return 0, io.EOF
		}
		d.engWaiting = true
		d.cond.Broadcast()
		d.cond.Wait()
	}
	d.engWaiting = false
	n := copy(p, d.c2e)
	d.c2e = d.c2e[n:]
	return n, nil
}

func (w engWriter) Write(p []byte) (int, error) {
	d := w.d
	d.mu.Lock()
	defer d.mu.Unlock()
	d.e2c = append(d.e2c, p...)
	d.engOut = append(d.engOut, p...)
	d.cond.Broadcast()
	return len(p), nil
}

func (r cliReader) Read(p []byte) (int, error) {
	d := r.d
	d.mu.Lock()
	defer d.mu.Unlock()
	for len(d.e2c) == 0 {
		if d.engDone {
			return 0, io.EOF
		}
		if d.engWaiting && len(d.c2e) == 0 {
			d.hung = true
			return 0, errHang
		}
		d.cond.Wait()
	}
	n := copy(p, d.e2c)
	d.e2c = d.e2c[n:]
	return n, nil
}

func (w cliWriter) Write(p []byte) (int, error) {
	d := w.d
	d.mu.Lock()
	defer d.mu.Unlock()
	if d.engDone {
		return 0, errClosed
	}
	d.c2e = append(d.c2e, p...)
	d.cond.Broadcast()
	return len(p), nil
}

// settle waits until the engine has consumed everything written so far.
func (d *duplex) settle() {
	d.mu.Lock()
	defer d.mu.Unlock()
	for !(d.engDone || (d.engWaiting && len(d.c2e) == 0)) {
		d.cond.Wait()
	}
}

func (d *duplex) finish() {
	d.mu.Lock()
	d.engDone = true
	d.cond.Broadcast()
	d.mu.Unlock()
}

func (d *duplex) stop() {
	d.mu.Lock()
	d.shutdown = true
	d.cond.Broadcast()
	d.mu.Unlock()
}

// teeWriter records every line the client writes (also when the pipe refuses it).
type teeWriter struct {
	w     io.Writer
	lines []string
}

func (t *teeWriter) Write(p []byte) (int, error) {
	t.lines = append(t.lines, strings.TrimSuffix(string(p), "\n"))
	return t.w.Write(p)
}

// relCtx is a context whose deadline is always `rem` away: TEIGetMove computes deadline.Sub(time.Now()),
// which is then `rem` minus the few nanoseconds between the two clock readings.
type relCtx struct {
	context.Context
	rem time.Duration
}

func (c relCtx) Deadline() (time.Time, bool) { return time.Now().Add(c.rem), true }

type clientRun struct {
	out     []string // one entry per step
	infos   []string // per step: the info line the engine wrote while the step ran ("" if none)
	stalled bool     // a movetime value differs from floor(rem / 1ms): the wall clock interfered, run again
}

func errClass(d *duplex, err error) string {
	if err == nil {
		return "ok"
	}
	if d.hung {
		return "hang"
	}
	return "err"
}

// runClientScript executes the steps of a `teicl` line once.
//
//	hs                                     the tei/teiok handshake of NewClient
//	ng<size>                               Client.NewGame(size): the new Player gets the next index
//	mv:<player>:<pos>:<rem>:<tc>:<oracle>  players[<player>].TEIGetMove(ctx, pos, tc); rem = `-` or ns; tc = `-` or w,b,wi,bi (ns)
func runClientScript(depth int, steps []string) (res clientRun) {
	d := newDuplex()
	dls := &tei.VerifDeadlines{Detach: true}
	eng := tei.NewEngine(engReader{d}, engWriter{d})
	eng.ConfigFactory = teiConfig(depth)
	engClass := "run"
	done := make(chan struct{})
	go func() {
		defer close(done)
		defer d.finish()
		defer func() {
			if r := recover(); r != nil {
				engClass = "panic"
			}
		}()
		if err := eng.Run(tei.VerifRecording(context.Background(), dls)); err != nil {
			engClass = "err"
		} else {
			engClass = "ok"
		}
	}()
	tee := &teeWriter{w: cliWriter{d}}
	cl := tei.VerifNewClient(cliReader{d}, tee)
	var players []*tei.Player
	seenDl := 0
	stopped := false
	for _, st := range steps {
		if stopped {
			break
		}
		d.mu.Lock()
		d.engOut = nil
		d.mu.Unlock()
		tee.lines = nil
		var o string
		switch {
		case st == "hs":
			var err error
			func() {
				defer func() {
					if recover() != nil {
						o = "hs=panic"
					}
				}()
				err = cl.VerifHandshake()
				o = "hs=" + errClass(d, err)
			}()
		case strings.HasPrefix(st, "ng"):
			size := atoi(st[2:])
			func() {
				defer func() {
					if recover() != nil {
						o = "ng=panic"
					}
				}()
				p, err := cl.NewGame(size)
				o = "ng=" + errClass(d, err)
				if err == nil {
					players = append(players, p)
				}
			}()
		case strings.HasPrefix(st, "mv:"):
			f := strings.Split(st, ":")
			if atoi(f[1]) >= len(players) {
				// the NewGame that should have made this player failed
				res.out = append(res.out, "no-player")
				res.infos = append(res.infos, "")
				continue
			}
			pl := players[atoi(f[1])]
			pos := decPos(f[2])
			var ctx context.Context = context.Background()
			rem := int64(0)
			hasRem := f[3] != "-"
			if hasRem {
				rem, _ = strconv.ParseInt(f[3], 10, 64)
				ctx = relCtx{ctx, time.Duration(rem)}
			}
			var tc *tei.TimeControl
			if f[4] != "-" {
				v := strings.Split(f[4], ",")
				var x [4]int64
				for i := range x {
					x[i], _ = strconv.ParseInt(v[i], 10, 64)
				}
				tc = &tei.TimeControl{White: time.Duration(x[0]), Black: time.Duration(x[1]), WInc: time.Duration(x[2]), BInc: time.Duration(x[3])}
			}
			func() {
				defer func() {
					if recover() != nil {
						o = "panic"
					}
				}()
				m, err := pl.TEIGetMove(ctx, pos, tc)
				o = errClass(d, err)
				if err == nil {
					// is the answer legal in the caller's own position?
					_, lerr := pos.Move(m)
					o += " " + encMove(m) + " legal=" + strconv.Itoa(b2i(lerr == nil))
				}
			}()
			// a movetime that is not floor(rem/1ms) although rem >= 1ms: the clock moved by a millisecond between
			// two adjacent statements (the machine stalled); the caller runs the line again
			if hasRem && rem >= msNS {
				// ... or the whole millisecond was lost before the client looked at the clock: it refused to search
				// ("Timeout too short") although the caller left it a millisecond and more
				sawGo := false
				for _, l := range tee.lines {
					if strings.HasPrefix(l, "go") {
						sawGo = true
					}
				}
				if !sawGo && rem < 3*msNS && strings.HasPrefix(o, "err") {
					res.stalled = true
				}
				for _, l := range tee.lines {
					w := strings.Fields(l)
					if len(w) >= 3 && w[0] == "go" && w[1] == "movetime" && w[2] != strconv.FormatInt(rem/msNS, 10) {
						if v, err := strconv.ParseInt(w[2], 10, 64); err == nil && v < rem/msNS {
							res.stalled = true
						}
					}
				}
			}
		default:
			o = "bad-step"
		}
		if strings.HasSuffix(o, "panic") || strings.HasSuffix(o, "hang") {
			stopped = true
		}
		d.settle()
		// what the engine did meanwhile
		dl := "-"
		if len(dls.Installed) > seenDl {
			dl = strconv.FormatInt(dls.Installed[len(dls.Installed)-1], 10)
			if len(dls.Installed) > seenDl+1 {
				dl += "!multiple"
			}
			seenDl = len(dls.Installed)
		}
		info := ""
		d.mu.Lock()
		for _, l := range strings.Split(string(d.engOut), "\n") {
			if strings.HasPrefix(l, "info ") {
				info = l
			}
		}
		over := d.engDone
		d.mu.Unlock()
		res.infos = append(res.infos, info)
		eq := "-"
		if strings.HasPrefix(st, "mv:") && !stopped && !over {
			// the position the engine holds against the one the caller handed to TEIGetMove
			if _, epos, _ := eng.VerifState(); epos != nil {
				eq = strconv.Itoa(b2i(dumpPos(epos) == dumpPos(decPos(strings.Split(st, ":")[2]))))
			}
		}
		res.out = append(res.out, "["+strings.Join(tee.lines, "~")+"] "+o+" dl="+dl+" same="+eq)
	}
	d.stop()
	<-done
	res.out = append(res.out, "engine="+engClass)
	return res
}

func runClientLine(depth int, steps []string) clientRun {
	var r clientRun
	for try := 0; try < 5; try++ {
		r = runClientScript(depth, steps)
		if !r.stalled {
			break
		}
	}
	return r
}

// oracleOfInfo renders the engine's info line as the searcher answer the model is handed.
func oracleOfInfo(info string) string {
	f := strings.Fields(info)
	if len(f) < 11 || f[0] != "info" {
		return "-"
	}
	var pv []string
	for _, t := range f[11:] {
		pv = append(pv, resMove(t))
	}
	return f[2] + "," + f[6] + "," + f[9] + "," + strconv.Itoa(len(pv)) + ";" + strings.Join(pv, ";")
}

// runScripted: the client against an engine that is not ours: it swallows every line and answers the
// first line starting with "go" with the given bytes, then either closes its pipes (eof) or stays silent.
func runScripted(size int, pos *tak.Position, reply []byte, eof bool) string {
	d := newDuplex()
	done := make(chan struct{})
	go func() {
		defer close(done)
		defer d.finish()
		rd := engReader{d}
		var buf []byte
		tmp := make([]byte, 4096)
		for {
			n, err := rd.Read(tmp)
			if err != nil {
				return
			}
			buf = append(buf, tmp[:n]...)
			for {
				j := strings.IndexByte(string(buf), '\n')
				if j < 0 {
					break
				}
				line := string(buf[:j])
				buf = buf[j+1:]
				if strings.HasPrefix(line, "go") {
					engWriter{d}.Write(reply)
					if eof {
						return
					}
				}
			}
		}
	}()
	tee := &teeWriter{w: cliWriter{d}}
	cl := tei.VerifNewClient(cliReader{d}, tee)
	var o string
	func() {
		defer func() {
			if recover() != nil {
				o = "panic"
			}
		}()
		pl, err := cl.NewGame(size)
		if err != nil {
			o = "ng=err"
			return
		}
		m, err := pl.TEIGetMove(context.Background(), pos, nil)
		o = errClass(d, err)
		if err == nil {
			o += " " + encMove(m)
		}
	}()
	d.stop()
	<-done
	return o
}

func init() {
	opTable["teicl"] = func(s *Session, a []string) string {
		return strings.Join(runClientLine(atoi(a[0]), a[1:]).out, " | ")
	}
	opTable["teiscr"] = func(s *Session, a []string) string {
		reply, err := hex.DecodeString(strings.TrimPrefix(a[2], "-"))
		if err != nil {
			return "bad-op"
		}
		return runScripted(atoi(a[0]), decPos(a[1]), reply, a[3] == "1")
	}
	opTable["fmttime"] = func(s *Session, a []string) string {
		v, _ := strconv.ParseInt(a[0], 10, 64)
		return tei.VerifFormatTime(v)
	}
}
