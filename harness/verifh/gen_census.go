package main

import (
	"crypto/sha256"
	"encoding/binary"
	"fmt"
	"strings"

	"github.com/nelhage/taktician/tak"
)

// census: explore n distinct positions of one size by biased random playouts and look for two different
// (board, side to move) pairs with the same Hash(). This is the sampled support for C08's
// no-collision clause; it is not modelled in Lean (the driver answers the expected "collisions=0").
func init() {
	opTable["census"] = func(s *Session, a []string) string {
		size, n, seed := atoi(a[0]), atoi(a[1]), atou(a[2])
		r := NewRNG(seed)
		seen := make(map[uint64][2]uint64, n)
		collisions := 0
		distinct := 0
		for distinct < n {
			cfg := tak.Config{Size: size}
			playout(r, cfg, 4*size*size, func(p *tak.Position) {
				// the key is the board and the side to move (absDump minus its ply field): what Hash() is meant to depend on
				f := strings.SplitN(absDump(p), "/", 7)
				key := sha256.Sum256([]byte(f[0] + "/" + f[6] + colorStr(p.ToMove())))
				k := [2]uint64{binary.LittleEndian.Uint64(key[0:8]), binary.LittleEndian.Uint64(key[8:16])}
				h := p.Hash()
				if old, ok := seen[h]; ok {
					if old != k {
						collisions++
					}
					return
				}
				seen[h] = k
				distinct++
			})
		}
		return fmt.Sprintf("collisions=%d", collisions)
	}
}

func genCensus(c *Ctx) {
	n := 20000
	if c.Thorough() {
		n = 600000
	}
	size := 3 + (c.Shard % 6)
	if c.Thorough() && size == 3 {
		n = 200000 // the 3x3 playout space is small
	}
	c.Emit(fmt.Sprintf("census %d %d %d", size, n, c.R.Next()))
	c.Count(fmt.Sprintf("census.size%d.positions", size))
	c.Stats[fmt.Sprintf("census.size%d.positions", size)] += n - 1
}

func init() { genTable["CENSUS"] = genCensus }
