package main

import (
	"crypto/sha256"
	"encoding/binary"
	"fmt"
	"strings"

	"github.com/nelhage/taktician/tak"
)

// census: explore n distinct positions of one size by biased random playouts and look for two different
// (board, side to move) pairs with the same Hash(). This is the sampled support for C08's
// no-collision clause; it is not modelled in Lean (the driver answers the expected "collisions=0").
func init() {
	opTable["census"] = func(s *Session, a []string) string {
		size, n, seed := atoi(a[0]), atoi(a[1]), atou(a[2])
		r := NewRNG(seed)
		seen := make(map[uint64][2]uint64, n)
		collisions := 0
		distinct := 0
		for distinct < n {
			cfg := tak.Config{Size: size}
			playout(r, cfg, 4*size*size, func(p *tak.Position) {
				// the key is the board and the side to move (absDump minus its ply field): what Hash() is meant to depend on
				f := strings.SplitN(absDump(p), "/", 7)
				key := sha256.Sum256([]byte(f[0] + "/" + f[6] + colorStr(p.ToMove())))
				k := [2]uint64{binary.LittleEndian.Uint64(key[0:8]), binary.LittleEndian.Uint64(key[8:16])}
				h := p.Hash()
				if old, ok := seen[h]; ok {
					if old != k {
						collisions++
					}
					return
				}
				seen[h] = k
				distinct++
			})
		}
		return fmt.Sprintf("collisions=%d", collisions)
	}
}

// nearcoll: structured near-collision search around one position. Positions that differ from p in the kind or
// colour of one or two squares (all pairs among the eight highest squares of the board, plus sampled pairs) and/or
// in the side to move must not share p's Hash(). Like the census this runs on the Go side only.
func nearColl(p *tak.Position, r *RNG) string {
	raw := p.VerifRaw()
	n := p.Size() * p.Size()
	h0 := p.Hash()
	var occ []int
	for i := 0; i < n; i++ {
		if raw.Height[i] > 0 {
			occ = append(occ, i)
		}
	}
	type pair struct{ a, b int }
	var pairs []pair
	for a := 0; a < len(occ); a++ {
		for b := a; b < len(occ); b++ {
			if occ[a] >= n-8 && occ[b] >= n-8 || r.Chance(1, 40) {
				pairs = append(pairs, pair{occ[a], occ[b]})
			}
		}
	}
	tried := 0
	for _, pr := range pairs {
		for kind := 0; kind < 3; kind++ {
			for flip := 0; flip < 2; flip++ {
				q := raw
				q.Height = append([]uint8(nil), raw.Height...)
				q.Stacks = append([]uint64(nil), raw.Stacks...)
				m := uint64(1)<<uint(pr.a) | uint64(1)<<uint(pr.b)
				switch kind {
				case 0:
					q.Caps ^= m
					q.Standing &^= q.Caps
				case 1:
					q.Standing ^= m
					q.Caps &^= q.Standing
				case 2:
					q.White ^= m
					q.Black ^= m
				}
				if flip == 1 {
					q.Move++
				}
				qp := tak.VerifFromRaw(q)
				tried++
				if qp.Hash() == h0 && !qp.Equal(p) {
					return fmt.Sprintf("COLLISION squares=%d,%d kind=%d flip=%d", pr.a, pr.b, kind, flip)
				}
			}
		}
	}
	return "collisions=0"
}

func init() {
	opTable["nearcoll"] = func(s *Session, a []string) string {
		return nearColl(decPos(a[0]), NewRNG(atou(a[1])))
	}
}

func genCensus(c *Ctx) {
	// near-collision search on full-ish boards of every size (8x8 uses bits 62/63)
	nn := 60
	if c.Thorough() {
		nn = 3000
	}
	for i := 0; i < nn; i++ {
		size := 3 + c.R.Intn(6)
		var p *tak.Position
		if c.R.Chance(1, 2) {
			p = constructed(c.R, size)
		} else {
			p = groupsBoard(c.R, size)
		}
		c.Emit(fmt.Sprintf("nearcoll %s %d", encPos(p), c.R.Next()))
		c.Count("nearcoll.size" + fmt.Sprint(size))
	}

	n := 20000
	if c.Thorough() {
		n = 600000
	}
	size := 3 + (c.Shard % 6)
	if c.Thorough() && size == 3 {
		n = 200000 // the 3x3 playout space is small
	}
	c.Emit(fmt.Sprintf("census %d %d %d", size, n, c.R.Next()))
	c.Count(fmt.Sprintf("census.size%d.positions", size))
	c.Stats[fmt.Sprintf("census.size%d.positions", size)] += n - 1
}

func init() { genTable["CENSUS"] = genCensus }
