package main

// Ops for C14 (symmetries), C15 (canonicalisation) and the opening-book part of C04.

import (
	"context"
	"math/rand"
	"sort"
	"strconv"
	"strings"

	"github.com/nelhage/taktician/ai"
	"github.com/nelhage/taktician/cmd/internal/playtak"
	"github.com/nelhage/taktician/ptn"
	"github.com/nelhage/taktician/symmetry"
	"github.com/nelhage/taktician/tak"
)

// symID identifies one of the eight maps by probing it (the Symmetry type is a bare func).
func symID(s symmetry.Symmetry, size int) int {
	ax, ay := s(0, 0)
	bx, by := s(1, 0)
	n := int8(size)
	switch {
	case ax == 0 && ay == 0 && bx == 1 && by == 0:
		return 0
	case ax == n-1 && ay == 0 && bx == n-2 && by == 0:
		return 1
	case ax == 0 && ay == n-1 && bx == 1 && by == n-1:
		return 2
	case ax == 0 && ay == 0 && bx == 0 && by == 1:
		return 3
	case ax == n-1 && ay == n-1 && bx == n-1 && by == n-2:
		return 4
	case ax == n-1 && ay == n-1 && bx == n-2 && by == n-1:
		return 5
	case ax == 0 && ay == n-1 && bx == 0 && by == n-2:
		return 6
	case ax == n-1 && ay == 0 && bx == n-1 && by == 1:
		return 7
	}
	return -1
}

// parseWord reads "k" or "k1.k2.k3" as compose(syms[k1], syms[k2], syms[k3]) (a single index is the bare map).
func parseWord(tok string, size int) symmetry.Symmetry {
	syms := symmetry.VerifSymmetries(size)
	parts := strings.Split(tok, ".")
	if len(parts) == 1 {
		return syms[atoi(parts[0])]
	}
	var ss []symmetry.Symmetry
	for _, p := range parts {
		ss = append(ss, syms[atoi(p)])
	}
	return symmetry.VerifCompose(ss...)
}

// imageOf rebuilds the k-th image of p the way Symmetries does (At + FromSquares), without de-duplication.
func imageOf(p *tak.Position, k int) (*tak.Position, error) {
	sym := symmetry.VerifSymmetries(p.Size())[k]
	n := p.Size()
	board := make([][]tak.Square, n)
	for j := range board {
		board[j] = make([]tak.Square, n)
	}
	for x := 0; x < n; x++ {
		for y := 0; y < n; y++ {
			rx, ry := sym(int8(x), int8(y))
			board[ry][rx] = p.At(x, y)
		}
	}
	return tak.FromSquares(p.Config(), board, p.MoveNumber())
}

func overLimit(p *tak.Position) bool {
	for _, h := range p.VerifRaw().Height {
		if h > 64 {
			return true
		}
	}
	return false
}

func parseMoves(args []string) []tak.Move {
	var ms []tak.Move
	for _, a := range args {
		if a == "-" {
			continue
		}
		ms = append(ms, decMove(a))
	}
	return ms
}

func encMoves(ms []tak.Move) string {
	if len(ms) == 0 {
		return "-"
	}
	parts := make([]string, len(ms))
	for i, m := range ms {
		parts[i] = encMove(m)
	}
	return strings.Join(parts, " ")
}

// canonCheck states C15 directly on the real code: legal, same length, prefix-wise images,
// one answer for the whole orbit, idempotent.  "ok" or the first failed clause.
func canonCheck(size int, ms []tak.Move) string {
	out, err := symmetry.Canonical(size, ms)
	if err != nil {
		return "err"
	}
	if len(out) != len(ms) {
		return "length"
	}
	p := tak.New(tak.Config{Size: size})
	q := tak.New(tak.Config{Size: size})
	for i := range ms {
		var e error
		p, e = p.Move(ms[i])
		if e != nil {
			return "input-illegal"
		}
		q, e = q.Move(out[i])
		if e != nil {
			return "illegal@" + strconv.Itoa(i)
		}
		found := false
		for k := 0; k < 8; k++ {
			im, e := imageOf(p, k)
			if e != nil {
				return "image-err"
			}
			if im.Equal(q) && dumpPos(im) == dumpPos(q) {
				found = true
				break
			}
		}
		if !found {
			return "notimage@" + strconv.Itoa(i)
		}
	}
	syms := symmetry.VerifSymmetries(size)
	for k := 0; k < 8; k++ {
		tm := make([]tak.Move, len(ms))
		for i, m := range ms {
			tm[i] = symmetry.TransformMove(syms[k], m)
		}
		o2, err := symmetry.Canonical(size, tm)
		if err != nil {
			return "orbit-err@" + strconv.Itoa(k)
		}
		if encMoves(o2) != encMoves(out) {
			return "orbit@" + strconv.Itoa(k)
		}
	}
	o3, err := symmetry.Canonical(size, out)
	if err != nil {
		return "idem-err"
	}
	if encMoves(o3) != encMoves(out) {
		return "idem"
	}
	return "ok"
}

// parseBookLines: lines separated by ';', moves of a line by '|'.
func parseBookLines(tok string) [][]tak.Move {
	if tok == "-" {
		return nil
	}
	var out [][]tak.Move
	for _, l := range strings.Split(tok, ";") {
		var ms []tak.Move
		if l != "" {
			for _, m := range strings.Split(l, "|") {
				ms = append(ms, decMove(m))
			}
		}
		out = append(out, ms)
	}
	return out
}

func encBookLines(lines [][]tak.Move) string {
	if len(lines) == 0 {
		return "-"
	}
	var ls []string
	for _, l := range lines {
		var ms []string
		for _, m := range l {
			ms = append(ms, encMove(m))
		}
		ls = append(ls, strings.Join(ms, "|"))
	}
	return strings.Join(ls, ";")
}

func fmtChildren(ms []tak.Move, ws []int) string {
	parts := make([]string, len(ms))
	for i := range ms {
		parts[i] = encMove(ms[i]) + "*" + strconv.Itoa(ws[i])
	}
	return strings.Join(parts, "|")
}

func dumpBook(ob *ai.OpeningBook) string {
	hs := ob.VerifBookHashes()
	sort.Slice(hs, func(i, j int) bool { return hs[i] < hs[j] })
	var b strings.Builder
	b.WriteString("ok ")
	b.WriteString(strconv.Itoa(len(hs)))
	for _, h := range hs {
		pos, ms, ws, _ := ob.VerifBookEntry(h)
		b.WriteByte(' ')
		b.WriteString(strconv.FormatUint(h, 10))
		b.WriteByte('=')
		b.WriteString(strconv.FormatUint(pos.Hash(), 10))
		b.WriteByte('=')
		b.WriteString(fmtChildren(ms, ws))
	}
	return b.String()
}

func init() {
	opTable["syms"] = func(s *Session, a []string) string {
		p := decPos(a[0])
		rs, err := symmetry.Symmetries(p)
		if err != nil {
			return "err"
		}
		parts := make([]string, len(rs))
		for i, r := range rs {
			parts[i] = strconv.Itoa(symID(r.S, p.Size())) + ":" + dumpPos(r.P)
		}
		return strings.Join(parts, " ")
	}
	opTable["ssyms"] = func(s *Session, a []string) string {
		p := decPos(a[0])
		rs, err := symmetry.Symmetries(p)
		if err != nil {
			return "err"
		}
		parts := make([]string, len(rs))
		for i, r := range rs {
			parts[i] = strconv.Itoa(symID(r.S, p.Size())) + ":" + absDump(r.P)
		}
		return strings.Join(parts, " ")
	}
	opTable["xform"] = func(s *Session, a []string) string {
		size := atoi(a[1])
		return encMove(symmetry.TransformMove(parseWord(a[0], size), decMove(a[2])))
	}
	opTable["prefer"] = func(s *Session, a []string) string {
		return strconv.Itoa(b2i(symmetry.VerifPreferMove(decMove(a[0]), decMove(a[1]))))
	}
	// xmove k pos move: equivariance of Move on the real code, both sides computed here
	opTable["xmove"] = func(s *Session, a []string) string {
		k := atoi(a[0])
		p := decPos(a[1])
		m := decMove(a[2])
		sp, err := imageOf(p, k)
		if err != nil {
			return "image-err"
		}
		sm := symmetry.TransformMove(symmetry.VerifSymmetries(p.Size())[k], m)
		n, e1 := p.Move(m)
		sn, e2 := sp.Move(sm)
		r1, r2 := "ok", "ok"
		if e1 != nil {
			r1 = "err"
		}
		if e2 != nil {
			r2 = "err"
		}
		if e1 != nil || e2 != nil {
			return r1 + " " + r2
		}
		ns, err := imageOf(n, k)
		if err != nil {
			return "ok ok image-err"
		}
		if ns.Equal(sn) && dumpPos(ns) == dumpPos(sn) {
			return "ok ok eq " + dumpPos(sn)
		}
		return "ok ok ne " + dumpPos(ns) + " " + dumpPos(sn)
	}
	// sxmove k pos move: the image move applied to the image position, list-level view
	opTable["sxmove"] = func(s *Session, a []string) string {
		k := atoi(a[0])
		p := decPos(a[1])
		m := decMove(a[2])
		sp, err := imageOf(p, k)
		if err != nil {
			return "image-err"
		}
		sm := symmetry.TransformMove(symmetry.VerifSymmetries(p.Size())[k], m)
		sn, e := sp.Move(sm)
		if e != nil {
			return "err"
		}
		if overLimit(sn) {
			return "overlimit"
		}
		return "ok " + absDump(sn)
	}
	opTable["xover"] = func(s *Session, a []string) string {
		k := atoi(a[0])
		p := decPos(a[1])
		sp, err := imageOf(p, k)
		if err != nil {
			return "image-err"
		}
		return fmtOutcome(sp) + " | " + fmtOutcome(p)
	}
	// symscfg <src> <pos>: the position rebuilt from a Config taken from ANOTHER game (src.Config(), then size, counts and
	// tie flag edited to pos's), its eight images and the verdict on each: a configuration is what its fields say
	opTable["symscfg"] = func(s *Session, a []string) string {
		src, b := decPos(a[0]), decPos(a[1])
		cfg := src.Config()
		bc := b.Config()
		cfg.Size, cfg.Pieces, cfg.Capstones, cfg.BlackWinsTies = bc.Size, bc.Pieces, bc.Capstones, bc.BlackWinsTies
		n := b.Size()
		board := make([][]tak.Square, n)
		for y := 0; y < n; y++ {
			board[y] = make([]tak.Square, n)
			for x := 0; x < n; x++ {
				board[y][x] = b.At(x, y)
			}
		}
		q, err := tak.FromSquares(cfg, board, b.MoveNumber())
		if err != nil {
			return "err"
		}
		rs, err := symmetry.Symmetries(q)
		if err != nil {
			return "err"
		}
		parts := []string{fmtOutcome(q)}
		for _, r := range rs {
			parts = append(parts, strconv.Itoa(symID(r.S, q.Size()))+":"+fmtOutcome(r.P))
		}
		return strings.Join(parts, " | ")
	}
	opTable["sxover"] = func(s *Session, a []string) string {
		k := atoi(a[0])
		p := decPos(a[1])
		sp, err := imageOf(p, k)
		if err != nil {
			return "image-err"
		}
		return fmtOutcome(sp)
	}
	opTable["canon"] = func(s *Session, a []string) string {
		// the input travels in ONE reused backing array (a caller's history slice after take-backs, a reused buffer):
		// what Canonical was given earlier is overwritten by now, and both the input and the result belong to the caller
		in := canonInput(s, parseMoves(a[1:]))
		out, err := symmetry.Canonical(atoi(a[0]), in)
		if err != nil {
			scribbleMoves(in)
			return "err"
		}
		res := encMoves(out)
		scribbleMoves(out)
		scribbleMoves(in)
		return res
	}
	opTable["scanon"] = opTable["canon"] // second opinion: the list-level algorithm of the Lean side against the real code
	opTable["canonchk"] = func(s *Session, a []string) string {
		return canonCheck(atoi(a[0]), parseMoves(a[1:]))
	}
	opTable["case"] = func(s *Session, a []string) string {
		s.slots = map[string]interface{}{}
		return "ok"
	}
	// book size lines: BuildOpeningBook on the PTN text of the moves
	opTable["book"] = func(s *Session, a []string) string {
		delete(s.slots, "book")
		size := atoi(a[0])
		lines := parseBookLines(a[1])
		var text []string
		for _, l := range lines {
			var ws []string
			for _, m := range l {
				t := ptn.FormatMove(m)
				back, err := ptn.ParseMove(t)
				if err != nil || !back.Equal(m) {
					return "unprintable-move" // the op is only meaningful for moves PTN can carry
				}
				ws = append(ws, t)
			}
			text = append(text, strings.Join(ws, " "))
		}
		ob, err := ai.BuildOpeningBook(size, text)
		if err != nil {
			return "err"
		}
		s.slots["book"] = ob
		return dumpBook(ob)
	}
	// realbook size: the book object built by playtak's init(), and its lines
	opTable["realbook"] = func(s *Session, a []string) string {
		delete(s.slots, "book")
		ob := playtak.VerifBook(atoi(a[0]))
		if ob == nil {
			return "none"
		}
		s.slots["book"] = ob
		return dumpBook(ob)
	}
	// bookwrap: the wrapper users get (ai.WithOpeningBook around an inner player): in the book it answers with one of the
	// stored moves (legal there), outside it hands the inner player's answer through unchanged
	opTable["bookwrap"] = func(s *Session, a []string) string {
		ob, ok := s.slots["book"].(*ai.OpeningBook)
		if !ok {
			return "nobook"
		}
		p := decPos(a[0])
		inner := fixedPlayer{m: tak.Move{X: 127, Y: 126, Type: tak.PlaceCapstone}}
		pl := ai.WithOpeningBook(inner, ob)
		_, ms, _, inBook := ob.VerifBookEntry(p.Hash())
		for i := 0; i < 6; i++ {
			m := pl.GetMove(context.Background(), p)
			if !inBook {
				if m != inner.m {
					return "outside-book-but-not-inner"
				}
				continue
			}
			found := false
			for _, c := range ms {
				if c.Equal(m) {
					found = true
				}
			}
			if !found {
				return "not-a-book-move:" + encMove(m)
			}
			if _, err := p.Move(m); err != nil {
				return "illegal:" + encMove(m)
			}
		}
		return "ok"
	}
	opTable["bookget"] = func(s *Session, a []string) string {
		ob, ok := s.slots["book"].(*ai.OpeningBook)
		if !ok {
			return "nobook"
		}
		p := decPos(a[0])
		_, ms, ws, ok := ob.VerifBookEntry(p.Hash())
		if !ok {
			if _, got := ob.GetMove(p, rand.New(rand.NewSource(1))); got {
				return "none-but-answered"
			}
			return "none"
		}
		in, legal := "in", "legal"
		for seed := int64(0); seed < 24; seed++ {
			m, got := ob.GetMove(p, rand.New(rand.NewSource(seed*7919+1)))
			if !got {
				in = "notanswered"
				continue
			}
			found := false
			for _, c := range ms {
				if c.Equal(m) {
					found = true
				}
			}
			if !found {
				in = "notin"
			}
			if _, err := p.Move(m); err != nil {
				legal = "illegal:" + encMove(m)
			}
		}
		for _, c := range ms {
			if _, err := p.Move(c); err != nil {
				legal = "illegal:" + encMove(c)
			}
		}
		return "some " + fmtChildren(ms, ws) + " " + in + " " + legal
	}
}

// fixedPlayer: an inner player whose answer is recognisable (an impossible move), to see that the wrapper hands it through
type fixedPlayer struct{ m tak.Move }

func (f fixedPlayer) GetMove(ctx context.Context, p *tak.Position) tak.Move { return f.m }

// canonInput copies ms into the session's reused input array (grown, never shrunk) and returns that window of it
func canonInput(s *Session, ms []tak.Move) []tak.Move {
	buf, _ := s.slots["canon-input"].([]tak.Move)
	if cap(buf) < len(ms) {
		nb := make([]tak.Move, 0, 2*len(ms)+16)
		buf = nb
	}
	buf = buf[:len(ms)]
	copy(buf, ms)
	s.slots["canon-input"] = buf
	return buf
}

func scribbleMoves(ms []tak.Move) {
	for i := range ms {
		ms[i] = tak.Move{X: -7, Y: -7, Type: 99, Slides: 0xABCDEF}
	}
}
