package main

import (
	"strconv"
	"strings"
	"sync"

	"github.com/nelhage/taktician/playtak"
	"github.com/nelhage/taktician/ptn"
	"github.com/nelhage/taktician/tak"
)

// ---------------------------------------------------------------- C11 (legal-shape link): accepted raw moves
//
// Op `legalraw <pos> <move>`: what the real code does with a raw move value and with the move that differs from it
// only in what Move.Equal ignores (the Slides word of a non-slide).  The model answers the same questions with
// Notation.normalize / Notation.legalShape and, where the theorems of Props/C11_legal.lean fix the answer,
// checks its own answer against them (MODEL-THM-FAIL).
//
//   acc    Position.Move(m) returned no error
//   hn     m with the Slides word cleared when !m.IsSlide()              (model: Notation.normalize m)
//   eq     m.Equal(hn), hn.Equal(m)
//   same   Position.Move(hn) has the same outcome and (on success) an identical successor, field by field
//   norm   the AllMoves entry Equal to m (none / several = never)        (model: normalize m, must be in allMoves)
//   shape  hn is one of the harness' enumerated legal shapes of the size (model: Notation.legalShape)
//   fm,pm  FormatMove(m) and what ParseMove makes of it (the RAW value)
//   fn,pn  FormatMove(hn), ParseMove of it; ln,pl the long form; sm,ps FormatServer(m) -> ParseServer

var legalShapeSets [9]map[tak.Move]bool
var legalShapeOnce sync.Once

func isLegalShape(size int, m tak.Move) bool {
	legalShapeOnce.Do(func() {
		for s := 3; s <= 8; s++ {
			set := map[tak.Move]bool{}
			for _, x := range legalShapes(s) {
				set[x] = true
			}
			legalShapeSets[s] = set
		}
	})
	if size < 3 || size > 8 {
		return false
	}
	return legalShapeSets[size][m]
}

func harnessNormalize(m tak.Move) tak.Move {
	if !m.IsSlide() {
		m.Slides = 0
	}
	return m
}

func legalResMove(m tak.Move, err error) string {
	if err != nil {
		return "err"
	}
	return "ok:" + encMove(m)
}

func opLegalRaw(s *Session, a []string) string {
	p := decPos(a[0])
	m := decMove(a[1])
	hn := harnessNormalize(m)
	r1, e1 := p.Move(m)
	r2, e2 := p.Move(hn)
	same := (e1 == nil) == (e2 == nil) && (e1 != nil || dumpPos(r1) == dumpPos(r2))
	head := "acc=" + bit01(e1 == nil) + " hn=" + encMove(hn) + " eq=" + bit01(m.Equal(hn)) + bit01(hn.Equal(m)) + " same=" + bit01(same)
	if e1 != nil {
		return head
	}
	if m.Type == tak.Pass {
		return head + " pass"
	}
	norm := "none"
	k := 0
	for _, g := range p.AllMoves(nil) {
		if g.Equal(m) {
			k++
			norm = encMove(g)
		}
	}
	if k > 1 {
		norm = "several"
	}
	fm := ptn.FormatMove(m)
	fn := ptn.FormatMove(hn)
	ln := ptn.FormatMoveLong(hn)
	sm := playtak.FormatServer(m)
	return head + " norm=" + norm + " shape=" + bit01(isLegalShape(p.Size(), hn)) +
		" fm=" + hexOf(fm) + " pm=" + legalResMove(ptn.ParseMove(fm)) +
		" fn=" + hexOf(fn) + " pn=" + legalResMove(ptn.ParseMove(fn)) +
		" ln=" + hexOf(ln) + " pl=" + legalResMove(ptn.ParseMove(ln)) +
		" sm=" + hexOf(sm) + " ps=" + legalResMove(playtak.ParseServer(sm))
}

// junk Slides words for non-slides: small words that look like drop lists, single nibbles, high bits, random
func junkWord(r *RNG) tak.Slides {
	switch r.Intn(8) {
	case 0:
		return tak.Slides(1 + r.Intn(15))
	case 1:
		return tak.Slides([]uint32{0x11, 0x12, 0x21, 0x111, 0x1111, 0x3, 0x8, 0x9, 0xf}[r.Intn(9)])
	case 2:
		return tak.Slides(uint32(1) << uint(r.Intn(32)))
	case 3:
		return 0xffffffff
	case 4:
		return tak.Slides(uint32(1+r.Intn(8)) << uint(4*r.Intn(8)))
	default:
		return tak.Slides(r.Next())
	}
}

func genC11legal(c *Ctx) {
	n := c.Scale(700, 70000)
	for k := 0; k < n; k++ {
		p := randomPosition(c.R)
		tok := encPos(p)
		c.Count("size" + strconv.Itoa(p.Size()))
		var legal []tak.Move
		for _, m := range p.AllMoves(nil) {
			if _, err := p.Move(m); err == nil {
				legal = append(legal, m)
			}
		}
		emit := func(kind string, m tak.Move) {
			out := c.Emit("legalraw " + tok + " " + encMove(m))
			acc := strings.HasPrefix(out, "acc=1")
			c.Count(kind + ".acc=" + bit01(acc))
			if !acc || strings.HasSuffix(out, " pass") {
				return
			}
			// how the RAW accepted value fares in PTN (the normal form is fixed by the theorems; the model checks it)
			want := "pm=ok:" + encMove(m) + " "
			switch {
			case strings.Contains(out, want):
				c.Count(kind + ".raw-ptn-roundtrip=same")
			case strings.Contains(out, "pm=ok:"):
				c.Count(kind + ".raw-ptn-roundtrip=normalised")
			default:
				c.Count(kind + ".raw-ptn-roundtrip=PARSE-ERROR")
			}
			if strings.Contains(out, "shape=0") || strings.Contains(out, "norm=none") || strings.Contains(out, "norm=several") {
				c.Count("THEOREM-MISS") // the model prints MODEL-THM-FAIL for the same line: a disagreement
			}
		}
		// (a) legal moves as generated, and the legal placements with a junk Slides word
		for j := 0; j < 6 && len(legal) > 0; j++ {
			m := legal[c.R.Intn(len(legal))]
			if m.IsSlide() {
				emit("gen.slide", m)
				continue
			}
			emit("gen.place", m)
			m.Slides = junkWord(c.R)
			emit("junk.place", m)
		}
		// placements on every kind of square (occupied ones are rejected) with junk
		for j := 0; j < 3; j++ {
			m := tak.Move{X: int8(c.R.Intn(p.Size())), Y: int8(c.R.Intn(p.Size())),
				Type: tak.MoveType(int(tak.PlaceFlat) + c.R.Intn(3)), Slides: junkWord(c.R)}
			emit("junk.anyplace", m)
		}
		// (b) the malformed stream of C01 (mostly rejected; accepted ones are slides with odd words)
		for j := 0; j < 4; j++ {
			emit("raw", rawMove(c.R, p.Size()))
		}
		// (c) the pass and the non-move type codes with junk in every field
		emit("pass", tak.Move{X: randCoord(c.R, p.Size()), Y: randCoord(c.R, p.Size()), Type: tak.Pass, Slides: junkWord(c.R)})
		if c.R.Chance(1, 2) {
			emit("type0", tak.Move{X: int8(c.R.Intn(p.Size())), Y: int8(c.R.Intn(p.Size())), Type: 0, Slides: junkWord(c.R)})
		} else {
			emit("type>8", tak.Move{X: int8(c.R.Intn(p.Size())), Y: int8(c.R.Intn(p.Size())), Type: tak.MoveType(9 + c.R.Intn(247)), Slides: junkWord(c.R)})
		}
	}
}

func init() {
	opTable["legalraw"] = opLegalRaw
	genTable["C11legal"] = genC11legal
}
