package main

import (
	"fmt"
	"strconv"
	"strings"

	"github.com/nelhage/taktician/bitboard"
	"github.com/nelhage/taktician/tak"
)

// `fn.*` ops of the second batch of regenerated functions (work package gen2: slices, index panics, result-building
// loops): Generated/FuncsPos.lean (Position.Top, At, hashAt, Equal), FuncsRoad.lean (hasRoad, bitboard.FloodGroups),
// FuncsMoveGen.lean (MkSlides, calculateSlides, the `slides` table built by init, Position.AllMoves - in generation order).
// Generators: FNPOS (C01, C08), FNROAD (C02), FNMOVEGEN (C03).

func movesInOrder(ms []tak.Move) string {
	if len(ms) == 0 {
		return "-"
	}
	parts := make([]string, len(ms))
	for i, m := range ms {
		parts[i] = encMove(m)
	}
	return strings.Join(parts, " ")
}

func slidesStr(ss []tak.Slides) string {
	if len(ss) == 0 {
		return "-"
	}
	parts := make([]string, len(ss))
	for i, s := range ss {
		parts[i] = strconv.FormatUint(uint64(s), 10)
	}
	return strings.Join(parts, ",")
}

func init() {
	opTable["fn.top"] = func(s *Session, a []string) string {
		return strconv.Itoa(int(decPos(a[0]).Top(atoi(a[1]), atoi(a[2]))))
	}
	opTable["fn.at"] = func(s *Session, a []string) string {
		sq := decPos(a[0]).At(atoi(a[1]), atoi(a[2]))
		bs := make([]uint8, len(sq))
		for i, pc := range sq {
			bs[i] = uint8(pc)
		}
		return u8s(bs)
	}
	opTable["fn.hashat"] = func(s *Session, a []string) string {
		return strconv.FormatUint(decPos(a[0]).VerifHashAt(uint(atou(a[1]))), 10)
	}
	opTable["fn.equal"] = func(s *Session, a []string) string {
		return strconv.Itoa(b2i(decPos(a[0]).Equal(decPos(a[1]))))
	}
	opTable["fn.hasroad"] = func(s *Session, a []string) string {
		c, ok := decPos(a[0]).VerifHasRoad()
		return fmt.Sprintf("%d %d", c, b2i(ok))
	}
	opTable["fn.windetails"] = func(s *Session, a []string) string {
		d := decPos(a[0]).WinDetails()
		return fmt.Sprintf("%d %d %d %d %d", b2i(d.Over), int(d.Reason), d.Winner, d.WhiteFlats, d.BlackFlats)
	}
	opTable["fn.floodgroups"] = func(s *Session, a []string) string {
		c := bitboard.Precompute(uint(atoi(a[0])))
		return u64s(bitboard.FloodGroups(&c, atou(a[1]), parseU64s(a[2])))
	}
	opTable["fn.mkslides"] = func(s *Session, a []string) string {
		var drops []int
		if a[0] != "-" {
			for _, f := range strings.Split(a[0], ",") {
				drops = append(drops, atoi(f))
			}
		}
		return strconv.FormatUint(uint64(tak.MkSlides(drops...)), 10)
	}
	opTable["fn.calcslides"] = func(s *Session, a []string) string {
		return slidesStr(tak.VerifCalculateSlides(atoi(a[0])))
	}
	opTable["fn.slidesinit"] = func(s *Session, a []string) string {
		var rows []string
		for _, row := range tak.VerifSlidesTable() {
			rows = append(rows, slidesStr(row))
		}
		return strings.Join(rows, ";")
	}
	opTable["fn.allmoves"] = func(s *Session, a []string) string {
		var pre []tak.Move
		for _, tok := range a[1:] {
			pre = append(pre, decMove(tok))
		}
		return movesInOrder(decPos(a[0]).AllMoves(pre))
	}
	genTable["FNPOS"] = genFNPOS
	genTable["FNROAD"] = genFNROAD
	genTable["FNMOVEGEN"] = genFNMOVEGEN
}

// malformRaw: field combinations no game produces (the regenerated functions are total descriptions of the Go code,
// including its index panics): a set bit over an empty stack, bits beyond the board, heights up to 255.
func malformRaw(r *RNG, p *tak.Position) (tak.VerifRaw, string, int) {
	raw := p.VerifRaw()
	n := raw.Size * raw.Size
	switch r.Intn(6) {
	case 0:
		i := r.Intn(n)
		raw.Height[i] = 0
		raw.White |= 1 << uint(i)
		return raw, "bit-over-empty", i
	case 1:
		if n < 64 {
			i := n + r.Intn(64-n)
			raw.Black |= 1 << uint(i)
			return raw, "bit-beyond-board", i
		}
		i := r.Intn(n)
		raw.Height[i] = 255
		return raw, "height-255", i
	case 2:
		i := r.Intn(n)
		raw.Height[i] = uint8(200 + r.Intn(56))
		return raw, "height-255", i
	case 3:
		i := r.Intn(n)
		raw.White |= 1 << uint(i)
		raw.Black |= 1 << uint(i)
		raw.Standing |= 1 << uint(i)
		raw.Caps |= 1 << uint(i)
		return raw, "all-bits", i
	case 4:
		i := r.Intn(n)
		raw.Stacks[i] = edgeU64(r)
		return raw, "stack-bits", i
	default:
		raw.Move = []int{-3, -2, -1, 0, 1, 2}[r.Intn(6)]
		return raw, "move", -1
	}
}

func genFNPOS(c *Ctx) {
	n := c.Scale(1500, 250000)
	for k := 0; k < n; k++ {
		p := randomPosition(c.R)
		if p == nil {
			continue
		}
		tok := encPos(p)
		size := p.Size()
		target := -1
		if c.R.Chance(1, 3) {
			var raw tak.VerifRaw
			var tag string
			raw, tag, target = malformRaw(c.R, p)
			tok = encRaw(raw, false)
			c.Count("pos:" + tag)
		} else {
			c.Count("pos:wellformed")
		}
		// every square once in a while, else a few coordinates incl. off-board ones (uint(x + y*size) wraps)
		coord := func() int {
			switch c.R.Intn(8) {
			case 0:
				return -1 - c.R.Intn(3)
			case 1:
				return size + c.R.Intn(3)
			case 2:
				return []int{-1 << 40, 1 << 40, -128, 127}[c.R.Intn(4)]
			default:
				return c.R.Intn(size)
			}
		}
		for j := 0; j < 3; j++ {
			x, y := coord(), coord()
			if j == 0 && target >= 0 { // the square the malformation sits on (a bit beyond the board: y >= size)
				x, y = target%size, target/size
			}
			c.Emit(fmt.Sprintf("fn.top %s %d %d", tok, x, y))
			out := c.Emit(fmt.Sprintf("fn.at %s %d %d", tok, x, y))
			switch {
			case out == "panic":
				c.Count("at:panic")
			case out == "-":
				c.Count("at:empty")
			case strings.Contains(out, ","):
				c.Count("at:stack")
			default:
				c.Count("at:single")
			}
		}
		i := c.R.Intn(size*size + 2)
		if target >= 0 && c.R.Chance(1, 2) {
			i = target
		}
		if c.R.Chance(1, 10) {
			i = []int{63, 64, 65, 1 << 20}[c.R.Intn(4)]
		}
		if out := c.Emit(fmt.Sprintf("fn.hashat %s %d", tok, i)); out == "panic" {
			c.Count("hashat:panic")
		} else if out == "0" {
			c.Count("hashat:zero")
		} else {
			c.Count("hashat:hash")
		}
		// Equal: the position with itself, with a one-field variation, with an unrelated one
		var other string
		switch c.R.Intn(4) {
		case 0:
			other = tok
		case 1:
			raw := decRaw(tok)
			nsq := raw.Size * raw.Size
			switch c.R.Intn(5) {
			case 0:
				raw.Height[c.R.Intn(nsq)] ^= 1
			case 1:
				raw.Stacks[c.R.Intn(nsq)] ^= 1 << uint(c.R.Intn(64))
			case 2:
				raw.Move += 1 + c.R.Intn(2)
			case 3:
				raw.WS++ // reserves are not compared
			default:
				raw.Hash ^= 1
			}
			other = encRaw(raw, false)
		default:
			if q := randomPosition(c.R); q != nil {
				other = encPos(q)
			} else {
				other = tok
			}
		}
		c.Count("equal=" + c.Emit("fn.equal "+tok+" "+other))
	}
}

func genFNROAD(c *Ctx) {
	n := c.Scale(4000, 400000)
	for k := 0; k < n; k++ {
		size := 3 + c.R.Intn(6)
		var p *tak.Position
		switch c.R.Intn(5) {
		case 0, 1:
			p = roadBoard(c.R, size)
		case 2:
			p = groupsBoard(c.R, size)
		default:
			p = randomPosition(c.R)
		}
		if p != nil {
			// the 18-field form carries the group lists the real analyze() computed: hasRoad is compared on the same groups
			c.Count("hasroad=" + c.Emit("fn.hasroad "+dumpPos(p)))
			c.Emit("fn.windetails " + dumpPos(p))
		}
		mask := uint64(1)<<uint(size*size) - 1
		bits := edgeU64(c.R)
		if c.R.Chance(7, 8) {
			bits &= mask
		}
		if p != nil && c.R.Chance(1, 2) {
			raw := p.VerifRaw()
			size = raw.Size
			bits = raw.White &^ raw.Standing
			if c.R.Chance(1, 2) {
				bits = raw.Black &^ raw.Standing
			}
		}
		pre := "-"
		if c.R.Chance(1, 4) {
			pre = u64s([]uint64{edgeU64(c.R), 7}[:1+c.R.Intn(2)])
		}
		out := c.Emit(fmt.Sprintf("fn.floodgroups %d %d %s", size, bits, pre))
		c.Count(fmt.Sprintf("floodgroups:n=%d", strings.Count(out, ",")+b2i(out != "-")))
	}
}

func genFNMOVEGEN(c *Ctx) {
	if c.Shard == 0 {
		c.Emit("fn.slidesinit")
		for stack := 0; stack <= 12; stack++ {
			c.Emit(fmt.Sprintf("fn.calcslides %d", stack))
		}
		for _, stack := range []int{255, 256, 257, 300, 511, -256} { // byte(stack) wraps; 255 never ends (not sent)
			if stack&0xff != 255 {
				c.Emit(fmt.Sprintf("fn.calcslides %d", stack))
			}
		}
		for _, d := range []string{"-", "0", "1", "8", "9", "-1", "1,2,3", "8,8,8,8,8,8,8,8", "1,1,1,1,1,1,1,1,1", "3,9", "9,3", "15", "16", "1,16"} {
			c.Emit("fn.mkslides " + d)
		}
	}
	n := c.Scale(1200, 120000)
	for k := 0; k < n; k++ {
		p := randomPosition(c.R)
		if p == nil {
			continue
		}
		tok := encPos(p)
		if c.R.Chance(1, 4) {
			raw, tag, _ := malformRaw(c.R, p)
			tok = encRaw(raw, false)
			c.Count("pos:" + tag)
		}
		line := "fn.allmoves " + tok
		if c.R.Chance(1, 5) { // a non-empty slice to append to
			line += " " + strings.ReplaceAll(edgeMoveArgs(c.R), " ", ",")
		}
		out := c.Emit(line)
		c.Count(fmt.Sprintf("allmoves:n<=%d", 10*(1+strings.Count(out, " ")/10)))
		var drops []string
		for j := c.R.Intn(10); j > 0; j-- {
			drops = append(drops, strconv.Itoa([]int{1, 2, 3, 8, 9, 0, -1, 7}[c.R.Intn(8)]))
		}
		if len(drops) == 0 {
			drops = []string{"-"}
		}
		if out := c.Emit("fn.mkslides " + strings.Join(drops, ",")); out == "panic" {
			c.Count("mkslides:panic")
		} else {
			c.Count("mkslides:ok")
		}
	}
}
