package main

import (
	"fmt"
	"strconv"
	"strings"

	"github.com/nelhage/taktician/tak"
)

var coordPool = []int{-128, -127, -2, -1, 0, 1, 2, 3, 4, 5, 6, 7, 8, 9, 15, 16, 31, 32, 63, 64, 126, 127}

func randCoord(r *RNG, size int) int8 {
	switch x := r.Intn(10); {
	case x < 5:
		return int8(r.Intn(size))
	case x < 8:
		return int8(coordPool[r.Intn(len(coordPool))])
	default:
		return int8(r.Next())
	}
}

func randSlides(r *RNG, size int) tak.Slides {
	tbl := tak.VerifSlidesTable()
	switch x := r.Intn(10); {
	case x < 5:
		row := tbl[1+r.Intn(8)]
		return row[r.Intn(len(row))]
	case x < 6:
		return 0
	case x < 8:
		// composition with one nibble damaged: zero, 9..15, or an extra nibble
		row := tbl[1+r.Intn(8)]
		s := row[r.Intn(len(row))]
		k := uint(r.Intn(8)) * 4
		v := tak.Slides([]int{0, 0, 9, 15, 8, 1}[r.Intn(6)])
		return (s &^ (0xf << k)) | (v << k)
	default:
		return tak.Slides(r.Next())
	}
}

func randType(r *RNG) tak.MoveType {
	switch x := r.Intn(20); {
	case x < 14:
		return tak.MoveType(2 + r.Intn(7))
	case x < 17:
		return tak.MoveType(r.Intn(17))
	case x < 18:
		return 0
	case x < 19:
		return 255
	default:
		return tak.MoveType(r.Next())
	}
}

// rawMove draws from the malformed stream; Pass is excluded (outside the claim).
func rawMove(r *RNG, size int) tak.Move {
	for {
		m := tak.Move{X: randCoord(r, size), Y: randCoord(r, size), Type: randType(r), Slides: randSlides(r, size)}
		if m.Type == tak.Pass {
			continue
		}
		return m
	}
}

func classifyPos(c *Ctx, p *tak.Position) {
	c.Count("size" + strconv.Itoa(p.Size()))
	if p.MoveNumber() < 2 {
		c.Count("pos.opening")
	}
	mh := 0
	r := p.VerifRaw()
	for _, h := range r.Height {
		if int(h) > mh {
			mh = int(h)
		}
	}
	switch {
	case mh > 12:
		c.Count("pos.maxheight>12")
	case mh > p.Size():
		c.Count("pos.maxheight>size")
	case mh > 1:
		c.Count("pos.maxheight>1")
	}
	if over, _ := p.GameOver(); over {
		c.Count("pos.over")
	}
	ng := len(r.WG) + len(r.BG)
	switch {
	case ng > 2*p.Size():
		c.Count("pos.groups>2size")
	case len(r.WG) > p.Size() || len(r.BG) > p.Size():
		c.Count("pos.onecolour.groups>size")
	case ng > p.Size():
		c.Count("pos.groups>size")
	}
}

// emitNewPlay: see the comment inside
func emitNewPlay(c *Ctx) {
	// a game from a PARTLY custom configuration (only the stones, only the capstones, both, neither), in which both
	// sides place capstones until the reserve says no, then stones
	size := 3 + c.R.Intn(6)
	cfg := tak.Config{Size: size, BlackWinsTies: c.R.Chance(1, 4)}
	switch c.R.Intn(4) {
	case 0:
		cfg.Capstones = 1 + c.R.Intn(4)
	case 1:
		cfg.Pieces = 2 + c.R.Intn(12)
	case 2:
		cfg.Pieces, cfg.Capstones = 2+c.R.Intn(12), 1+c.R.Intn(4)
	}
	q := tak.New(cfg)
	var toks []string
	for ply := 0; ply < 6+c.R.Intn(14); ply++ {
		if over, _ := q.GameOver(); over {
			break
		}
		var cand []tak.Move
		for y := 0; y < size; y++ {
			for x := 0; x < size; x++ {
				if q.Top(x, y) == 0 {
					cand = append(cand, tak.Move{X: int8(x), Y: int8(y)})
				}
			}
		}
		if len(cand) == 0 {
			break
		}
		m := cand[c.R.Intn(len(cand))]
		m.Type = tak.PlaceCapstone
		if ply < 2 || c.R.Chance(1, 3) {
			m.Type = tak.PlaceFlat
		}
		toks = append(toks, encMove(m))
		if n, err := q.Move(m); err == nil {
			q = n
		} else {
			// refused (no capstone left): the op line ends here on both sides; go on with a flat in the next line
			break
		}
	}
	out := c.Emit(fmt.Sprintf("newplay %d %d %d %d %s", cfg.Size, cfg.Pieces, cfg.Capstones, b2i(cfg.BlackWinsTies), strings.Join(toks, " ")))
	c.Count("newplay.pieces" + strconv.Itoa(b2i(cfg.Pieces != 0)) + ".caps" + strconv.Itoa(b2i(cfg.Capstones != 0)) + "." + clip(out, 3))
}

func genC01(c *Ctx) {
	for i := c.Scale(60, 6000); i > 0; i-- {
		emitNewPlay(c)
	}
	n := c.Scale(1600, 160000)
	for k := 0; k < n; k++ {
		p := randomPosition(c.R)
		classifyPos(c, p)
		tok := encPos(p)
		ms := p.AllMoves(nil)
		// a bounded random subset of the generated moves, and every one of them in 1 of 8 positions
		limit := 40
		if c.R.Chance(1, 8) {
			limit = len(ms)
		}
		for j := 0; j < limit && len(ms) > 0; j++ {
			var m tak.Move
			if limit == len(ms) {
				m = ms[j]
			} else {
				m = ms[c.R.Intn(len(ms))]
			}
			out := c.Emit("move " + tok + " " + encMove(m))
			c.Emit("smove " + tok + " " + encMove(m))
			tagMove(c, m, out)
		}
		for j := 0; j < 25; j++ {
			m := rawMove(c.R, p.Size())
			out := c.Emit("move " + tok + " " + encMove(m))
			c.Emit("smove " + tok + " " + encMove(m))
			tagMove(c, m, out)
		}
		// slide words with a ZERO nibble below a non-zero one (never produced by AllMoves or the PTN parser, but
		// reachable through the playtak wire format): on every stack the mover controls, in every direction
		emitZeroNibbleSlides(c, p, tok)
		// a good move into storage that has just been through a rejected one (and through another position before)
		if good := legalMoves(p); len(good) > 0 {
			var bad []tak.Move
			for _, m := range ms {
				if _, err := p.Move(m); err != nil {
					bad = append(bad, m)
				}
			}
			// placements the reserves do not allow, on empty squares (rejected late, after the copy)
			for y := 0; y < p.Size(); y++ {
				for x := 0; x < p.Size(); x++ {
					if p.Top(x, y) == 0 {
						for _, ty := range []tak.MoveType{tak.PlaceCapstone, tak.PlaceStanding, tak.PlaceFlat} {
							m := tak.Move{X: int8(x), Y: int8(y), Type: ty}
							if _, err := p.Move(m); err != nil {
								bad = append(bad, m)
							}
						}
					}
				}
			}
			dtok := encPos(constructed(c.R, p.Size()))
			for j := 0; j < 6; j++ {
				mf := rawMove(c.R, p.Size())
				if len(bad) > 0 && c.R.Chance(4, 5) {
					mf = bad[c.R.Intn(len(bad))]
				}
				c.Emit("movepre2 " + tok + " " + encMove(mf) + " " + encMove(good[c.R.Intn(len(good))]) + " " + dtok)
			}
			c.Count("movepre2")
		}
		// the exported accessors (Top, At, Analysis(), IsRoad, reserves, ToMove) on the position and on a successor
		c.Emit("acc " + tok)
		if len(ms) > 0 {
			c.Emit("accmove " + tok + " " + encMove(ms[c.R.Intn(len(ms))]))
		}
	}
}

func emitZeroNibbleSlides(c *Ctx, p *tak.Position, tok string) {
	n := p.Size()
	words := []tak.Slides{0x10, 0x101, 0x100, 0x201, 0x1001, 0x20, 0x110, 0x1010, 0x10000000, 0x102}
	tried := 0
	for y := 0; y < n && tried < 12; y++ {
		for x := 0; x < n && tried < 12; x++ {
			t := p.Top(x, y)
			if t == 0 || t.Color() != p.ToMove() || p.MoveNumber() < 2 {
				continue
			}
			w := words[c.R.Intn(len(words))]
			for _, ty := range []tak.MoveType{tak.SlideLeft, tak.SlideRight, tak.SlideUp, tak.SlideDown} {
				m := tak.Move{X: int8(x), Y: int8(y), Type: ty, Slides: w}
				out := c.Emit("move " + tok + " " + encMove(m))
				c.Emit("smove " + tok + " " + encMove(m))
				c.Count("zero-nibble-slide." + clip(out, 3))
				tried++
			}
		}
	}
}

func tagMove(c *Ctx, m tak.Move, out string) {
	kind := "place"
	if m.IsSlide() {
		kind = "slide"
	}
	if m.Type < 2 || m.Type > 8 {
		kind = "badtype"
	}
	res := "ok"
	if strings.HasPrefix(out, "err") {
		res = "err"
	} else if out == "panic" {
		res = "panic"
	}
	c.Count("move." + kind + "." + res)
}

// roadBoard builds a board around a random edge-to-edge walk of one colour, optionally broken.
func roadBoard(r *RNG, size int) *tak.Position {
	board := make([][]tak.Square, size)
	for y := range board {
		board[y] = make([]tak.Square, size)
	}
	col := []tak.Color{tak.White, tak.Black}[r.Intn(2)]
	other := col.Flip()
	horizontal := r.Chance(1, 2)
	// walk
	x, y := 0, r.Intn(size)
	if !horizontal {
		x, y = r.Intn(size), 0
	}
	path := [][2]int{}
	for {
		path = append(path, [2]int{x, y})
		if horizontal && x == size-1 || !horizontal && y == size-1 {
			break
		}
		d := r.Intn(4)
		nx, ny := x, y
		if horizontal {
			switch d {
			case 0, 1:
				nx++
			case 2:
				ny++
			case 3:
				ny--
			}
		} else {
			switch d {
			case 0, 1:
				ny++
			case 2:
				nx++
			case 3:
				nx--
			}
		}
		if nx < 0 || ny < 0 || nx >= size || ny >= size {
			continue
		}
		x, y = nx, ny
	}
	caps := 0
	for _, sq := range path {
		k := tak.Flat
		if caps == 0 && r.Chance(1, 8) {
			k = tak.Capstone
			caps++
		}
		board[sq[1]][sq[0]] = tak.Square{tak.MakePiece(col, k)}
	}
	// optional break: a wall, an enemy flat, or a hole somewhere on the path
	switch r.Intn(4) {
	case 0:
		sq := path[r.Intn(len(path))]
		board[sq[1]][sq[0]] = tak.Square{tak.MakePiece(col, tak.Standing)}
	case 1:
		sq := path[r.Intn(len(path))]
		board[sq[1]][sq[0]] = tak.Square{tak.MakePiece(other, tak.Flat)}
	case 2:
		sq := path[r.Intn(len(path))]
		board[sq[1]][sq[0]] = nil
	}
	// fill
	fill := r.Intn(100)
	second := r.Chance(1, 4) // maybe a road for the other colour too
	for yy := 0; yy < size; yy++ {
		for xx := 0; xx < size; xx++ {
			if board[yy][xx] != nil {
				continue
			}
			if second && (horizontal && xx == 0 || !horizontal && yy == 0) {
				continue
			}
			if r.Intn(100) < fill {
				k := tak.Flat
				if r.Chance(1, 3) {
					k = tak.Standing
				}
				cc := other
				if r.Chance(1, 3) {
					cc = col
				}
				board[yy][xx] = tak.Square{tak.MakePiece(cc, k)}
			}
		}
	}
	if second {
		// a straight road of the other colour along the free line, where still possible
		for i := 0; i < size; i++ {
			if horizontal {
				if board[i][0] == nil {
					board[i][0] = tak.Square{tak.MakePiece(other, tak.Flat)}
				}
			} else if board[0][i] == nil {
				board[0][i] = tak.Square{tak.MakePiece(other, tak.Flat)}
			}
		}
	}
	cfg := tak.Config{Size: size, BlackWinsTies: r.Chance(1, 2), Pieces: size*size + 2, Capstones: 2}
	p, err := tak.FromSquares(cfg, board, 2+r.Intn(60))
	if err != nil {
		panic(err)
	}
	return p
}

// emitC02 sends one position through the game-end ops: the real code against the model (`over`), against
// the list-level rule book (`sover`), and the theorem hypothesis evaluated on the real data (`wfb`).
func emitC02(c *Ctx, p *tak.Position, dump bool) {
	tok := encPos(p)
	out := c.Emit("over " + tok)
	c.Emit("sover " + tok)
	c.Count("result=" + c.Emit("result "+tok))
	c.Emit("sresult " + tok)
	f := strings.Fields(out)
	if len(f) >= 3 {
		c.Count("over=" + f[0] + "." + f[1] + "." + f[2])
	}
	r := p.VerifRaw()
	if r.WS == 0 && r.WC > 0 || r.BS == 0 && r.BC > 0 {
		c.Count("pos.stones0-caps-left")
	}
	if r.WS+r.WC == 0 || r.BS+r.BC == 0 {
		c.Count("pos.reserve-empty")
	}
	full := uint64(1)<<uint(r.Size*r.Size) - 1
	if r.Size == 8 {
		full = ^uint64(0)
	}
	if r.White|r.Black == full {
		c.Count("pos.full")
	}
	if r.Size == 8 && (r.White|r.Black)>>63 != 0 {
		c.Count("pos.bit63")
	}
	if c.Emit("wfb "+dumpPos(p)) != "1" {
		c.Count("wfb.false")
	}
	if dump {
		c.Emit("dump " + tok)
	}
}

// fromCells builds a position through FromSquares from one top piece per square (0 = empty).
// mode 0: default piece counts; 1: stones = the larger stone count on the board, default capstones
// (a side is out of stones; on sizes without default capstones it is out of pieces);
// 2: as 1 but one capstone more than used, so that side has no stones but a capstone left.
func fromCells(size int, cells []tak.Piece, ply int, bwt bool, mode int) *tak.Position {
	board := make([][]tak.Square, size)
	var stones, caps [2]int
	for y := 0; y < size; y++ {
		board[y] = make([]tak.Square, size)
		for x := 0; x < size; x++ {
			pc := cells[x+y*size]
			if pc == 0 {
				continue
			}
			board[y][x] = tak.Square{pc}
			ci := 0
			if pc.Color() == tak.Black {
				ci = 1
			}
			if pc.Kind() == tak.Capstone {
				caps[ci]++
			} else {
				stones[ci]++
			}
		}
	}
	cfg := tak.Config{Size: size, BlackWinsTies: bwt}
	ms, mc := stones[0], caps[0]
	if stones[1] > ms {
		ms = stones[1]
	}
	if caps[1] > mc {
		mc = caps[1]
	}
	if ms > defaultPieces[size] || (mode > 0 && ms > 0) {
		cfg.Pieces = ms
	}
	if mc > defaultCaps[size] {
		cfg.Capstones = mc
	}
	if mode == 2 {
		cfg.Capstones = mc + 1
	}
	p, err := tak.FromSquares(cfg, board, ply)
	if err != nil {
		panic(err)
	}
	return p
}

// exhaustive3 walks all 3^9 assignments of {empty, white flat, black flat} to a 3x3 board (this shard's
// share).  Quick: one random (parity, tie-break, reserve mode) each; thorough: both parities x 3 reserve modes.
func exhaustive3(c *Ctx) {
	wf, bf := tak.MakePiece(tak.White, tak.Flat), tak.MakePiece(tak.Black, tak.Flat)
	for idx := 0; idx < 19683; idx++ {
		if idx%c.NShard != c.Shard {
			continue
		}
		cells := make([]tak.Piece, 9)
		for i, v := 0, idx; i < 9; i, v = i+1, v/3 {
			switch v % 3 {
			case 1:
				cells[i] = wf
			case 2:
				cells[i] = bf
			}
		}
		if c.Thorough() {
			for par := 0; par < 2; par++ {
				for mode := 0; mode < 3; mode++ {
					emitC02(c, fromCells(3, cells, 2+par, c.R.Chance(1, 2), mode), false)
					c.Count("src.exhaustive3")
				}
			}
		} else {
			emitC02(c, fromCells(3, cells, 2+c.R.Intn(2), c.R.Chance(1, 2), c.R.Intn(3)), false)
			c.Count("src.exhaustive3")
		}
	}
}

// exhaustive4 (thorough) walks all 2^16 subsets of a 4x4 board as white flats; the rest is empty, or
// black flats, or a random mix; each subset also with one of its squares turned into a white wall and
// into a white capstone; both parities.
func exhaustive4(c *Ctx) {
	wf, bf := tak.MakePiece(tak.White, tak.Flat), tak.MakePiece(tak.Black, tak.Flat)
	for m := 0; m < 65536; m++ {
		if m%c.NShard != c.Shard {
			continue
		}
		cells := make([]tak.Piece, 16)
		var set []int
		fill := c.R.Intn(3)
		for i := 0; i < 16; i++ {
			if m>>uint(i)&1 == 1 {
				cells[i] = wf
				set = append(set, i)
			} else if fill == 1 || fill == 2 && c.R.Chance(1, 2) {
				cells[i] = bf
			}
		}
		for par := 0; par < 2; par++ {
			emitC02(c, fromCells(4, cells, 2+par, c.R.Chance(1, 2), c.R.Intn(3)), false)
			c.Count("src.exhaustive4")
		}
		if len(set) > 0 {
			i := set[c.R.Intn(len(set))]
			for _, k := range []tak.Kind{tak.Standing, tak.Capstone} {
				cells[i] = tak.MakePiece(tak.White, k)
				emitC02(c, fromCells(4, cells, 2+c.R.Intn(2), c.R.Chance(1, 2), c.R.Intn(3)), false)
				c.Count("src.exhaustive4.subst")
			}
			cells[i] = wf
		}
	}
}

// flatBoard: a random board of single pieces on any size, often completely full (flat-count endings and
// the tie-break flag: equal counts are forced half of the time on full boards of even size), with the
// reserve modes of fromCells.
func flatBoard(r *RNG, size int) *tak.Position {
	n := size * size
	cells := make([]tak.Piece, n)
	density := 100
	if r.Chance(1, 3) {
		density = 60 + r.Intn(40)
	}
	wallPct := r.Intn(30)
	capLeft := [2]int{1, 1}
	for i := 0; i < n; i++ {
		if r.Intn(100) >= density {
			continue
		}
		ci := r.Intn(2)
		col := []tak.Color{tak.White, tak.Black}[ci]
		k := tak.Flat
		if x := r.Intn(100); x < wallPct {
			k = tak.Standing
		} else if x < wallPct+3 && capLeft[ci] > 0 {
			k = tak.Capstone
			capLeft[ci]--
		}
		cells[i] = tak.MakePiece(col, k)
	}
	if r.Chance(1, 2) {
		// balance the flat counts: flip flats of the leading colour
		for tries := 0; tries < n; tries++ {
			w, b := 0, 0
			for _, pc := range cells {
				if pc != 0 && pc.Kind() == tak.Flat {
					if pc.Color() == tak.White {
						w++
					} else {
						b++
					}
				}
			}
			if w == b || w+b < 2 {
				break
			}
			lead := tak.White
			if b > w {
				lead = tak.Black
			}
			if (w+b)%2 == 1 && (w-b == 1 || b-w == 1) {
				break
			}
			for i, pc := range cells {
				if pc != 0 && pc.Kind() == tak.Flat && pc.Color() == lead {
					cells[i] = tak.MakePiece(lead.Flip(), tak.Flat)
					break
				}
			}
		}
	}
	return fromCells(size, cells, 2+r.Intn(80), r.Chance(1, 2), r.Intn(3))
}

// wrapReserves takes a sampled position and replaces one side's (or both sides') reserve counters by a
// pair stones, capstones > 0 with stones+capstones = 256: nothing in reserve is exhausted, but the byte sum
// `stones+caps` is 0 (defect C02-reserve-wrap: GameOver tested that sum).
func wrapReserves(r *RNG, p *tak.Position) *tak.Position {
	raw := p.VerifRaw()
	side := r.Intn(3)
	if side != 1 {
		raw.WS = byte(1 + r.Intn(255))
		raw.WC = byte(256 - int(raw.WS))
	}
	if side != 0 {
		raw.BS = byte(1 + r.Intn(255))
		raw.BC = byte(256 - int(raw.BS))
	}
	return tak.VerifFromRaw(raw)
}

func genC02(c *Ctx) {
	exhaustive3(c)
	if c.Thorough() {
		exhaustive4(c)
	}
	n := c.Scale(20000, 2400000)
	for k := 0; k < n; k++ {
		var p *tak.Position
		switch x := c.R.Intn(10); {
		case x < 3:
			p = roadBoard(c.R, 3+c.R.Intn(6))
			c.Count("src.roadboard")
		case x < 5:
			p = flatBoard(c.R, 3+c.R.Intn(6))
			c.Count("src.flatboard")
		case x < 7:
			p = groupsBoard(c.R, 3+c.R.Intn(6))
			c.Count("src.groupsboard")
		default:
			p = randomPosition(c.R)
			c.Count("src.random")
		}
		if c.R.Chance(1, 40) {
			p = wrapReserves(c.R, p)
			c.Count("src.+wrapped-reserves")
		}
		classifyPos(c, p)
		emitC02(c, p, c.R.Chance(1, 4))
		if k%3 == 0 {
			// the verdict on a position living in a reused search-stack frame (m2 a wall placement or a pass half of the time)
			if ms := legalMoves(p); len(ms) > 0 {
				m1 := ms[c.R.Intn(len(ms))]
				if a, err := p.Move(m1); err == nil {
					m2 := tak.Move{Type: tak.Pass}
					if as := legalMoves(a); len(as) > 0 && c.R.Chance(2, 3) {
						m2 = as[c.R.Intn(len(as))]
						for t := 0; t < 4 && m2.Type != tak.PlaceStanding && c.R.Chance(1, 2); t++ {
							m2 = as[c.R.Intn(len(as))]
						}
					}
					c.Emit("overstack " + encPos(p) + " " + encMove(m1) + " " + encMove(m2) + " " + encMove(ms[c.R.Intn(len(ms))]))
					c.Emit("overclone " + encPos(p) + " " + encMove(m1) + " " + encMove(ms[c.R.Intn(len(ms))]))
					c.Count("overstack")
				}
			}
		}
		if k%5 == 0 {
			emitNewPlay(c)
		}
		if k%6 == 0 {
			// a configuration obtained by editing another game's Config() (different board size)
			other := roadBoard(c.R, 3+c.R.Intn(6))
			c.Emit("cfgreuse " + encPos(other) + " " + encPos(p))
			c.Count("cfgreuse")
		}
		if k%4 == 0 {
			// exported accessors incl. Analysis() and GameOver on the same boards; Flood / BitCoords / TrailingZeros directly
			c.Emit("acc " + encPos(p))
			raw := p.VerifRaw()
			road := (raw.White | raw.Black) &^ raw.Standing
			seed := road & -road
			c.Emit(fmt.Sprintf("api.flood %d %d %d", p.Size(), road, seed))
			c.Emit(fmt.Sprintf("api.flood %d %d %d", p.Size(), raw.White&^raw.Standing, c.R.Next()&raw.White))
			if b := c.R.Next() >> uint(c.R.Intn(64)); b != 0 {
				c.Emit(fmt.Sprintf("api.bits %d %d", p.Size(), b))
			}
			c.Emit(fmt.Sprintf("api.bits %d %d", p.Size(), uint64(1)<<uint(c.R.Intn(p.Size()*p.Size()))))
		}
	}
}

func genC03(c *Ctx) {
	n := c.Scale(6000, 200000)
	for k := 0; k < n; k++ {
		p := randomPosition(c.R)
		classifyPos(c, p)
		tok := encPos(p)
		out := c.Emit("allmoves " + tok)
		// the rule-book enumeration is the expensive side (size^2 x 1023 shapes through Spec.step): one position in three
		if k%3 == 0 {
			c.Emit("slegal " + tok)
		}
		c.Count("nmoves>=" + bucket2(len(strings.Fields(out))))
	}
}

func init() {
	genTable["C01"] = genC01
	genTable["C02"] = genC02
	genTable["C03"] = genC03
}
