package main

import (
	"strconv"
	"strings"

	"github.com/nelhage/taktician/tak"
)

var coordPool = []int{-128, -127, -2, -1, 0, 1, 2, 3, 4, 5, 6, 7, 8, 9, 15, 16, 31, 32, 63, 64, 126, 127}

func randCoord(r *RNG, size int) int8 {
	switch x := r.Intn(10); {
	case x < 5:
		return int8(r.Intn(size))
	case x < 8:
		return int8(coordPool[r.Intn(len(coordPool))])
	default:
		return int8(r.Next())
	}
}

func randSlides(r *RNG, size int) tak.Slides {
	tbl := tak.VerifSlidesTable()
	switch x := r.Intn(10); {
	case x < 5:
		row := tbl[1+r.Intn(8)]
		return row[r.Intn(len(row))]
	case x < 6:
		return 0
	case x < 8:
		// composition with one nibble damaged: zero, 9..15, or an extra nibble
		row := tbl[1+r.Intn(8)]
		s := row[r.Intn(len(row))]
		k := uint(r.Intn(8)) * 4
		v := tak.Slides([]int{0, 0, 9, 15, 8, 1}[r.Intn(6)])
		return (s &^ (0xf << k)) | (v << k)
	default:
		return tak.Slides(r.Next())
	}
}

func randType(r *RNG) tak.MoveType {
	switch x := r.Intn(20); {
	case x < 14:
		return tak.MoveType(2 + r.Intn(7))
	case x < 17:
		return tak.MoveType(r.Intn(17))
	case x < 18:
		return 0
	case x < 19:
		return 255
	default:
		return tak.MoveType(r.Next())
	}
}

// rawMove draws from the malformed stream; Pass is excluded (outside the claim).
func rawMove(r *RNG, size int) tak.Move {
	for {
		m := tak.Move{X: randCoord(r, size), Y: randCoord(r, size), Type: randType(r), Slides: randSlides(r, size)}
		if m.Type == tak.Pass {
			continue
		}
		return m
	}
}

func classifyPos(c *Ctx, p *tak.Position) {
	c.Count("size" + strconv.Itoa(p.Size()))
	if p.MoveNumber() < 2 {
		c.Count("pos.opening")
	}
	mh := 0
	r := p.VerifRaw()
	for _, h := range r.Height {
		if int(h) > mh {
			mh = int(h)
		}
	}
	switch {
	case mh > 12:
		c.Count("pos.maxheight>12")
	case mh > p.Size():
		c.Count("pos.maxheight>size")
	case mh > 1:
		c.Count("pos.maxheight>1")
	}
	if over, _ := p.GameOver(); over {
		c.Count("pos.over")
	}
}

func genC01(c *Ctx) {
	n := c.Scale(1600, 160000)
	for k := 0; k < n; k++ {
		p := randomPosition(c.R)
		classifyPos(c, p)
		tok := encPos(p)
		ms := p.AllMoves(nil)
		// a bounded random subset of the generated moves, and every one of them in 1 of 8 positions
		limit := 40
		if c.R.Chance(1, 8) {
			limit = len(ms)
		}
		for j := 0; j < limit && len(ms) > 0; j++ {
			var m tak.Move
			if limit == len(ms) {
				m = ms[j]
			} else {
				m = ms[c.R.Intn(len(ms))]
			}
			out := c.Emit("move " + tok + " " + encMove(m))
			c.Emit("smove " + tok + " " + encMove(m))
			tagMove(c, m, out)
		}
		for j := 0; j < 25; j++ {
			m := rawMove(c.R, p.Size())
			out := c.Emit("move " + tok + " " + encMove(m))
			c.Emit("smove " + tok + " " + encMove(m))
			tagMove(c, m, out)
		}
	}
}

func tagMove(c *Ctx, m tak.Move, out string) {
	kind := "place"
	if m.IsSlide() {
		kind = "slide"
	}
	if m.Type < 2 || m.Type > 8 {
		kind = "badtype"
	}
	res := "ok"
	if strings.HasPrefix(out, "err") {
		res = "err"
	} else if out == "panic" {
		res = "panic"
	}
	c.Count("move." + kind + "." + res)
}

// roadBoard builds a board around a random edge-to-edge walk of one colour, optionally broken.
func roadBoard(r *RNG, size int) *tak.Position {
	board := make([][]tak.Square, size)
	for y := range board {
		board[y] = make([]tak.Square, size)
	}
	col := []tak.Color{tak.White, tak.Black}[r.Intn(2)]
	other := col.Flip()
	horizontal := r.Chance(1, 2)
	// walk
	x, y := 0, r.Intn(size)
	if !horizontal {
		x, y = r.Intn(size), 0
	}
	path := [][2]int{}
	for {
		path = append(path, [2]int{x, y})
		if horizontal && x == size-1 || !horizontal && y == size-1 {
			break
		}
		d := r.Intn(4)
		nx, ny := x, y
		if horizontal {
			switch d {
			case 0, 1:
				nx++
			case 2:
				ny++
			case 3:
				ny--
			}
		} else {
			switch d {
			case 0, 1:
				ny++
			case 2:
				nx++
			case 3:
				nx--
			}
		}
		if nx < 0 || ny < 0 || nx >= size || ny >= size {
			continue
		}
		x, y = nx, ny
	}
	caps := 0
	for _, sq := range path {
		k := tak.Flat
		if caps == 0 && r.Chance(1, 8) {
			k = tak.Capstone
			caps++
		}
		board[sq[1]][sq[0]] = tak.Square{tak.MakePiece(col, k)}
	}
	// optional break: a wall, an enemy flat, or a hole somewhere on the path
	switch r.Intn(4) {
	case 0:
		sq := path[r.Intn(len(path))]
		board[sq[1]][sq[0]] = tak.Square{tak.MakePiece(col, tak.Standing)}
	case 1:
		sq := path[r.Intn(len(path))]
		board[sq[1]][sq[0]] = tak.Square{tak.MakePiece(other, tak.Flat)}
	case 2:
		sq := path[r.Intn(len(path))]
		board[sq[1]][sq[0]] = nil
	}
	// fill
	fill := r.Intn(100)
	second := r.Chance(1, 4) // maybe a road for the other colour too
	for yy := 0; yy < size; yy++ {
		for xx := 0; xx < size; xx++ {
			if board[yy][xx] != nil {
				continue
			}
			if second && (horizontal && xx == 0 || !horizontal && yy == 0) {
				continue
			}
			if r.Intn(100) < fill {
				k := tak.Flat
				if r.Chance(1, 3) {
					k = tak.Standing
				}
				cc := other
				if r.Chance(1, 3) {
					cc = col
				}
				board[yy][xx] = tak.Square{tak.MakePiece(cc, k)}
			}
		}
	}
	if second {
		// a straight road of the other colour along the free line, where still possible
		for i := 0; i < size; i++ {
			if horizontal {
				if board[i][0] == nil {
					board[i][0] = tak.Square{tak.MakePiece(other, tak.Flat)}
				}
			} else if board[0][i] == nil {
				board[0][i] = tak.Square{tak.MakePiece(other, tak.Flat)}
			}
		}
	}
	cfg := tak.Config{Size: size, BlackWinsTies: r.Chance(1, 2), Pieces: size*size + 2, Capstones: 2}
	p, err := tak.FromSquares(cfg, board, 2+r.Intn(60))
	if err != nil {
		panic(err)
	}
	return p
}

func genC02(c *Ctx) {
	n := c.Scale(24000, 2400000)
	for k := 0; k < n; k++ {
		var p *tak.Position
		if c.R.Chance(1, 2) {
			p = roadBoard(c.R, 3+c.R.Intn(6))
			c.Count("src.roadboard")
		} else {
			p = randomPosition(c.R)
			c.Count("src.random")
		}
		classifyPos(c, p)
		tok := encPos(p)
		out := c.Emit("over " + tok)
		c.Emit("sover " + tok)
		f := strings.Fields(out)
		if len(f) >= 3 {
			c.Count("over=" + f[0] + "." + f[1] + "." + f[2])
		}
		if c.R.Chance(1, 4) {
			c.Emit("dump " + tok)
		}
	}
}

func genC03(c *Ctx) {
	n := c.Scale(4000, 200000)
	for k := 0; k < n; k++ {
		p := randomPosition(c.R)
		classifyPos(c, p)
		tok := encPos(p)
		out := c.Emit("allmoves " + tok)
		c.Emit("slegal " + tok)
		c.Count("nmoves>=" + bucket2(len(strings.Fields(out))))
	}
}

func init() {
	genTable["C01"] = genC01
	genTable["C02"] = genC02
	genTable["C03"] = genC03
}
