package main

// Ops that observe positions through the EXPORTED accessors only (Top, At, Analysis(), ToMove, MoveNumber, reserves,
// Piece.IsRoad, GameOver), and the exported bitboard helpers Flood / BitCoords / TrailingZeros / Popcount.  Most
// other ops read the internal fields through the export files; a change that breaks an accessor while leaving the
// fields intact is visible only here.

import (
	"time"
	"context"
	"fmt"
	"sort"
	"strconv"
	"strings"
	"sync"

	"github.com/nelhage/taktician/ai"
	"github.com/nelhage/taktician/bitboard"
	"github.com/nelhage/taktician/tak"
)

// engines shared by all sessions of the process (one per board size), serialised: MinimaxAI is not reentrant
var evalEngines sync.Map

type lockedAI struct {
	mu sync.Mutex
	ai *ai.MinimaxAI
}

func sortedU64(xs []uint64) string {
	if len(xs) == 0 {
		return "-"
	}
	ys := append([]uint64(nil), xs...)
	sort.Slice(ys, func(i, j int) bool { return ys[i] < ys[j] })
	parts := make([]string, len(ys))
	for i, y := range ys {
		parts[i] = strconv.FormatUint(y, 10)
	}
	return strings.Join(parts, ",")
}

func accStr(p *tak.Position) string {
	n := p.Size()
	var tops, road strings.Builder
	for y := 0; y < n; y++ {
		for x := 0; x < n; x++ {
			if x+y > 0 {
				tops.WriteByte(',')
			}
			t := p.Top(x, y)
			sq := p.At(x, y)
			if t == 0 {
				tops.WriteByte('_')
				road.WriteByte('.')
				if len(sq) != 0 {
					tops.WriteString("!at-nonempty")
				}
				continue
			}
			tops.WriteString(pieceStr(t))
			tops.WriteString(strconv.Itoa(len(sq)))
			if len(sq) == 0 || sq[0] != t {
				tops.WriteString("!top-differs-from-at")
			}
			if t.IsRoad() {
				road.WriteByte('r')
			} else {
				road.WriteByte('s')
			}
		}
	}
	// what At and AllMoves return belongs to the caller: overwrite it and look again
	for y := 0; y < n; y++ {
		for x := 0; x < n; x++ {
			sq := p.At(x, y)
			for i := range sq {
				sq[i] = tak.Piece(0xEE)
			}
		}
	}
	ms := p.AllMoves(nil)
	for i := range ms {
		ms[i] = tak.Move{X: -9, Y: -9, Type: 77, Slides: 0xFFFFFFFF}
	}
	scribble := "ok"
	for y := 0; y < n && scribble == "ok"; y++ {
		for x := 0; x < n; x++ {
			t := p.Top(x, y)
			sq := p.At(x, y)
			if (t == 0) != (len(sq) == 0) || len(sq) > 0 && sq[0] != t {
				scribble = "at-result-shared"
				break
			}
			for _, pc := range sq {
				if pc == tak.Piece(0xEE) {
					scribble = "at-result-shared"
				}
			}
		}
	}
	for _, m := range p.AllMoves(nil) {
		if m.Type == 77 {
			scribble = "allmoves-result-shared"
		}
	}
	an := p.Analysis()
	over, w := p.GameOver()
	return fmt.Sprintf("sz=%d tm=%s mn=%d ws=%d bs=%d tops=%s road=%s wg=%s bg=%s over=%d%s own=%s",
		n, colorStr(p.ToMove()), p.MoveNumber(), p.WhiteStones(), p.BlackStones(), tops.String(), road.String(),
		sortedU64(an.WhiteGroups), sortedU64(an.BlackGroups), b2i(over), colorStr(w), scribble)
}

func init() {
	opTable["acc"] = func(s *Session, a []string) string { return accStr(decPos(a[0])) }
	// the accessors on the successor of a move (Move's result is a different object than a decoded position)
	opTable["accmove"] = func(s *Session, a []string) string {
		p := decPos(a[0])
		n, err := p.Move(decMove(a[1]))
		if err != nil {
			return "err"
		}
		return accStr(n)
	}
	opTable["api.flood"] = func(s *Session, a []string) string {
		c := bitboard.Precompute(uint(atoi(a[0])))
		return strconv.FormatUint(bitboard.Flood(&c, atou(a[1]), atou(a[2])), 10)
	}
	opTable["api.bits"] = func(s *Session, a []string) string {
		c := bitboard.Precompute(uint(atoi(a[0])))
		b := atou(a[1])
		x, y := bitboard.BitCoords(&c, b&-b) // lowest set bit (callers pass single bits); 0 panics -> "panic"
		return fmt.Sprintf("tz=%d pop=%d xy=%d,%d", bitboard.TrailingZeros(b), bitboard.Popcount(b), x, y)
	}
	// movepre2: a move into caller-supplied storage that has just been through a REJECTED move (the error paths of
	// MovePreallocated return after copying and, for slides, after changing squares along the way) and, before that,
	// through another position.  Required: exactly what `move` gives for the good move.
	opTable["movepre2"] = func(s *Session, a []string) string {
		p := decPos(a[0])
		buf := tak.Alloc(p.Size())
		if d := decPos(a[3]); d.Size() == p.Size() {
			d.MovePreallocated(tak.Move{Type: tak.Pass}, buf)
		}
		if _, err := p.MovePreallocated(decMove(a[1]), buf); err == nil {
			// not rejected after all: still a legitimate earlier use of the buffer
		}
		n, err := p.MovePreallocated(decMove(a[2]), buf)
		if err != nil {
			return "err"
		}
		return "ok " + dumpPos(n)
	}
	// overstack: the game-end verdict of a position that lives in a search-stack frame whose parent's frame has been
	// reused: p --m1--> A (frame 1) --m2--> B (frame 2), then a sibling of A is generated into frame 1
	opTable["overstack"] = func(s *Session, a []string) string {
		p := decPos(a[0])
		f1, f2 := tak.Alloc(p.Size()), tak.Alloc(p.Size())
		A, err := p.MovePreallocated(decMove(a[1]), f1)
		if err != nil {
			return "err"
		}
		B, err := A.MovePreallocated(decMove(a[2]), f2)
		if err != nil {
			return "err"
		}
		if _, err := p.MovePreallocated(decMove(a[3]), f1); err != nil {
			p.MovePreallocated(tak.Move{Type: tak.Pass}, f1)
		}
		return fmtOutcome(B) + " " + accStr(B)
	}
	// cfgreuse: a Config value taken from an existing game (Position.Config()) and edited - other size, piece counts,
	// tie-break flag - is a configuration like any other: the position built from it is judged by ITS size
	opTable["cfgreuse"] = func(s *Session, a []string) string {
		src, b := decPos(a[0]), decPos(a[1])
		cfg := src.Config()
		bc := b.Config()
		cfg.Size, cfg.Pieces, cfg.Capstones, cfg.BlackWinsTies = bc.Size, bc.Pieces, bc.Capstones, bc.BlackWinsTies
		n := b.Size()
		board := make([][]tak.Square, n)
		for y := 0; y < n; y++ {
			board[y] = make([]tak.Square, n)
			for x := 0; x < n; x++ {
				board[y][x] = b.At(x, y)
			}
		}
		q, err := tak.FromSquares(cfg, board, b.MoveNumber())
		if err != nil {
			return "err"
		}
		fresh := tak.New(cfg)
		return fmtOutcome(q) + " " + accStr(q) + " new=" + strconv.Itoa(fresh.Size()) + "," + strconv.Itoa(fresh.WhiteStones())
	}
	// newplay <size> <pieces> <caps> <bwt> <moves...>: a game from tak.New(cfg) - the configuration as the CALLER wrote it
	// (any of the counts may be left 0 = standard) - played through Position.Move up to the first refused move
	opTable["newplay"] = func(s *Session, a []string) string {
		cfg := tak.Config{Size: atoi(a[0]), Pieces: atoi(a[1]), Capstones: atoi(a[2]), BlackWinsTies: a[3] != "0"}
		p := tak.New(cfg)
		for i, t := range a[4:] {
			n, err := p.Move(decMove(t))
			if err != nil {
				return "err@" + strconv.Itoa(i) + " " + dumpPos(p)
			}
			p = n
		}
		return "ok " + dumpPos(p)
	}
	// overclone: the verdict of a CLONE of a position that lived in a search-stack frame, after that frame was reused
	opTable["overclone"] = func(s *Session, a []string) string {
		p := decPos(a[0])
		f1 := tak.Alloc(p.Size())
		A, err := p.MovePreallocated(decMove(a[1]), f1)
		if err != nil {
			return "err"
		}
		K := A.Clone()
		if _, err := p.MovePreallocated(decMove(a[2]), f1); err != nil {
			p.MovePreallocated(tak.Move{Type: tak.Pass}, f1)
		}
		return fmtOutcome(K) + " " + accStr(K)
	}
	// evalmm: the exported method MinimaxAI.Evaluate on ONE engine per board size that is kept for the whole run (default
	// configuration, transposition table on), so that whatever the engine remembers between calls meets positions of
	// other games, other piece counts and other tie-break settings
	opTable["evalmm"] = func(s *Session, a []string) string {
		p := decPos(a[0])
		key := "evalmm-engine:" + strconv.Itoa(p.Size())
		e, _ := evalEngines.Load(key)
		if e == nil {
			e, _ = evalEngines.LoadOrStore(key, &lockedAI{ai: ai.NewMinimax(ai.MinimaxConfig{Size: p.Size(), Depth: 1})})
		}
		la := e.(*lockedAI)
		la.mu.Lock()
		defer la.mu.Unlock()
		if len(a) > 1 && a[1] == "s" {
			// the engine has just searched (this very position, depth 1) under a context that ended afterwards, as after
			// the usual `defer cancel()`; give the watcher goroutine of that search time to act
			ctx, cancel := context.WithCancel(context.Background())
			la.ai.Analyze(ctx, p)
			cancel()
			time.Sleep(300 * time.Microsecond)
		}
		return strconv.FormatInt(la.ai.Evaluate(p), 10)
	}
	// the precise configuration exactly as users obtain it: MinimaxConfig.MakePrecise() on a default-flag configuration
	opTable["mkprecise"] = func(s *Session, a []string) string {
		kv := parseKV(a[0])
		cfg := ai.MinimaxConfig{Size: 5, MultiCut: kvInt(kv, "mc", 0) == 1, NoNullMove: kvInt(kv, "null", 1) == 0,
			NoReduceSlides: kvInt(kv, "red", 1) == 0}
		cfg.MakePrecise()
		return fmt.Sprintf("null=%d red=%d mc=%d", b2i(!cfg.NoNullMove), b2i(!cfg.NoReduceSlides), b2i(cfg.MultiCut))
	}
}
