package main

import (
	"fmt"
	"strings"

	"github.com/nelhage/taktician/ai"
	"github.com/nelhage/taktician/tak"
)

// `fn.*` ops of the sixth batch of regenerated functions (work package gen6): Generated/FuncsMoveIter.lean - the state machine of
// the move generator, ai/moves.go `moveGenerator.Reset` / `Next`.  The Go op runs the REAL `Next` on a bare generator holding
// exactly the given fields (harness/export/ai__genfn6.go); the Lean side evaluates the regenerated definition, whose three
// ORACLE parameters (`p.AllMoves`, `p.MovePreallocated`, `sortMoves`) are tables in the op line.  The tables are taken from the
// real calls by the generator AND re-checked by the Go op against the real calls (`oracle-mismatch` otherwise), so a replayed
// or hand-edited line cannot smuggle in a wrong oracle.  Generator: FNITER (C05; C04 and C16 use the same bridge).
//
//	fn.mgnext <pos> <ply> <depth> <NoSort> <te: nil|move> <pv: -|moves> <response> <history> <15 frame moves> <i> <r> <ms: nil|-|moves>
//	          <AllMoves: -|moves> <sortMoves result: -|moves> <MovePreallocated graph: -|move=childhash;...>
//	   ->  <move> <nil|childhash> <i> <ms> <r>   |   panic

func mvsTok0(ms []tak.Move, isNil bool) string {
	if isNil {
		return "nil"
	}
	if len(ms) == 0 {
		return "-"
	}
	return mvsTok(ms)
}

func parseMvs0(s string) []tak.Move {
	switch s {
	case "nil":
		return nil
	case "-":
		return []tak.Move{}
	}
	return parseMvs(s)
}

// the oracle tables of one `Next` call, from the real functions
func mgOracles(g *ai.VerifMG) (all, sorted string, graph string) {
	am := g.P.AllMoves(nil)
	at := am
	if g.MS != nil {
		at = g.MS
	}
	st := ai.VerifSortMoves(g.History, at)
	cands := append([]tak.Move{}, at...)
	cands = append(cands, g.TEM, g.R)
	if len(g.PV) > 0 {
		cands = append(cands, g.PV[0])
	}
	if g.Ply >= 1 && g.Ply <= len(g.Frames) && g.Response != nil {
		if rm, ok := g.Response[g.Frames[g.Ply-1]]; ok {
			cands = append(cands, rm)
		}
	}
	seen := map[tak.Move]bool{}
	var gr []string
	for _, m := range cands {
		if seen[m] {
			continue
		}
		seen[m] = true
		func() {
			defer func() { recover() }()
			if child, err := g.P.MovePreallocated(m, nil); err == nil && child != nil {
				gr = append(gr, fmt.Sprintf("%s=%d", mvTok(m), child.Hash()))
			}
		}()
	}
	graph = "-"
	if len(gr) > 0 {
		graph = strings.Join(gr, ";")
	}
	return mvsTok0(am, false), mvsTok0(st, false), graph
}

func parseMG(a []string) *ai.VerifMG {
	g := &ai.VerifMG{P: decPos(a[0]), Ply: atoi(a[1]), Depth: atoi(a[2]), NoSort: a[3] == "1", Response: parseResp(a[6]), History: parseHist(a[7]),
		Frames: parseMvs(a[8]), I: atoi(a[9]), R: parseMvTok(a[10]), MS: parseMvs0(a[11])}
	if a[4] != "nil" {
		g.HasTE, g.TEM = true, parseMvTok(a[4])
	}
	if a[5] != "-" {
		g.PV = parseMvs(a[5])
	}
	return g
}

func mgLine(g *ai.VerifMG) string {
	te := "nil"
	if g.HasTE {
		te = mvTok(g.TEM)
	}
	all, sorted, graph := mgOracles(g)
	return fmt.Sprintf("fn.mgnext %s %d %d %d %s %s %s %s %s %d %s %s %s %s %s", encRaw(g.P.VerifRaw(), false), g.Ply, g.Depth, b2i(g.NoSort), te,
		mvsTok0(g.PV, false), respTok(g.Response), histTok(g.History), mvsTok(g.Frames), g.I, mvTok(g.R), mvsTok0(g.MS, g.MS == nil), all, sorted, graph)
}

func init() {
	opTable["fn.mgnext"] = func(s *Session, a []string) string {
		g := parseMG(a)
		all, sorted, graph := mgOracles(g)
		if all != a[12] || sorted != a[13] || graph != a[14] {
			return "oracle-mismatch"
		}
		mv, child := ai.VerifMGNext(g)
		ch := "nil"
		if child != nil {
			ch = fmt.Sprint(child.Hash())
		}
		return fmt.Sprintf("%s %s %d %s %s", mvTok(mv), ch, g.I, mvsTok0(g.MS, g.MS == nil), mvTok(g.R))
	}
	opTable["fn.mgreset"] = func(s *Session, a []string) string { return fmt.Sprint(ai.VerifMGReset(atoi(a[0]))) }
	genTable["FNITER"] = genFNITER
}

func genFNITER(c *Ctx) {
	r := c.R
	for k := 0; k < c.Scale(40, 4000); k++ {
		c.Emit(fmt.Sprintf("fn.mgreset %d", []int{0, 1, 4, 77, -3, 1 << 40}[r.Intn(6)]))
	}
	for k := 0; k < c.Scale(240, 24000); k++ {
		p := randomPosition(r)
		if p == nil {
			continue
		}
		am := p.AllMoves(nil)
		pick := func() tak.Move {
			// mostly a generated move, sometimes one that is not in the list (illegal here, or the pass / zero move)
			if len(am) > 0 && r.Chance(3, 4) {
				return am[r.Intn(len(am))]
			}
			return randMv(r)
		}
		g := &ai.VerifMG{P: p, Ply: r.Intn(15), Depth: r.Intn(4), NoSort: r.Chance(1, 2), Frames: frameMoves(r),
			Response: map[tak.Move]tak.Move{}, History: map[tak.Move]int{}}
		for i := r.Intn(6); i > 0; i-- {
			g.History[pick()] = r.Intn(1 << 12)
		}
		hints := r.Intn(8) // bit 0: table move, bit 1: PV, bit 2: response
		dup := r.Chance(1, 3)
		first := pick()
		if hints&1 != 0 {
			g.HasTE, g.TEM = true, first
		}
		if hints&2 != 0 {
			g.PV = []tak.Move{pick(), pick()}
			if dup {
				g.PV[0] = first
			}
		}
		if g.Ply > 0 {
			if hints&4 != 0 {
				g.Response[g.Frames[g.Ply-1]] = pick()
				if dup {
					g.Response[g.Frames[g.Ply-1]] = first
				}
			}
			for i := r.Intn(3); i > 0; i-- {
				k := randMv(r)
				if k != g.Frames[g.Ply-1] {
					g.Response[k] = pick()
				}
			}
		}
		switch r.Intn(12) {
		case 0:
			g.Ply = []int{-1, 15, 16, 1 << 40}[r.Intn(4)]
		case 1:
			g.Response = nil
		case 2:
			g.Ply = 0
		}
		c.Count(fmt.Sprintf("hints=%d dup=%v", hints, dup))
		// one enumeration: the state is threaded through the real calls; every step is one self-contained line
		steps := 0
		for ; steps < 12; steps++ {
			line := mgLine(g)
			out := c.Emit(line)
			if out == "panic" || out == "oracle-mismatch" {
				c.Count("next=" + out)
				break
			}
			f := strings.Fields(out)
			if len(f) != 5 {
				break
			}
			g.I, g.MS, g.R = atoi(f[2]), parseMvs0(f[3]), parseMvTok(f[4])
			if f[1] == "nil" {
				c.Count("next=end")
				break
			}
			c.Count("next=move")
			if g.MS != nil && r.Chance(1, 6) {
				g.I += len(am) / 2 // jump ahead: the end of the list is reached within the step budget
			}
		}
		// arbitrary states: counters before / at / beyond the list, negative; explicit lists (empty, one move, short)
		for j := 0; j < 3; j++ {
			h := *g
			h.I = []int{0, 1, 2, 3, 4, 5, 4 + len(am) - 1, 4 + len(am), 4 + len(am) + 3, -1, -7}[r.Intn(11)]
			switch r.Intn(5) {
			case 0:
				h.MS = nil
			case 1:
				h.MS = []tak.Move{}
				h.I = 3 + r.Intn(3)
			case 2:
				h.MS = []tak.Move{pick()}
				h.I = 3 + r.Intn(3)
			case 3:
				h.MS = append([]tak.Move{}, am...)
			default:
				h.MS = []tak.Move{pick(), pick(), pick()}
			}
			h.R = pick()
			out := c.Emit(mgLine(&h))
			switch {
			case out == "panic":
				c.Count("state=panic")
			case strings.Contains(out, " nil "):
				c.Count("state=end")
			default:
				c.Count("state=move")
			}
		}
	}
}
