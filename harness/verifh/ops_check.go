package main

// op `gluewait <size> m<move>...` (C07, work package botcompose2): a real Friendly (no FPA rule) whose game was started
// through the real NewGame - so f.check is the engine NewGame builds -, the record after the given moves, then the real
// waitUndo(p) on the newest position with the REAL check engine.  Model side: Tak.Compose.waitUndoK on
// Tak.Compose.minimaxChecker (lean/Driver/OpsCheck.lean).
//
// Reported: `ask=<0|1>` (the first analysis found a value >= WinThreshold at depth <= 1), `n=` how often the engine was
// consulted, and - only without a win in one, where it is false - the decision.  With a win in one the decision hangs
// on the class of a depth-3 value searched with slide reduction ON and history-heuristic move ordering: that value can
// depend on the move order (the reduction is applied in zwSearch only), which the model does not mirror, so it is not
// compared (a comparison that can alarm on correct code is worse than none).

import (
	"strconv"
	"strings"

	"github.com/nelhage/taktician/ai"
	fpa "github.com/nelhage/taktician/cmd/internal/playtak"
	"github.com/nelhage/taktician/tak"
)

func init() {
	opTable["gluewait"] = func(s *Session, a []string) string {
		if len(a) < 1 {
			return "bad-op"
		}
		size := atoi(a[0])
		if size < 3 || size > 8 {
			return "bad-op"
		}
		v := fpa.VerifNewGlueFriendly("none", tak.White, size, -1, false)
		defer v.Close()
		for _, tok := range a[1:] {
			if !strings.HasPrefix(tok, "m") {
				return "bad-op"
			}
			if err := v.Push(decMove(tok[1:])); err != nil {
				return "illegal"
			}
		}
		p := v.G.Positions[len(v.G.Positions)-1]
		if over, _ := p.GameOver(); over {
			return "over"
		}
		w, obs := v.VerifWaitUndo(p)
		if len(obs) == 0 {
			return "noobs"
		}
		ask := obs[0].V >= ai.WinThreshold && obs[0].Depth <= 1
		out := "ask=" + b2s(ask) + " n=" + strconv.Itoa(len(obs))
		if !ask {
			out += " w=" + b2s(w)
		}
		return out
	}
	genTable["C07check"] = genCheck
}

func b2s(b bool) string {
	if b {
		return "1"
	}
	return "0"
}

// Generator "C07check": random playouts on 3x3 and 4x4 boards (wins in one are frequent there), waitUndo asked after
// every ply from the second on.
func genCheck(c *Ctx) {
	n := c.Scale(160, 1600)
	for i := 0; i < n; i++ {
		size := 3
		if c.R.Chance(1, 3) {
			size = 4
		}
		p := tak.New(tak.Config{Size: size})
		var toks []string
		plies := 2 + c.R.Intn(9)
		for k := 0; k < plies; k++ {
			ms := legalMoves(p)
			if len(ms) == 0 {
				break
			}
			m := ms[c.R.Intn(len(ms))]
			next, err := p.Move(m)
			if err != nil {
				break
			}
			toks = append(toks, "m"+encMove(m))
			p = next
			if over, _ := p.GameOver(); over {
				break
			}
			if k >= 1 {
				out := c.Emit("gluewait " + strconv.Itoa(size) + " " + strings.Join(toks, " "))
				c.Count("check:" + strings.SplitN(out, " ", 2)[0])
			}
		}
	}
}
