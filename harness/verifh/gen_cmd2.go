package main

// Generators of work package "cmdglue2": C15canon (`taktician canonicalize`), C11import (`taktician import-ptn`),
// C13play (`taktician play` with two human players on scripted standard input).

import (
	"bytes"
	"strconv"
	"strings"

	"github.com/nelhage/taktician/cmd/internal/importptn"
	"github.com/nelhage/taktician/playtak"
	"github.com/nelhage/taktician/ptn"
	"github.com/nelhage/taktician/tak"
)

// ---------------------------------------------------------------- C15canon

// printfBits: what fmt.Printf(g.Render()) may meet after a `%` that a comment or a tag value carries
var printfBits = []string{"%", "%%", "%d", "%s", "%v", "%5.2f", "%[1]d", "%[x", "%[", "%[]", "%[1", "%[12]", "%*d", "%.*d", "%-", "% 2. a1", "%\xc3\xa9", "%\xff", "100%",
	"%!", "%[2]*[1]d", "%]", "%99999999d", "%1000000d", "%1000001d", "%10000000d", "%.", "%.5", "%[3].2d", "%[0]d", "%[1]", "%#0+- x", "%.[1]", "%.[1]d", "%[1].[2]d", "%[1]*d", "%.3", "%3.",
	"%\xe2\x82\xac", "%\xe2\x82", "%\xed\xa0\x80", "%\xf0\x9f\x98\x80", "%\xf4\x90\x80\x80", "%\xc0\x80", "%[1][2]d", "%[a]d", "%[-1]d", "%[+1]d", "%[1]%", "%5%", "%.2%", "%[1]2d", "%[9999999]d"}

func percentText(r *RNG) string {
	var sb strings.Builder
	for k := 1 + r.Intn(3); k > 0; k-- {
		sb.WriteString(string(randText(r, 4, "\"]}")))
		sb.WriteString(printfBits[r.Intn(len(printfBits))])
		if r.Chance(1, 3) {
			sb.WriteString(string(randText(r, 4, "\"]}")))
		}
	}
	return strings.Map(func(c rune) rune {
		if c == '}' || c == '"' {
			return -1
		}
		return c
	}, sb.String())
}

// canonFile: a PTN file around the game ms: Size tag, further tags, move numbers, annotation marks, comments, a result
func canonFile(c *Ctx, sizeVal string, ms []tak.Move, percent bool) *ptn.PTN {
	r := c.R
	p := &ptn.PTN{}
	if sizeVal != "\x00none" {
		p.Tags = append(p.Tags, ptn.Tag{Name: "Size", Value: sizeVal})
	}
	for k := r.Intn(3); k > 0; k-- {
		name := []string{"Player1", "Player2", "Date", "Result", "Event", "X"}[r.Intn(6)]
		val := string(randText(r, 10, "\"]%"))
		if percent && r.Chance(1, 2) {
			val = strings.ReplaceAll(percentText(r), "]", "")
			c.Count("canon.percent-in-tag")
		}
		p.Tags = append(p.Tags, ptn.Tag{Name: name, Value: val})
	}
	if r.Chance(1, 4) && len(p.Tags) > 1 {
		i := r.Intn(len(p.Tags))
		p.Tags[0], p.Tags[i] = p.Tags[i], p.Tags[0]
	}
	sfx := annotSuffixes()
	comment := func() {
		if r.Chance(1, 6) {
			txt := strings.ReplaceAll(string(randText(r, 12, "}%")), "{", "")
			if percent && r.Chance(2, 3) {
				txt = percentText(r)
				c.Count("canon.percent-in-comment")
			}
			p.Ops = append(p.Ops, &ptn.Comment{Comment: txt})
		}
	}
	comment()
	for i, m := range ms {
		if i%2 == 0 {
			p.Ops = append(p.Ops, &ptn.MoveNumber{Number: i/2 + 1})
		}
		mv := &ptn.Move{Move: m}
		if r.Chance(1, 6) {
			mv.Modifiers = sfx[r.Intn(len(sfx))]
		}
		p.Ops = append(p.Ops, mv)
		comment()
	}
	if r.Chance(1, 3) {
		p.Ops = append(p.Ops, &ptn.Result{Result: []string{"R-0", "0-R", "F-0", "0-F", "1/2-1/2", "1-0", "0-1"}[r.Intn(7)]})
	}
	return p
}

func emitCanon(c *Ctx, text []byte) string {
	out := c.Emit("cmd.canon " + hexEnc(text))
	switch {
	case strings.HasPrefix(out, "out "):
		c.Count("canon.out")
	default:
		c.Count("canon." + out)
	}
	return out
}

func genC15canon(c *Ctx) {
	r := c.R
	for it := c.Scale(500, 16000); it > 0; it-- {
		size := 3 + r.Intn(6)
		if r.Chance(1, 3) {
			size = 3 + r.Intn(3)
		}
		var ms []tak.Move
		if r.Chance(1, 8) {
			if tg := towerGame(r, []int{3, 3, 4, 5}[r.Intn(4)]); tg != nil {
				size, ms = tg.size, tg.ms
				if len(tg.marks) > 0 {
					ms = ms[:tg.marks[r.Intn(len(tg.marks))]]
				}
				c.Count("game.tower")
			}
		}
		if ms == nil {
			ms, _ = symGame(r, tak.Config{Size: size}, 2+r.Intn(4*size))
		}
		c.Count("size" + strconv.Itoa(size))
		c.Count("len~" + strconv.Itoa(len(ms)/8*8))
		percent := r.Chance(1, 6)
		skeleton := r.Fork()
		build := func(moves []tak.Move) []byte {
			// the same tags / comments / marks around another move list: fork the generator state
			saved := c.R
			c.R = NewRNG(skeleton.s)
			defer func() { c.R = saved }()
			text := []byte(canonFile(c, strconv.Itoa(size), moves, percent).Render())
			return text
		}
		text := build(ms)
		if r.Chance(1, 8) {
			text = append(append([]byte{}, bom...), text...)
			c.Count("file.bom")
		}
		out := emitCanon(c, text)
		if strings.HasPrefix(out, "out ") {
			printed := hexDec(out[4:])
			// the command on its own output
			if again := emitCanon(c, printed); again == out {
				c.Count("canon.idempotent-observed")
			} else if !percent {
				c.Count("canon.NOT-idempotent")
			}
			if back, err := ptn.ParsePTN(bytes.NewReader(printed)); err == nil {
				n := 0
				for _, o := range back.Ops {
					if _, ok := o.(*ptn.Move); ok {
						n++
					}
				}
				if n == len(ms) {
					c.Count("canon.output-reparsed-same-length")
				}
			}
		}
		// the images of the game in the same file skeleton
		ks := []int{1 + r.Intn(7)}
		if r.Chance(1, 6) {
			ks = []int{1, 2, 3, 4, 5, 6, 7}
		}
		for _, k := range ks {
			if o := emitCanon(c, build(gMoves(k, size, ms))); o == out {
				c.Count("canon.image-same-output")
			} else {
				c.Count("canon.image-OTHER-output")
			}
		}
		// illegal games
		if r.Chance(1, 4) && len(ms) > 0 {
			bad := append([]tak.Move{}, ms...)
			i := r.Intn(len(bad))
			switch r.Intn(4) {
			case 0:
				bad[i] = bad[r.Intn(len(bad))]
				c.Count("bad.repeated-move")
			case 1:
				bad = append(bad, bad[len(bad)-1])
				c.Count("bad.last-move-twice")
			case 2:
				bs := namedBadSlides(r, size)
				bad[i] = bs[r.Intn(len(bs))]
				c.Count("bad.slide")
			case 3:
				bad[i] = rawMove(r, size)
				c.Count("bad.raw-move")
			}
			ok := true
			for _, m := range bad {
				ok = ok && formattable(m)
			}
			if ok {
				emitCanon(c, build(bad))
			}
		}
		// the Size tag as the command reads it (strconv.ParseUint, then tak.New inside symmetry.Canonical)
		if r.Chance(1, 12) {
			sv := []string{"9", "0", "", "+5", "05", " 5", "5 ", "4294967296", "4294967295", "-1", "5x", "\x00none", "2", "1", "10", "0x5", "5_0", "008", "18446744073709551616",
				strconv.Itoa(size + 1), strconv.Itoa(size - 1), "0" + strconv.Itoa(size)}[r.Intn(22)]
			c.Count("bad.size-tag")
			emitCanon(c, []byte(canonFile(c, sv, ms, false).Render()))
		}
	}
	// files as generator C12 writes them (any start position: the command ignores a TPS tag) and files that are not games
	pool := handcraftedPTN()
	for k := c.Scale(160, 6000); k > 0; k-- {
		var b []byte
		switch x := r.Intn(6); {
		case x == 0:
			for {
				b = pool[r.Intn(len(pool))]
				if len(b) < 5000 {
					break
				}
			}
			c.Count("file.handmade")
		case x == 1:
			b = randPTNBytes(r, 40+r.Intn(200))
			c.Count("file.random-bytes")
		case x < 4:
			g := randomGame(c)
			if g.nmoves > 60 {
				continue
			}
			b = gameText(c, g)
			c.Count("file.c12-game")
		default:
			ms, _ := symGame(r, tak.Config{Size: 3 + r.Intn(4)}, 2+r.Intn(12))
			b = mutateBytes(r, []byte(canonFile(c, strconv.Itoa(3+r.Intn(4)), ms, r.Chance(1, 4)).Render()), append([]byte("%%[]{}\""), oddPool...))
			c.Count("file.mutated")
		}
		emitCanon(c, b)
	}
	if c.Shard == 0 {
		c.Emit("cmd.canon 0")
		c.Emit("cmd.canon !")
		c.Emit("cmd.canon -")
	}
}

// ---------------------------------------------------------------- C11import

func serverGame(r *RNG, size, maxPlies int) []string {
	var ws []string
	playoutMoves(r, tak.Config{Size: size}, maxPlies, func(m tak.Move) { ws = append(ws, playtak.FormatServer(m)) })
	return ws
}

// playoutMoves: a random legal game from the start; f gets every move played
func playoutMoves(r *RNG, cfg tak.Config, maxPlies int, f func(m tak.Move)) *tak.Position {
	p := tak.New(cfg)
	for ply := 0; ply < maxPlies; ply++ {
		if over, _ := p.GameOver(); over {
			break
		}
		ms := legalMoves(p)
		if len(ms) == 0 {
			break
		}
		m := ms[r.Intn(len(ms))]
		// slides are rare among all legal moves early on: prefer them sometimes
		if r.Chance(1, 3) {
			for tries := 0; tries < 8; tries++ {
				if c := ms[r.Intn(len(ms))]; c.IsSlide() {
					m = c
					break
				}
			}
		}
		n, err := p.Move(m)
		if err != nil {
			panic("playoutMoves: legal move rejected")
		}
		f(m)
		p = n
	}
	return p
}

func importRow(c *Ctx, id int) (importptn.VerifGame, bool) {
	r := c.R
	size := 3 + r.Intn(6)
	ws := serverGame(r, size, 1+r.Intn(40))
	good := true
	sep := ","
	switch x := r.Intn(24); {
	case x == 0:
		ws = nil
		c.Count("row.empty-notation")
	case x == 1 && len(ws) > 0:
		i := r.Intn(len(ws))
		ws[i] = mutate(r, ws[i], serverAlphabet, serverTokens)
		c.Count("row.mutated-move")
		good = false
	case x == 2:
		ws = append(ws, "")
		c.Count("row.trailing-comma")
		good = false
	case x == 3 && len(ws) > 0:
		i := r.Intn(len(ws))
		ws[i] = strings.Repeat(" ", r.Intn(3)) + ws[i] + strings.Repeat(" ", r.Intn(3))
		c.Count("row.padded-move")
	case x == 4 && len(ws) > 0:
		ws[r.Intn(len(ws))] = strings.ToLower(ws[0])
		c.Count("row.lower-case")
		good = false
	case x == 5:
		sep = ", "
		c.Count("row.comma-space")
	case x == 6 && len(ws) > 0:
		i := r.Intn(len(ws))
		ws[i] = []string{"\t" + ws[i], ws[i] + "\n", ws[i] + ",", "", " ", "P", "M A1", "P A1 X", "M A1 A2 9", "P I1", "M A1 A1 1", "M A1 B2 1", "M A1 A3 1 1 1", "P A1 W C"}[r.Intn(14)]
		c.Count("row.odd-move")
		good = false
	case x == 7:
		sep = ";"
		c.Count("row.wrong-separator")
		good = false
	}
	names := []string{"nelhage", "Guest3179", "TakticianBot", "a \"quoted\" name", "", "Ümlaut", "100%", "tab\tname", "new\nline", "{brace}", "nelhage", "Guest17", "alphatak_bot", "x y", "IntuitionBot"}
	if r.Chance(1, 40) {
		names = []string{"x]y"} // outside what Render can write back (C12: tagSafe)
	}
	results := []string{"R-0", "0-R", "F-0", "0-F", "1/2-1/2", "1-0", "0-1", "", "0-0", "bogus", "R-0\""}
	dates := []int{0, 1, 999, 1000, -1, -1001, 1486326678000, 1486326678123, 951782400000, 1709164800000 + r.Intn(1000000000), 4102444800000, -62135596800000, r.Intn(2000000000) * 1000}
	timers := []int{0, 0, 60, 600, 1200, 90, -90, 59, 3600, 5, -5, 2147483647, -2147483648, r.Intn(100000)}
	incs := []int{0, 0, 0, 5, 30, -3, 2147483647}
	g := importptn.VerifGame{
		Id: id, Date: dates[r.Intn(len(dates))], Size: []int{size, size, size, 0, -1, 9, 2147483647}[r.Intn(7)],
		PlayerWhite: names[r.Intn(len(names))], PlayerBlack: names[r.Intn(len(names))],
		Notation: strings.Join(ws, sep), Result: results[r.Intn(len(results))],
		TimerTime: timers[r.Intn(len(timers))], TimerInc: incs[r.Intn(len(incs))],
	}
	return g, good
}

func genC11import(c *Ctx) {
	r := c.R
	id := 1 + r.Intn(1000)
	for k := c.Scale(700, 30000); k > 0; k-- {
		id += 1 + r.Intn(5)
		g, _ := importRow(c, id)
		out := c.Emit("cmd.imp1 " + encRow(g))
		c.Count("imp1." + strings.Fields(out)[0])
		if strings.HasPrefix(out, "ok ") {
			// second opinion inside the harness: the text is a PTN file whose moves are the row's moves
			if back, err := ptn.ParsePTN(strings.NewReader(unhex(out[3:]))); err == nil {
				var ss []string
				for _, o := range back.Ops {
					if m, ok := o.(*ptn.Move); ok {
						ss = append(ss, playtak.FormatServer(m.Move))
					}
				}
				var want []string
				for _, w := range strings.Split(g.Notation, ",") {
					want = append(want, strings.Trim(w, " "))
				}
				if strings.Join(ss, ",") == strings.Join(want, ",") {
					c.Count("imp1.reparsed-same-moves")
				} else {
					c.Count("imp1.reparsed-OTHER-moves")
				}
			} else {
				c.Count("imp1.output-unparsable")
			}
		}
	}
	// the whole command on a database: good and bad rows mixed (a bad game is skipped, its neighbours are imported)
	for k := c.Scale(96, 3000); k > 0; k-- {
		n := 1 + r.Intn(7)
		var toks []string
		nbad := 0
		for i := 0; i < n; i++ {
			id += 1 + r.Intn(5)
			g, good := importRow(c, id)
			if !good {
				nbad++
			}
			toks = append(toks, encRow(g))
		}
		switch {
		case nbad == 0:
			c.Count("impdb.all-good")
		case nbad == n:
			c.Count("impdb.all-bad")
		default:
			c.Count("impdb.mixed")
		}
		out := c.Emit("cmd.impdb " + strings.Join(toks, " "))
		if strings.Contains(out, "again=same") {
			c.Count("impdb.second-run-adds-nothing")
		}
		if strings.Contains(out, "FATAL") || out == "panic" {
			c.Count("impdb.FATAL")
		}
	}
}

// ---------------------------------------------------------------- C13play

func genC13play(c *Ctx) {
	r := c.R
	sfx := annotSuffixes()
	for k := c.Scale(400, 14000); k > 0; k-- {
		size := []int{3, 3, 3, 4, 4, 5}[r.Intn(6)]
		var lines []string
		nGood, nBad := 0, 0
		finished := false
		p := tak.New(tak.Config{Size: size})
		maxPlies := 2 + r.Intn(6*size*size)
		if r.Chance(1, 2) {
			maxPlies = 1000 // to the end of the game
		}
		for ply := 0; ply < maxPlies; ply++ {
			if over, _ := p.GameOver(); over {
				finished = true
				break
			}
			// lines that must not move the game
			for r.Chance(1, 5) {
				nBad++
				switch r.Intn(6) {
				case 0:
					lines = append(lines, mutate(r, ptn.FormatMove(legalMoves(p)[0]), moveAlphabet, moveTokens))
					c.Count("line.mutated")
				case 1:
					if bad := illegalMoveAt(r, p); formattable(bad) {
						lines = append(lines, ptn.FormatMove(bad))
						c.Count("line.illegal-move")
					}
				case 2:
					lines = append(lines, []string{"", " ", "\r", "help", "quit", "a1 ", " a1", "1. a1", "\x00", "\xff\xfe", "a1\rb1"}[r.Intn(11)])
					c.Count("line.garbage")
				case 3:
					lines = append(lines, string(randText(r, 8, "\n")))
					c.Count("line.random-text")
				case 4:
					bs := namedBadSlides(r, size)
					if bad := bs[r.Intn(len(bs))]; formattable(bad) {
						lines = append(lines, ptn.FormatMove(bad))
						c.Count("line.bad-slide")
					}
				case 5:
					// the move of the other opening convention / a capstone too early / a wall in the opening
					lines = append(lines, []string{"Ca1", "Sa1", "Cb2", "Sb2"}[r.Intn(4)])
					c.Count("line.opening-kind")
				}
			}
			ms := legalMoves(p)
			if len(ms) == 0 {
				break
			}
			m := ms[r.Intn(len(ms))]
			if w, ok := winningMove(p, ms); ok && r.Chance(1, 3) {
				m = w
			}
			s := ptn.FormatMove(m)
			if r.Chance(1, 5) {
				s = ptn.FormatMoveLong(m)
			}
			if r.Chance(1, 8) {
				s += sfx[r.Intn(len(sfx))]
			}
			if r.Chance(1, 10) {
				s += "\r"
			}
			lines = append(lines, s)
			nGood++
			p, _ = p.Move(m)
		}
		if over, _ := p.GameOver(); over {
			finished = true
		}
		stdin := strings.Join(lines, "\n")
		switch {
		case len(lines) == 0:
		case r.Chance(1, 10):
			c.Count("stdin.no-final-newline")
		default:
			stdin += "\n"
		}
		if finished && r.Chance(1, 3) {
			stdin += "a1\nb2\n" // input after the end of the game is never read
			c.Count("stdin.trailing-input")
		}
		flags := []string{"size=" + strconv.Itoa(size)}
		if size == 5 && r.Chance(1, 2) {
			flags = nil // the default
		}
		if r.Chance(1, 2) {
			flags = append(flags, "out=@")
			c.Count("flag.out")
		}
		if r.Chance(1, 6) {
			flags = append(flags, "white=human")
		}
		if finished {
			c.Count("game.finished")
		} else {
			c.Count("game.cut-by-end-of-input")
		}
		c.Count("size" + strconv.Itoa(size))
		if nBad > 0 {
			c.Count("script.with-bad-lines")
		}
		out := c.Emit("cmd.play " + joinFlags(flags) + " " + hexOf(stdin))
		switch {
		case strings.Contains(out, "PANIC"):
			c.Count("play.PANIC")
		case strings.Contains(out, "Game Over!"):
			c.Count("play.game-over")
		}
		if strings.Contains(out, "outfile=") && !strings.Contains(out, "outfile=none") {
			c.Count("play.outfile-written")
		}
	}
	if c.Shard == 0 {
		for _, fl := range []string{"size=9", "size=2", "size=0", "size=-1", "size=x", "bogus", "size=3;limit=1s"} {
			c.Emit("cmd.play " + fl + " " + hexOf("a1\n"))
		}
		c.Emit("cmd.play size=3 -")
	}
}

func init() {
	genTable["C15canon"] = genC15canon
	genTable["C11import"] = genC11import
	genTable["C13play"] = genC13play
}
