package main

import (
	"fmt"
	"strings"

	"github.com/nelhage/taktician/tak"
)

func applySeq(p *tak.Position, tok string) (*tak.Position, bool) {
	if tok == "-" {
		return p, true
	}
	for _, mt := range strings.Split(tok, ";") {
		_ = p.Hash()
		n, err := p.Move(decMove(mt))
		if err != nil {
			return nil, false
		}
		p = n
	}
	return p, true
}

func encSeq(ms []tak.Move) string {
	if len(ms) == 0 {
		return "-"
	}
	parts := make([]string, len(ms))
	for i, m := range ms {
		parts[i] = encMove(m)
	}
	return strings.Join(parts, ";")
}

// rebuild reconstructs the position through the public constructor from what At() shows.
func rebuild(p *tak.Position) (*tak.Position, error) {
	n := p.Size()
	board := make([][]tak.Square, n)
	for y := 0; y < n; y++ {
		board[y] = make([]tak.Square, n)
		for x := 0; x < n; x++ {
			board[y][x] = p.At(x, y)
		}
	}
	return tak.FromSquares(p.Config(), board, p.MoveNumber())
}

func init() {
	opTable["mhash"] = func(s *Session, a []string) string {
		p := decPos(a[0])
		_ = p.Hash() // observing the source first must not influence what its successors report
		n, err := p.Move(decMove(a[1]))
		if err != nil {
			return "err"
		}
		h1 := n.Hash()
		h2 := n.Hash()
		if h1 != h2 {
			return "unstable-hash"
		}
		return fmt.Sprintf("%d %d %d", h1, n.VerifRaw().Hash, n.VerifHashFromScratch())
	}
	// the property-level reading of mhash: incremental hash field == from-scratch value, Hash() is stable, and
	// the successor rebuilt through FromSquares is Equal with the same Hash()
	opTable["mhashok"] = func(s *Session, a []string) string {
		p := decPos(a[0])
		_ = p.Hash()
		n, err := p.Move(decMove(a[1]))
		if err != nil {
			return "err"
		}
		if n.VerifRaw().Hash != n.VerifHashFromScratch() {
			return "incremental-hash-differs-from-scratch"
		}
		if n.Hash() != n.Hash() {
			return "unstable-hash"
		}
		q, err := rebuild(n)
		if err != nil {
			return "rebuild-err"
		}
		if !n.Equal(q) || n.Hash() != q.Hash() {
			return "rebuilt-position-differs"
		}
		return "ok"
	}
	opTable["trans"] = func(s *Session, a []string) string {
		p := decPos(a[0])
		pa, ok := applySeq(p, a[1])
		if !ok {
			return "errA"
		}
		pb, ok := applySeq(p, a[2])
		if !ok {
			return "errB"
		}
		// property level only: Equal, hashes equal or not, boards identical or not (raw hash values are the `hash`/`mhash` ops)
		return fmt.Sprintf("eq=%d hsame=%d same=%d", b2i(pa.Equal(pb)), b2i(pa.Hash() == pb.Hash()), b2i(absDump(pa) == absDump(pb) && pa.ToMove() == pb.ToMove()))
	}
	// transpre: route A through fresh storage, route B through two caller-supplied buffers that held another position
	// of the same size before (the property: "fresh or caller-supplied storage"); every intermediate of route B is also
	// compared with the same prefix played into fresh storage
	opTable["transpre"] = func(s *Session, a []string) string {
		p := decPos(a[0])
		dirt := decPos(a[3])
		bufs := dirtyBuffers(p, dirt)
		pa, ok := applySeq(p, a[1])
		if !ok {
			return "errA"
		}
		cur, ref := p, p
		pre := 1
		if a[2] != "-" {
			for i, mt := range strings.Split(a[2], ";") {
				m := decMove(mt)
				_ = cur.Hash()
				n, err := cur.MovePreallocated(m, bufs[i%2])
				if err != nil {
					return "errB"
				}
				r, err := ref.Move(m)
				if err != nil {
					return "errB-fresh"
				}
				if !n.Equal(r) || !r.Equal(n) || n.Hash() != r.Hash() || absDump(n) != absDump(r) {
					pre = 0
				}
				cur, ref = n, r
			}
		}
		pb := cur
		return fmt.Sprintf("eq=%d hsame=%d same=%d pre=%d", b2i(pa.Equal(pb) && pb.Equal(pa)), b2i(pa.Hash() == pb.Hash()), b2i(absDump(pa) == absDump(pb) && pa.ToMove() == pb.ToMove()), pre)
	}
	opTable["rebuild"] = func(s *Session, a []string) string {
		p := decPos(a[0])
		q, err := rebuild(p)
		if err != nil {
			return "err"
		}
		return fmt.Sprintf("eq=%d hsame=%d", b2i(p.Equal(q)), b2i(p.Hash() == q.Hash()))
	}
}

// dirtyBuffers returns two storage objects for p's board size that have already been used for `dirt` (when it has the
// same size) and for each other's successors, the way a search stack reuses its frames.
func dirtyBuffers(p, dirt *tak.Position) [2]*tak.Position {
	var bufs [2]*tak.Position
	for i := range bufs {
		bufs[i] = tak.Alloc(p.Size())
		if dirt.Size() == p.Size() {
			if n, err := dirt.MovePreallocated(tak.Move{Type: tak.Pass}, bufs[i]); err == nil {
				// play on inside the buffer so that it has seen slides as well
				ms := legalMoves(n)
				if len(ms) > 0 {
					n.MovePreallocated(ms[(i*7)%len(ms)], bufs[i])
				}
			}
		}
	}
	return bufs
}

// perturb returns a copy of the raw position with one piece changed (a buried colour, a top kind, a top colour) or the ply bumped.
func perturb(r *RNG, raw tak.VerifRaw) tak.VerifRaw {
	q := raw
	q.Height = append([]uint8(nil), raw.Height...)
	q.Stacks = append([]uint64(nil), raw.Stacks...)
	var occ []int
	for i, h := range raw.Height {
		if h > 0 {
			occ = append(occ, i)
		}
	}
	if len(occ) == 0 || r.Chance(1, 6) {
		q.Move++
		return q
	}
	i := occ[r.Intn(len(occ))]
	b := uint64(1) << uint(i)
	switch r.Intn(3) {
	case 0:
		if raw.Height[i] > 1 {
			q.Stacks[i] ^= 1 << uint(r.Intn(int(raw.Height[i])-1))
			// keep the internal hash field consistent with the new stacks
			return tak.VerifFromRaw(q).VerifRehash()
		}
		fallthrough
	case 1:
		q.White ^= b
		q.Black ^= b
	default:
		if q.Standing&b != 0 {
			q.Standing &^= b
		} else if q.Caps&b == 0 {
			q.Standing |= b
		} else {
			q.Caps &^= b
		}
	}
	return q
}

// cancellingPair builds two positions on one board with the same tops, heights and side to move whose buried stones
// differ on several squares in such a way that the per-square stack hashes XOR to the same value: the incremental
// hash FIELD is equal although the boards differ (found by Gaussian elimination over GF(2) on the per-square
// differences; 64 squares, one alternative stack each).  Equal must still say "different" (it compares the stacks),
// and whatever shortcut trusts the hash field alone is exposed here.  ok=false when the 64 differences happen to be
// independent.
func cancellingPair(r *RNG) (a, b *tak.Position, ok bool) {
	const size = 8
	basis := tak.VerifBasis()
	raw := tak.New(tak.Config{Size: size}).VerifRaw()
	raw.Move = 2 + r.Intn(40)
	raw.Height = make([]uint8, size*size)
	raw.Stacks = make([]uint64, size*size)
	alt := make([]uint64, size*size)
	diff := make([]uint64, size*size)
	at := func(i int, h uint8, st uint64) uint64 { return tak.VerifHash64(tak.VerifHash8(basis[i], h), st) }
	for i := range raw.Height {
		h := uint8(2 + r.Intn(4))
		raw.Height[i] = h
		mask := uint64(1)<<(h-1) - 1
		raw.Stacks[i] = r.Next() & mask
		alt[i] = raw.Stacks[i] ^ (1 + r.Next()%mask)
		alt[i] &= mask
		if alt[i] == raw.Stacks[i] {
			alt[i] ^= 1
		}
		diff[i] = at(i, h, raw.Stacks[i]) ^ at(i, h, alt[i])
		if r.Chance(1, 2) {
			raw.White |= 1 << uint(i)
		} else {
			raw.Black |= 1 << uint(i)
		}
	}
	// elimination: rows carry the set of squares they combine
	type row struct{ v, set uint64 }
	var pivots []row
	var dep uint64
	for i := range diff {
		cur := row{diff[i], 1 << uint(i)}
		for _, pv := range pivots {
			if cur.v&(pv.v&-pv.v) != 0 {
				cur.v ^= pv.v
				cur.set ^= pv.set
			}
		}
		if cur.v == 0 {
			dep = cur.set
			break
		}
		pivots = append(pivots, cur)
	}
	if dep == 0 {
		return nil, nil, false
	}
	rb := raw
	rb.Stacks = append([]uint64(nil), raw.Stacks...)
	for i := range rb.Stacks {
		if dep>>uint(i)&1 == 1 {
			rb.Stacks[i] = alt[i]
		}
	}
	ra := tak.VerifFromRaw(raw).VerifRehash()
	rbb := tak.VerifFromRaw(rb).VerifRehash()
	return tak.VerifFromRaw(ra), tak.VerifFromRaw(rbb), true
}

// dirtFor draws a position of p's size with stacks (what a reused buffer held before)
func dirtFor(r *RNG, p *tak.Position) *tak.Position {
	for try := 0; try < 4; try++ {
		d := constructed(r, p.Size())
		if d != nil {
			return d
		}
	}
	return p
}

func genC08(c *Ctx) {
	// boards that differ in buried stones only and whose incremental hash fields coincide by construction
	for k := c.Scale(24, 400); k > 0; k-- {
		a, b, ok := cancellingPair(c.R)
		if !ok {
			c.Count("cancelling-pair.none")
			continue
		}
		if a.VerifRaw().Hash == b.VerifRaw().Hash {
			c.Count("cancelling-pair.same-hash-field")
		} else {
			c.Count("cancelling-pair.FAILED-to-cancel")
		}
		c.Count("cancelling-pair.equal=" + c.Emit("equal "+encPos(a)+" "+encPos(b)))
		c.Emit("equal " + encPos(b) + " " + encPos(a))
	}
	n := c.Scale(5000, 250000)
	for k := 0; k < n; k++ {
		p := randomPosition(c.R)
		classifyPos(c, p)
		tok := encPos(p)
		ms := legalMoves(p)
		// (1) incremental hash after every kind of move
		for j := 0; j < 12 && len(ms) > 0; j++ {
			m := pickBiased(c.R, p, ms)
			if j == 11 {
				// the engine's null move: same board, other side to move
				m = tak.Move{Type: tak.Pass}
				c.Count("mhash.pass")
			}
			c.Emit("mhash " + tok + " " + encMove(m))
			c.Emit("mhashok " + tok + " " + encMove(m))
			if m.IsSlide() {
				c.Count("mhash.slide")
			} else {
				c.Count("mhash.place")
			}
		}
		// (2) rebuild through FromSquares
		c.Emit("rebuild " + tok)
		// (3) transpositions: a;x;b vs b;x;a for same-colour placements a,b on different squares
		if over, _ := p.GameOver(); !over && p.MoveNumber() >= 2 && len(ms) > 0 {
			for try := 0; try < 6; try++ {
				a := ms[c.R.Intn(len(ms))]
				pa, err := p.Move(a)
				if err != nil {
					continue
				}
				xs := legalMoves(pa)
				if len(xs) == 0 {
					continue
				}
				x := xs[c.R.Intn(len(xs))]
				px, err := pa.Move(x)
				if err != nil {
					continue
				}
				bs := legalMoves(px)
				if len(bs) == 0 {
					continue
				}
				b := bs[c.R.Intn(len(bs))]
				out := c.Emit("trans " + tok + " " + encSeq([]tak.Move{a, x, b}) + " " + encSeq([]tak.Move{b, x, a}))
				c.Count("trans." + strings.SplitN(out, " ", 2)[0])
				// the same two routes, route B in reused caller-supplied storage; and one route against itself
				dirt := dirtFor(c.R, p)
				dtok := encPos(dirt)
				c.Emit("transpre " + tok + " " + encSeq([]tak.Move{a, x, b}) + " " + encSeq([]tak.Move{b, x, a}) + " " + dtok)
				c.Emit("transpre " + tok + " " + encSeq([]tak.Move{a, x, b}) + " " + encSeq([]tak.Move{a, x, b}) + " " + dtok)
				c.Count("transpre")
			}
			// slide out and back (two-step cycles with the opponent passing is impossible; use place/slide commutations instead)
		}
		// (4) equal on near-identical pairs
		raw := p.VerifRaw()
		q := perturb(c.R, raw)
		out := c.Emit("equal " + tok + " " + encRaw(q, false))
		c.Count("equal.perturbed=" + out)
		c.Emit("equal " + tok + " " + tok)
	}
}

func init() { genTable["C08"] = genC08 }
