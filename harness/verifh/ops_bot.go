package main

// C07: a lock-step scheduler around the real playtak bot loop (bot.PlayGame / bot.ObserveGame).
//
// The real loop runs on its own goroutine M with a mock Client (an unbuffered channel of
// server lines, recorded SendCommand lines) and a gated mock AI: GetMove blocks until the
// scheduler hands it the move to return.  EVERY time.After call of bot.go goes to the package variable
// verifAfter (harness/rewrite/playtak_bot.json), so the expiry of a timer is an event of the schedule too.
// Time: the scheduler owns every timer channel the loop created, in creation order (`pending`).  Real
// time is monotone and every grace period is equally long, so timers expire oldest first: the clock event
// `ev timer` lets the OLDEST armed timer expire (one buffered tick, as time.After delivers it), whether
// or not the loop still looks at that channel.  The event does not depend on which channel the program
// kept: a loop that arms its grace timer at the wrong moment meets the same expiries as the model
// (lean/TakVerif/Impl/BotTimer.lean) and answers them differently.
// The scheduler makes exactly ONE event ready (a line, an AI answer, a timer expiry) and then
// waits until M and all thinker goroutines it spawned are blocked again.  Quiescence is read
// off a stop-the-world goroutine dump (runtime.Stack(all)): a snapshot in which every goroutine
// of this session is parked on a channel / select / mutex has no pending wake-up (channel sends
// and mutex unlocks make their receiver runnable before they return; there are no real timers),
// so the next event meets exactly the state the previous one produced.  No sleeps.

import (
	"bytes"
	"context"
	"encoding/hex"
	"fmt"
	"io"
	"log"
	"runtime"
	"strconv"
	"strings"
	"sync"
	"time"

	"github.com/nelhage/taktician/playtak"
	"github.com/nelhage/taktician/playtak/bot"
	"github.com/nelhage/taktician/tak"
)

type aiCall struct {
	p            *tak.Position
	mine, theirs time.Duration
	ctx          context.Context
	gate         chan tak.Move
}

type botSess struct {
	mu       sync.Mutex
	colour   string
	gameStr  string
	lines    chan string
	closed   bool
	sent     []string
	game     *bot.Game
	cur      *aiCall   // the thinker inside GetMove (moveLock admits one)
	gated    []*aiCall // all thinkers inside GetMove; more than one = moveLock does not serialise them
	lockBad  bool
	entered  int // GetMove calls that were gated
	drained  int // GetMove calls that found their context cancelled on entry
	accept   bool
	accCalls int
	chats    int
	overs    int
	timers   []chan time.Time // every timer the loop created
	timed    bool             // C07 `ev` sessions: buffered ticks and the queue below (composed sessions keep the newest-timer op)
	pending  []chan time.Time // timers armed and not yet expired, oldest first
	done     chan struct{}
	mGoid    int64
	outcome  string // "" while the loop runs, then "end" or "panic"
	hung     bool
}

var botSessions sync.Map // goroutine id of M -> *botSess
var botOnce sync.Once

func goid() int64 {
	var b [64]byte
	n := runtime.Stack(b[:], false)
	f := bytes.Fields(b[:n])
	if len(f) < 2 {
		return -1
	}
	v, _ := strconv.ParseInt(string(f[1]), 10, 64)
	return v
}

// ---- mock client

func (s *botSess) Recv() <-chan string { return s.lines }

func (s *botSess) SendCommand(w ...string) {
	s.mu.Lock()
	s.sent = append(s.sent, strings.Join(w, " "))
	s.mu.Unlock()
}

// ---- mock bot

type gatedBot struct{ s *botSess }

func (b gatedBot) NewGame(g *bot.Game) { b.s.game = g }
func (b gatedBot) GameOver() {
	b.s.mu.Lock()
	b.s.overs++
	b.s.mu.Unlock()
}
func (b gatedBot) AcceptUndo() bool {
	b.s.mu.Lock()
	defer b.s.mu.Unlock()
	b.s.accCalls++
	return b.s.accept
}
func (b gatedBot) HandleChat(room, who, msg string) {
	b.s.mu.Lock()
	b.s.chats++
	b.s.mu.Unlock()
}
func (b gatedBot) HandleTell(who, msg string) {
	b.s.mu.Lock()
	b.s.chats++
	b.s.mu.Unlock()
}

// GetMove: a thinker whose context is already cancelled when it gets the lock returns at once
// (its answer can never be read: cancellation happens only when its handleMove invocation is
// over, or after an accepted undo set moves = nil); every other thinker waits for the scheduler.
func (b gatedBot) GetMove(ctx context.Context, p *tak.Position, mine, theirs time.Duration) tak.Move {
	s := b.s
	if ctx.Err() != nil {
		s.mu.Lock()
		s.drained++
		s.mu.Unlock()
		return tak.Move{}
	}
	c := &aiCall{p: p, mine: mine, theirs: theirs, ctx: ctx, gate: make(chan tak.Move)}
	s.mu.Lock()
	s.gated = append(s.gated, c)
	s.cur = s.gated[0]
	if len(s.gated) > 1 {
		s.lockBad = true
	}
	s.entered++
	s.mu.Unlock()
	mv := <-c.gate
	s.mu.Lock()
	for i, x := range s.gated {
		if x == c {
			s.gated = append(s.gated[:i:i], s.gated[i+1:]...)
			break
		}
	}
	s.cur = nil
	if len(s.gated) > 0 {
		s.cur = s.gated[0]
	}
	s.mu.Unlock()
	return mv
}

// ---- quiescence

// The wait reasons of a goroutine parked by the bot's own synchronisation.  NOT "semacquire": that is
// also the reason shown by a goroutine whose allocation wants to start a GC cycle while this very
// dump holds the world stopped (seen 8 times in 20 000 runs) - such a goroutine is about to run on.
var blockedStates = map[string]bool{
	"chan receive": true, "chan send": true, "select": true, "sync.Mutex.Lock": true,
	"chan receive (nil chan)": true, "chan send (nil chan)": true, "select (no cases)": true,
}

// scanDump: are all goroutines of this session (M and the goroutines M created) parked?
func (s *botSess) scanDump(d []byte) (quiet bool, live int) {
	quiet = true
	me := strconv.FormatInt(s.mGoid, 10)
	inTag := []byte(" in goroutine " + me + "\n")
	hdr := []byte("goroutine " + me + " [")
	for len(d) > 0 {
		var blk []byte
		if i := bytes.Index(d, []byte("\n\n")); i >= 0 {
			blk, d = d[:i+1], d[i+2:]
		} else {
			blk, d = d, nil
		}
		if !bytes.HasPrefix(blk, []byte("goroutine ")) {
			continue
		}
		mine := bytes.HasPrefix(blk, hdr) || bytes.Contains(blk, inTag)
		if !mine {
			continue
		}
		live++
		lb := bytes.IndexByte(blk, '[')
		rb := bytes.IndexByte(blk, ']')
		if lb < 0 || rb < lb {
			quiet = false
			continue
		}
		st := string(blk[lb+1 : rb])
		if i := strings.IndexByte(st, ','); i >= 0 {
			st = st[:i]
		}
		if !blockedStates[st] {
			quiet = false
		}
	}
	return
}

var dumpPool = sync.Pool{New: func() interface{} { b := make([]byte, 1<<16); return &b }}

// settle waits until the session is quiescent; false = it did not become so (reported as hang).
func (s *botSess) settle() bool {
	ok, _ := s.settleN()
	return ok
}

// settleN also reports how many goroutines of the session (M and thinkers) exist.
func (s *botSess) settleN() (bool, int) {
	bp := dumpPool.Get().(*[]byte)
	defer dumpPool.Put(bp)
	var deadline time.Time
	for i := 0; ; i++ {
		runtime.Gosched() // let whatever the last event made runnable run; the dump below decides
		n := runtime.Stack(*bp, true)
		for n == len(*bp) {
			*bp = make([]byte, 2*len(*bp))
			n = runtime.Stack(*bp, true)
		}
		q, live := s.scanDump((*bp)[:n])
		if q {
			return true, live
		}
		if i == 50 {
			deadline = time.Now().Add(60 * time.Second)
		}
		if i > 50 && time.Now().After(deadline) {
			s.hung = true
			return false, live
		}
	}
}

// expire: the oldest armed timer expires.  "idle" = none is armed; "fired" = the loop received the tick;
// "stale" = nobody looks at that channel (the tick stays in its buffer for good).
func (s *botSess) expire() string {
	s.mu.Lock()
	var ch chan time.Time
	if len(s.pending) > 0 {
		ch, s.pending = s.pending[0], s.pending[1:]
	}
	s.mu.Unlock()
	if ch == nil {
		return "idle"
	}
	ch <- time.Time{}
	s.settle()
	if len(ch) == 0 {
		return "fired"
	}
	return "stale"
}

// armed: the number of timers that have not expired yet
func (s *botSess) armed() int {
	s.mu.Lock()
	defer s.mu.Unlock()
	return len(s.pending)
}

// ---- lifecycle

func botTimerHook(d time.Duration) <-chan time.Time {
	if v, ok := botSessions.Load(goid()); ok {
		s := v.(*botSess)
		s.mu.Lock()
		var ch chan time.Time
		if s.timed {
			ch = make(chan time.Time, 1) // time.After: the runtime's send never blocks
			s.pending = append(s.pending, ch)
		} else {
			ch = make(chan time.Time)
		}
		s.timers = append(s.timers, ch)
		s.mu.Unlock()
		return ch
	}
	return time.After(d)
}

func botStart(colour string, size, secs int, gameNo string) *botSess {
	botOnce.Do(func() {
		log.SetOutput(io.Discard)
		bot.VerifSetAfter(botTimerHook)
	})
	s := &botSess{colour: colour, gameStr: "Game#" + gameNo, lines: make(chan string), done: make(chan struct{}), timed: true}
	var line string
	switch colour {
	case "w":
		line = fmt.Sprintf("Game Start %s %d Bot vs Opp white %d", gameNo, size, secs)
	case "b":
		line = fmt.Sprintf("Game Start %s %d Opp vs Bot black %d", gameNo, size, secs)
	default:
		line = fmt.Sprintf("Observe Game#%s Pa vs Pb, %dx%d, %d, 0, 0 half-moves played, Pa to move", gameNo, size, size, secs)
	}
	ready := make(chan struct{})
	go func() {
		s.mGoid = goid()
		botSessions.Store(s.mGoid, s)
		close(ready)
		defer func() {
			if r := recover(); r != nil {
				s.outcome = "panic"
			} else {
				s.outcome = "end"
			}
			botSessions.Delete(s.mGoid)
			close(s.done)
		}()
		if colour == "o" {
			bot.ObserveGame(s, gatedBot{s}, line)
		} else {
			bot.PlayGame(s, gatedBot{s}, line)
		}
	}()
	<-ready
	s.settle()
	return s
}

// shutdown ends the loop (connection close) and lets every thinker run out.
func (s *botSess) shutdown() {
	if !s.over() && !s.closed {
		s.closed = true
		close(s.lines)
	}
	for i := 0; i < 1000; i++ {
		ok, live := s.settleN()
		s.mu.Lock()
		c := s.cur
		s.mu.Unlock()
		if c != nil {
			c.gate <- tak.Move{}
			continue
		}
		if live == 0 || !ok {
			return
		}
	}
}

// ---- rendering

func durStr(d time.Duration) string { return strconv.FormatInt(int64(d), 10) }

func (s *botSess) sentStr(x string) string {
	pre := s.gameStr + " "
	if !strings.HasPrefix(x, pre) {
		return "raw:" + hex.EncodeToString([]byte(x))
	}
	rest := x[len(pre):]
	if rest == "RequestUndo" {
		return "U"
	}
	if m, err := playtak.ParseServer(rest); err == nil && playtak.FormatServer(m) == rest {
		return "mv:" + encMove(m)
	}
	return "raw:" + hex.EncodeToString([]byte(x))
}

// over: has the loop goroutine finished?  (outcome is written before done is closed)
func (s *botSess) over() bool {
	select {
	case <-s.done:
		return true
	default:
		return false
	}
}

func (s *botSess) status() string {
	if s.hung {
		return "hang"
	}
	if s.lockBad {
		return "two-thinkers-in-GetMove"
	}
	if !s.over() {
		return "run"
	}
	return s.outcome
}

func (s *botSess) aiStr() string {
	s.mu.Lock()
	c := s.cur
	s.mu.Unlock()
	if c == nil {
		return "-"
	}
	return fmt.Sprintf("%d:%d:%s:%s:%d", c.p.MoveNumber(), c.p.Hash(), durStr(c.mine), durStr(c.theirs), b2i(c.ctx.Err() != nil))
}

func (s *botSess) summary(r string) string {
	g := s.game
	if g == nil {
		return s.status() + " nogame r=" + r
	}
	s.mu.Lock()
	ns := len(s.sent)
	last := "-"
	if ns > 0 {
		last = s.sentStr(s.sent[ns-1])
	}
	s.mu.Unlock()
	return fmt.Sprintf("%s n=%d m=%d h=%d sent=%d:%s ai=%s r=%s", s.status(), len(g.Positions), len(g.Moves), g.VerifP().Hash(), ns, last, s.aiStr(), r)
}

func (s *botSess) full() string {
	g := s.game
	if g == nil {
		return s.status() + " nogame"
	}
	var ps, ms, ss []string
	for _, p := range g.Positions {
		ps = append(ps, strconv.Itoa(p.MoveNumber())+":"+strconv.FormatUint(p.Hash(), 10))
	}
	for _, m := range g.Moves {
		ms = append(ms, encMove(m))
	}
	s.mu.Lock()
	for _, x := range s.sent {
		ss = append(ss, s.sentStr(x))
	}
	overs := s.overs
	s.mu.Unlock()
	res := "-"
	if g.Result != "" {
		res = hex.EncodeToString([]byte(g.Result))
	}
	mine, theirs := g.VerifTimes()
	j := func(l []string) string {
		if len(l) == 0 {
			return "-"
		}
		return strings.Join(l, ";")
	}
	return fmt.Sprintf("%s result=%s pos=%s moves=%s p=%d times=%s,%s sent=%s ai=%s over=%d",
		s.status(), res, j(ps), j(ms), g.VerifP().Hash(), durStr(mine), durStr(theirs), j(ss), s.aiStr(), overs)
}

// ---- ops

// botLive: the running bot game of each op session.  It is kept here and not only in s.slots because the
// shared `case` op simply replaces s.slots: a game dropped that way would leave its goroutines parked
// forever, and every later goroutine dump (the quiescence test) would have to wade through them.
var botLive sync.Map // *Session -> *botSess

func botOf(s *Session) *botSess {
	b, _ := s.slots["bot"].(*botSess)
	return b
}

func botReset(s *Session) {
	if v, ok := botLive.Load(s); ok {
		v.(*botSess).shutdown()
		botLive.Delete(s)
	}
	delete(s.slots, "bot")
}

// auxMove computes what handleMove will get from ParseServer for this line ("-" when it does not ask).
func auxMove(line string) string {
	bits := strings.Split(line, " ")
	if len(bits) < 2 || (bits[1] != "P" && bits[1] != "M") {
		return "-"
	}
	m, err := playtak.ParseServer(strings.Join(bits[1:], " "))
	if err != nil {
		return "err"
	}
	return encMove(m)
}

func init() {
	if _, ok := opTable["case"]; !ok {
		opTable["case"] = func(s *Session, a []string) string {
			botReset(s)
			return "ok"
		}
	}
	// botnew <w|b|o> <size> <seconds> <game number> [v=...]   (v= selects the model variant; the real code has one)
	opTable["botnew"] = func(s *Session, a []string) string {
		botReset(s)
		if len(a) < 4 {
			return "bad-op"
		}
		b := botStart(a[0], atoi(a[1]), atoi(a[2]), a[3])
		s.slots["bot"] = b
		botLive.Store(s, b)
		return b.summary("new")
	}
	opTable["state"] = func(s *Session, a []string) string {
		b := botOf(s)
		if b == nil {
			return "nobot"
		}
		return b.full()
	}
	// ev deliver <hex line> [mv=<move|err|->] [a=0|1] | ev aireturns <move> | ev timer | ev drain | ev close
	opTable["ev"] = func(s *Session, a []string) string {
		b := botOf(s)
		if b == nil || len(a) < 1 {
			return "nobot"
		}
		r := "-"
		switch a[0] {
		case "deliver":
			if len(a) < 2 {
				return "bad-op"
			}
			var raw []byte
			var err error
			if a[1] != "-" { // "-" is the empty line
				raw, err = hex.DecodeString(a[1])
			}
			if err != nil {
				return "bad-op"
			}
			line := string(raw)
			for _, x := range a[2:] {
				if strings.HasPrefix(x, "mv=") && x[3:] != auxMove(line) {
					return "bad-aux"
				}
				if strings.HasPrefix(x, "a=") {
					b.mu.Lock()
					b.accept = x[2:] == "1"
					b.mu.Unlock()
				}
			}
			if b.over() || b.closed {
				r = "gone"
				break
			}
			t := time.NewTimer(60 * time.Second)
			select {
			case b.lines <- line:
				r = "ok"
			case <-b.done:
				r = "gone"
			case <-t.C:
				b.hung = true
				r = "stuck"
			}
			t.Stop()
		case "close":
			if b.over() || b.closed {
				r = "gone"
				break
			}
			b.closed = true
			close(b.lines)
			r = "ok"
		case "aireturns":
			mv := decMove(a[1])
			b.mu.Lock()
			c := b.cur
			b.mu.Unlock()
			if c == nil {
				r = "noai"
				break
			}
			r = "ai:" + strconv.Itoa(c.p.MoveNumber()) + ":" + strconv.Itoa(b2i(c.ctx.Err() != nil))
			c.gate <- mv
		case "timer":
			r = b.expire()
		case "drain": // a long time passes: every armed timer expires, oldest first
			stale, fired := 0, 0
			for {
				x := b.expire()
				if x == "idle" {
					break
				}
				if x == "stale" {
					stale++
				} else {
					fired++
				}
			}
			r = fmt.Sprintf("drained:%d:%d", stale, fired)
		default:
			return "bad-op"
		}
		b.settle()
		return b.summary(r)
	}
}
