package main

// Generator "C20glue": game records for the real Friendly.GetMove / Taktician.GetMove (ops_glue.go).
//
//  A. FPA games: every variant x bot colour x size 4..6 (thorough: ..8); the opening is played with the rule's own
//     script on the bot's scripted plies and rule-accepted moves elsewhere, with (per line) one ply at which the mover
//     - opponent or bot - plays a legal move the rule rejects; calls at every ply, or only after a replayed prefix
//     (resume), with undos, or for a thinker that was started on an earlier / already undone position.
//  B. non-FPA Friendly games (stub searcher with arbitrary answers incl. illegal ones and arbitrary check-engine verdicts
//     around +-WinThreshold; real searcher at levels 1..5 with the verdicts of the real depth-3 engine, taken from a probe run).
//  C. Taktician games: every colour incl. observer, limits, -use-opponent-time on/off, plies 0..n, stub and real searcher.
//  D. levelSettings / the level command / Config / wrapWithBook on their small domains.

import (
	"encoding/hex"
	"strconv"
	"strings"

	"github.com/nelhage/taktician/ai"
	fpa "github.com/nelhage/taktician/cmd/internal/playtak"
	"github.com/nelhage/taktician/tak"
)

type glueLine struct {
	r    *RNG
	toks []string
	ps   []*tak.Position // the record
	ms   []tak.Move
	all  []*tak.Position // every position ever in the record (what `j=` indexes)
}

func (g *glueLine) head() *tak.Position { return g.ps[len(g.ps)-1] }

func (g *glueLine) push(m tak.Move) bool {
	g.toks = append(g.toks, "m"+encMove(m))
	n, err := g.head().Move(m)
	if err != nil {
		return false
	}
	g.ps = append(g.ps, n)
	g.ms = append(g.ms, m)
	g.all = append(g.all, n)
	return true
}

func (g *glueLine) pop() bool {
	g.toks = append(g.toks, "u")
	if len(g.ps) < 2 {
		return false
	}
	g.ps = g.ps[:len(g.ps)-1]
	g.ms = g.ms[:len(g.ms)-1]
	return true
}

var glueV1 = []int64{0, 1, -5, int64(ai.WinThreshold) - 1, int64(ai.WinThreshold), int64(ai.WinThreshold) + 1, int64(ai.WinBase) + 300, -int64(ai.WinThreshold) - 1}
var glueV2 = []int64{0, -1, 7, -int64(ai.WinThreshold) - 1, -int64(ai.WinThreshold), -int64(ai.WinThreshold) + 1, int64(ai.WinThreshold), -int64(ai.WinBase) - 300}
var glueD1 = []int{0, 1, 1, 2, 3}

// stub answer for a call on p: mostly a legal move, sometimes none (zero move), sometimes garbage
func (g *glueLine) answer(p *tak.Position) string {
	x := g.r.Intn(100)
	switch {
	case x < 70:
		if ms := legalMoves(p); len(ms) > 0 {
			return ";a=" + encMove(ms[g.r.Intn(len(ms))])
		}
		return ""
	case x < 85:
		return ""
	default:
		return ";a=" + encMove(rawMove(g.r, p.Size()))
	}
}

func (g *glueLine) verdicts() string {
	if g.r.Chance(1, 2) {
		return ""
	}
	if len(g.ps) < 2 && !g.r.Chance(1, 8) {
		// "a win in one" with a one-position record makes waitUndo index Positions[-1]: kept, but rare
		return ";k=" + strconv.FormatInt(glueV1[g.r.Intn(4)], 10) + ":" + strconv.Itoa(g.r.Intn(4)) + ":0"
	}
	// half of them: a win in one was found, so that the second verdict matters
	v1 := glueV1[g.r.Intn(len(glueV1))]
	d1 := glueD1[g.r.Intn(len(glueD1))]
	if g.r.Chance(1, 2) {
		v1, d1 = glueV1[4+g.r.Intn(3)], g.r.Intn(2)
	}
	return ";k=" + strconv.FormatInt(v1, 10) + ":" + strconv.Itoa(d1) + ":" + strconv.FormatInt(glueV2[g.r.Intn(len(glueV2))], 10)
}

// call emits a call token (stub mode decorations) and reports the position it is made on
func (g *glueLine) call(j int, stub bool) *tak.Position {
	p := g.head()
	t := "c"
	if j >= 0 {
		p = g.all[j]
		t += ";j=" + strconv.Itoa(j)
	}
	if stub {
		t += g.answer(p) + g.verdicts()
		if g.r.Chance(1, 5) {
			t += ";x=1"
		}
	}
	g.toks = append(g.toks, t)
	return p
}

func safeLegal(rule fpa.FPARule, p *tak.Position, m tak.Move) (ok bool, panicked bool) {
	defer func() {
		if recover() != nil {
			ok, panicked = false, true
		}
	}()
	return rule.LegalMove(p, m) == nil, false
}

func safeScript(rule fpa.FPARule, p *tak.Position) (m tak.Move, ok bool) {
	defer func() {
		if recover() != nil {
			ok = false
		}
	}()
	return rule.GetMove(p)
}

// genFPALine builds one FPA game.  The generator drives its own copy of the rule exactly as far as needed to know
// which moves the bot will script / accept (input generation only; the expected output comes from the real GetMove).
func genFPALine(c *Ctx, variant string, color tak.Color, size int) string {
	r := c.R
	g := &glueLine{r: r}
	p0 := tak.New(tak.Config{Size: size, BlackWinsTies: true})
	g.ps, g.all = []*tak.Position{p0}, []*tak.Position{p0}
	rule := fpa.VerifNewRule(variant)
	shadowCall := func(p *tak.Position) { // what GetMove does to the rule's remembered squares
		if p.MoveNumber() > 0 && len(g.ps) >= 2 && len(g.ms) >= 1 {
			safeLegal(rule, g.ps[len(g.ps)-2], g.ms[len(g.ms)-1])
		}
	}
	kind := "plain"
	switch x := r.Intn(100); {
	case x < 50:
	case x < 65:
		kind = "resume"
	case x < 82:
		kind = "undo"
	default:
		kind = "lag"
	}
	dev := -1
	if r.Chance(1, 2) {
		dev = r.Intn(7)
	}
	resumeAt := 0
	if kind == "resume" {
		resumeAt = 1 + r.Intn(6)
	}
	maxPly := 4 + r.Intn(6)
	undone := false
	c.Count("C20glue.A.kind." + kind)
	for ply := 0; ply <= maxPly; ply++ {
		p := g.head()
		if over, _ := p.GameOver(); over {
			break
		}
		if ply >= resumeAt {
			if kind == "lag" && len(g.all) > 1 && r.Chance(1, 3) {
				j := r.Intn(len(g.all))
				shadowCall(g.all[j])
				g.call(j, true)
			}
			shadowCall(p)
			g.call(-1, true)
		}
		if kind == "undo" && !undone && len(g.ps) >= 2 && r.Chance(1, 3) {
			undone = true
			n := 1 + r.Intn(2)
			for i := 0; i < n && len(g.ps) >= 2; i++ {
				g.pop()
				if r.Chance(1, 2) {
					shadowCall(g.head())
					g.call(-1, true)
				}
			}
			if r.Chance(1, 4) && len(g.all) > len(g.ps) { // a thinker started on a position that was undone since
				j := len(g.ps) + r.Intn(len(g.all)-len(g.ps))
				shadowCall(g.all[j])
				g.call(j, true)
			}
			ply = len(g.ps) - 2
			continue
		}
		legal := legalMoves(p)
		if len(legal) == 0 {
			break
		}
		var acc, rej []tak.Move
		for _, m := range legal {
			if ok, _ := safeLegal(fpa.VerifCloneRule(rule), p, m); ok {
				acc = append(acc, m)
			} else {
				rej = append(rej, m)
			}
		}
		var next tak.Move
		scripted, has := tak.Move{}, false
		if p.ToMove() == color {
			scripted, has = safeScript(rule, p)
		}
		switch {
		case ply == dev && len(rej) > 0:
			next = rej[r.Intn(len(rej))]
			who := "opponent"
			if p.ToMove() == color {
				who = "bot"
			}
			c.Count("C20glue.A.deviation." + variant + ".ply" + strconv.Itoa(ply) + "." + who)
		case has:
			next = scripted
		case len(acc) > 0:
			next = acc[r.Intn(len(acc))]
		default:
			next = legal[r.Intn(len(legal))]
		}
		if !g.push(next) {
			break
		}
	}
	return strings.Join(g.toks, " ")
}

func glueCol(c tak.Color) string { return colorStr(c) }

// tag the output words of a glue line
func glueTags(c *Ctx, pre string, out string) {
	for _, w := range strings.Fields(out) {
		f := strings.Split(w, "/")
		if len(f) != 4 {
			c.Count(pre + ".word." + w)
			continue
		}
		switch {
		case strings.HasPrefix(f[0], "Resign"):
			c.Count(pre + ".resign." + f[0])
		case f[1] == "0" && strings.HasSuffix(f[3], ":z"):
			c.Count(pre + ".noMove")
		case f[1] == "0":
			c.Count(pre + ".scripted" + f[3][strings.LastIndex(f[3], ":"):])
		default:
			k := "min"
			switch {
			case strings.Contains(f[2], "after:30000000000"):
				k = "undo"
			case strings.Contains(f[2], "timeout:20000000000"):
				k = "opening"
			case strings.Contains(f[2], "timeout:"):
				k = "limit"
			case f[2] == "-":
				k = "ponder"
			}
			c.Count(pre + ".think." + k + f[3][strings.LastIndex(f[3], ":"):])
		}
	}
}

// random game of n plies (biased playout moves); returns the moves played
func glueGame(r *RNG, size, n int) []tak.Move {
	p := tak.New(tak.Config{Size: size})
	var ms []tak.Move
	for i := 0; i < n; i++ {
		if over, _ := p.GameOver(); over {
			break
		}
		legal := legalMoves(p)
		if len(legal) == 0 {
			break
		}
		var m tak.Move
		if r.Chance(1, 2) {
			m = pickBiased(r, p, legal)
		} else {
			m = legal[r.Intn(len(legal))]
		}
		q, err := p.Move(m)
		if err != nil {
			break
		}
		ms = append(ms, m)
		p = q
	}
	return ms
}

// embed the verdicts observed by a probe run into the call tokens
func glueEmbed(toks []string, probe string) ([]string, bool) {
	obs := strings.Fields(probe)
	out := make([]string, 0, len(toks))
	k := 0
	for _, t := range toks {
		if strings.HasPrefix(t, "c") {
			if k >= len(obs) {
				return nil, false
			}
			o := obs[k]
			k++
			if strings.HasPrefix(o, "obs=") && o != "obs=-" {
				t += ";k=" + o[4:]
			} else if !strings.HasPrefix(o, "obs=") && o != "over" {
				return nil, false
			}
		}
		out = append(out, t)
	}
	return out, true
}

func genC20glue(c *Ctx) {
	glueFPA(c)
	glueNoRule(c, "C20glue", 1)
	glueFPAReal(c)
	glueTaktician(c, "C20glue", 1)
	glueFns(c)
}

// C07glue: the parts that concern the bot loop's thinker interface without an FPA rule (Friendly without rule,
// Taktician): who is asked, on which position, under which clock - incl. calls for thinkers whose position is no
// longer the newest / was undone.
func genC07glue(c *Ctx) {
	glueNoRule(c, "C07glue", 3)
	glueTaktician(c, "C07glue", 2)
}

func glueSizes(c *Ctx) []int {
	if c.Thorough() {
		return []int{4, 5, 6, 7, 8}
	}
	return []int{4, 5, 6}
}

var glueCols = []tak.Color{tak.White, tak.Black, tak.NoColor}

func glueFPA(c *Ctx) {
	sizes := glueSizes(c)
	// ---- A
	perCell := c.Scale(6000, 200000) / (3 * 2 * len(sizes))
	if perCell < 1 {
		perCell = 1
	}
	for _, variant := range []string{"center", "doublestack", "cairn"} {
		for _, col := range []tak.Color{tak.White, tak.Black, tak.NoColor} {
			for _, size := range sizes {
				n := perCell
				if col == tak.NoColor { // a Friendly with a rule that only observes: fewer
					n = perCell/8 + 1
				}
				for i := 0; i < n; i++ {
					toks := genFPALine(c, variant, col, size)
					out := c.Emit("glue F " + variant + " " + glueCol(col) + " " + strconv.Itoa(size) + " - stub " + toks)
					glueTags(c, "C20glue.A."+variant+"."+glueCol(col), out)
				}
			}
		}
	}
}

func glueNoRule(c *Ctx, tag string, div int) {
	r := c.R
	cols := glueCols
	// ---- B: no FPA rule
	nB := c.Scale(3000, 100000) / div
	for i := 0; i < nB; i++ {
		size := 3 + r.Intn(4)
		col := cols[r.Intn(3)]
		if r.Chance(1, 8) {
			col = tak.NoColor
		} else if col == tak.NoColor {
			col = tak.White
		}
		g := &glueLine{r: r}
		p0 := tak.New(tak.Config{Size: size})
		g.ps, g.all = []*tak.Position{p0}, []*tak.Position{p0}
		g.call(-1, true)
		for _, m := range glueGame(r, size, r.Intn(16)) {
			if !g.push(m) {
				break
			}
			if r.Chance(1, 10) && len(g.ps) > 2 {
				g.pop()
				g.call(-1, true)
				if !g.push(m) {
					break
				}
			}
			if r.Chance(1, 12) {
				g.call(r.Intn(len(g.all)), true)
			}
			if r.Chance(5, 6) {
				g.call(-1, true)
			}
		}
		lvl := "-"
		if r.Chance(1, 3) {
			lvl = strconv.Itoa(r.Intn(16))
		}
		out := c.Emit("glue F none " + glueCol(col) + " " + strconv.Itoa(size) + " " + lvl + " stub " + strings.Join(g.toks, " "))
		glueTags(c, tag+".B.stub."+glueCol(col), out)
	}
	nBai := c.Scale(500, 20000) / div
	for i := 0; i < nBai; i++ {
		size := 3 + r.Intn(3)
		if r.Chance(1, 10) {
			size = 6
		}
		col := cols[r.Intn(2)]
		lvl := 1 + r.Intn(3)
		if size <= 4 && r.Chance(1, 3) {
			lvl = 4 + r.Intn(2)
		}
		n := r.Intn(8)
		if size <= 4 {
			n = r.Intn(26)
		}
		ms := glueGame(r, size, n)
		g := &glueLine{r: r}
		p0 := tak.New(tak.Config{Size: size})
		g.ps, g.all = []*tak.Position{p0}, []*tak.Position{p0}
		if len(ms) < 3 || r.Chance(1, 3) {
			g.call(-1, false)
		}
		for k, m := range ms {
			if !g.push(m) {
				break
			}
			if k >= len(ms)-4 && r.Chance(3, 4) {
				g.call(-1, false)
			}
		}
		head := "F none " + glueCol(col) + " " + strconv.Itoa(size) + " " + strconv.Itoa(lvl) + " ai "
		probe := execLine(c.S, "glueprobe "+head+strings.Join(g.toks, " "))
		toks, ok := glueEmbed(g.toks, probe)
		if !ok {
			c.Count(tag + ".B.ai.probe-failed")
			toks = g.toks
		}
		out := c.Emit("glue " + head + strings.Join(toks, " "))
		glueTags(c, tag+".B.ai.level"+strconv.Itoa(lvl), out)
	}
}

// FPA games with the real searcher: the opening script, then searched moves under the rule (black wins ties)
func glueFPAReal(c *Ctx) {
	r := c.R
	cols := glueCols
	sizes := glueSizes(c)
	nAai := c.Scale(200, 8000)
	for i := 0; i < nAai; i++ {
		variant := []string{"center", "doublestack", "cairn"}[r.Intn(3)]
		col := cols[r.Intn(2)]
		size := sizes[r.Intn(len(sizes))]
		if size > 6 {
			size = 6
		}
		g := &glueLine{r: r}
		p0 := tak.New(tak.Config{Size: size, BlackWinsTies: true})
		g.ps, g.all = []*tak.Position{p0}, []*tak.Position{p0}
		rule := fpa.VerifNewRule(variant)
		n := 1 + r.Intn(9)
		for ply := 0; ply < n; ply++ {
			p := g.head()
			if ply > 0 {
				safeLegal(rule, g.ps[len(g.ps)-2], g.ms[len(g.ms)-1])
			}
			g.call(-1, false)
			legal := legalMoves(p)
			var acc []tak.Move
			for _, m := range legal {
				if ok, _ := safeLegal(fpa.VerifCloneRule(rule), p, m); ok {
					acc = append(acc, m)
				}
			}
			next, has := tak.Move{}, false
			if p.ToMove() == col {
				next, has = safeScript(rule, p)
			}
			if !has {
				if len(acc) == 0 {
					break
				}
				next = acc[r.Intn(len(acc))]
			}
			if !g.push(next) {
				break
			}
		}
		head := "F " + variant + " " + glueCol(col) + " " + strconv.Itoa(size) + " " + strconv.Itoa(1+r.Intn(3)) + " ai "
		probe := execLine(c.S, "glueprobe "+head+strings.Join(g.toks, " "))
		toks, ok := glueEmbed(g.toks, probe)
		if !ok {
			c.Count("C20glue.A.ai.probe-failed")
			toks = g.toks
		}
		out := c.Emit("glue " + head + strings.Join(toks, " "))
		glueTags(c, "C20glue.A.ai."+variant, out)
	}
}

func glueTaktician(c *Ctx, tag string, div int) {
	r := c.R
	cols := glueCols
	// ---- C: Taktician
	limits := []int64{0, 1, 1000000, 1000000000, 60000000000, -5, 1 << 62}
	nC := c.Scale(2500, 80000) / div
	for i := 0; i < nC; i++ {
		size := 3 + r.Intn(4)
		col := cols[r.Intn(3)]
		stub := !r.Chance(1, 8)
		g := &glueLine{r: r}
		p0 := tak.New(tak.Config{Size: size})
		g.ps, g.all = []*tak.Position{p0}, []*tak.Position{p0}
		g.call(-1, stub)
		n := r.Intn(7)
		if !stub {
			n = r.Intn(5)
		}
		for _, m := range glueGame(r, size, n) {
			if !g.push(m) {
				break
			}
			if stub && r.Chance(1, 12) && len(g.ps) > 2 {
				g.pop()
				g.call(-1, stub)
				if !g.push(m) {
					break
				}
			}
			g.call(-1, stub)
		}
		mode := "ai"
		if stub {
			mode = "stub"
		}
		opp := strconv.Itoa(r.Intn(2))
		out := c.Emit("glue T " + strconv.FormatInt(limits[r.Intn(len(limits))], 10) + " " + glueCol(col) + " " + strconv.Itoa(size) + " " + opp + " " + mode + " " + strings.Join(g.toks, " "))
		glueTags(c, tag+".C."+mode+"."+glueCol(col)+".opp"+opp, out)
	}
}

func glueFns(c *Ctx) {
	// ---- D
	if c.Shard == 0 {
		for l := -3; l <= 120; l++ {
			c.Emit("gluefn level " + strconv.Itoa(l))
		}
		args := []string{"", "max", "MAX", "0", "1", "6", "13", "14", "15", "007", "+3", "-1", "1_0", " 2", "2 ", "abc", "3.5",
			"9223372036854775807", "9223372036854775808", "18446744073709551615", "18446744073709551616", "99999999999999999999999"}
		for _, a := range args {
			for _, lv := range []int{0, 6, 100} {
				for _, ig := range []string{"0", "1"} {
					for _, fo := range []string{"0", "1"} {
						h := "-"
						if a != "" {
							h = hex.EncodeToString([]byte(a))
						}
						c.Emit("gluefn levelcmd " + strconv.Itoa(lv) + " " + ig + " " + fo + " " + h)
					}
				}
			}
		}
		// HandleTell on chat messages: the command words in any case, numeric arguments around the accepted ranges,
		// empty / space-only / multi-space messages, random printable ASCII
		words := []string{"level", "Level", "LEVEL", "size", "Size", "sIZE", "help", "HELP", "hello", "", "levels", "siz"}
		targs := []string{"", "max", "Max", "0", "1", "2", "3", "4", "5", "6", "7", "8", "9", "13", "14", "15", "100", "-1", "+5", "05", "5 ", " 5", "5 6", "x",
			"9223372036854775807", "9223372036854775808", "-9223372036854775808", "-9223372036854775809", "18446744073709551615", "18446744073709551616"}
		emitTell := func(msg string) {
			h := "-"
			if msg != "" {
				h = hex.EncodeToString([]byte(msg))
			}
			for _, k := range []string{"F", "T"} {
				for _, ig := range []string{"0", "1"} {
					fo := strconv.Itoa(c.R.Intn(2))
					out := c.Emit("gluefn tell " + k + " " + strconv.Itoa([]int{0, 6, 100}[c.R.Intn(3)]) + " " + ig + " " + fo + " " + h)
					c.Count("C20glue.D.tell." + k + "." + strings.Fields(out + " ?")[0])
				}
			}
		}
		for _, w := range words {
			emitTell(w)
			for _, a := range targs {
				emitTell(w + " " + a)
			}
		}
		for _, m := range []string{" ", "  ", " level 3", "level  3", "level\t3", "size 5 extra", "help me"} {
			emitTell(m)
		}
		for i := 0; i < 300; i++ {
			n := c.R.Intn(12)
			b := make([]byte, n)
			for j := range b {
				b[j] = byte(32 + c.R.Intn(95))
			}
			emitTell(string(b))
		}
		for _, v := range []string{"none", "center", "doublestack", "cairn"} {
			for size := 3; size <= 8; size++ {
				c.Emit("gluefn cfg " + v + " " + strconv.Itoa(size))
			}
		}
		for size := 0; size <= 9; size++ {
			c.Emit("gluefn book 0 " + strconv.Itoa(size))
			c.Emit("gluefn book 1 " + strconv.Itoa(size))
		}
	}
}

func init() {
	genTable["C20glue"] = genC20glue
	genTable["C07glue"] = genC07glue
	// C16 names cmd/internal/playtak/taktician.go: the Taktician part alone (calls whose time budget runs out while the
	// engine searches return the engine's truncated answer, not nothing)
	genTable["C16glueT"] = func(c *Ctx) { glueTaktician(c, "C16glueT", 3) }
}
