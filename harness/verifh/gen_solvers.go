package main

// C06 generator: proof-number solvers against the model and against the game-theoretic truth.

import (
	"fmt"
	"os"
	"strconv"
	"strings"
	"time"

	"github.com/nelhage/taktician/prove"
	"github.com/nelhage/taktician/ptn"
	"github.com/nelhage/taktician/tak"
)

var pnMaxNodes = []uint64{0, 0, 0, 3, 10, 40, 200, 1200}
var pnMaxDepth = []int{0, 0, 0, 0, 1, 2, 3, 5, 8, -1}
var dfpnEntries = []int{1, 2, 3, 4, 7, 16, 64, 1 << 10, 1 << 16}

func randPNArgs(r *RNG) pnArgs {
	return pnArgs{
		maxNodes: pnMaxNodes[r.Intn(len(pnMaxNodes))],
		preserve: r.Chance(1, 2),
		pn2:      r.Chance(1, 4),
		maxDepth: pnMaxDepth[r.Intn(len(pnMaxDepth))],
	}
}

func pnLine(a pnArgs, truth string, p *tak.Position) string {
	return fmt.Sprintf("pn %d %d %d %d %s %s", a.maxNodes, b2i(a.preserve), b2i(a.pn2), a.maxDepth, truth, encPos(p))
}

func dfpnLine(att tak.Color, entries int, truth string, p *tak.Position) string {
	return fmt.Sprintf("dfpn %s %d %s %s", colorStr(att), entries, truth, encPos(p))
}

// dfpnFinishes runs the real depth-first solver under a watchdog. The solver has no limit of its own;
// a run that does not come back is stopped by pulling its table away (the next table access panics
// inside the watchdog's goroutine), and the position is not used.
func dfpnFinishes(att tak.Color, entries int, p *tak.Position, d time.Duration) bool {
	_, ok := dfpnWork(att, entries, p, d)
	return ok
}

// dfpnWork: the work count of the run, and whether it came back at all.
func dfpnWork(att tak.Color, entries int, p *tak.Position, d time.Duration) (uint64, bool) {
	solver := prove.NewDFPN(&prove.DFPNConfig{Attacker: att, TableMem: int64(entries) * prove.VerifEntrySize()})
	type res struct {
		work uint64
		ok   bool
	}
	done := make(chan res, 1)
	go func() {
		defer func() {
			if r := recover(); r != nil {
				done <- res{0, false}
			}
		}()
		_, st := solver.Prove(p)
		done <- res{st.Work + st.Miss + st.Hits, true}
	}()
	select {
	case r := <-done:
		return r.work, r.ok
	case <-time.After(d):
		solver.VerifAbort()
		select {
		case <-done:
		case <-time.After(2 * time.Second):
			// spinning without touching its table: nothing can stop it; it is left behind
			if os.Getenv("VERIF_TIMING") != "" {
				fmt.Fprintf(os.Stderr, "dfpn stuck without table access: att=%s entries=%d pos=%s\n", colorStr(att), entries, encPos(p))
			}
		}
		return 0, false
	}
}

// the model is some fifty times slower than the real solvers: runs beyond these sizes are left out
func (c *Ctx) pnBudget() uint64 {
	if c.Thorough() {
		return 200000
	}
	return 12000
}

func (c *Ctx) dfpnBudget() uint64 {
	if c.Thorough() {
		return 300000
	}
	return 15000
}

func tagResult(c *Ctx, kind string, out string) {
	f := strings.Fields(out)
	if len(f) == 0 {
		return
	}
	c.Count(kind + "." + f[0])
	// dfpn output: verdict move proof disproof work repetition ...: how often does a run meet a repetition on its search path?
	if strings.HasPrefix(kind, "dfpn") && len(f) > 5 && f[0] != "panic" && f[0] != "hang" && f[5] != "0" {
		c.Count(kind + ".repetition>0")
		c.Count(kind + ".repetition>0." + f[0])
	}
	if last := f[len(f)-1]; strings.HasPrefix(last, "truth=") && last != "truth=ok" {
		c.Count(kind + "." + last)
	}
}

// emitSolverOps: a handful of solver runs on one position, each configuration axis varied.
func emitSolverOps(c *Ctx, p *tak.Position, truth string, dfpnOK bool, nPN, nDF int) {
	r := c.R
	for i := 0; i < nPN; i++ {
		a := randPNArgs(r)
		if truth[0] == 'b' && a.maxNodes == 0 {
			a.maxNodes = 600 // larger positions: never search without a node limit
		}
		if _, st := runPN(a, p); st.Nodes > c.pnBudget() {
			c.Count("pn.skipped-too-large")
			continue
		}
		out := c.Emit(pnLine(a, truth, p))
		tagResult(c, "pn", out)
		if a.pn2 {
			c.Count("pn.cfg.pn2")
		}
		if a.maxDepth != 0 {
			c.Count("pn.cfg.maxdepth")
		}
		if a.maxNodes != 0 {
			c.Count("pn.cfg.maxnodes")
		}
		if a.preserve {
			c.Count("pn.cfg.preserve")
		}
	}
	if !dfpnOK {
		return
	}
	for i := 0; i < nDF; i++ {
		att := []tak.Color{tak.NoColor, tak.White, tak.Black}[r.Intn(3)]
		ent := dfpnEntries[r.Intn(len(dfpnEntries))]
		w, ok := dfpnWork(att, ent, p, 2*time.Second)
		if !ok {
			c.Count("dfpn.skipped-no-return")
			continue
		}
		if w > c.dfpnBudget() {
			c.Count("dfpn.skipped-too-large")
			continue
		}
		out := c.Emit(dfpnLine(att, ent, truth, p))
		tagResult(c, "dfpn", out)
		if att != tak.NoColor && att != p.ToMove() {
			c.Count("dfpn.cfg.attacker-not-to-move")
		}
		if ent <= 16 {
			c.Count("dfpn.cfg.table<=16")
		}
	}
}

// graphRoot draws positions of the small-graph families until one has a game graph within [lo, hi] positions.
func graphRoot(r *RNG, lo, hi int, big bool) (*tak.Position, *graph) {
	for try := 0; try < 60; try++ {
		p := graphFamily(r, big)
		g := exploreGraph(p, hi)
		if g != nil && len(g.nodes) >= lo {
			return p, g
		}
	}
	return nil, nil
}

// pickNodes chooses positions of a solved graph: uniformly, plus the ones where something is at stake:
// the side to move wins but not at once, or it cannot win although the game goes on (draws by repetition,
// lost positions), and positions one move before such a position.
func pickNodes(r *RNG, g *graph, n int) []int {
	var live, deepWin, noWin []int
	for i, nd := range g.nodes {
		if nd.over {
			continue
		}
		live = append(live, i)
		win := g.winW
		if nd.p.ToMove() == tak.Black {
			win = g.winB
		}
		if win[i] {
			immediate := false
			for _, j := range nd.succ {
				if g.nodes[j].over {
					immediate = true
				}
			}
			if !immediate {
				deepWin = append(deepWin, i)
			}
		} else {
			noWin = append(noWin, i)
		}
	}
	var out []int
	for len(out) < n && len(live) > 0 {
		switch x := r.Intn(10); {
		case x < 4 && len(deepWin) > 0:
			out = append(out, deepWin[r.Intn(len(deepWin))])
		case x < 7 && len(noWin) > 0:
			out = append(out, noWin[r.Intn(len(noWin))])
		default:
			out = append(out, live[r.Intn(len(live))])
		}
	}
	return out
}

func genC06(c *Ctx) {
	r := c.R
	t0 := time.Now()
	lap := func(what string) {
		if os.Getenv("VERIF_TIMING") != "" {
			fmt.Fprintf(os.Stderr, "shard %d %s %v\n", c.Shard, what, time.Since(t0))
		}
		t0 = time.Now()
	}
	lap("threats")
	// (2) exactly solved game graphs: every position in them has a known value for both colours
	graphs := c.Scale(16, 40)
	lo, hi := 300, 60000
	perGraph := 24
	if c.Thorough() {
		hi = 400000
		perGraph = 200
	}
	caseNo := 0
	for k := 0; k < graphs; k++ {
		root, g := graphRoot(r, lo, hi, c.Thorough())
		if root == nil {
			c.Count("graph.none-found")
			continue
		}
		g.limit = hi
		g.winW = g.solve(tak.White)
		g.winB = g.solve(tak.Black)
		c.S.slots["cache:pngraph"] = g
		c.Count("graph.nodes~" + strconv.Itoa(len(g.nodes)/10000*10000))
		c.Count("graph.size" + strconv.Itoa(root.Size()))
		nodes := pickNodes(r, g, perGraph)
		for i, ni := range nodes {
			if i%6 == 0 {
				caseNo++
				c.Emit(fmt.Sprintf("case %d.%d", c.Shard, caseNo))
				c.Emit(fmt.Sprintf("pngraph %d %s", hi, encPos(root)))
			}
			p := g.nodes[ni].p
			win := g.winW
			if p.ToMove() == tak.Black {
				win = g.winB
			}
			if win[ni] {
				c.Count("graph.pos.mover-wins")
			} else {
				c.Count("graph.pos.mover-cannot-win")
			}
			emitSolverOps(c, p, "g", true, 3, 3)
		}
	}

	lap("graphs")
	// (3) self-contained small graphs (second opinion of the two exact solvers on each other)
	for k := c.Scale(48, 200); k > 0; k-- {
		root := famPosition(r, 3, 1, 1, 30, 0, 1)
		caseNo++
		c.Emit(fmt.Sprintf("case %d.%d", c.Shard, caseNo))
		att := []string{"W", "B"}[r.Intn(2)]
		c.Emit("gtruth " + att + " 3000 " + encPos(root))
		emitSolverOps(c, root, "x3000", true, 1, 1)
	}

	lap("selfcontained")
	// (4) larger positions near the end of random games, judged one-sidedly by exhaustive search to a fixed depth
	for k := c.Scale(96, 600); k > 0; k-- {
		size := 3 + r.Intn(3)
		if r.Chance(1, 8) {
			size = 6
		}
		var all []*tak.Position
		playout(r, randomConfig(r, size), 6*size*size, func(p *tak.Position) { all = append(all, p) })
		idx := len(all) - 2 - r.Intn(4)
		if idx < 2 {
			continue
		}
		p := all[idx]
		if over, _ := p.GameOver(); over {
			continue
		}
		c.Count("bounded.size" + strconv.Itoa(size))
		caseNo++
		c.Emit(fmt.Sprintf("case %d.%d", c.Shard, caseNo))
		depth := 2
		if size == 3 {
			depth = 3
		}
		// the depth-first solver only where plain PN search settles the position quickly
		res, _ := runPN(pnArgs{maxNodes: 1000}, p)
		emitSolverOps(c, p, "b"+strconv.Itoa(depth), res.Result != prove.EvalUnknown, 2, 2)
	}
	lap("bounded")

	// (5) finished games as roots: the verdict is the result of the game
	for k := c.Scale(64, 300); k > 0; k-- {
		size := 3 + r.Intn(3)
		var last *tak.Position
		playout(r, randomConfig(r, size), 8*size*size, func(p *tak.Position) { last = p })
		over, who := last.GameOver()
		if !over {
			continue
		}
		c.Count("finished.winner" + colorStr(who))
		caseNo++
		c.Emit(fmt.Sprintf("case %d.%d", c.Shard, caseNo))
		emitSolverOps(c, last, "b1", true, 1, 2)
	}
	lap("finished")

	// (6) one solver / one prover used for several positions, also of different board sizes (larger first:
	// a pooled position of a smaller board cannot hold a larger one)
	for k := c.Scale(16, 64); k > 0; k-- {
		caseNo++
		c.Emit(fmt.Sprintf("case %d.%d", c.Shard, caseNo))
		att := []tak.Color{tak.NoColor, tak.NoColor, tak.White, tak.Black}[r.Intn(4)]
		ent := dfpnEntries[r.Intn(len(dfpnEntries))]
		c.Emit(fmt.Sprintf("dfpnnew d %s %d", colorStr(att), ent))
		pa := randPNArgs(r)
		if pa.maxNodes == 0 || pa.maxNodes > 200 {
			pa.maxNodes = 200
		}
		c.Emit(fmt.Sprintf("pnnew p %d %d %d %d", pa.maxNodes, b2i(pa.preserve), b2i(pa.pn2), pa.maxDepth))
		size := 4 + r.Intn(2)
		if c.Thorough() && r.Chance(1, 4) {
			size = 6
		}
		sizes := map[int]bool{}
		for i := 0; i < 4; i++ {
			if i > 0 && size > 3 && r.Chance(1, 2) {
				size--
			}
			sizes[size] = true
			var all []*tak.Position
			playout(r, randomConfig(r, size), 6*size*size, func(p *tak.Position) { all = append(all, p) })
			idx := len(all) - 2 - r.Intn(3)
			if idx < 2 {
				continue
			}
			p := all[idx]
			truth := "b2"
			if size >= 5 {
				truth = "b1"
			}
			// the real solver must come back on this position (own copy: the session's solver is not disturbed)
			d, _ := c.S.slots["dfpn:d"].(*prove.DFPNSolver)
			if d != nil && dfpnFinishesOn(d, p, 700*time.Millisecond, c.dfpnBudget()) {
				out := c.Emit("dfpnuse d " + truth + " " + encPos(p))
				tagResult(c, "dfpn.reused", out)
			} else {
				c.Count("dfpn.reused.skipped")
				if d == nil || d.VerifTableLen() == 0 {
					// the solver's table has been pulled away: start a fresh one
					c.Emit(fmt.Sprintf("dfpnnew d %s %d", colorStr(att), ent))
				}
			}
			out := c.Emit("pnuse p " + truth + " " + encPos(p))
			tagResult(c, "pn.reused", out)
		}
		if len(sizes) > 1 {
			c.Count("reused.across-sizes")
		}
	}
	// (6b) one depth-first solver asked about a position and then about positions two plies BELOW it (3x3, reduced
	// reserves): entries the first call left unsolved - with their moves - meet the later calls
	for k := c.Scale(12, 48); k > 0; k-- {
		caseNo++
		c.Emit(fmt.Sprintf("case %d.%d", c.Shard, caseNo))
		att := []tak.Color{tak.NoColor, tak.White, tak.Black}[r.Intn(3)]
		ent := dfpnEntries[r.Intn(len(dfpnEntries))]
		c.Emit(fmt.Sprintf("dfpnnew d %s %d", colorStr(att), ent))
		root := tak.New(tak.Config{Size: 3, Pieces: 4 + r.Intn(3), Capstones: r.Intn(2)})
		for i := 0; i < 2+r.Intn(4); i++ {
			ms := legalMoves(root)
			if len(ms) == 0 {
				break
			}
			if n, err := root.Move(ms[r.Intn(len(ms))]); err == nil {
				if o, _ := n.GameOver(); !o {
					root = n
				}
			}
		}
		ask := func(p *tak.Position, tag string) {
			d, _ := c.S.slots["dfpn:d"].(*prove.DFPNSolver)
			if d != nil && dfpnFinishesOn(d, p, 700*time.Millisecond, c.dfpnBudget()) {
				tagResult(c, "dfpn.below."+tag, c.Emit("dfpnuse d b2 "+encPos(p)))
			} else {
				c.Count("dfpn.below.skipped")
				if d == nil || d.VerifTableLen() == 0 {
					c.Emit(fmt.Sprintf("dfpnnew d %s %d", colorStr(att), ent))
				}
			}
		}
		ask(root, "root")
		for j := 0; j < 6; j++ {
			q := root
			for step := 0; step < 2; step++ {
				ms := legalMoves(q)
				if len(ms) == 0 {
					break
				}
				if n, err := q.Move(ms[r.Intn(len(ms))]); err == nil {
					q = n
				}
			}
			if o, _ := q.GameOver(); !o && q != root {
				ask(q, "grandchild")
			}
		}
	}
	// (6c) the same, exhaustively below one fixed root (3x3, five stones a side, after b1 b2 b2+ Sa3): every position two
	// plies below, in generation order, on one solver with a roomy table
	if c.Shard == 0 {
		caseNo++
		c.Emit(fmt.Sprintf("case %d.%d", c.Shard, caseNo))
		c.Emit(fmt.Sprintf("dfpnnew d %s %d", colorStr(tak.NoColor), dfpnEntries[len(dfpnEntries)-1]))
		root := tak.New(tak.Config{Size: 3, Pieces: 5})
		for _, t := range []string{"b1", "b2", "b2+", "Sa3"} {
			m, _ := ptn.ParseMove(t)
			root, _ = root.Move(m)
		}
		asked := 0
		askF := func(p *tak.Position) {
			d, _ := c.S.slots["dfpn:d"].(*prove.DFPNSolver)
			bud := c.dfpnBudget()
			if asked == 0 {
				bud *= 20 // the root call fills the table: it may cost more than the others
			}
			if d != nil && dfpnFinishesOn(d, p, 3*time.Second, bud) {
				tagResult(c, "dfpn.below-fixed", c.Emit("dfpnuse d b2 "+encPos(p)))
				asked++
			}
		}
		askF(root)
		lim := 120 // (not c.Scale: this session runs in shard 0 only)
		if c.Thorough() {
			lim = 400
		}
		for _, m1 := range legalMoves(root) {
			p1, err := root.Move(m1)
			if err != nil {
				continue
			}
			if o, _ := p1.GameOver(); o {
				continue
			}
			for _, m2 := range legalMoves(p1) {
				p2, err := p1.Move(m2)
				if err != nil || asked >= lim {
					continue
				}
				if o, _ := p2.GameOver(); !o {
					askF(p2)
				}
			}
		}
	}
	lap("reused")

	// (7) very wide positions (tall stacks of the side to move on 7x7/8x8: over a thousand moves), where the
	// first level of a PN² search passes pn2Threshold before the tree is deep; with and without depth limit
	for k := c.Scale(16, 64); k > 0; k-- {
		p := widePosition(r)
		caseNo++
		c.Emit(fmt.Sprintf("case %d.%d", c.Shard, caseNo))
		nm := len(p.AllMoves(nil))
		c.Count("wide.moves~" + strconv.Itoa(nm/500*500))
		// depth limit 1: every root move is refuted at once by the cut-off below it, so the whole search
		// is a few thousand nodes, nearly all of them made in second-level searches (deeper limits cost
		// hundreds of thousands of nodes here whatever the node limit, which counts live nodes only)
		a := pnArgs{pn2: true, maxDepth: 1, preserve: r.Chance(1, 2)}
		out := c.Emit(pnLine(a, "n", p))
		tagResult(c, "pn.wide", out)
		if r.Chance(1, 2) {
			a.pn2 = false
			out = c.Emit(pnLine(a, "n", p))
			tagResult(c, "pn.wide", out)
		}
	}
	lap("wide")
}

// dfpnFinishesOn runs Prove of a *copy-free* probe: a fresh solver with the same configuration cannot stand in
// for a used one (its table differs), so the session's own solver is probed under the watchdog; when it
// does not come back it is destroyed and the caller replaces it.
func dfpnFinishesOn(d *prove.DFPNSolver, p *tak.Position, dur time.Duration, budget uint64) bool {
	snap := d.VerifSnapshot()
	done := make(chan bool, 1)
	go func() {
		defer func() {
			if r := recover(); r != nil {
				done <- false
			}
		}()
		_, st := d.Prove(p)
		done <- st.Work+st.Miss+st.Hits <= budget
	}()
	select {
	case ok := <-done:
		d.VerifRestore(snap)
		return ok
	case <-time.After(dur):
		d.VerifAbort()
		select {
		case <-done:
		case <-time.After(2 * time.Second):
		}
		return false
	}
}

// widePosition: 7x7 or 8x8, two or three tall stacks topped by the side to move's flats or capstone in the
// interior, a few scattered pieces; the side to move has far more than a thousand moves.
func widePosition(r *RNG) *tak.Position {
	for {
		size := 7 + r.Intn(2)
		board := make([][]tak.Square, size)
		for y := range board {
			board[y] = make([]tak.Square, size)
		}
		ply := 20 + r.Intn(40)
		mover := tak.White
		if ply%2 == 1 {
			mover = tak.Black
		}
		nst := 2 + r.Intn(2)
		for i := 0; i < nst; i++ {
			x, y := 2+r.Intn(size-4), 2+r.Intn(size-4)
			if board[y][x] != nil {
				continue
			}
			h := size + r.Intn(4)
			sq := make(tak.Square, h)
			sq[0] = tak.MakePiece(mover, tak.Flat)
			for j := 1; j < h; j++ {
				sq[j] = tak.MakePiece([]tak.Color{tak.White, tak.Black}[r.Intn(2)], tak.Flat)
			}
			board[y][x] = sq
		}
		for i := 0; i < 3+r.Intn(6); i++ {
			x, y := r.Intn(size), r.Intn(size)
			if board[y][x] != nil {
				continue
			}
			kind := tak.Flat
			if r.Chance(1, 4) {
				kind = tak.Standing
			}
			board[y][x] = tak.Square{tak.MakePiece([]tak.Color{tak.White, tak.Black}[r.Intn(2)], kind)}
		}
		p, err := tak.FromSquares(tak.Config{Size: size}, board, ply)
		if err != nil {
			continue
		}
		if over, _ := p.GameOver(); over {
			continue
		}
		if len(p.AllMoves(nil)) < 1100 {
			continue
		}
		return p
	}
}

func init() {
	genTable["C06"] = genC06
}
