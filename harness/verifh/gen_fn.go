package main

import (
	"fmt"
	"strconv"

	"github.com/nelhage/taktician/bitboard"
	"github.com/nelhage/taktician/prove"
	"github.com/nelhage/taktician/tak"
)

// `fn.*` ops run the whitelisted functions that /verif/gen translates to Lean (Generated/Funcs.lean)
// on the real code, so that the translation scheme itself is validated by correspondence.
func init() {
	opTable["fn.precompute"] = func(s *Session, a []string) string {
		c := bitboard.Precompute(uint(atoi(a[0])))
		return fmt.Sprintf("%d %d %d %d %d %d %d", c.Size, c.L, c.R, c.T, c.B, c.Edge, c.Mask)
	}
	opTable["fn.grow"] = func(s *Session, a []string) string {
		c := bitboard.Precompute(uint(atoi(a[0])))
		return strconv.FormatUint(bitboard.Grow(&c, atou(a[1]), atou(a[2])), 10)
	}
	opTable["fn.hash8"] = func(s *Session, a []string) string {
		return strconv.FormatUint(tak.VerifHash8(atou(a[0]), byte(atoi(a[1]))), 10)
	}
	opTable["fn.hash64"] = func(s *Session, a []string) string {
		return strconv.FormatUint(tak.VerifHash64(atou(a[0]), atou(a[1])), 10)
	}
	opTable["fn.slides"] = func(s *Session, a []string) string {
		sl := tak.Slides(atou(a[0]))
		n := atoi(a[1])
		it := sl.Iterator()
		return fmt.Sprintf("%d %d %d %d %d %d %d", b2i(sl.Empty()), b2i(sl.Singleton()), sl.First(), uint32(sl.Prepend(n)), uint32(it.Next()), b2i(it.Ok()), it.Elem())
	}
	opTable["fn.satadd"] = func(s *Session, a []string) string {
		return strconv.FormatUint(uint64(prove.VerifSaturatingAdd(uint32(atou(a[0])), uint32(atou(a[1])))), 10)
	}
}

func edgeU64(r *RNG) uint64 {
	switch r.Intn(6) {
	case 0:
		return 0
	case 1:
		return ^uint64(0)
	case 2:
		return uint64(1) << uint(r.Intn(64))
	case 3:
		return r.Next() & r.Next()
	default:
		return r.Next()
	}
}

func edgeU32(r *RNG) uint32 {
	switch r.Intn(6) {
	case 0:
		return 0
	case 1:
		return ^uint32(0)
	case 2:
		return ^uint32(0) - uint32(r.Intn(4))
	case 3:
		return uint32(r.Intn(16))
	default:
		return uint32(r.Next())
	}
}

func genFN(c *Ctx) {
	if c.Shard == 0 {
		for size := 3; size <= 8; size++ {
			c.Emit(fmt.Sprintf("fn.precompute %d", size))
		}
	}
	n := c.Scale(16000, 1600000)
	for k := 0; k < n; k++ {
		size := 3 + c.R.Intn(6)
		mask := uint64(1)<<uint(size*size) - 1
		w, s := edgeU64(c.R), edgeU64(c.R)
		if c.R.Chance(3, 4) {
			w &= mask
			s &= mask
		}
		c.Emit(fmt.Sprintf("fn.grow %d %d %d", size, w, s))
		c.Emit(fmt.Sprintf("fn.hash8 %d %d", edgeU64(c.R), c.R.Intn(256)))
		c.Emit(fmt.Sprintf("fn.hash64 %d %d", edgeU64(c.R), edgeU64(c.R)))
		c.Emit(fmt.Sprintf("fn.slides %d %d", edgeU32(c.R), c.R.Intn(16)))
		c.Emit(fmt.Sprintf("fn.satadd %d %d", edgeU32(c.R), edgeU32(c.R)))
	}
}

func init() { genTable["FN"] = genFN }
