package main

// C20: the first-player-advantage opening scripts, driven through the real Friendly.GetMove.

import (
	"sort"
	"strconv"
	"strings"

	fpa "github.com/nelhage/taktician/cmd/internal/playtak"
	"github.com/nelhage/taktician/tak"
)

func fpaHorizon(variant string) int {
	if variant == "center" {
		return 2
	}
	return 6
}

func fpaColor(s string) tak.Color {
	if s == "W" {
		return tak.White
	}
	return tak.Black
}

type fpaReplayResult struct {
	trace     []string
	needs     bool // stopped because a free (unscripted) move is needed and no choice is left
	v         *fpa.VerifFPA
	completed bool
}

// fpaReplay plays the opening: scripted plies come from the bot, every other ply consumes one choice.
// Trace tokens: `o:<move>` opponent's move, `a:<move>` the bot's own unscripted move (its searcher's
// choice), `s:<move>` a scripted move; `illegal` the last move is not legal on the board; `resign` the
// rule check rejected the last move; `panic`; `end` choices exhausted; `done` horizon reached.
func fpaReplay(variant string, color tak.Color, size int, choices []tak.Move) (res fpaReplayResult) {
	return fpaReplayWith(nil, variant, color, size, choices)
}

// rule != nil: a rule value that has been through earlier games
func fpaReplayWith(rule fpa.FPARule, variant string, color tak.Color, size int, choices []tak.Move) (res fpaReplayResult) {
	v := fpa.VerifNewFPA(variant, color, size)
	if rule != nil {
		v = fpa.VerifNewFPAWithRule(rule, color, size)
	}
	res.v = v
	horizon := fpaHorizon(variant)
	ci := 0
	for ply := 0; ; ply++ {
		var choice tak.Move
		has := ci < len(choices)
		if has {
			choice = choices[ci]
		}
		var m tak.Move
		var searched, resigned, panicked bool
		func() {
			defer func() {
				if recover() != nil {
					panicked = true
				}
			}()
			m, searched, resigned = v.Step(choice)
		}()
		if panicked {
			res.trace = append(res.trace, "panic")
			return
		}
		if resigned {
			res.trace = append(res.trace, "resign")
			return
		}
		if ply == horizon {
			res.trace = append(res.trace, "done")
			res.completed = true
			return
		}
		p := v.G.Positions[len(v.G.Positions)-1]
		var played tak.Move
		var tag string
		if p.ToMove() == color && !searched {
			tag, played = "s", m
		} else {
			tag = "o"
			if p.ToMove() == color {
				tag = "a"
			}
			if !has {
				res.trace = append(res.trace, "end")
				res.needs = true
				return
			}
			ci++
			played = choice
		}
		err := v.Play(played)
		res.trace = append(res.trace, tag+":"+encMove(played))
		if err != nil {
			res.trace = append(res.trace, "illegal")
			return
		}
	}
}

func fpaArgs(a []string) (string, tak.Color, int, []tak.Move) {
	var ms []tak.Move
	for _, t := range a[3:] {
		ms = append(ms, decMove(t))
	}
	return a[0], fpaColor(a[1]), atoi(a[2]), ms
}

func init() {
	opTable["fpa"] = func(s *Session, a []string) string {
		variant, color, size, ms := fpaArgs(a)
		r := fpaReplay(variant, color, size, ms)
		return strings.Join(r.trace, " ")
	}
	// the prefix's trace and, if it stops for want of a free move, every legal move there that the rule accepts
	// fpaseq <variant> <game> | <game> | ...   (game = colour size moves...): ONE rule value plays the games in turn
	opTable["fpaseq"] = func(s *Session, a []string) string {
		rule := fpa.VerifNewRule(a[0])
		var out []string
		var cur []string
		flush := func() {
			if len(cur) >= 2 {
				var ms []tak.Move
				for _, t := range cur[2:] {
					ms = append(ms, decMove(t))
				}
				r := fpaReplayWith(rule, a[0], fpaColor(cur[0]), atoi(cur[1]), ms)
				out = append(out, strings.Join(r.trace, " "))
			}
			cur = nil
		}
		for _, t := range a[1:] {
			if t == "|" {
				flush()
			} else {
				cur = append(cur, t)
			}
		}
		flush()
		return strings.Join(out, " || ")
	}
	opTable["fpaopts"] = func(s *Session, a []string) string {
		variant, color, size, ms := fpaArgs(a)
		r := fpaReplay(variant, color, size, ms)
		out := strings.Join(r.trace, " ")
		if !r.needs {
			return out
		}
		p := r.v.G.Positions[len(r.v.G.Positions)-1]
		var acc []tak.Move
		nlegal := 0
		for _, m := range p.AllMoves(nil) {
			if _, err := p.Move(m); err != nil {
				continue
			}
			nlegal++
			if fpa.VerifCloneRule(r.v.Rule).LegalMove(p, m) == nil {
				acc = append(acc, m)
			}
		}
		sort.Slice(acc, func(i, j int) bool { return moveLess(acc[i], acc[j]) })
		return out + " | " + strconv.Itoa(nlegal) + " | " + fmtMoves(acc)
	}
	// the small helpers, directly
	opTable["fpafn"] = func(s *Session, a []string) string {
		switch a[0] {
		case "centered", "centeradj":
			p := tak.New(tak.Config{Size: atoi(a[1])})
			m := tak.Move{X: int8(atoi(a[2])), Y: int8(atoi(a[3])), Type: tak.PlaceFlat}
			if a[0] == "centered" {
				return strconv.Itoa(b2i(fpa.VerifIsCentered(p, m)))
			}
			return strconv.Itoa(b2i(fpa.VerifIsCenterAdjacent(p, m)))
		case "distance":
			return strconv.Itoa(int(fpa.VerifDistance(int8(atoi(a[1])), int8(atoi(a[2])), int8(atoi(a[3])), int8(atoi(a[4])))))
		case "dir":
			return strconv.Itoa(int(fpa.VerifDir(atoi(a[1]), atoi(a[2]), atoi(a[3]), atoi(a[4]))))
		case "adjacent":
			p := decPos(a[1])
			x, y := fpa.VerifAdjacent(p, atoi(a[2]), atoi(a[3]))
			return strconv.Itoa(x) + "," + strconv.Itoa(y)
		}
		return "bad-op"
	}
}

// ---------------------------------------------------------------- generator: exhaustive enumeration

func parseMovesList(s string) []string {
	s = strings.TrimSpace(s)
	if s == "-" || s == "" {
		return nil
	}
	return strings.Fields(s)
}

func genC20(c *Ctx) {
	sizes := []int{4, 5, 6}
	if c.Thorough() {
		sizes = []int{4, 5, 6, 7, 8}
	}
	for _, variant := range []string{"center", "doublestack", "cairn"} {
		for _, col := range []string{"W", "B"} {
			for _, size := range sizes {
				cell := variant + "." + col + "." + strconv.Itoa(size)
				k := 0
				var dfs func(choices []string, depth int)
				dfs = func(choices []string, depth int) {
					args := variant + " " + col + " " + strconv.Itoa(size)
					if len(choices) > 0 {
						args += " " + strings.Join(choices, " ")
					}
					mine := true
					if depth == 1 {
						// the first free move decides the shard
						mine = k%c.NShard == c.Shard
						k++
						if !mine {
							return
						}
					}
					var out string
					if depth == 0 && c.Shard != 0 {
						out = execLine(c.S, "fpaopts "+args) // every shard walks the root, shard 0 records it
					} else {
						out = c.Emit("fpaopts " + args)
					}
					parts := strings.Split(out, " | ")
					if len(parts) == 3 {
						opts := parseMovesList(parts[2])
						c.Count("C20.node." + cell + ".options~" + strconv.Itoa(len(opts)))
						for _, o := range opts {
							dfs(append(choices[:len(choices):len(choices)], o), depth+1)
						}
						return
					}
					// a complete line (or a failed one): one `fpa` op line per opening line
					out = c.Emit("fpa " + args)
					f := strings.Fields(out)
					last := f[len(f)-1]
					c.Count("C20.line." + cell + "." + last)
					if last != "done" {
						// which ply failed, and was it the bot's scripted move?
						ply := len(f) - 2
						who := "?"
						if ply >= 0 && ply < len(f) {
							who = f[ply][:1]
						}
						if last == "panic" {
							ply = len(f) - 1
							who = "s"
						}
						c.Count("C20.FAIL." + cell + ".ply" + strconv.Itoa(ply) + "." + who + "." + last)
					}
				}
				dfs(nil, 0)
			}
		}
	}
	// the helper functions on their whole small domains (shard 0)
	if c.Shard == 0 {
		for size := 3; size <= 8; size++ {
			for x := -2; x <= 9; x++ {
				for y := -2; y <= 9; y++ {
					c.Emit("fpafn centered " + strconv.Itoa(size) + " " + strconv.Itoa(x) + " " + strconv.Itoa(y))
					c.Emit("fpafn centeradj " + strconv.Itoa(size) + " " + strconv.Itoa(x) + " " + strconv.Itoa(y))
				}
			}
		}
		vals := []int{-128, -127, -100, -8, -1, 0, 1, 2, 3, 7, 8, 64, 100, 127}
		for _, a := range vals {
			for _, b := range vals {
				for _, d := range vals {
					c.Emit("fpafn distance " + strconv.Itoa(a) + " " + strconv.Itoa(b) + " " + strconv.Itoa(d) + " " + strconv.Itoa(vals[(a+b+d+384)%len(vals)]))
				}
				c.Emit("fpafn dir " + strconv.Itoa(a) + " " + strconv.Itoa(b) + " " + strconv.Itoa(b) + " " + strconv.Itoa(a))
				c.Emit("fpafn dir " + strconv.Itoa(a) + " " + strconv.Itoa(b) + " " + strconv.Itoa(a) + " " + strconv.Itoa(b))
			}
		}
	}
	// ONE rule value plays several games (the bot builds its rule once; "size" tells change the board between games)
	ns := c.Scale(200, 3000)
	for i := 0; i < ns; i++ {
		variant := []string{"center", "doublestack", "cairn", "cairn"}[c.R.Intn(4)]
		ng := 2 + c.R.Intn(4)
		line := "fpaseq " + variant
		for g := 0; g < ng; g++ {
			size := 3 + c.R.Intn(6)
			if g == 0 && c.R.Intn(2) == 0 {
				size = []int{3, 8, 5}[c.R.Intn(3)]
			}
			col := []string{"W", "B"}[c.R.Intn(2)]
			if g > 0 && c.R.Intn(3) > 0 {
				col = "W"
			}
			var choices []string
			for {
				args := variant + " " + col + " " + strconv.Itoa(size)
				if len(choices) > 0 {
					args += " " + strings.Join(choices, " ")
				}
				parts := strings.Split(execLine(c.S, "fpaopts "+args), " | ")
				if len(parts) != 3 {
					break
				}
				opts := parseMovesList(parts[2])
				if len(opts) == 0 {
					break
				}
				choices = append(choices, opts[c.R.Intn(len(opts))])
			}
			if g > 0 {
				line += " |"
			}
			line += " " + col + " " + strconv.Itoa(size)
			if len(choices) > 0 {
				line += " " + strings.Join(choices, " ")
			}
		}
		out := c.Emit(line)
		ok := "done"
		for _, t := range strings.Split(out, " || ") {
			f := strings.Fields(t)
			if len(f) == 0 || f[len(f)-1] != "done" {
				ok = "fail"
			}
		}
		c.Count("C20.seq." + variant + ".games~" + strconv.Itoa(ng) + "." + ok)
	}
	// adjacent() on random boards
	n := c.Scale(3000, 100000)
	for i := 0; i < n; i++ {
		p := randomPosition(c.R)
		c.Emit("fpafn adjacent " + encPos(p) + " " + strconv.Itoa(c.R.Intn(p.Size())) + " " + strconv.Itoa(c.R.Intn(p.Size())))
	}
}

func init() {
	genTable["C20"] = genC20
}
