package main

// Generator C04selfplay (work package "selfplay"): the real cmd/internal/selfplay in-process (ops sp.*, see ops_selfplay.go).

import (
	"fmt"
	"strconv"
	"strings"

	"github.com/nelhage/taktician/ptn"
	"github.com/nelhage/taktician/tak"
)

func spPick64(r *RNG, xs []int64) int64 { return xs[r.Intn(len(xs))] }

// spOpening: a position a game may start from.  live: the game is not over there.
func spOpening(c *Ctx, size int, allowOver bool) *tak.Position {
	r := c.R
	if r.Chance(1, 3) {
		c.Count("sp.opening.start")
		return tak.New(tak.Config{Size: size})
	}
	var seen []*tak.Position
	playout(r.Fork(), tak.Config{Size: size}, 1+r.Intn(3*size*size), func(p *tak.Position) { seen = append(seen, p) })
	last := seen[len(seen)-1]
	if over, _ := last.GameOver(); over {
		if allowOver && r.Chance(1, 4) {
			c.Count("sp.opening.finished")
			return last
		}
		seen = seen[:len(seen)-1]
	}
	c.Count("sp.opening.midgame")
	return seen[r.Intn(len(seen))]
}

// spInjection: what a scripted player may answer instead of a legal move
func spInjection(c *Ctx, p *tak.Position, ply int) string {
	r := c.R
	switch r.Intn(7) {
	case 0:
		c.Count("sp.inject.error")
		return fmt.Sprintf("%d:err", ply)
	case 1:
		c.Count("sp.inject.pass")
		return fmt.Sprintf("%d:0,0,1,0", ply)
	case 2:
		c.Count("sp.inject.zero-move")
		return fmt.Sprintf("%d:0,0,0,0", ply)
	case 3:
		c.Count("sp.inject.off-board")
		return fmt.Sprintf("%d:%d,%d,2,0", ply, p.Size(), r.Intn(3)-1)
	case 4:
		c.Count("sp.inject.capstone")
		return fmt.Sprintf("%d:%d,%d,4,0", ply, r.Intn(p.Size()), r.Intn(p.Size()))
	case 5:
		c.Count("sp.inject.slide")
		return fmt.Sprintf("%d:%d,%d,%d,%d", ply, r.Intn(p.Size()), r.Intn(p.Size()), 5+r.Intn(4), 1+r.Intn(3))
	}
	c.Count("sp.inject.flat-anywhere")
	return fmt.Sprintf("%d:%d,%d,%d,0", ply, r.Intn(p.Size()), r.Intn(p.Size()), 2+r.Intn(2))
}

var spDurs = []int64{0, 0, 1, 100000, 999999, 1000000, 1000001, 3000000, 400000000}

func spPlayer(c *Ctx, size int, open []*tak.Position, cutoff int, allowMM bool) string {
	r := c.R
	switch {
	case r.Chance(1, 40):
		c.Count("sp.player.fail")
		return []string{"fail", "failgame", "", "nosuch cmd", "rnd 1", "rnd 1 2 3 x", "mm", "rnd 1 2 3 4 5", "rnd 1 2 3 4 5:1,2"}[r.Intn(9)]
	case allowMM && r.Chance(1, 3):
		c.Count("sp.player.minimax")
		d := 1 + r.Intn(2)
		if size >= 4 && r.Chance(2, 3) {
			d = 1
		}
		s := cfgSpec{size: size, depth: d, tbl: -1, ev: []string{"w", "m", "def"}[r.Intn(3)], seed: 1}
		if r.Chance(1, 3) {
			s.tbl = tinyTables[r.Intn(len(tinyTables))]
		}
		c.Count("sp.player.minimax.d" + strconv.Itoa(d))
		return fmt.Sprintf("mm %s %d %d", s.tok(), spPick64(r, spDurs), spPick64(r, []int64{0, 0, 1000}))
	}
	c.Count("sp.player.scripted")
	s := fmt.Sprintf("rnd %d %d %d %d", r.Intn(50), r.Intn(50), spPick64(r, spDurs), spPick64(r, []int64{0, 0, 1000, 50000}))
	for r.Chance(1, 4) {
		p := open[r.Intn(len(open))]
		s += " " + spInjection(c, p, p.MoveNumber()+r.Intn(maxInt(1, minInt(cutoff, 12))))
	}
	return s
}

func spReplay(p *tak.Position, ms []tak.Move) *tak.Position {
	for _, m := range ms {
		n, err := p.Move(m)
		if err != nil {
			return nil
		}
		p = n
	}
	return p
}

func spTPSLine(c *Ctx, r *RNG) string {
	switch r.Intn(12) {
	case 0:
		c.Count("sp.line.ply0-with-stones")
		return []string{"x3/x3/2,x2 1 1", "x4/x4/x4/1,2,x2 1 1", "x3/x3/x3 1 1", "x3/x3/x3 2 1"}[r.Intn(4)]
	case 1:
		c.Count("sp.line.garbage")
		return string(randText(r, 20, "\n"))
	case 2:
		c.Count("sp.line.mutated")
		return mutateASCII(r, ptn.FormatTPS(randomPosition(r)))
	}
	c.Count("sp.line.tps")
	if r.Chance(1, 2) {
		return ptn.FormatTPS(smallPosition(r))
	}
	return ptn.FormatTPS(randomPosition(r))
}

func spOpeningsFile(c *Ctx, good bool) []byte {
	r := c.R
	var sb strings.Builder
	n := r.Intn(4)
	if r.Chance(1, 10) {
		n = 0
	}
	for i := 0; i < n; i++ {
		if good {
			size := 3 + r.Intn(2)
			sb.WriteString(ptn.FormatTPS(spOpening(c, size, true)))
		} else {
			sb.WriteString(spTPSLine(c, r))
		}
		switch {
		case i == n-1 && r.Chance(1, 3):
			c.Count("sp.file.no-final-newline")
		case r.Chance(1, 5):
			sb.WriteString("\r\n")
		default:
			sb.WriteString("\n")
		}
		if !good && r.Chance(1, 12) {
			c.Count("sp.file.empty-line")
			sb.WriteString("\n")
		}
	}
	return []byte(sb.String())
}

func genC04selfplay(c *Ctx) {
	r := c.R
	// ---- A: Simulate
	for k := c.Scale(420, 16000); k > 0; k-- {
		c.Emit("case sp" + strconv.Itoa(k))
		size := []int{3, 3, 3, 4}[r.Intn(4)]
		cutoff := []int{0, 1, 2, 3, 5, 8, 20, 80, 80, -1}[r.Intn(10)]
		var open []*tak.Position
		mmOK := true
		for n := 1 + r.Intn(2); n > 0; n-- {
			p := spOpening(c, size, true)
			if over, _ := p.GameOver(); over {
				mmOK = false
			}
			open = append(open, p)
		}
		if cutoff > 20 && size == 4 {
			mmOK = mmOK && r.Chance(1, 4)
		}
		if r.Chance(1, 30) {
			open = nil
			c.Count("sp.no-openings")
		}
		p1, p2 := "rnd 1 1 0 0", "rnd 2 0 0 0"
		if len(open) > 0 {
			p1, p2 = spPlayer(c, size, open, cutoff, mmOK), spPlayer(c, size, open, cutoff, mmOK)
		}
		cfg := fmt.Sprintf("games=%d,swap=%d,cutoff=%d,limit=%d,gt=%d,inc=%d", []int{0, 1, 1, 1, 2, -1}[r.Intn(6)], r.Intn(2), cutoff,
			spPick64(r, []int64{0, 0, 1, 1000000, 1000000000}),
			spPick64(r, []int64{0, 0, 0, 1, 1000000, 1000001, 2000000, 5000000, 1000000000}), spPick64(r, []int64{0, 0, 1000000, 999999, -1000000}))
		line := "sp.sim " + cfg + " " + hexOf(p1) + " " + hexOf(p2)
		for _, p := range open {
			line += " " + encPos(p)
		}
		out := c.Emit(line)
		c.Count("sp.sim." + field(out, "stop"))
		if strings.Contains(out, " clk=") {
			c.Count("sp.sim.timed")
		}
		// the files main.go writes for these results
		for _, f := range strings.Fields(out) {
			if !strings.HasPrefix(f, "g=") || !r.Chance(1, 2) {
				continue
			}
			hd := strings.SplitN(f[2:], ":", 2)
			h := strings.Split(hd[0], ".")
			oi := atoi(h[0])
			ms := spDecMoves(hd[1])
			fin := spReplay(open[oi], ms)
			if fin == nil {
				panic("sp: recorded game does not replay")
			}
			c.Count("sp.result.winner-" + h[3])
			if len(ms) == 0 {
				c.Count("sp.result.no-moves")
			}
			c.Emit(fmt.Sprintf("sp.game %s %s %s %s %s %s %s %s", hexOf(p1), hexOf(p2), h[0], h[1], h[2], encPos(open[oi]), encPos(fin), hd[1]))
		}
	}
	// ---- B: readOpenings
	for k := c.Scale(260, 9000); k > 0; k-- {
		data := spOpeningsFile(c, r.Chance(1, 3))
		if r.Chance(1, 30) {
			data = append([]byte("\xef\xbb\xbf"), data...)
			c.Count("sp.file.bom")
		}
		if r.Chance(1, 40) {
			// bufio.Scanner gives up on a line of more than 65535 bytes; readOpenings does not look at Scanner.Err
			n := []int{65535, 65536, 70000}[r.Intn(3)]
			data = append(data, []byte(strings.Repeat(" ", n)+"\n"+ptn.FormatTPS(tak.New(tak.Config{Size: 3}))+"\n")...)
			c.Count("sp.file.long-line-" + strconv.Itoa(n))
		}
		out := c.Emit("sp.open " + hexEnc(data))
		c.Count("sp.open." + strings.Fields(out)[0])
	}
	// ---- C: the command
	for k := c.Scale(120, 5000); k > 0; k-- {
		size := 3 + r.Intn(2)
		var flags []string
		hexFile := "-"
		var open []*tak.Position
		switch r.Intn(5) {
		case 0:
			c.Count("sp.run.no-openings-flag")
			open = []*tak.Position{tak.New(tak.Config{Size: size})}
		case 1:
			c.Count("sp.run.openings-missing-file")
			flags = append(flags, "openings=!")
			open = []*tak.Position{tak.New(tak.Config{Size: size})}
		default:
			data := spOpeningsFile(c, r.Chance(4, 5))
			hexFile = hexEnc(data)
			flags = append(flags, "openings=@")
			for _, l := range strings.Split(string(data), "\n") {
				if p, err := ptn.ParseTPS(strings.TrimSuffix(l, "\r")); err == nil {
					open = append(open, p)
				}
			}
			if len(open) == 0 {
				open = []*tak.Position{tak.New(tak.Config{Size: size})}
			}
		}
		if r.Chance(4, 5) {
			flags = append(flags, "size="+strconv.Itoa(size))
		}
		cutoff := []int{0, 1, 4, 9, 30, 80}[r.Intn(6)]
		flags = append(flags, "threads=1", "seed=7", "cutoff="+strconv.Itoa(cutoff), "games="+strconv.Itoa([]int{0, 1, 1, 2}[r.Intn(4)]))
		if r.Chance(1, 2) {
			flags = append(flags, "swap="+[]string{"true", "false", "0", "1"}[r.Intn(4)])
		}
		if r.Chance(1, 3) {
			flags = append(flags, "limit="+[]string{"0", "1ns", "1ms", "1s"}[r.Intn(4)])
		}
		if r.Chance(1, 3) {
			flags = append(flags, "tc="+[]string{"1s", "1s+1ms", "5ms+0s", "2ms", "bad", "1s+bad", "+1s", "1ms+1s"}[r.Intn(8)])
		}
		if r.Chance(3, 4) {
			flags = append(flags, "out=@")
		}
		allMM := true
		for _, p := range open {
			if over, _ := p.GameOver(); over || p.Size() > 4 {
				allMM = false
			}
		}
		flags = append(flags, "p1=hex:"+hexOf(spPlayer(c, size, open, cutoff, allMM && cutoff < 30)), "p2=hex:"+hexOf(spPlayer(c, size, open, cutoff, allMM && cutoff < 30)))
		out := c.Emit("sp.run " + strings.Join(flags, ";") + " " + hexFile)
		switch {
		case strings.HasPrefix(out, "stop="):
			c.Count("sp.run." + out)
		default:
			c.Count("sp.run.ok")
		}
	}
}

func init() {
	genTable["C04selfplay"] = genC04selfplay
}

func maxInt(a, b int) int {
	if a > b {
		return a
	}
	return b
}
