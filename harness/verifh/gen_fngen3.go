package main

import (
	"fmt"

	"github.com/nelhage/taktician/prove"
	"github.com/nelhage/taktician/symmetry"
	"github.com/nelhage/taktician/tak"
)

// `fn.*` ops for Generated/FuncsSymMove.lean (symmetry.TransformMove) and FuncsProve.lean (DFPNSolver.terminalBounds,
// the flag readers of the proof-number `node`).  Generators: FNXFORM (C14), FNPROVE (C06).

func init() {
	opTable["fn.xform"] = func(s *Session, a []string) string {
		sym := symmetry.VerifSymmetries(atoi(a[0]))[atoi(a[1])]
		return encMove(symmetry.TransformMove(sym, argMove(a[2:6])))
	}
	opTable["fn.termbounds"] = func(s *Session, a []string) string {
		raw := tak.VerifRaw{Size: 3, Move: atoi(a[1]), Height: make([]uint8, 9), Stacks: make([]uint64, 9)}
		phi, delta := prove.VerifTerminalBounds(tak.Color(atoi(a[0])), tak.VerifFromRaw(raw), tak.Color(atoi(a[2])))
		return fmt.Sprintf("%d %d", phi, delta)
	}
	opTable["fn.nodeflags"] = func(s *Session, a []string) string {
		e, an, p, d := prove.VerifNodeFlags(i8(a[0]), uint32(atou(a[1])), uint32(atou(a[2])))
		return fmt.Sprintf("%d %d %d %d", b2i(e), b2i(an), p, d)
	}
	genTable["FNXFORM"] = genFNXFORM
	genTable["FNPROVE"] = genFNPROVE
}

func genFNXFORM(c *Ctx) {
	if c.Shard == 0 {
		// every size, every map, every move type (also Pass, 0 and the bad ones), on-board and off-board origins,
		// the zero-drop slide (Slides == 0) and a regular one
		for size := 3; size <= 8; size++ {
			for k := 0; k < 8; k++ {
				for t := 0; t <= 10; t++ {
					for _, xy := range [][2]int{{0, 0}, {1, 2}, {size - 1, size - 1}, {-1, 0}, {size, 1}, {127, -128}} {
						for _, sl := range []uint32{0, 1, 0x21} {
							out := c.Emit(fmt.Sprintf("fn.xform %d %d %d %d %d %d", size, k, xy[0], xy[1], t, sl))
							if out == "panic" {
								c.Count("xform:panic")
							}
						}
					}
				}
			}
		}
	}
	n := c.Scale(3000, 300000)
	for k := 0; k < n; k++ {
		size := 3 + c.R.Intn(6)
		if c.R.Chance(1, 20) {
			size = []int{0, 1, 2, 9, 127, 128, 255, 256}[c.R.Intn(8)]
		}
		out := c.Emit(fmt.Sprintf("fn.xform %d %d %s", size, c.R.Intn(8), edgeMoveArgs(c.R)))
		if out == "panic" {
			c.Count("xform:panic")
		} else {
			c.Count("xform:ok")
		}
	}
}

func genFNPROVE(c *Ctx) {
	if c.Shard == 0 {
		for _, att := range []int{0, 64, 128, 1, 192, 255} {
			for ply := -1; ply <= 3; ply++ {
				for _, res := range []int{0, 64, 128, 1, 192} {
					if out := c.Emit(fmt.Sprintf("fn.termbounds %d %d %d", att, ply, res)); out == "panic" {
						c.Count("termbounds:panic")
					} else {
						c.Count("termbounds:" + out)
					}
				}
			}
		}
		for f := -128; f <= 127; f++ {
			c.Emit(fmt.Sprintf("fn.nodeflags %d 5 9", f))
		}
	}
	n := c.Scale(1000, 100000)
	for k := 0; k < n; k++ {
		c.Emit(fmt.Sprintf("fn.nodeflags %d %d %d", edge8(c.R), edgeU32(c.R), edgeU32(c.R)))
		c.Emit(fmt.Sprintf("fn.termbounds %d %d %d", []int{64, 128}[c.R.Intn(2)], c.R.Intn(200), []int{0, 64, 128}[c.R.Intn(3)]))
	}
}
