package main

// Generator "C07compose": schedules for the real bot.PlayGame / ObserveGame run with the REAL Friendly (no rule,
// centre, double stack, cairn) or Taktician (with and without -use-opponent-time) as Bot (ops_compose.go).
// The generator plays server and opponent.  It is adaptive (it looks at the live session to know which events are
// enabled and which moves are legal / accepted by the rule); the op lines are self-contained and replay without it.
//
//   * openings: the opponent plays rule-accepted moves (FPA) or any legal move, the searching player's answers are
//     mostly legal (for an FPA game mostly rule-accepted), sometimes the zero move or an illegal move;
//   * at every step one of: server move (+ clock line), clock line alone, grace timer, RequestUndo, Undo, chat,
//     answer of the searching player (at once or late: other events first), new verdicts of the check engine;
//   * late thinkers: with some probability the pending answer is held back over several invocation-ending events
//     (undo + undo, undo + move, undo + Over), so that thinkers queue up on moveLock and enter GetMove after their
//     invocation is over (the stale-thinker defect, fixes/C07-stale-thinker.diff);
//   * endings: Over, Abandoned, connection close, followed by the answers still owed.

import (
	"encoding/hex"
	"fmt"
	"strconv"

	"github.com/nelhage/taktician/ai"
	"github.com/nelhage/taktician/playtak"
	"github.com/nelhage/taktician/tak"
)

func init() {
	genTable["C07compose"] = genCompose
}

type compGen struct {
	c    *Ctx
	r    *RNG
	kind string
	arg  string
	col  string
	size int
	gs   string
}

func (g *compGen) sess() *compSess { return compOf(g.c.S) }

func (g *compGen) deliver(line string) string {
	return g.c.Emit("cev deliver " + hex.EncodeToString([]byte(line)) + " mv=" + auxMove(line))
}

// pick a move for the side to move on p: mostly one the rule accepts
func (g *compGen) pickMove(p *tak.Position) (tak.Move, bool) {
	ms := legalMoves(p)
	if len(ms) == 0 {
		return tak.Move{}, false
	}
	cs := g.sess()
	if g.kind == "F" && g.arg != "none" && p.MoveNumber() < 7 && !g.r.Chance(1, 8) {
		var acc []tak.Move
		for _, m := range ms {
			if cs.c.VerifRuleAccepts(p, m) {
				acc = append(acc, m)
			}
		}
		if len(acc) > 0 {
			g.c.Count("move:rule-accepted")
			return acc[g.r.Intn(len(acc))], true
		}
	}
	g.c.Count("move:any-legal")
	return ms[g.r.Intn(len(ms))], true
}

func (g *compGen) answer() {
	cs := g.sess()
	cs.b.mu.Lock()
	q := cs.search
	cs.b.mu.Unlock()
	if q == nil {
		return
	}
	var m tak.Move
	switch x := g.r.Intn(20); {
	case x == 0:
		g.c.Count("answer:zero")
	case x == 1:
		m = tak.Move{X: int8(g.r.Intn(g.size + 1)), Y: int8(g.r.Intn(g.size)), Type: tak.MoveType(2 + g.r.Intn(6)), Slides: tak.Slides(g.r.Intn(0x40))}
		if m.Type <= tak.PlaceCapstone {
			m.Slides = 0 // the wire text of a placement has no room for a junk Slides word (C07_legal owns that case)
		}
		g.c.Count("answer:garbage")
	default:
		if mv, ok := g.pickMove(q.p); ok {
			m = mv
		}
		g.c.Count("answer:legal")
	}
	if q.ctx.Err() != nil {
		g.c.Count("answer:after-cancel")
	}
	g.c.Emit("cev answer " + encMove(m))
}

var compTells = []string{"level 1", "level 2", "level 3", "level 5", "level 7", "level 12", "level 13", "level 14", "level 15", "level 0",
	"level 99", "level max", "level x", "LEVEL 4", "Level 9", "level", "level  3", "level 3 4", "level -1", "level 18446744073709551615",
	"help", "HELP me", "size 5", "size 9", "hello", "levels 3"}

// a chat line `Tell <who> msg` during the game (work package botcompose2): the `level` command replaces f.ai
// "starting right now" when it comes from the opponent - possibly while a thinker is inside the old engine
func (g *compGen) tell() {
	who := "Opp"
	if g.r.Chance(1, 4) {
		who = "Kibitz"
	}
	msg := compTells[g.r.Intn(len(compTells))]
	if g.r.Chance(1, 2) {
		msg = "level " + strconv.Itoa(1+g.r.Intn(14))
	}
	cs := g.sess()
	cs.b.mu.Lock()
	pending := cs.search != nil
	cs.b.mu.Unlock()
	g.deliver("Tell <" + who + "> " + msg)
	g.c.Count("ev:tell:" + who)
	if pending {
		g.c.Count("ev:tell-while-searching")
	}
}

var compV1 = []int64{0, 1, int64(ai.WinThreshold) - 1, int64(ai.WinThreshold), int64(ai.WinThreshold) + 7, -int64(ai.WinThreshold) - 1}
var compV2 = []int64{0, 5, -int64(ai.WinThreshold) - 1, -int64(ai.WinThreshold), -int64(ai.WinThreshold) + 1}

func (g *compGen) step(hold *int) bool {
	cs := g.sess()
	if cs == nil {
		return false
	}
	b := cs.b
	b.mu.Lock()
	pending, dead := cs.search != nil, cs.dead
	b.mu.Unlock()
	if dead || b.hung {
		return false
	}
	game := cs.c.G
	over := b.over()
	if over {
		// the loop is gone: let the thinkers run out
		if pending {
			g.answer()
			return true
		}
		return false
	}
	if pending && *hold == 0 && !g.r.Chance(1, 4) {
		g.answer()
		return true
	}
	if *hold > 0 {
		*hold--
	}
	if g.r.Chance(1, 7) {
		g.tell()
		return true
	}
	p := game.VerifP()
	fin, _ := p.GameOver()
	x := g.r.Intn(100)
	switch {
	case x < 45:
		if fin {
			g.deliver(g.gs + " Over R-0")
			g.c.Count("ev:over-finished")
			return true
		}
		m, ok := g.pickMove(p)
		if !ok {
			return true
		}
		g.deliver(g.gs + " " + playtak.FormatServer(m))
		g.c.Count("ev:server-move")
		if !g.r.Chance(1, 6) {
			g.deliver(fmt.Sprintf("%s Time %d %d", g.gs, 500+g.r.Intn(100), 500+g.r.Intn(100)))
		}
	case x < 52:
		g.deliver(fmt.Sprintf("%s Time %d %d", g.gs, 400+g.r.Intn(100), 400+g.r.Intn(100)))
		g.c.Count("ev:time")
	case x < 60:
		g.c.Emit("cev timer")
		g.c.Count("ev:timer")
	case x < 78:
		g.deliver(g.gs + " RequestUndo")
		g.c.Count("ev:request-undo")
		if len(game.Moves) > 0 && !g.r.Chance(1, 5) {
			g.deliver(g.gs + " Undo")
			g.c.Count("ev:undo")
		}
	case x < 82:
		if len(game.Moves) > 0 || g.r.Chance(1, 4) {
			g.deliver(g.gs + " Undo")
			g.c.Count("ev:undo-alone")
		}
	case x < 86:
		g.deliver("Shout <Opp> hello there")
		g.c.Count("ev:chat")
	case x < 92:
		g.c.Emit(fmt.Sprintf("cchk %d %d %d", compV1[g.r.Intn(len(compV1))], g.r.Intn(4), compV2[g.r.Intn(len(compV2))]))
		g.c.Count("ev:cchk")
	case x < 95:
		g.deliver(g.gs + " Over 1-0")
		g.c.Count("ev:over")
	case x < 97:
		g.deliver(g.gs + " Abandoned. Opp quit")
		g.c.Count("ev:abandoned")
	case x < 98:
		g.c.Emit("cev close")
		g.c.Count("ev:close")
	default:
		g.deliver("Game#999 P A1")
		g.c.Count("ev:foreign")
	}
	return true
}

func genCompose(c *Ctx) {
	// ONE shard only.  The quiescence test reads goroutine wait states, and a goroutine parked on a mutex counts as
	// parked; the real bot.go / friendly.go log through package log, whose mutex is process-wide: with several
	// sessions running in one process a loop goroutine waiting for ANOTHER session's log.Printf looks quiescent for a
	// moment (seen once in ~10^5 ops as a premature `settle`).  The other generators of C07 run in processes of their own.
	if c.Shard != 0 {
		return
	}
	n := c.Scale(400, 12000) * c.NShard
	kinds := [][2]string{{"F", "none"}, {"F", "center"}, {"F", "doublestack"}, {"F", "cairn"}, {"T", "60000000000:1"}, {"T", "1000000000:0"},
		{"F", "doublestack"}, {"F", "cairn"}}
	for i := 0; i < n; i++ {
		g := &compGen{c: c, r: c.R.Fork()}
		k := kinds[i%len(kinds)]
		g.kind, g.arg = k[0], k[1]
		g.col = []string{"w", "b", "w", "b", "o"}[g.r.Intn(5)]
		g.size = 4 + g.r.Intn(2)
		if g.kind == "F" && g.arg == "none" && g.r.Chance(1, 3) {
			g.size = 3
		}
		no := strconv.Itoa(100 + g.r.Intn(50))
		g.gs = "Game#" + no
		c.Emit(fmt.Sprintf("case %d", i))
		out := c.Emit(fmt.Sprintf("cbotnew %s %s %s %d %d %s", g.kind, g.arg, g.col, g.size, 300+g.r.Intn(600), no))
		c.Count("bot:" + g.kind + ":" + g.arg + ":" + g.col)
		_ = out
		steps := 6 + g.r.Intn(22)
		hold := 0
		for j := 0; j < steps; j++ {
			// now and then the pending answer is held back over the next few events: thinkers queue up on moveLock
			if hold == 0 && g.r.Chance(1, 5) {
				hold = 2 + g.r.Intn(4)
				c.Count("late-answer-window")
			}
			if !g.step(&hold) {
				break
			}
			if g.r.Chance(1, 4) {
				c.Emit("cstate")
			}
		}
		// the answers still owed, then the final state
		for j := 0; j < 6; j++ {
			cs := g.sess()
			if cs == nil {
				break
			}
			cs.b.mu.Lock()
			pending, dead := cs.search != nil, cs.dead
			cs.b.mu.Unlock()
			if !pending || dead {
				break
			}
			g.answer()
		}
		st := c.Emit("cstate")
		switch {
		case len(st) >= 6 && st[:6] == "stale-":
			c.Count("final:stale-thinker-effect")
		case len(st) >= 6 && st[:6] == "tpanic":
			c.Count("final:tpanic")
		default:
			c.Count("final:" + firstWord(st))
		}
		compReset(c.S)
	}
}

func firstWord(s string) string {
	for i := 0; i < len(s); i++ {
		if s[i] == ' ' {
			return s[:i]
		}
	}
	return s
}
