package main

// C07 composed: the real bot.PlayGame / ObserveGame run with the REAL Friendly (with or without an FPA rule) or
// Taktician as its Bot, under the lock-step scheduler of ops_bot.go.  Only the searching player (f.ai / t.ai) is a
// stub that waits for the scheduler's `cev answer`, and Friendly's check engine answers what `cchk` says.
//
//   cbotnew F <variant|none> <w|b|o> <size> <secs> <game no> [v=pinned]
//   cbotnew T <limit ns>:<useOpponentTime 0|1> <w|b|o> <size> <secs> <game no> [v=pinned]
//   cchk <v1> <d1> <v2>                      verdicts of the check engine for the calls that start from now on
//   cev deliver <hex line> [mv=<move|err|->] | cev close | cev timer | cev answer <move>
//   cstate
//
// After every event the session runs on until every goroutine is parked (thinkers take moveLock in the order they
// were started; everything in GetMove that does not wait happens at once).  A panic inside GetMove happens on a
// thinker goroutine and would end the real process: the session plays dead from then on (`tpanic`).

import (
	"context"
	"encoding/hex"
	"fmt"
	"io"
	"log"
	"strconv"
	"strings"
	"sync"
	"time"

	"github.com/nelhage/taktician/ai"
	fpa "github.com/nelhage/taktician/cmd/internal/playtak"
	"github.com/nelhage/taktician/playtak"
	"github.com/nelhage/taktician/playtak/bot"
	"github.com/nelhage/taktician/tak"
)

const compCallCap = 200

type compSess struct {
	b      *botSess
	c      *fpa.VerifCompose
	chk    [3]int64
	calls  int
	dead   bool
	inP    *tak.Position   // position of the GetMove call in progress
	inCtx  context.Context // its context
	search *aiCall         // its pending question to the searching player
	torn   bool
	pinned bool // the op line asks for the model of the tree before fixes/C07-stale-thinker.diff
	// a call whose context was already cancelled on entry: after the fix it returns at once, without effects
	inStale     bool
	// the call in progress got a verdict the REAL check engine cannot give: a win within one ply on the empty board
	// (the stub's verdicts are sticky across undos); a crash of such a call is no crash of the real bot
	inUnreal, unrealDead bool
	inSent      int
	inNotes     string
	notesOff    bool // on a tree without fixes/C07-fpa-record-notes.diff: a live GetMove call used rule notes that are not those of the record
	staleEffect bool // such a call did something (command sent, rule notes changed, searcher asked, move returned, panic)
}

type compClient struct{ *botSess }

func (compClient) Error() error { return nil }
func (compClient) Shutdown()    {}

var compLive sync.Map // *Session -> *compSess

func compOf(s *Session) *compSess {
	c, _ := s.slots["cbot"].(*compSess)
	return c
}

func (cs *compSess) shutdown() {
	b := cs.b
	if !b.over() && !b.closed {
		b.closed = true
		close(b.lines)
	}
	b.mu.Lock()
	if !cs.torn {
		cs.torn = true
		close(cs.c.Parked)
	}
	b.mu.Unlock()
	for i := 0; i < 2000; i++ {
		ok, live := b.settleN()
		b.mu.Lock()
		q := cs.search
		b.mu.Unlock()
		if q != nil {
			q.gate <- tak.Move{}
			continue
		}
		if live == 0 || !ok {
			return
		}
	}
}

func compReset(s *Session) {
	if v, ok := compLive.Load(s); ok {
		v.(*compSess).shutdown()
		compLive.Delete(s)
	}
	delete(s.slots, "cbot")
}

func compStart(kind, arg, colour string, size, secs int, gameNo string, pinned bool) *compSess {
	botOnce.Do(func() {
		log.SetOutput(io.Discard)
		bot.VerifSetAfter(botTimerHook)
	})
	b := &botSess{colour: colour, gameStr: "Game#" + gameNo, lines: make(chan string), done: make(chan struct{})}
	cs := &compSess{b: b, chk: [3]int64{0, 3, 0}, pinned: pinned}
	if kind == "F" {
		cs.c = fpa.VerifNewComposeFriendly(arg, compClient{b})
	} else {
		w := strings.Split(arg, ":")
		lim, _ := strconv.ParseInt(w[0], 10, 64)
		cs.c = fpa.VerifNewComposeTaktician(time.Duration(lim), len(w) > 1 && w[1] == "1", compClient{b})
	}
	cs.c.Enter = func(ctx context.Context, p *tak.Position) ([]fpa.VerifChk, bool) {
		b.mu.Lock()
		defer b.mu.Unlock()
		if cs.dead || cs.torn || cs.calls >= compCallCap {
			return nil, false
		}
		cs.calls++
		cs.inP, cs.inCtx = p, ctx
		cs.inStale, cs.inSent, cs.inNotes = ctx.Err() != nil, len(b.sent), cs.c.VerifRuleNotes()
		cs.inUnreal = p.MoveNumber() == 0 && cs.chk[0] >= int64(ai.WinThreshold) && cs.chk[1] <= 1
		if ctx.Err() == nil && cs.c.VerifNotesOutOfStep(p) {
			cs.notesOff = true
		}
		return []fpa.VerifChk{{V: cs.chk[0], Depth: int(cs.chk[1])}, {V: cs.chk[2]}}, true
	}
	cs.c.Search = func(ctx context.Context, p *tak.Position) tak.Move {
		q := &aiCall{p: p, ctx: ctx, gate: make(chan tak.Move)}
		b.mu.Lock()
		cs.search = q
		if cs.inStale {
			cs.staleEffect = true
		}
		b.mu.Unlock()
		mv := <-q.gate
		b.mu.Lock()
		cs.search = nil
		b.mu.Unlock()
		return mv
	}
	cs.c.Left = func(m tak.Move, panicked bool) {
		b.mu.Lock()
		cs.inP, cs.inCtx = nil, nil
		if cs.inStale && !cs.torn && (panicked || len(b.sent) != cs.inSent || cs.c.VerifRuleNotes() != cs.inNotes || m != (tak.Move{})) {
			cs.staleEffect = true
		}
		if panicked && !cs.torn {
			if !cs.dead && cs.inUnreal {
				cs.unrealDead = true
			}
			cs.dead = true
		}
		b.mu.Unlock()
	}
	var line string
	switch colour {
	case "w":
		line = fmt.Sprintf("Game Start %s %d Bot vs Opp white %d", gameNo, size, secs)
	case "b":
		line = fmt.Sprintf("Game Start %s %d Opp vs Bot black %d", gameNo, size, secs)
	default:
		line = fmt.Sprintf("Observe Game#%s Pa vs Pb, %dx%d, %d, 0, 0 half-moves played, Pa to move", gameNo, size, size, secs)
	}
	ready := make(chan struct{})
	go func() {
		b.mGoid = goid()
		botSessions.Store(b.mGoid, b)
		close(ready)
		defer func() {
			if r := recover(); r != nil {
				b.outcome = "panic"
			} else {
				b.outcome = "end"
			}
			botSessions.Delete(b.mGoid)
			close(b.done)
		}()
		if colour == "o" {
			bot.ObserveGame(b, cs.c.Bot(), line)
		} else {
			bot.PlayGame(b, cs.c.Bot(), line)
		}
	}()
	<-ready
	b.settle()
	return cs
}

func (cs *compSess) status() string {
	cs.b.mu.Lock()
	d, st, off, unreal := cs.dead, cs.staleEffect && !cs.pinned, cs.notesOff, cs.unrealDead
	cs.b.mu.Unlock()
	if off {
		// never printed by the model (it is of the patched code), never set on a patched tree: known finding C07-fpa-resume-panic
		return "notes-" + cs.statusInner(d, st, unreal)
	}
	return cs.statusInner(d, st, unreal)
}

func (cs *compSess) statusInner(d, st, unreal bool) string {
	pre := ""
	if st {
		// never printed by the model: GetMove ran, with effects, for a thinker whose invocation was over
		pre = "stale-"
	}
	if cs.b.hung {
		return "hang"
	}
	if d {
		if pre == "" && !cs.pinned && !unreal {
			// a thinker of the CURRENT invocation panicked: the real process is gone in the middle of the server's game.
			// The model of the code as it is prints plain `tpanic`; the cause keeps known findings apart from new crashes.
			cause := strings.Map(func(r rune) rune {
				if r == ' ' || r == '\t' || r == '\n' {
					return '_'
				}
				return r
			}, cs.c.LastPanic)
			if len(cause) > 60 {
				cause = cause[:60]
			}
			return "crash:" + cause + ":tpanic"
		}
		return pre + "tpanic"
	}
	return pre + cs.b.status()
}

// wire: the commands sent for this game, in order - moves, RequestUndo, Resign, and the Tell of a resignation
func (cs *compSess) wire() []string {
	b := cs.b
	b.mu.Lock()
	defer b.mu.Unlock()
	var out []string
	pre := b.gameStr + " "
	opp := "Opp"
	if b.colour == "o" {
		opp = "" // an observer has no opponent: `Tell  <text>`
	}
	for _, x := range b.sent {
		switch {
		case x == pre+"Resign":
			out = append(out, "R")
		case strings.HasPrefix(x, pre):
			out = append(out, b.sentStr(x))
		case strings.HasPrefix(x, "Tell "):
			rest := x[len("Tell "):]
			i := strings.IndexByte(rest, ' ')
			if i < 0 {
				continue
			}
			name, text := rest[:i], rest[i+1:]
			if name == opp {
				if cl := fpa.VerifResignText(text); !strings.HasPrefix(cl, "other<") {
					out = append(out, "T:"+cl)
					continue
				}
			}
			// replies of the chat commands (`level`, `help`), to the opponent (o) or to somebody else (x)
			if cl := compReplyClass(text); cl != "" {
				to := "x"
				if name == opp {
					to = "o"
				}
				out = append(out, "L:"+to+":"+cl)
			}
		}
	}
	return out
}

// compReplyClass names a reply of Friendly.handleCommand (with the level it mentions); "" for any other text
func compReplyClass(text string) string {
	var n int
	switch {
	case text == "OK! I'll play as best as I can!":
		return "max"
	case strings.HasPrefix(text, "I only know about levels up to "):
		return "unknown"
	}
	if k, _ := fmt.Sscanf(text, "OK! I'll play at level %d for future games.", &n); k == 1 && text == fmt.Sprintf("OK! I'll play at level %d for future games.", n) {
		return "future:" + strconv.Itoa(n)
	}
	if k, _ := fmt.Sscanf(text, "OK! I'll play at level %d, starting right now.", &n); k == 1 && text == fmt.Sprintf("OK! I'll play at level %d, starting right now.", n) {
		return "now:" + strconv.Itoa(n)
	}
	if k, _ := fmt.Sscanf(text, "[FriendlyBot@level %d]: http://bit.ly/25h33rC", &n); k == 1 && text == fmt.Sprintf("[FriendlyBot@level %d]: http://bit.ly/25h33rC", n) {
		return "help:" + strconv.Itoa(n)
	}
	return ""
}

// lvStr: f.level, how often f.ai was rebuilt by a chat command, the Depth of the engine built last, and the build of
// the f.ai object the search in progress runs on
func (cs *compSess) lvStr() string {
	level, built, depth := cs.c.VerifLevel()
	if level < 0 {
		return "-"
	}
	cs.b.mu.Lock()
	q := cs.search
	cs.b.mu.Unlock()
	gen := "-"
	if q != nil {
		gen = strconv.Itoa(cs.c.SearchGen)
	}
	return fmt.Sprintf("%d:%d:%d:%s", level, built, depth, gen)
}

func (cs *compSess) inStr() string {
	b := cs.b
	b.mu.Lock()
	defer b.mu.Unlock()
	if cs.inP == nil {
		return "-"
	}
	kind := "resign"
	if cs.search != nil {
		kind = "think"
	}
	return fmt.Sprintf("%s:%d:%d:%d", kind, cs.inP.MoveNumber(), cs.inP.Hash(), b2i(cs.inCtx.Err() != nil))
}

func (cs *compSess) summary(r string) string {
	g := cs.b.game
	if g == nil {
		g = cs.c.G
	}
	if g == nil {
		return cs.status() + " nogame r=" + r
	}
	w := cs.wire()
	last := "-"
	if len(w) > 0 {
		last = w[len(w)-1]
	}
	cs.b.mu.Lock()
	calls := cs.calls
	cs.b.mu.Unlock()
	return fmt.Sprintf("%s n=%d m=%d h=%d w=%d:%s in=%s c=%d lv=%s r=%s", cs.status(), len(g.Positions), len(g.Moves), g.VerifP().Hash(),
		len(w), last, cs.inStr(), calls, cs.lvStr(), r)
}

func (cs *compSess) full() string {
	g := cs.c.G
	if g == nil {
		return cs.status() + " nogame"
	}
	var ps, ms []string
	for _, p := range g.Positions {
		ps = append(ps, strconv.Itoa(p.MoveNumber())+":"+strconv.FormatUint(p.Hash(), 10))
	}
	for _, m := range g.Moves {
		ms = append(ms, encMove(m))
	}
	j := func(l []string) string {
		if len(l) == 0 {
			return "-"
		}
		return strings.Join(l, ";")
	}
	res := "-"
	if g.Result != "" {
		res = hex.EncodeToString([]byte(g.Result))
	}
	mine, theirs := g.VerifTimes()
	cs.b.mu.Lock()
	calls := cs.calls
	cs.b.mu.Unlock()
	notes := cs.c.VerifRuleNotes()
	if strings.HasSuffix(cs.status(), "tpanic") {
		notes = "-" // the rule may have panicked half way through an update; the process is gone anyway
	}
	return fmt.Sprintf("%s result=%s pos=%s moves=%s p=%d times=%s,%s wire=%s in=%s c=%d notes=%s",
		cs.status(), res, j(ps), j(ms), g.VerifP().Hash(), durStr(mine), durStr(theirs), j(cs.wire()), cs.inStr(), calls, notes)
}

func init() {
	opTable["cbotnew"] = func(s *Session, a []string) string {
		compReset(s)
		botReset(s)
		if len(a) < 6 || (a[0] != "F" && a[0] != "T") {
			return "bad-op"
		}
		pinned := false
		for _, x := range a[6:] {
			if x == "v=pinned" {
				pinned = true
			}
		}
		cs := compStart(a[0], a[1], a[2], atoi(a[3]), atoi(a[4]), a[5], pinned)
		cs.b.game = cs.c.G
		s.slots["cbot"] = cs
		compLive.Store(s, cs)
		return cs.summary("new")
	}
	opTable["cchk"] = func(s *Session, a []string) string {
		cs := compOf(s)
		if cs == nil || len(a) < 3 {
			return "nobot"
		}
		v1, _ := strconv.ParseInt(a[0], 10, 64)
		d1, _ := strconv.ParseInt(a[1], 10, 64)
		v2, _ := strconv.ParseInt(a[2], 10, 64)
		cs.b.mu.Lock()
		cs.chk = [3]int64{v1, d1, v2}
		cs.b.mu.Unlock()
		return "ok"
	}
	opTable["cstate"] = func(s *Session, a []string) string {
		cs := compOf(s)
		if cs == nil {
			return "nobot"
		}
		return cs.full()
	}
	opTable["cev"] = func(s *Session, a []string) string {
		cs := compOf(s)
		if cs == nil || len(a) < 1 {
			return "nobot"
		}
		b := cs.b
		b.mu.Lock()
		dead := cs.dead
		b.mu.Unlock()
		if dead {
			return cs.summary("dead")
		}
		r := "-"
		switch a[0] {
		case "deliver":
			if len(a) < 2 {
				return "bad-op"
			}
			var raw []byte
			var err error
			if a[1] != "-" {
				raw, err = hex.DecodeString(a[1])
			}
			if err != nil {
				return "bad-op"
			}
			line := string(raw)
			for _, x := range a[2:] {
				if strings.HasPrefix(x, "mv=") && x[3:] != auxMove(line) {
					return "bad-aux"
				}
			}
			if b.over() || b.closed {
				r = "gone"
				break
			}
			t := time.NewTimer(60 * time.Second)
			select {
			case b.lines <- line:
				r = "ok"
			case <-b.done:
				r = "gone"
			case <-t.C:
				b.hung = true
				r = "stuck"
			}
			t.Stop()
		case "close":
			if b.over() || b.closed {
				r = "gone"
				break
			}
			b.closed = true
			close(b.lines)
			r = "ok"
		case "timer":
			b.mu.Lock()
			var ch chan time.Time
			if n := len(b.timers); n > 0 {
				ch = b.timers[n-1]
			}
			b.mu.Unlock()
			r = "idle"
			if ch != nil && !b.over() {
				select {
				case ch <- time.Time{}:
					r = "fired"
				default:
				}
			}
		case "answer":
			if len(a) < 2 {
				return "bad-op"
			}
			mv := decMove(a[1])
			b.mu.Lock()
			q := cs.search
			b.mu.Unlock()
			if q == nil {
				r = "noai"
				break
			}
			r = "ai:" + strconv.Itoa(q.p.MoveNumber()) + ":" + strconv.Itoa(b2i(q.ctx.Err() != nil))
			q.gate <- mv
		default:
			return "bad-op"
		}
		b.settle()
		return cs.summary(r)
	}
}

var _ = playtak.FormatServer
