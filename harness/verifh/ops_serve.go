package main

import (
	"github.com/nelhage/taktician/cmd/internal/serve"
)

var _ = serve.VerifNewServer
