package main

// The RPC handlers of cmd/internal/serve (Analyze, Canonicalize, IsPositionInTak) called in-process on ONE server
// object per `case` (harness/export/cmd_internal_serve__export.go), and the generators C05serve / C15serve.
//
// What is compared (the server runs the DEFAULT engine configuration: history sorting is on, and sort.Sort's order is
// not modelled):
//   sv.an    the cache rule on every request (engine replaced or reused, table length of a new engine); the complete
//            response wherever the engine makes no sortMoves call (engines of depth 1 / < 0, finished roots);
//            elsewhere the generator follows up with claims carrying the real response:
//   sv.pvlegal  the reported line replays legally (C04),
//   sv.value    precise engines: a forced result within the requested depth is reported (C05, completeness), a fresh
//               precise engine reports a result only when it is forced within that depth and its non-decisive value is
//               the exhaustive negamax value under the default evaluator with a first move that attains it
//               (C05.analyze_exact: no entry of a fresh table is deeper than needed at depths <= 3); every engine: a
//               reported result is never the opposite of the truth (C05.verdict_sound),
//   sv.tak   always complete (depth-1 engine); sv.takspec re-reads the response by the rule book,
//   sv.canon complete.

import (
	"fmt"
	"io"
	"log"
	"strconv"
	"strings"

	"github.com/nelhage/taktician/ai"
	"github.com/nelhage/taktician/cmd/internal/serve"
	"github.com/nelhage/taktician/ptn"
	"github.com/nelhage/taktician/tak"
)

type serveSess struct {
	sv      *serve.VerifServer
	lastAn  *ai.MinimaxAI
	lastTak *ai.MinimaxAI
	// the last Analyze response, for the generator's follow-up claims
	pv    []string
	value int64
	fresh bool
	ok    bool
}

func serveOf(s *Session) *serveSess {
	if x, ok := s.slots["serve"].(*serveSess); ok {
		return x
	}
	x := &serveSess{sv: serve.VerifNewServer()}
	s.slots["serve"] = x
	return x
}

func hexList(l []string) string {
	if len(l) == 0 {
		return "-"
	}
	out := make([]string, len(l))
	for i, s := range l {
		out[i] = hexOf(s)
	}
	return strings.Join(out, ",")
}

func fmtNewPlayer(repl bool, pl *ai.MinimaxAI) string {
	if !repl {
		return "reuse"
	}
	if pl == nil {
		return "new nil"
	}
	tbl := "nil"
	if pl.VerifHasTable() {
		tbl = strconv.Itoa(pl.VerifTableLen())
	}
	// the configuration the engine was really built with (after NewMinimax's normalisation), in the positive sense
	c := pl.Cfg
	return fmt.Sprintf("new tbl=%s cfg=d%d,sort%d,null%d,red%d,mc%d,dd%d,me%d,rw%d", tbl, c.Depth,
		b2i(!c.NoSort), b2i(!c.NoNullMove), b2i(!c.NoReduceSlides), b2i(c.MultiCut), b2i(c.DedupSymmetry), c.MaxEvals, c.RandomizeWindow)
}

// serveExactReq: the engine answering this request never calls sortMoves (see Driver/OpsServe.lean serveExact)
func serveExactReq(depth int, p *tak.Position) bool {
	over, _ := p.GameOver()
	return depth == 1 || depth < 0 || over
}

func init() {
	log.SetOutput(io.Discard) // the cached engines run with Debug: 1

	opTable["sv.an"] = func(s *Session, a []string) string {
		ss := serveOf(s)
		ss.ok = false
		tps := unhex(a[0])
		depth := atoi(a[1])
		precise := a[2] == "1"
		pv, v, err := ss.sv.Analyze(tps, int32(depth), precise)
		if err != nil {
			return "err"
		}
		pl := ss.sv.VerifAnalyzePlayer()
		repl := pl != ss.lastAn
		ss.lastAn = pl
		ss.pv, ss.value, ss.fresh, ss.ok = pv, v, repl, true
		p, perr := ptn.ParseTPS(tps)
		if perr != nil {
			return "harness-tps"
		}
		if serveExactReq(depth, p) {
			return fmt.Sprintf("%s pv=%s v=%d", fmtNewPlayer(repl, pl), hexList(pv), v)
		}
		return fmtNewPlayer(repl, pl) + " searched"
	}
	opTable["sv.tak"] = func(s *Session, a []string) string {
		ss := serveOf(s)
		in, mv, err := ss.sv.IsPositionInTak(unhex(a[0]))
		if err != nil {
			return "err"
		}
		pl := ss.sv.VerifIsTakPlayer()
		repl := pl != ss.lastTak
		ss.lastTak = pl
		return fmt.Sprintf("%s intak=%d move=%s", fmtNewPlayer(repl, pl), b2i(in), hexOf(mv))
	}
	opTable["sv.canon"] = func(s *Session, a []string) string {
		ss := serveOf(s)
		var ms []string
		for _, t := range a[1:] {
			ms = append(ms, unhex(t))
		}
		out, err := ss.sv.Canonicalize(int32(atoi(a[0])), ms)
		if err != nil {
			return "err"
		}
		if len(out) == 0 {
			return "ok"
		}
		hs := make([]string, len(out))
		for i, m := range out {
			hs[i] = hexOf(m)
		}
		return "ok " + strings.Join(hs, " ")
	}
	// claims about a real response carried in the op line: the real code's side is the claim itself
	opTable["sv.pvlegal"] = func(s *Session, a []string) string { return "ok" }
	opTable["sv.value"] = func(s *Session, a []string) string { return "ok" }
	opTable["sv.takspec"] = func(s *Session, a []string) string { return "ok" }

	genTable["C05serve"] = genC05serve
	genTable["C15serve"] = genC15serve
}

// ---- generators

// tryTake: like take, but a request that does not fit leaves the budget as it is
func (b *budget) tryTake(n int) bool {
	if n > b.left {
		return false
	}
	b.left -= n
	return true
}

// serveCap: no value claim above this many model positions (about 25 us each)
const serveCap = 8000

// serveDepth: depths 1..3, the deeper ones mostly where an exhaustive search of the model is affordable
func serveDepth(r *RNG, size int) int {
	switch size {
	case 3:
		return 1 + r.Intn(3)
	case 4:
		return []int{1, 2, 2, 2, 3}[r.Intn(5)]
	}
	return []int{1, 1, 2, 2, 2, 3}[r.Intn(6)]
}

// serveLine: the positions of one default-configuration playout (TPS carries no reserves: ParseTPS gives the default
// counts), the final -- usually finished -- position included
func serveLine(r *RNG, size int) []*tak.Position {
	for {
		line := gameLine(r, tak.Config{Size: size}, 4+r.Intn(3*size*size))
		if len(line) >= 3 {
			return line
		}
	}
}

// flipTurn: the same board with the other side to move (hand-edited TPS: the turn field)
func flipTurn(tps string) string {
	w := strings.Split(tps, " ")
	if len(w) != 3 {
		return tps
	}
	if w[1] == "1" {
		w[1] = "2"
	} else {
		w[1] = "1"
	}
	return strings.Join(w, " ")
}

// immediateWin: does the side to move have a move that ends the game in its favour
func immediateWin(p *tak.Position) bool {
	if over, _ := p.GameOver(); over {
		return false
	}
	for _, m := range p.AllMoves(nil) {
		c, e := p.Move(m)
		if e != nil {
			continue
		}
		if over, w := c.GameOver(); over && w == p.ToMove() {
			return true
		}
	}
	return false
}

// unreachableOpening: a position in the two opening plies (the mover places the OPPONENT's flat) with more occupied
// squares than plies played.  No game reaches it, but TPS can spell it.  Position hashes cover board and side to move
// only (C08), so such a position shares its hash with the same board at a later ply where the ordinary rules apply: the
// explicit NoCollision hypothesis of C05's table theorems fails for the pair, and an engine that has seen the other one
// may answer from its table.  The complete (model-exact) comparisons stay; the property-level claims are not made.
func unreachableOpening(p *tak.Position) bool {
	if p.MoveNumber() >= 2 {
		return false
	}
	n := 0
	for b := p.White | p.Black; b != 0; b &= b - 1 {
		n++
	}
	return n > p.MoveNumber()
}

func emitTak(c *Ctx, tps string) {
	out := c.Emit("sv.tak " + hexOf(tps))
	switch {
	case out == "err":
		c.Count("tak.err")
		return
	case out == "panic":
		c.Count("tak.PANIC")
		return
	}
	in := field(out, "intak")
	c.Count("tak.intak=" + in)
	if strings.HasPrefix(out, "new") {
		c.Count("tak.engine-new")
	} else {
		c.Count("tak.engine-reused")
	}
	if p, err := ptn.ParseTPS(tps); err == nil {
		if over, _ := p.GameOver(); over {
			c.Count("tak.on-finished-position")
		} else if immediateWin(p) {
			c.Count("tak.mover-could-win-itself")
		}
		if p.MoveNumber() < 2 {
			c.Count("tak.opening-ply")
		}
		if unreachableOpening(p) {
			c.Count("tak.unreachable-opening-no-claim")
			return
		}
	}
	c.Emit(fmt.Sprintf("sv.takspec %s %s %s", hexOf(tps), in, field(out, "move")))
}

// emitAnalyze sends one Analyze request and the follow-up claims for responses of sorting engines
func emitAnalyze(c *Ctx, bud *budget, tps string, depth int, precise bool) {
	out := c.Emit(fmt.Sprintf("sv.an %s %d %d", hexOf(tps), depth, b2i(precise)))
	pre := "an.d" + strconv.Itoa(depth) + map[bool]string{true: ".precise", false: ".default"}[precise]
	switch {
	case out == "err":
		c.Count("an.err")
		return
	case out == "panic":
		c.Count("an.PANIC")
		return
	}
	c.Count(pre)
	if strings.HasPrefix(out, "new") {
		c.Count("an.engine-new")
	} else {
		c.Count("an.engine-reused")
	}
	ss := serveOf(c.S)
	p, err := ptn.ParseTPS(tps)
	if err != nil || !ss.ok {
		return
	}
	if over, _ := p.GameOver(); over {
		c.Count("an.on-finished-position")
	}
	if ss.value > ai.WinThreshold || ss.value < -ai.WinThreshold {
		c.Count(pre + ".decisive")
	}
	if !strings.HasSuffix(out, "searched") {
		c.Count("an.exact-response")
		return
	}
	c.Count("an.searched")
	if !isLive(p) {
		c.Count("an.searched-not-live")
		return
	}
	if unreachableOpening(p) {
		c.Count("an.unreachable-opening-no-claim")
		return
	}
	c.Emit(fmt.Sprintf("sv.pvlegal %s %s", hexOf(tps), hexList(ss.pv)))
	// the deeper (margin) searches are only consulted for a decisive value of an engine with a past
	decisive := ss.value > ai.WinThreshold || ss.value < -ai.WinThreshold
	margin := 0
	if decisive && !(precise && ss.fresh) {
		margin = verdictMargin(p.Size())
	}
	cost := nmCost(p, depth+margin, serveCap+1)
	if cost > serveCap {
		c.Count("value.skipped-too-big")
		return
	}
	if !bud.tryTake(2 * cost) {
		c.Count("value.skipped-budget")
		return
	}
	exact := 0
	if precise && ss.fresh && !decisive {
		// the exhaustive negamax under the default evaluator costs ~4x a winner-only one in the model
		if ec := nmCost(p, depth, serveCap/2+1); ec <= serveCap/2 && bud.tryTake(6*ec) {
			exact = 1
			c.Count("value.exact-checked")
		}
	}
	pv0 := "-"
	if len(ss.pv) > 0 {
		pv0 = hexOf(ss.pv[0])
	}
	c.Emit(fmt.Sprintf("sv.value %s %d %d %d %d %d %d %s", hexOf(tps), depth, b2i(precise), b2i(ss.fresh), margin, exact, ss.value, pv0))
	c.Count("value.checked")
	c.Stats["value.model-positions"] += cost
}

func genC05serve(c *Ctx) {
	r := c.R
	bud := newBudget(c, 1200000, 40000000)
	n := c.Scale(120, 6000)
	for k := 0; k < n; k++ {
		c.Emit(fmt.Sprintf("case C05serve-%d-%d", c.Shard, k))
		size := 3 + r.Intn(3)
		line := serveLine(r, size)
		c.Count("size" + strconv.Itoa(size))
		depth := serveDepth(r, size)
		precise := r.Chance(1, 2)
		idx := r.Intn(len(line))
		steps := 10 + r.Intn(17)
		for j := 0; j < steps; j++ {
			// the key persists most of the time (reuse), and each component changes alone now and then (replacement)
			switch r.Intn(30) {
			case 0, 1:
				depth = serveDepth(r, size)
			case 2, 3:
				precise = !precise
			case 4:
				size = 3 + r.Intn(3)
				line = serveLine(r, size)
				idx = r.Intn(len(line))
				c.Count("session.size-change")
			}
			if !r.Chance(1, 3) {
				idx += r.Intn(3) - 1
			}
			if r.Chance(1, 8) {
				idx = len(line) - 1 - r.Intn(minInt(3, len(line))) // the end of the game: threats, finished positions
			}
			if idx < 0 {
				idx = 0
			}
			if idx >= len(line) {
				idx = len(line) - 1
			}
			p := line[idx]
			tps := ptn.FormatTPS(p)
			if r.Chance(1, 10) {
				tps = flipTurn(tps)
				c.Count("tps.turn-flipped")
			}
			if r.Chance(1, 9) {
				tps = mutate(r, tps, tpsAlphabet, tpsTokens)
				c.Count("tps.mutated")
			}
			switch x := r.Intn(10); {
			case x < 6:
				d := depth
				if q, err := ptn.ParseTPS(tps); err == nil {
					if over, _ := q.GameOver(); over && r.Chance(1, 4) {
						d = []int{0, -1, 7}[r.Intn(3)] // finished root: no iteration searches below it, any depth answers at once
					} else if r.Chance(1, 40) {
						d = -1 - r.Intn(3) // a negative depth: the deepening loop does not run
					}
				}
				emitAnalyze(c, bud, tps, d, precise)
			case x < 9:
				emitTak(c, tps)
			default:
				// a state-free request in between leaves both caches alone
				c.Emit("sv.canon " + strconv.Itoa(size) + " " + hexOf("a1") + " " + hexOf(string(rune('a'+size-1))+strconv.Itoa(size)))
			}
		}
	}
	// threat positions on purpose: the position before a winning move, with the turn handed to the other side
	m := c.Scale(110, 5000)
	tsize := 3
	for k := 0; k < m; k++ {
		if k%6 == 0 {
			// six games of one size share a server: the depth-1 engine of IsPositionInTak is reused across them
			c.Emit(fmt.Sprintf("case C05serve-t-%d-%d", c.Shard, k))
			tsize = 3 + r.Intn(3)
		}
		size := tsize
		line := serveLine(r, size)
		last := line[len(line)-1]
		over, w := last.GameOver()
		if !over || w == tak.NoColor || len(line) < 3 {
			c.Count("threat.no-decided-game")
			continue
		}
		pre := line[len(line)-2] // the winner to move, a winning move exists
		c.Count("threat.games")
		emitTak(c, flipTurn(ptn.FormatTPS(pre)))
		emitTak(c, ptn.FormatTPS(pre))
		emitTak(c, ptn.FormatTPS(line[len(line)-3]))
		emitTak(c, ptn.FormatTPS(last))
		emitAnalyze(c, bud, ptn.FormatTPS(pre), serveDepth(r, size), r.Chance(1, 2))
		emitAnalyze(c, bud, ptn.FormatTPS(last), serveDepth(r, size), r.Chance(1, 2))
	}
}

// ---- C15serve

func spellMoves(r *RNG, ms []tak.Move, plain bool) []string {
	sfx := annotSuffixes()
	out := make([]string, len(ms))
	for i, m := range ms {
		s := ptn.FormatMove(m)
		if !plain {
			if r.Chance(1, 4) {
				s = ptn.FormatMoveLong(m)
			}
			if r.Chance(1, 6) {
				s += sfx[r.Intn(len(sfx))]
			}
		}
		out[i] = s
	}
	return out
}

func emitServeCanon(c *Ctx, size int, words []string) string {
	hs := make([]string, len(words))
	for i, w := range words {
		hs[i] = hexOf(w)
	}
	line := "sv.canon " + strconv.Itoa(size)
	if len(hs) > 0 {
		line += " " + strings.Join(hs, " ")
	}
	out := c.Emit(line)
	c.Count("canon." + outClass(out))
	return out
}

func genC15serve(c *Ctx) {
	r := c.R
	n := c.Scale(900, 30000)
	c.Emit(fmt.Sprintf("case C15serve-%d", c.Shard))
	for it := 0; it < n; it++ {
		size := 3 + r.Intn(6)
		if r.Chance(1, 3) {
			size = 3 + r.Intn(3)
		}
		maxPlies := 2 + r.Intn(4*size)
		var ms []tak.Move
		if r.Chance(1, 8) {
			if tg := towerGame(r, []int{3, 3, 4, 5}[r.Intn(4)]); tg != nil {
				size, ms = tg.size, tg.ms
				if len(tg.marks) > 0 {
					ms = ms[:tg.marks[r.Intn(len(tg.marks))]]
				}
				c.Count("game.tower")
			}
		}
		if ms == nil {
			ms, _ = symGame(r, tak.Config{Size: size}, maxPlies)
		}
		c.Count("size" + strconv.Itoa(size))
		c.Count("len~" + strconv.Itoa(len(ms)/8*8))
		// the game as a client spells it (short and long forms, annotation marks), and its canonical form again
		out := emitServeCanon(c, size, spellMoves(r, ms, false))
		if strings.HasPrefix(out, "ok ") {
			var words []string
			for _, h := range strings.Fields(out)[1:] {
				words = append(words, unhex(h))
			}
			again := emitServeCanon(c, size, words)
			if again == out {
				c.Count("canon.idempotent-observed")
			}
			// the second opinion: the list-level specification of the canonical form, on the response's spelling
			var cm []tak.Move
			for _, w := range words {
				m, err := ptn.ParseMove(w)
				if err != nil {
					cm = nil
					break
				}
				cm = append(cm, m)
			}
			if cm != nil && len(cm) == len(ms) {
				c.Count("canon.response-reparsed")
			}
		}
		// the eight images (one random, or all)
		ks := []int{1 + r.Intn(7)}
		if r.Chance(1, 5) {
			ks = []int{1, 2, 3, 4, 5, 6, 7}
		}
		for _, k := range ks {
			o := emitServeCanon(c, size, spellMoves(r, gMoves(k, size, ms), true))
			if o == out {
				c.Count("canon.image-same-form")
			}
		}
		// illegal games and garbled spellings
		if r.Chance(1, 4) && len(ms) > 0 {
			words := spellMoves(r, ms, true)
			i := r.Intn(len(words))
			switch r.Intn(5) {
			case 0:
				words[i] = mutate(r, words[i], moveAlphabet, moveTokens)
				c.Count("bad.mutated-spelling")
			case 1:
				words[i] = words[r.Intn(len(words))] // a repeated move: usually occupied / not yours
				c.Count("bad.repeated-move")
			case 2:
				words = append(words, words[len(words)-1])
				c.Count("bad.last-move-twice")
			case 3:
				bs := namedBadSlides(r, size)
				words[i] = ptn.FormatMove(bs[r.Intn(len(bs))])
				c.Count("bad.slide")
			case 4:
				words[i] = ptn.FormatMove(rawMove(r, size))
				c.Count("bad.raw-move")
			}
			emitServeCanon(c, size, words)
		}
		if r.Chance(1, 50) {
			emitServeCanon(c, []int{0, 1, 2, 9, 10, -1, 127, -128}[r.Intn(8)], spellMoves(r, ms, true))
			emitServeCanon(c, size, nil)
			c.Count("bad.size")
		}
	}
}
