package main

// C04, Monte-Carlo rollout policies (ai/mcts/policy.go) and rollout (ai/mcts/mcts.go): findPlaceWins, placeWinMove,
// one Select step of each policy and whole rollouts with DICTATED math/rand results (so model and code must agree on
// the very position / value), plus steps and rollouts under the real seeded stream (membership in the model's set).

import (
	"strconv"
	"strings"

	"github.com/nelhage/taktician/ai/mcts"
	"github.com/nelhage/taktician/tak"
)

func pwParseDraws(s string) []int64 {
	if s == "-" || s == "" {
		return nil
	}
	parts := strings.Split(s, ",")
	out := make([]int64, len(parts))
	for i, x := range parts {
		out[i] = int64(atoi(x))
	}
	return out
}

func pwFmtDraws(d []int64) string {
	if len(d) == 0 {
		return "-"
	}
	parts := make([]string, len(d))
	for i, x := range d {
		parts[i] = strconv.FormatInt(x, 10)
	}
	return strings.Join(parts, ",")
}

func pwPolicyName(tok string) string {
	if tok == "p" {
		return "place_win"
	}
	return "uniform"
}

// placeWinClass: what the placement proposed by placeWinMove does: "none" (zero move), "win" (accepted as a flat or,
// failing that, as a capstone, and the game is then over by a road of the player who moved), "nowin" (accepted, no such
// road win), "refused" (neither form accepted).
func placeWinClass(p *tak.Position, m tak.Move) string {
	if m.Type == 0 {
		return "none"
	}
	q, err := p.Move(m)
	if err != nil {
		m.Type = tak.PlaceCapstone
		q, err = p.Move(m)
	}
	if err != nil {
		return "refused"
	}
	d := q.WinDetails()
	if d.Over && d.Reason == tak.RoadWin && d.Winner == p.ToMove() {
		return "win"
	}
	return "nowin"
}

func init() {
	// pw.find <size> <mask> <empty> <groups csv|->
	opTable["pw.find"] = func(s *Session, a []string) string {
		return strconv.FormatUint(mcts.VerifFindPlaceWins(atoi(a[0]), atou(a[1]), atou(a[2]), parseU64s(a[3])), 10)
	}
	// pw.move <pos>: the proposed move and what it does
	opTable["pw.move"] = func(s *Session, a []string) string {
		p := decPos(a[0])
		m := mcts.VerifPlaceWinMove(p)
		return encMove(m) + " " + placeWinClass(p, m)
	}
	// pw.sel <u|p> <draws> <pos>: one Select step with dictated Int31n results
	opTable["pw.sel"] = func(s *Session, a []string) string {
		p := decPos(a[2])
		before := dumpPos(p)
		out, used, more, aliased := mcts.VerifSelect(pwPolicyName(a[0]), p, pwParseDraws(a[1]))
		if more {
			return "more"
		}
		if aliased {
			return "result-aliases-argument"
		}
		if dumpPos(p) != before {
			return "input-position-modified"
		}
		if out == nil {
			return "nil"
		}
		return "ok " + strconv.Itoa(used) + " " + dumpPos(out)
	}
	// pw.selr <u|p> <seed> <pos> <q>: q was returned by a Select step under the real stream of <seed>; the Go side
	// re-runs the step (same seed: same answer), the model decides membership of q in the set the policy may return
	opTable["pw.selr"] = func(s *Session, a []string) string {
		p := decPos(a[2])
		out := mcts.VerifSelectSeed(pwPolicyName(a[0]), p, int64(atoi(a[1])))
		if out == nil || encPos(out) != a[3] {
			return "not-reproducible"
		}
		return "member"
	}
	// pw.roll <u|p> <maxRollout> <threshold> <draws> <pos>: one rollout with dictated Int31n results
	opTable["pw.roll"] = func(s *Session, a []string) string {
		p := decPos(a[4])
		before := dumpPos(p)
		val, used, more := mcts.VerifRollout(pwPolicyName(a[0]), p, atoi(a[1]), int64(atoi(a[2])), pwParseDraws(a[3]))
		if more {
			return "more"
		}
		if dumpPos(p) != before {
			return "node-position-modified"
		}
		return strconv.Itoa(val) + " " + strconv.Itoa(used)
	}
	// pw.rolls <u|p> <maxRollout> <seed> <n> <pos>: n rollouts on one player under the real stream; only totality, the
	// value range and the integrity of the node's position are observed
	opTable["pw.rolls"] = func(s *Session, a []string) string {
		p := decPos(a[4])
		before := dumpPos(p)
		vals := mcts.VerifRollouts(pwPolicyName(a[0]), p, atoi(a[1]), 2000, int64(atoi(a[2])), atoi(a[3]))
		if dumpPos(p) != before {
			return "node-position-modified"
		}
		for _, v := range vals {
			if v < -1 || v > 1 {
				return "value-out-of-range"
			}
		}
		return "ok"
	}
}

// moverReserves returns p with the reserve bytes (and optionally the configured counts) replaced.
func moverReserves(p *tak.Position, f func(raw *tak.VerifRaw, stones, caps, ostones, ocaps *byte)) *tak.Position {
	raw := p.VerifRaw()
	if p.ToMove() == tak.White {
		f(&raw, &raw.WS, &raw.WC, &raw.BS, &raw.BC)
	} else {
		f(&raw, &raw.BS, &raw.BC, &raw.WS, &raw.WC)
	}
	return tak.VerifFromRaw(raw)
}

// pwFillBoard: every square occupied except `holes` random ones; flats mostly, some walls/capstones/stacks.
func pwFillBoard(r *RNG, size, holes int, ply int) *tak.Position {
	board := emptyBoard(size)
	for y := 0; y < size; y++ {
		for x := 0; x < size; x++ {
			h := 1
			if r.Chance(1, 6) {
				h = 2 + r.Intn(4)
			}
			// a checkered bias keeps most of these boards free of roads
			col := bothColors[(x+y+r.Intn(4)/3)%2]
			board[y][x] = stackOf(r, tak.MakePiece(col, randKind(r, 3, 25)), h, 3)
		}
	}
	for i := 0; i < holes; i++ {
		board[r.Intn(size)][r.Intn(size)] = nil
	}
	res := func() int { return []int{0, 0, 1, 1, 2, 5}[r.Intn(6)] }
	return fromBoard(bigCfg(r, size), board, ply, res(), res(), res(), res())
}

// policyPosition draws a position for the policy ops and a tag for the distribution.
func policyPosition(c *Ctx) (*tak.Position, string) {
	r := c.R
	size := 3 + r.Intn(6)
	switch x := r.Intn(100); {
	case x < 40:
		// one placement from a road, reserves of the mover in every state
		p := gapBoard(r, size, c)
		tag := "gap"
		switch r.Intn(8) {
		case 0:
			p = moverReserves(p, func(raw *tak.VerifRaw, s, cp, os, oc *byte) { *s, *cp = 0, 1 })
			tag += ".caps-only"
		case 1:
			p = moverReserves(p, func(raw *tak.VerifRaw, s, cp, os, oc *byte) { *s, *cp = 1, 0 })
			tag += ".one-flat"
		case 2:
			p = moverReserves(p, func(raw *tak.VerifRaw, s, cp, os, oc *byte) {
				*s, *cp = 0, byte(1+r.Intn(2))
				raw.Pieces, raw.Capstones = size, 2
			})
			tag += ".caps-only-custom-config"
		case 3:
			p = moverReserves(p, func(raw *tak.VerifRaw, s, cp, os, oc *byte) { *s, *cp = byte(1+r.Intn(3)), byte(r.Intn(2)) })
			tag += ".few"
		case 4:
			p = moverReserves(p, func(raw *tak.VerifRaw, s, cp, os, oc *byte) { *s, *cp = 0, 0 })
			tag += ".mover-reserve-empty"
		case 5:
			p = moverReserves(p, func(raw *tak.VerifRaw, s, cp, os, oc *byte) { *os, *oc = 0, byte(r.Intn(2)) })
			tag += ".opponent-flats-gone"
		}
		if p.MoveNumber() < 2 {
			tag += ".opening-ply"
		}
		return p, tag
	case x < 60:
		return randomPosition(r), "random"
	case x < 68:
		// opening plies: reachable ones
		_, p := randomLine(r, size, r.Intn(3))
		return p, "opening.reachable"
	case x < 76:
		// ply < 2 with a populated board (the placed flat is the opponent's), incl. the opponent's flats exhausted
		p := gapBoard(r, size, c)
		raw := p.VerifRaw()
		raw.Move = r.Intn(2)
		tag := "opening.populated"
		switch r.Intn(4) {
		case 0:
			raw.WS, raw.BS = 0, 0
			tag += ".no-flats-at-all"
		case 1:
			if raw.Move%2 == 0 {
				raw.BS = 0
			} else {
				raw.WS = 0
			}
			tag += ".opponent-flats-gone"
		}
		return tak.VerifFromRaw(raw), tag
	case x < 86:
		return pwFillBoard(r, size, 1, 2+r.Intn(60)), "full-minus-one"
	case x < 92:
		return pwFillBoard(r, size, 0, 2+r.Intn(60)), "full"
	default:
		return pwFillBoard(r, size, 2+r.Intn(3), r.Intn(40)), "nearly-full"
	}
}

func pwRandDraws(r *RNG, n int) []int64 {
	out := make([]int64, n)
	for i := range out {
		switch r.Intn(8) {
		case 0:
			out[i] = 0
		case 1:
			out[i] = (1 << 30) - 1
		default:
			out[i] = int64(r.Intn(1 << 30))
		}
	}
	return out
}

func genC04policy(c *Ctx) {
	r := c.R
	// findPlaceWins on raw words: consistent inputs come through pw.move; here anything, incl. bits outside the board
	n := c.Scale(3000, 300000)
	for i := 0; i < n; i++ {
		size := 3 + r.Intn(6)
		full := uint64(1)<<uint(size*size) - 1
		if size == 8 {
			full = ^uint64(0)
		}
		word := func() uint64 {
			w := r.Next()
			switch r.Intn(4) {
			case 0:
				w &= r.Next()
			case 1:
				w &= r.Next() & r.Next()
			}
			if r.Chance(9, 10) {
				w &= full
			}
			return w
		}
		mask := word()
		empty := word()
		if r.Chance(3, 4) {
			empty &^= mask
		}
		var gs []uint64
		for k := r.Intn(5); k > 0; k-- {
			g := word()
			if r.Chance(1, 2) {
				g &= mask
			}
			gs = append(gs, g)
		}
		out := c.Emit("pw.find " + strconv.Itoa(size) + " " + strconv.FormatUint(mask, 10) + " " + strconv.FormatUint(empty, 10) + " " + u64s(gs))
		if out == "0" {
			c.Count("find.raw.none")
		} else {
			c.Count("find.raw.some")
		}
	}
	// placeWinMove and what the proposed placement does
	n = c.Scale(4000, 400000)
	for i := 0; i < n; i++ {
		p, tag := policyPosition(c)
		out := c.Emit("pw.move " + encPos(p))
		cls := out[strings.LastIndex(out, " ")+1:]
		over, _ := p.GameOver()
		c.Count("move." + cls)
		if cls == "nowin" || cls == "refused" {
			// findPlaceWins reported a square that does not complete a road of the mover / cannot be taken at all:
			// expected only before ply 2 (the flat is the opponent's) and on finished games (no reserves)
			switch {
			case p.MoveNumber() < 2:
				c.Count("move." + cls + ".opening-ply")
			case over:
				c.Count("move." + cls + ".game-already-over")
			default:
				c.Count("move.VIOLATES-placeWin_square_completes_road:" + cls)
			}
		}
		c.Count("move.pos=" + tag)
	}
	// one Select step, dictated random numbers: the very successor is compared
	n = c.Scale(5000, 500000)
	for i := 0; i < n; i++ {
		p, tag := policyPosition(c)
		pol := []string{"u", "p"}[r.Intn(2)]
		nm := len(p.AllMoves(nil))
		draws := pwRandDraws(r, nm+1)
		out := c.Emit("pw.sel " + pol + " " + pwFmtDraws(draws) + " " + encPos(p))
		cls := strings.SplitN(out, " ", 2)[0]
		over, _ := p.GameOver()
		c.Count("sel." + pol + "." + cls)
		if cls == "ok" {
			c.Count("sel.draws=" + strings.SplitN(out, " ", 3)[1])
		}
		if cls != "ok" {
			switch {
			case over:
				c.Count("sel." + cls + ".game-already-over")
			case p.MoveNumber() < 2:
				c.Count("sel." + cls + ".opening-ply-no-flat-for-the-opponent")
			default:
				c.Count("sel.VIOLATES-select_never_panics:" + cls)
			}
		}
		c.Count("sel.pos=" + tag)
	}
	// one Select step under the real math/rand stream: the answer must be one the model allows
	n = c.Scale(500, 150000)
	for i := 0; i < n; i++ {
		p, _ := policyPosition(c)
		pol := []string{"u", "p"}[r.Intn(2)]
		seed := 1 + r.Intn(1000000)
		var q *tak.Position
		func() {
			defer func() { recover() }()
			q = mcts.VerifSelectSeed(pwPolicyName(pol), p, int64(seed))
		}()
		if q == nil {
			c.Count("selr.skipped-panic") // the dictated-stream op covers panics
			continue
		}
		out := c.Emit("pw.selr " + pol + " " + strconv.Itoa(seed) + " " + encPos(p) + " " + encPos(q))
		c.Count("selr." + pol + "." + out)
	}
	// whole rollouts, dictated random numbers: value and number of draws compared
	n = c.Scale(1200, 120000)
	for i := 0; i < n; i++ {
		var p *tak.Position
		tag := ""
		if r.Chance(1, 2) {
			size := 3 + r.Intn(6)
			_, p = randomLine(r, size, r.Intn(6*size))
			tag = "line"
		} else {
			p, tag = policyPosition(c)
		}
		pol := []string{"u", "p"}[r.Intn(2)]
		maxr := []int{0, 1, 2, 3, 5, 10, 20, 50}[r.Intn(8)]
		thr := []int{1, 50, 500, 2000, 1 << 40}[r.Intn(5)]
		// enough draws for every retry of every step; if the real run still exhausts them the case is dropped
		var draws []int64
		var used int
		var more, crashed bool
		for k := 64; ; k *= 4 {
			draws = pwRandDraws(r, k)
			more, crashed = false, false
			func() {
				defer func() {
					if recover() != nil {
						crashed = true
					}
				}()
				_, used, more = mcts.VerifRollout(pwPolicyName(pol), p, maxr, int64(thr), draws)
			}()
			if !more || crashed {
				break
			}
			if k > 1<<14 {
				draws = nil
				break
			}
		}
		if draws == nil {
			c.Count("roll.skipped-too-many-draws")
			continue
		}
		if !crashed && used < len(draws) {
			draws = draws[:used+1] // one spare draw: the model must not ask for it either
		}
		out := c.Emit("pw.roll " + pol + " " + strconv.Itoa(maxr) + " " + strconv.Itoa(thr) + " " + pwFmtDraws(draws) + " " + encPos(p))
		f := strings.Fields(out)
		c.Count("roll." + pol + ".value=" + f[0])
		if len(f) > 1 {
			d := atoi(f[1])
			switch {
			case d == 0:
				c.Count("roll.draws=0")
			case d < 10:
				c.Count("roll.draws<10")
			default:
				c.Count("roll.draws>=10")
			}
			if d > maxr {
				c.Count("roll.had-a-refused-try")
			}
		}
		if over, _ := p.GameOver(); !over && (f[0] == "panic" || f[0] == "hang") {
			if p.MoveNumber() < 2 {
				c.Count("roll." + f[0] + ".opening-ply-no-flat-for-the-opponent")
			} else {
				c.Count("roll.VIOLATES-rollout_total:" + f[0])
			}
		}
		c.Count("roll.pos=" + tag)
	}
	// several rollouts on one player, real stream
	n = c.Scale(160, 16000)
	for i := 0; i < n; i++ {
		size := 3 + r.Intn(6)
		_, p := randomLine(r, size, 2+r.Intn(6*size))
		pol := []string{"u", "p"}[r.Intn(2)]
		out := c.Emit("pw.rolls " + pol + " " + strconv.Itoa(5+r.Intn(46)) + " " + strconv.Itoa(1+r.Intn(1000000)) + " " + strconv.Itoa(2+r.Intn(4)) + " " + encPos(p))
		c.Count("rolls." + out)
	}
}

func init() {
	genTable["C04policy"] = genC04policy
}
