package main

// C03x: structure-aware inputs for the move generator, and the `accepts` probe that
// pushes EVERY raw move shape (also ones AllMoves never lists) through Position.Move.

import (
	"sort"
	"strconv"
	"strings"

	"github.com/nelhage/taktician/tak"
)

// damagedWords are slide words outside the table: empty, zero nibbles (leading, interior),
// nibbles 9..15, drop sums above any carry limit, 8 drops, high garbage.
var damagedWords = []tak.Slides{
	0, 0x10, 0x100, 0x101, 0x1001, 0x110, 0x1010, 0x10000000, 0x20000001,
	0x9, 0xa, 0xf, 0x19, 0x91, 0xf1, 0x1f, 0xff, 0x18, 0x81, 0x45, 0x54, 0x333, 0x2222_2,
	0x11111111, 0x21111111, 0x11111112, 0x1111111, 0x80000000, 0xffffffff, 0xf0000000,
	0x00010001, 0x01000000, 0x12345678, 0x87654321,
}

var probeWords []tak.Slides

func allProbeWords() []tak.Slides {
	if probeWords != nil {
		return probeWords
	}
	seen := map[tak.Slides]bool{}
	var out []tak.Slides
	// every composition of 1..8, enumerated here (NOT read from the engine's table, which is under test)
	var rec func(left int, word tak.Slides, shift uint)
	rec = func(left int, word tak.Slides, shift uint) {
		for d := 1; d <= left; d++ {
			w := word | tak.Slides(d)<<shift
			if !seen[w] {
				seen[w] = true
				out = append(out, w)
			}
			rec(left-d, w, shift+4)
		}
	}
	rec(8, 0, 0)
	if len(out) != 255 {
		panic("probe words: expected 255 compositions")
	}
	for _, s := range damagedWords {
		if !seen[s] {
			seen[s] = true
			out = append(out, s)
		}
	}
	probeWords = out
	return out
}

func shortProbeWords() []tak.Slides {
	return []tak.Slides{0, 1, 2, 0x11, 0x21, 0x12, 0x111, 0x1111, 8, 0x11111111, 0x10, 0x101, 0x9, 0xf, 0x45, 0xffffffff}
}

// acceptsProbe tries every (x,y) in -1..size, every type code 0..9 except Pass, and every probe
// word through Position.Move. Each accepted move is mapped to the AllMoves entry it is Equal
// to; an accepted move with no such entry is reported as UNLISTED (a C03 violation in itself).
func acceptsProbe(p *tak.Position, full bool) string {
	all := p.AllMoves(nil)
	type key struct {
		x, y int8
		t    tak.MoveType
	}
	idx := map[key][]tak.Move{}
	for _, m := range all {
		k := key{m.X, m.Y, m.Type}
		idx[k] = append(idx[k], m)
	}
	words := allProbeWords()
	// reduced mode (quick tier): the slide word is varied exhaustively only for slide types from an on-board
	// square that carries a stack (either colour); elsewhere a fixed sample of table and damaged words is used
	short := shortProbeWords()
	n := p.Size()
	var buf *tak.Position
	seen := map[tak.Move]bool{}
	var acc []tak.Move
	var unlisted []string
	for x := -1; x <= n; x++ {
		for y := -1; y <= n; y++ {
			for t := 0; t <= 9; t++ {
				if tak.MoveType(t) == tak.Pass {
					continue
				}
				ws := words
				if !full && !(x >= 0 && x < n && y >= 0 && y < n && t >= int(tak.SlideLeft) && t <= int(tak.SlideDown) &&
					len(p.At(x, y)) > 0) {
					ws = short
				}
				for _, w := range ws {
					m := tak.Move{X: int8(x), Y: int8(y), Type: tak.MoveType(t), Slides: w}
					if buf == nil {
						buf = p.Clone()
					}
					next, err := p.MovePreallocated(m, buf)
					if err != nil {
						continue
					}
					buf = next
					var rep *tak.Move
					for i, g := range idx[key{m.X, m.Y, m.Type}] {
						if g.Equal(m) {
							rep = &idx[key{m.X, m.Y, m.Type}][i]
							break
						}
					}
					if rep == nil {
						if len(unlisted) < 8 {
							unlisted = append(unlisted, encMove(m))
						}
						continue
					}
					if !seen[*rep] {
						seen[*rep] = true
						acc = append(acc, *rep)
					}
				}
			}
		}
	}
	out := fmtMoves(acc)
	if len(unlisted) > 0 {
		sort.Strings(unlisted)
		out += " UNLISTED " + strings.Join(unlisted, " ")
	}
	return out
}

func init() {
	opTable["accepts"] = func(s *Session, a []string) string { return acceptsProbe(decPos(a[0]), true) }
	opTable["acceptsq"] = func(s *Session, a []string) string { return acceptsProbe(decPos(a[0]), false) }
	// duplicates / Equal pairs inside AllMoves, and entries off the board (start or Dest)
	opTable["gencheck"] = func(s *Session, a []string) string {
		p := decPos(a[0])
		ms := p.AllMoves(nil)
		dup, off := 0, 0
		n := int8(p.Size())
		for i, m := range ms {
			for j := i + 1; j < len(ms); j++ {
				if m.Equal(ms[j]) {
					dup++
				}
			}
			if m.Type < tak.PlaceFlat || m.Type > tak.SlideDown {
				off++
				continue
			}
			dx, dy := m.Dest()
			if m.X < 0 || m.X >= n || m.Y < 0 || m.Y >= n || dx < 0 || dx >= n || dy < 0 || dy >= n {
				off++
			}
		}
		return "n=" + strconv.Itoa(len(ms)) + " dup=" + strconv.Itoa(dup) + " off=" + strconv.Itoa(off)
	}
	genTable["C03x"] = genC03x
}

type sqClass struct {
	name string
	x, y int
}

func squareClasses(n int) []sqClass {
	out := []sqClass{
		{"corner", 0, 0}, {"corner", n - 1, 0}, {"corner", 0, n - 1}, {"corner", n - 1, n - 1},
		{"edge", 1, 0}, {"edge", 0, 1}, {"edge", n - 1, n - 2}, {"edge", n - 2, n - 1},
		{"interior", 1, 1},
	}
	if n >= 5 {
		out = append(out, sqClass{"interior", n / 2, n / 2}, sqClass{"interior", n - 2, 1})
	}
	return out
}

// stackBoard: a single stack of the given height, top piece (col, kind), buried flats alternating
// or random, optionally with obstacles (wall / capstone / flat) on the lines through the square.
func stackBoard(r *RNG, n, x, y, h int, col tak.Color, kind tak.Kind, obstacles bool) [][]tak.Square {
	board := make([][]tak.Square, n)
	for i := range board {
		board[i] = make([]tak.Square, n)
	}
	sq := make(tak.Square, h)
	sq[0] = tak.MakePiece(col, kind)
	for j := 1; j < h; j++ {
		c := tak.White
		if r.Chance(1, 2) {
			c = tak.Black
		}
		sq[j] = tak.MakePiece(c, tak.Flat)
	}
	board[y][x] = sq
	if obstacles {
		dirs := [][2]int{{1, 0}, {-1, 0}, {0, 1}, {0, -1}}
		for _, d := range dirs {
			if !r.Chance(2, 3) {
				continue
			}
			dist := 1 + r.Intn(3)
			ox, oy := x+d[0]*dist, y+d[1]*dist
			if ox < 0 || oy < 0 || ox >= n || oy >= n {
				continue
			}
			oc := tak.White
			if r.Chance(1, 2) {
				oc = tak.Black
			}
			ok := []tak.Kind{tak.Flat, tak.Standing, tak.Standing, tak.Capstone}[r.Intn(4)]
			oh := 1
			if r.Chance(1, 4) {
				oh = 2 + r.Intn(3)
			}
			o := make(tak.Square, oh)
			o[0] = tak.MakePiece(oc, ok)
			for j := 1; j < oh; j++ {
				o[j] = tak.MakePiece(tak.White, tak.Flat)
			}
			board[oy][ox] = o
		}
	}
	return board
}

// withReserves rebuilds the position with the four reserve bytes replaced.
func withReserves(p *tak.Position, ws, wc, bs, bc int) *tak.Position {
	r := p.VerifRaw()
	r.WS, r.WC, r.BS, r.BC = byte(ws), byte(wc), byte(bs), byte(bc)
	return tak.VerifFromRaw(r)
}

func emitC03(c *Ctx, p *tak.Position, probe bool) {
	tok := encPos(p)
	out := c.Emit("allmoves " + tok)
	if !probe {
		// (the accepts probe subsumes slegal: it pushes every listed move through Move as well)
		c.Emit("slegal " + tok)
	}
	if c.R.Chance(1, 6) {
		if ms := legalMoves(p); len(ms) > 0 {
			k := p.Size() + c.R.Intn(9-p.Size())
			c.Emit("allmovesbuf " + tok + " " + encMove(ms[c.R.Intn(len(ms))]) + " " + strconv.Itoa(k))
			c.Count("allmovesbuf.bigger-by~" + strconv.Itoa(k-p.Size()))
		}
	}
	g := c.Emit("gencheck " + tok)
	if !strings.HasSuffix(g, "dup=0 off=0") {
		c.Count("gencheck.BAD")
	}
	c.Count("nmoves>=" + bucket2(len(strings.Fields(out))))
	if probe {
		op := "acceptsq "
		if c.Thorough() || c.R.Chance(1, 16) {
			op = "accepts "
			c.Count("accepts.full")
		}
		a := c.Emit(op + tok)
		if strings.Contains(a, "UNLISTED") {
			c.Count("accepts.UNLISTED")
		}
		c.Count("accepts")
	}
}

func mix64(z uint64) uint64 {
	z = (z ^ (z >> 30)) * 0xbf58476d1ce4e5b9
	z = (z ^ (z >> 27)) * 0x94d049bb133111eb
	return z ^ (z >> 31)
}

// bucket2 names the power-of-two bucket of n (0, 1, 2-3, 4-7, ...).
func bucket2(n int) string {
	b := 0
	for 1<<uint(b) <= n {
		b++
	}
	if b == 0 {
		return "0"
	}
	return strconv.Itoa(1 << uint(b-1))
}

func genC03x(c *Ctx) {
	kinds := []tak.Kind{tak.Flat, tak.Standing, tak.Capstone}
	cols := []tak.Color{tak.White, tak.Black}
	// --- 1. single stacks: size x height 1..12 (+ a few beyond) x square x top kind x colour x side to move
	heights := []int{1, 2, 3, 4, 5, 6, 7, 8, 9, 10, 11, 12, 20, 64}
	k := uint64(0)
	// quick tier: one combination in `stride`, chosen by a hash of (index, seed), so successive seeds sweep the product
	stride := uint64(1)
	if !c.Thorough() {
		stride = 16
	}
	for n := 3; n <= 8; n++ {
		for _, h := range heights {
			for _, sc := range squareClasses(n) {
				for _, kd := range kinds {
					for _, col := range cols {
						for mover := 0; mover < 2; mover++ {
							for obst := 0; obst < 2; obst++ {
								k++
								hk := mix64(k*0x9E3779B97F4A7C15 + c.Seed)
								if int(hk%uint64(c.NShard)) != c.Shard {
									continue
								}
								if (hk/uint64(c.NShard))%stride != 0 {
									continue
								}
								board := stackBoard(c.R, n, sc.x, sc.y, h, col, kd, obst == 1)
								cfg := tak.Config{Size: n, Pieces: 120, Capstones: 3}
								p, err := tak.FromSquares(cfg, board, 10+mover)
								if err != nil {
									panic(err)
								}
								c.Count("stack.size" + strconv.Itoa(n))
								c.Count("stack." + sc.name)
								c.Count("stack.kind" + strconv.Itoa(int(kd)))
								switch {
								case h > 12:
									c.Count("stack.h>12")
								case h > n:
									c.Count("stack.h>carry")
								default:
									c.Count("stack.h<=carry")
								}
								own := (mover == 0) == (col == tak.White)
								if own {
									c.Count("stack.movers")
								} else {
									c.Count("stack.opponents")
								}
								emitC03(c, p, true)
							}
						}
					}
				}
			}
		}
	}
	// --- 2. empty reserves (flat and capstone separately) and opening plies, on random boards
	m := c.Scale(480, 24000)
	for j := 0; j < m; j++ {
		base := randomPosition(c.R)
		r := base.VerifRaw()
		ws, wc, bs, bc := int(r.WS), int(r.WC), int(r.BS), int(r.BC)
		switch c.R.Intn(6) {
		case 0:
			ws, bs = 0, 0
			wc, bc = 1+c.R.Intn(2), 1+c.R.Intn(2)
			c.Count("res.stones0")
		case 1:
			wc, bc = 0, 0
			if ws == 0 {
				ws = 3
			}
			if bs == 0 {
				bs = 3
			}
			c.Count("res.caps0")
		case 2:
			ws, wc = 0, 0
			c.Count("res.white0")
		case 3:
			bs, bc = 0, 0
			c.Count("res.black0")
		case 4:
			ws, wc, bs, bc = 255, 255, 255, 255
			c.Count("res.255")
		default:
			if c.R.Chance(1, 2) {
				wc, bc = 1, 1
			}
			c.Count("res.asis")
		}
		p := withReserves(base, ws, wc, bs, bc)
		if c.R.Chance(1, 3) {
			rr := p.VerifRaw()
			rr.Move = c.R.Intn(2)
			p = tak.VerifFromRaw(rr)
			c.Count("ply.opening-on-board")
		}
		classifyPos(c, p)
		emitC03(c, p, c.R.Chance(1, 2))
	}
	// --- 3. true opening plies: empty board and after the first placement, every size
	if c.Shard == 0 {
		for n := 3; n <= 8; n++ {
			p := tak.New(tak.Config{Size: n})
			emitC03(c, p, true)
			c.Count("ply.0")
			for _, mv := range []tak.Move{{X: 0, Y: 0, Type: tak.PlaceFlat}, {X: int8(n / 2), Y: int8(n - 1), Type: tak.PlaceFlat}} {
				q, err := p.Move(mv)
				if err != nil {
					panic(err)
				}
				emitC03(c, q, true)
				c.Count("ply.1")
				q2, err := q.Move(tak.Move{X: 1, Y: 1, Type: tak.PlaceFlat})
				if err == nil {
					emitC03(c, q2, true)
					c.Count("ply.2")
				}
			}
		}
	}
}
