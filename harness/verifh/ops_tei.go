package main

// C17 / C13(tei): the real tei.Engine.Run on in-memory streams, the budget rule.

import (
	"github.com/nelhage/taktician/bitboard"
	"time"
	"bytes"
	"context"
	"encoding/hex"
	"io"
	"log"
	"strconv"
	"strings"

	"github.com/nelhage/taktician/ai"
	"github.com/nelhage/taktician/ptn"
	"github.com/nelhage/taktician/tak"
	"github.com/nelhage/taktician/tei"
)

func init() {
	log.SetOutput(io.Discard)
}

// lineReader hands the engine one '\n'-terminated line per Read call, so that the moment of
// the k-th Read call is "after command k-1 has been processed"; snap is called at that moment.
type lineReader struct {
	chunks [][]byte // complete lines (with '\n'), then possibly an unterminated tail
	i      int
	off    int
	snap   func(k int)
}

func (r *lineReader) Read(p []byte) (int, error) {
	if r.off == 0 {
		r.snap(r.i)
	}
	if r.i >= len(r.chunks) {
		return 0, io.EOF
	}
	n := copy(p, r.chunks[r.i][r.off:])
	r.off += n
	if r.off >= len(r.chunks[r.i]) {
		r.i++
		r.off = 0
	}
	return n, nil
}

func splitStream(stream []byte) [][]byte {
	var chunks [][]byte
	for len(stream) > 0 {
		j := bytes.IndexByte(stream, '\n')
		if j < 0 {
			chunks = append(chunks, stream)
			break
		}
		chunks = append(chunks, stream[:j+1])
		stream = stream[j+1:]
	}
	return chunks
}

type teiRecord struct {
	out   []string
	mm    bool
	size  int
	pos   string
	ptr   *tak.Position
	infos []string
	dl    string // the duration handed to context.WithTimeout while this command ran ("-": none)
}

type teiRun struct {
	class   string
	records []teiRecord
}

func teiConfig(depth int) func(size int) ai.MinimaxConfig {
	return func(size int) ai.MinimaxConfig {
		return ai.MinimaxConfig{Size: size, Depth: depth, Seed: 1, TableMem: 1 << 16}
	}
}

// teiConfigSlow: the built-in evaluator behind a leaf hook that sleeps, so that an already expired deadline is noticed
// (the watcher goroutine runs) before the first ply has been searched
func teiConfigSlow(depth int) func(size int) ai.MinimaxConfig {
	return func(size int) ai.MinimaxConfig {
		ev := ai.MakeEvaluator(size, nil)
		return ai.MinimaxConfig{Size: size, Depth: depth, Seed: 1, TableMem: 1 << 16,
			Evaluate: func(c *bitboard.Constants, p *tak.Position) int64 {
				time.Sleep(400 * time.Microsecond)
				return ev(c, p)
			}}
	}
}

// runTEI feeds the stream to a fresh engine and records output, state and installed deadline after every line.
// detach: record the deadlines but do not let them act (deterministic output for tiny budgets).
func runTEI(depth int, stream []byte, detach bool) (res teiRun) {
	return runTEIMode(depth, stream, detach, false)
}

// expired: see tei.VerifDeadlines.Expired
func runTEIMode(depth int, stream []byte, detach, expired bool) (res teiRun) {
	dls := &tei.VerifDeadlines{Detach: detach, Expired: expired}
	seenDl := 0
	var out bytes.Buffer
	chunks := splitStream(stream)
	nlines := len(chunks)
	if nlines > 0 && !bytes.HasSuffix(chunks[nlines-1], []byte("\n")) {
		nlines-- // an unterminated tail is never a command
	}
	var e *tei.Engine
	taken := 0
	snapshot := func() {
		mm, pos, size := e.VerifState()
		rec := teiRecord{mm: mm, size: size, ptr: pos}
		txt := out.String()
		out.Reset()
		if txt != "" {
			rec.out = strings.Split(strings.TrimSuffix(txt, "\n"), "\n")
		}
		if pos == nil {
			rec.pos = "nil"
		} else {
			rec.pos = dumpPos(pos)
		}
		rec.dl = "-"
		if len(dls.Installed) > seenDl {
			rec.dl = strconv.FormatInt(dls.Installed[len(dls.Installed)-1], 10)
			if len(dls.Installed) > seenDl+1 {
				rec.dl += "!multiple"
			}
			seenDl = len(dls.Installed)
		}
		res.records = append(res.records, rec)
		taken++
	}
	rd := &lineReader{chunks: chunks}
	rd.snap = func(k int) {
		// k lines have been handed over; lines 0..k-1 are processed
		for taken < k && taken < nlines {
			snapshot()
		}
	}
	e = tei.NewEngine(rd, &out)
	e.ConfigFactory = teiConfig(depth)
	if expired {
		e.ConfigFactory = teiConfigSlow(depth)
	}
	func() {
		defer func() {
			if r := recover(); r != nil {
				res.class = "panic"
			}
		}()
		err := e.Run(tei.VerifRecording(context.Background(), dls))
		if err != nil {
			res.class = "err"
		} else {
			res.class = "ok"
		}
	}()
	// the line being processed when Run ended (error, quit, panic) has no later Read call
	if taken < rd.i && taken < nlines {
		snapshot()
	}
	return res
}

func canonInfo(line string) string {
	f := strings.Fields(line)
	if len(f) >= 5 && f[0] == "info" && f[3] == "time" {
		f = append(f[:3:3], f[5:]...)
	}
	return strings.Join(f, " ")
}

func (r teiRun) render(classOnly bool) string {
	if classOnly {
		// outcome class and the deadline installed by each command (both independent of the wall clock)
		var b strings.Builder
		b.WriteString(r.class)
		for _, rec := range r.records {
			b.WriteString(" ")
			b.WriteString(rec.dl)
		}
		return b.String()
	}
	var b strings.Builder
	b.WriteString(r.class)
	prev := ""
	for _, rec := range r.records {
		b.WriteString(" || ")
		for i, l := range rec.out {
			if i > 0 {
				b.WriteString("~")
			}
			b.WriteString(canonInfo(l))
		}
		b.WriteString(" # ")
		b.WriteString(strconv.Itoa(b2i(rec.mm)))
		b.WriteByte(' ')
		b.WriteString(strconv.Itoa(rec.size))
		b.WriteString(" dl=")
		b.WriteString(rec.dl)
		b.WriteByte(' ')
		if rec.pos == prev && rec.pos != "nil" {
			b.WriteString("=")
		} else {
			b.WriteString(rec.pos)
		}
		prev = rec.pos
	}
	return b.String()
}

func resMove(tok string) string {
	var out string
	func() {
		defer func() {
			if recover() != nil {
				out = "panic"
			}
		}()
		m, err := ptn.ParseMove(tok)
		if err != nil {
			out = "err"
			return
		}
		out = encMove(m)
	}()
	return out
}

func resTPS(s string) string {
	var out string
	func() {
		defer func() {
			if recover() != nil {
				out = "panic"
			}
		}()
		p, err := ptn.ParseTPS(s)
		if err != nil {
			out = "err"
			return
		}
		out = encPos(p)
	}()
	return out
}

// teiTable builds the side table the model needs: how the (separately modelled) PTN move and TPS
// parsers read the tokens of the stream, and what the searcher answered for each `go`.
func teiTable(depth int, stream []byte, withOracle bool) string {
	var ents []string
	seen := map[string]bool{}
	add := func(k, v string) {
		if !seen[k] {
			seen[k] = true
			ents = append(ents, k+"="+v)
		}
	}
	chunks := splitStream(stream)
	for _, ch := range chunks {
		if !bytes.HasSuffix(ch, []byte("\n")) {
			continue
		}
		w := strings.Fields(strings.TrimSpace(string(ch)))
		if len(w) == 0 || w[0] != "position" {
			continue
		}
		if len(w) >= 5 && w[1] == "tps" {
			s := strings.Join(w[2:5], " ")
			add("t:"+hex.EncodeToString([]byte(s)), resTPS(s))
		}
		for i, tok := range w {
			if i >= 2 {
				add("m:"+hex.EncodeToString([]byte(tok)), resMove(tok))
			}
		}
	}
	if withOracle {
		run := runTEI(depth, stream, true)
		for k, rec := range run.records {
			for _, l := range rec.out {
				f := strings.Fields(l)
				// info depth D time T nodes N score cp V pv ...
				if len(f) >= 11 && f[0] == "info" {
					var pv []string
					for _, t := range f[11:] {
						pv = append(pv, resMove(t))
					}
					add("g:"+strconv.Itoa(k), f[2]+","+f[6]+","+f[9]+","+strconv.Itoa(len(pv))+";"+strings.Join(pv, ";"))
				}
			}
		}
	}
	if len(ents) == 0 {
		return ""
	}
	return " " + strings.Join(ents, " ")
}

func teiLine(op string, depth int, stream []byte) string {
	return op + " " + strconv.Itoa(depth) + " " + hexOrDash(stream) + teiTable(depth, stream, op == "tei" || op == "teibulk")
}

// chunkReader hands the stream over in pieces that ignore line boundaries (everything at once when n is huge): a
// controller that pipelines its commands.  What the engine has written when Run returns is all a controller ever sees.
type chunkReader struct {
	b []byte
	n int
}

func (r *chunkReader) Read(p []byte) (int, error) {
	if len(r.b) == 0 {
		return 0, io.EOF
	}
	k := r.n
	if k > len(r.b) {
		k = len(r.b)
	}
	k = copy(p, r.b[:k])
	r.b = r.b[k:]
	return k, nil
}

// runTEIBulk: outcome class and everything written, in order (no per-command snapshots: commands arrive pipelined)
func runTEIBulk(depth int, stream []byte, chunk int) string {
	var out bytes.Buffer
	dls := &tei.VerifDeadlines{Detach: true}
	e := tei.NewEngine(&chunkReader{b: stream, n: chunk}, &out)
	e.ConfigFactory = teiConfig(depth)
	class := "ok"
	func() {
		defer func() {
			if r := recover(); r != nil {
				class = "panic"
			}
		}()
		if err := e.Run(tei.VerifRecording(context.Background(), dls)); err != nil {
			class = "err"
		}
	}()
	var ls []string
	if txt := out.String(); txt != "" {
		for _, l := range strings.Split(strings.TrimSuffix(txt, "\n"), "\n") {
			ls = append(ls, canonInfo(l))
		}
	}
	return class + " || " + strings.Join(ls, "~")
}

func hexOrDash(b []byte) string {
	if len(b) == 0 {
		return "-"
	}
	return hex.EncodeToString(b)
}

func unhexOrDash(s string) []byte {
	if s == "-" {
		return nil
	}
	b, err := hex.DecodeString(s)
	if err != nil {
		panic("bad hex")
	}
	return b
}

func init() {
	opTable["budget"] = func(s *Session, a []string) string {
		mt, _ := strconv.ParseInt(a[0], 10, 64)
		gt, _ := strconv.ParseInt(a[1], 10, 64)
		inc, _ := strconv.ParseInt(a[2], 10, 64)
		return strconv.FormatInt(tei.VerifCalcBudget(mt, gt, inc), 10)
	}
	opTable["tei"] = func(s *Session, a []string) string {
		return runTEI(atoi(a[0]), unhexOrDash(a[1]), true).render(false)
	}
	// teiexp: every `go` that installs a deadline finds it already passed: the search is cancelled inside its first ply, no
	// iteration completes, there is no move to report - and none may be invented
	opTable["teiexp"] = func(s *Session, a []string) string {
		return runTEIMode(atoi(a[0]), unhexOrDash(a[1]), false, true).render(false)
	}
	// teibulk <depth> <chunk> <hex> <answers...>: the same stream, handed over <chunk> bytes per Read
	opTable["teibulk"] = func(s *Session, a []string) string {
		return runTEIBulk(atoi(a[0]), unhexOrDash(a[2]), atoi(a[1]))
	}
	// teidef <hex>: an engine as NewEngine leaves it (NO ConfigFactory: the built-in configuration) on a stream of several
	// games, every `go` on a position with a win in one (the unbounded default search ends at depth 1): per `go`, was a
	// bestmove printed that wins at once?
	opTable["teidef"] = func(s *Session, a []string) string {
		var out bytes.Buffer
		e := tei.NewEngine(&chunkReader{b: unhexOrDash(a[0]), n: 1 << 20}, &out)
		class := "ok"
		func() {
			defer func() {
				if r := recover(); r != nil {
					class = "panic"
				}
			}()
			if err := e.Run(context.Background()); err != nil {
				class = "err"
			}
		}()
		n := 0
		for _, l := range strings.Split(out.String(), "\n") {
			if strings.HasPrefix(l, "bestmove ") {
				n++
			}
		}
		return class + " bestmoves=" + strconv.Itoa(n)
	}
	opTable["teiclass"] = func(s *Session, a []string) string {
		return runTEI(atoi(a[0]), unhexOrDash(a[1]), false).render(true)
	}
}
